(* L1d / Deep: the circuits of omega/logic/bitvector.py as EMITTERS of
   propositional formulas with memory buffers, exactly as the Python code
   builds its strings: every function takes the operands as lists of bit
   formulas and the address [start] of the next free memory cell, and returns
   the result bits (mostly registers "? i") together with the memory cells it
   appends.  [run] evaluates a buffer the way symbolic/bdd.py does
   (Nodes.Buffer.flatten: cells in order, a register reads an earlier cell).
   DeepProofs.v proves each emitter sound w.r.t. the shallow circuit of
   Circuits.v; the correspondence check compares the emitted formulas with
   the real strings token by token. *)
From Coq Require Import List Bool Arith.
From Omega Require Import L1Circuits.Circuits.
Import ListNotations.

Inductive bx :=
| XC (b : bool)                 (* "0" / "1" *)
| XV (v : nat)                  (* a bit variable *)
| XR (i : nat)                  (* "? i" *)
| XNot (a : bx)                 (* "! a" *)
| XAnd (a b : bx)               (* "& a b" *)
| XOr (a b : bx)                (* "| a b" *)
| XXor (a b : bx).              (* "^ a b" *)

Fixpoint evalx (vars : nat -> bool) (m : list bool) (e : bx) : bool :=
  match e with
  | XC b => b
  | XV v => vars v
  | XR i => nth i m false
  | XNot a => negb (evalx vars m a)
  | XAnd a b => evalx vars m a && evalx vars m b
  | XOr a b => evalx vars m a || evalx vars m b
  | XXor a b => xorb (evalx vars m a) (evalx vars m b)
  end.

(* symbolic/bdd.py Nodes.Buffer.flatten, continuing from memory m *)
Fixpoint run (vars : nat -> bool) (m : list bool) (cells : list bx) : list bool :=
  match cells with
  | [] => m
  | c :: r => run vars (m ++ [evalx vars m c]) r
  end.

Definition d_sign (x : list bx) : bx := last x (XC false).

Definition d_sign_extension (x : list bx) (n : nat) : list bx :=
  x ++ repeat (d_sign x) (n - length x).

Definition d_equalize_width (x y : list bx) (extend_by : nat) : list bx * list bx :=
  let n := Nat.max (length x) (length y) + extend_by in
  (d_sign_extension x n, d_sign_extension y n).

Definition d_pad (x : list bx) (n : nat) : list bx :=
  x ++ repeat (XC false) (n - length x).

Definition d_fixed_shift_left (x : list bx) (c : nat) : list bx :=
  repeat (XC false) c ++ firstn (length x - c) x.

(* the loop of adder_subtractor: cell k = result bit, cell k+1 = carry *)
Fixpoint d_ripple (p q : list bx) (carry : bx) (k : nat)
  : list bx * list bx * bx :=
  match p, q with
  | a :: p', b :: q' =>
      let cell_r := XXor (XXor a b) carry in
      let cell_c := XOr (XAnd a b) (XAnd (XXor a b) carry) in
      let '(res, mem, cf) := d_ripple p' q' (XR (k + 1)) (k + 2) in
      (XR k :: res, cell_r :: cell_c :: mem, cf)
  | _, _ => ([], [], carry)
  end.

(* adder_subtractor: (result, memory, carry) *)
Definition d_adder_subtractor (x y : list bx) (add : bool) (start extend_by : nat)
  : list bx * list bx * bx :=
  let '(p, q) := d_equalize_width x y extend_by in
  if add then d_ripple p q (XC false) start
  else d_ripple p (map XNot q) (XC true) start.

(* less_than(p, q, mem) with start = len(mem): (formula, appended memory) *)
Definition d_less_than (p q : list bx) (start : nat) : bx * list bx :=
  let '(_, mem, carry) := d_adder_subtractor p q false start 1 in
  (XXor (XNot (XXor (d_sign p) (d_sign q))) carry, mem).

Fixpoint d_inequality (p q : list bx) : bx :=
  match p, q with
  | a :: p', b :: q' => XOr (XXor a b) (d_inequality p' q')
  | _, _ => XC false
  end.

(* flatten_comparator on an empty mem: the cells of the buffer "$ n ..." *)
Definition d_flatten_comparator (o : cmp) (x y : list bx) (start : nat) : list bx :=
  let '(p, q) := d_equalize_width x y 0 in
  match o with
  | CEq => [XNot (d_inequality p q)]
  | CNe => [d_inequality p q]
  | CLt => let '(r, mem) := d_less_than p q start in mem ++ [r]
  | CLe => let '(r, mem) := d_less_than q p start in mem ++ [XNot r]
  | CGt => let '(r, mem) := d_less_than q p start in mem ++ [r]
  | CGe => let '(r, mem) := d_less_than p q start in mem ++ [XNot r]
  end.

Fixpoint d_ite_cells (b c : list bx) (start : nat) : list bx :=
  match b, c with
  | p :: b', q :: c' =>
      XOr (XAnd p (XR start)) (XAnd q (XNot (XR start))) :: d_ite_cells b' c' start
  | _, _ => []
  end.

(* ite_function: (result registers, memory = guard :: cells) *)
Definition d_ite_function (a : bx) (b c : list bx) (start : nat)
  : list bx * list bx :=
  (map (fun i => XR (i + start + 1)) (seq 0 (length b)),
   a :: d_ite_cells b c start).

Definition d_negate_if (guard : bx) (x : list bx) (start : nat)
  : list bx * list bx :=
  let n := length x in
  let zero := d_pad [XC false] n in
  let '(neg_x, mem, _) := d_adder_subtractor zero x false start 1 in
  let ext_x := d_sign_extension x (n + 1) in
  let j := start + length mem in
  let '(r, ite_mem) := d_ite_function guard neg_x ext_x j in
  (r, mem ++ ite_mem).

Definition d_abs (x : list bx) (start : nat) : list bx * list bx :=
  d_negate_if (d_sign x) x start.

Fixpoint d_mult_stages (x y : list bx) (k start : nat) : list bx * list bx :=
  match k with
  | O => (repeat (XC false) (length x), [])
  | S k' =>
      let '(mul_res, mem) := d_mult_stages x y k' start in
      let j := start + length mem in
      let shifted_x := d_fixed_shift_left x k' in
      let b := nth k' y (XC false) in
      let z := map (fun a => XAnd a b) shifted_x in
      let '(res, sum_mem, _) := d_adder_subtractor mul_res z true j 0 in
      (res, mem ++ sum_mem)
  end.

Definition d_multiplier (x y : list bx) (start : nat) : list bx * list bx :=
  let '(p, q) := d_equalize_width x y (Nat.min (length x) (length y)) in
  d_mult_stages p q (length q) start.

Fixpoint d_div_stages (x y : list bx) (n k start : nat)
  : list bx * list bx * list bx :=
  match k with
  | O => ([], d_pad x (2 * n), [])
  | S k' =>
      let '(quo, p, mem) := d_div_stages x y n k' start in
      let j := start + length mem in
      let shifted_p := d_fixed_shift_left p 1 in
      let '(r, sum_mem, _) := d_adder_subtractor shifted_p y false j 0 in
      let j2 := j + length sum_mem in
      let q := XNot (d_sign r) in
      let '(rem, ite_mem) := d_ite_function q r shifted_p j2 in
      (q :: quo, rem, mem ++ sum_mem ++ ite_mem)
  end.

Definition d_restoring_divider_pos (x y : list bx) (start : nat)
  : list bx * list bx * list bx :=
  let n := length x in
  let y2 := d_fixed_shift_left (d_pad y (2 * n)) n in
  let '(quo, rem, mem) := d_div_stages x y2 n n start in
  (quo, skipn n rem, mem).

(* restoring_divider with the repair F1: (quotient, remainder, memory) *)
Definition d_restoring_divider (x y : list bx) (start : nat)
  : list bx * list bx * list bx :=
  let '(a, a_mem) := d_abs x start in
  let j := start + length a_mem in
  let '(b, b_mem) := d_abs y j in
  let j := j + length b_mem in
  let '(a, b) := d_equalize_width a b 0 in
  let '(quo, rem, div_mem) := d_restoring_divider_pos a b j in
  let j := j + length div_mem in
  let x_sign := d_sign x in
  let y_sign := d_sign y in
  let '(quo, neg_mem) := d_negate_if (XXor x_sign y_sign) quo j in
  let j := j + length neg_mem in
  let '(rem, neg_mem2) := d_negate_if x_sign rem j in
  (quo, rem, a_mem ++ b_mem ++ div_mem ++ neg_mem ++ neg_mem2).

(* ------------------------------------------------ comparison with strings *)
Fixpoint bx_eqb (a b : bx) : bool :=
  match a, b with
  | XC x, XC y => Bool.eqb x y
  | XV x, XV y => Nat.eqb x y
  | XR x, XR y => Nat.eqb x y
  | XNot x, XNot y => bx_eqb x y
  | XAnd x1 x2, XAnd y1 y2 | XOr x1 x2, XOr y1 y2 | XXor x1 x2, XXor y1 y2 =>
      bx_eqb x1 y1 && bx_eqb x2 y2
  | _, _ => false
  end.

Fixpoint bxs_eqb (a b : list bx) : bool :=
  match a, b with
  | [], [] => true
  | x :: a', y :: b' => bx_eqb x y && bxs_eqb a' b'
  | _, _ => false
  end.
