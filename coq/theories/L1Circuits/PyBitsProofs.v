(* L1p / PyBitsProofs: the Python list operations of PyBits.v in terms of the
   list functions that the circuit models of Deep.v use. *)
From Coq Require Import ZArith List Bool Lia.
From Omega Require Import L1Circuits.Circuits L1Circuits.Deep L1Circuits.PyBits.
Import ListNotations.
Open Scope Z_scope.

Lemma py_len_nonneg : forall A (l : list A), 0 <= py_len l.
Proof. intros. unfold py_len. lia. Qed.

Lemma py_len_app : forall A (a b : list A), py_len (a ++ b) = py_len a + py_len b.
Proof. intros. unfold py_len. rewrite app_length. lia. Qed.

Lemma py_len_to_nat : forall A (l : list A), Z.to_nat (py_len l) = length l.
Proof. intros. unfold py_len. lia. Qed.

Lemma py_repeat_single : forall A n (a : A), py_repeat n [a] = repeat a (Z.to_nat n).
Proof.
  intros. unfold py_repeat. induction (Z.to_nat n) as [|k IH]; cbn; [reflexivity|].
  now rewrite IH.
Qed.

Lemma nth_error_last : forall A (l : list A) d v,
  nth_error l (length l - 1) = Some v -> l <> [] -> v = last l d.
Proof.
  induction l as [|a l IH]; intros d v H N; [congruence|].
  destruct l as [|b l].
  - cbn in H. now injection H as <-.
  - cbn [length] in H. replace (S (S (length l)) - 1)%nat with (S (length (b :: l) - 1)) in H
      by (cbn [length]; lia).
    cbn [nth_error] in H. change (last (a :: b :: l) d) with (last (b :: l) d).
    apply IH; [exact H|discriminate].
Qed.

(* x[-1] *)
Lemma py_index_last : forall A (x : list A) d v,
  py_index x (-1) = Some v -> v = last x d /\ (1 <= length x)%nat.
Proof.
  intros A x d v H. unfold py_index, py_len in H. cbn [Z.ltb Z.compare] in H.
  destruct (-1 + Z.of_nat (length x) <? 0) eqn:E; [discriminate|].
  apply Z.ltb_ge in E.
  replace (Z.to_nat (-1 + Z.of_nat (length x))) with (length x - 1)%nat in H by lia.
  split; [|lia]. apply nth_error_last; [exact H|]. intros ->. cbn in E. lia.
Qed.

Lemma py_index_last_some : forall A (x : list A) d, (1 <= length x)%nat ->
  py_index x (-1) = Some (last x d).
Proof.
  intros A x d L. destruct (py_index x (-1)) eqn:E.
  - f_equal. now apply py_index_last.
  - exfalso. unfold py_index, py_len in E. cbn [Z.ltb Z.compare] in E.
    destruct (-1 + Z.of_nat (length x) <? 0) eqn:E2; [apply Z.ltb_lt in E2; lia|].
    apply nth_error_None in E. lia.
Qed.

(* y[i] for i >= 0 *)
Lemma py_index_nth : forall A (l : list A) i d v, 0 <= i ->
  py_index l i = Some v -> v = nth (Z.to_nat i) l d /\ (Z.to_nat i < length l)%nat.
Proof.
  intros A l i d v Hi H. unfold py_index in H.
  destruct (i <? 0) eqn:E; [apply Z.ltb_lt in E; lia|]. rewrite E in H.
  split; [symmetry; now apply nth_error_nth|].
  apply nth_error_Some. congruence.
Qed.

Lemma py_index_nth_some : forall A (l : list A) i d, 0 <= i -> (Z.to_nat i < length l)%nat ->
  py_index l i = Some (nth (Z.to_nat i) l d).
Proof.
  intros A l i d Hi L. unfold py_index.
  destruct (i <? 0) eqn:E; [apply Z.ltb_lt in E; lia|]. rewrite E.
  now apply nth_error_nth'.
Qed.

Lemma py_clamp_nonneg : forall A (l : list A) n, 0 <= n ->
  py_clamp l n = Nat.min (Z.to_nat n) (length l).
Proof.
  intros. unfold py_clamp, py_len. destruct (n <? 0) eqn:E; [apply Z.ltb_lt in E; lia|]. lia.
Qed.

(* x[:n] and x[n:] for n >= 0 *)
Lemma py_slice_to_firstn : forall A (l : list A) n, 0 <= n ->
  py_slice_to l n = firstn (Z.to_nat n) l.
Proof.
  intros. unfold py_slice_to. rewrite py_clamp_nonneg by assumption.
  destruct (Nat.le_ge_cases (Z.to_nat n) (length l)).
  - now rewrite Nat.min_l.
  - rewrite Nat.min_r by assumption. now rewrite !firstn_all2 by lia.
Qed.

Lemma py_slice_from_skipn : forall A (l : list A) n, 0 <= n ->
  py_slice_from l n = skipn (Z.to_nat n) l.
Proof.
  intros. unfold py_slice_from. rewrite py_clamp_nonneg by assumption.
  destruct (Nat.le_ge_cases (Z.to_nat n) (length l)).
  - now rewrite Nat.min_l.
  - rewrite Nat.min_r by assumption. now rewrite !skipn_all2 by lia.
Qed.

Lemma py_enum_from_length : forall A (l : list A) i, length (py_enum_from i l) = length l.
Proof. induction l; intros; cbn; auto. Qed.

(* a comprehension whose element expression may raise *)
Lemma py_mapM_map : forall A B (f : A -> option B) (g : A -> B) l r,
  (forall x y, In x l -> f x = Some y -> y = g x) ->
  py_mapM f l = Some r -> r = map g l.
Proof.
  induction l as [|a l IH]; intros r Hf H; cbn in H.
  - now injection H as <-.
  - destruct (f a) eqn:E; [|discriminate]. destruct (py_mapM f l) eqn:E2; [|discriminate].
    injection H as <-. cbn. f_equal.
    + apply Hf; [now left|exact E].
    + apply IH; [|reflexivity]. intros x y Hx. apply Hf. now right.
Qed.

Lemma py_mapM_some : forall A B (f : A -> option B) (g : A -> B) l,
  (forall x, In x l -> f x = Some (g x)) -> py_mapM f l = Some (map g l).
Proof.
  induction l as [|a l IH]; intros Hf; cbn; [reflexivity|].
  rewrite Hf by now left. rewrite IH; [reflexivity|]. intros x Hx. apply Hf. now right.
Qed.

Lemma py_reg_some : forall k v, py_reg k = Some v -> v = XR (Z.to_nat k) /\ 0 <= k.
Proof.
  intros k v H. unfold py_reg in H. destruct (k <? 0) eqn:E; [discriminate|].
  apply Z.ltb_ge in E. injection H as <-. auto.
Qed.

Lemma py_reg_nonneg : forall k, 0 <= k -> py_reg k = Some (XR (Z.to_nat k)).
Proof. intros k H. unfold py_reg. destruct (k <? 0) eqn:E; [apply Z.ltb_lt in E; lia|reflexivity]. Qed.

Lemma bx_eqb_refl : forall a, bx_eqb a a = true.
Proof.
  induction a; cbn; try rewrite IHa1, IHa2; auto using Nat.eqb_refl.
  destruct b; reflexivity.
Qed.

Lemma bxs_eqb_refl : forall l, bxs_eqb l l = true.
Proof. induction l; cbn; [reflexivity|]. now rewrite bx_eqb_refl. Qed.

Lemma in_enum_from : forall A (l : list A) i0 i x, In (i, x) (py_enum_from i0 l) ->
  i0 <= i < i0 + py_len l.
Proof.
  induction l as [|a l IH]; intros i0 i x H; cbn in H; [tauto|].
  unfold py_len in *. cbn [length]. destruct H as [H|H].
  - injection H as <- <-. lia.
  - apply IH in H. lia.
Qed.

Lemma map_enum_from : forall A B (g : Z -> B) (l : list A) i0,
  map (fun p : Z * A => g (fst p)) (py_enum_from i0 l)
  = map (fun k => g (i0 + Z.of_nat k)) (seq 0 (length l)).
Proof.
  induction l as [|a l IH]; intros i0; cbn; [reflexivity|].
  f_equal; [f_equal; lia|]. rewrite IH, <- seq_shift, map_map.
  apply map_ext. intros k. f_equal. lia.
Qed.
