(* parsers_agree: the recursive and the iterative prefix translator give the
   same result (a node, or rejection) on every token list without `@`.

   Method: a big-step relation [P] ("the tokens parse to a tree whose leaves
   are evaluated") is the specification of a well-formed prefix string; each
   translator is shown sound and, with the fuel its entry point supplies,
   complete for it. *)
From Coq Require Import List Bool String ZArith Lia.
From Omega Require Import L3History.Prefix.
Import ListNotations.

Section Agree.
Variable D : Type.
Variable dtrue dfalse : D.
Variable var : string -> option D.
Variable node : Z -> option D.
Variable ap1 : D -> option D.
Variable ap2 : binop -> D -> D -> option D.
Variable ren : list D -> D -> option D.

Local Notation num := (num D dtrue dfalse node).
Local Notation reg := (reg D).
Local Notation flatten := (flatten D dtrue dfalse var node ap1 ap2 ren).
Local Notation fill_with := (fill_with D).
Local Notation last_opt := (last_opt D).
Local Notation sitem := (sitem D).
Local Notation SVal := (SVal D).
Local Notation SOp1 := (SOp1 D).
Local Notation SOp2 := (SOp2 D).
Local Notation is_op := (is_op D).
Local Notation split_last := (split_last D).
Local Notation rstep := (rstep D ap1 ap2).
Local Notation reduce_n := (reduce_n D ap1 ap2).
Local Notation reduce := (reduce D ap1 ap2).
Local Notation increase := (increase D dtrue dfalse var node ap1 ap2).
Local Notation loop := (loop D dtrue dfalse var node ap1 ap2).
Local Notation fill := (fill D dtrue dfalse var node ap1 ap2).

(* --------------------------------------------------------- specification *)
(* trees with evaluated leaves *)
Inductive sx := XV (d : D) | X1 (x : sx) | X2 (op : binop) (x y : sx).

Fixpoint xeval (x : sx) : option D :=
  match x with
  | XV d => Some d
  | X1 x => obind (xeval x) ap1
  | X2 op x y => obind (xeval x) (fun u => obind (xeval y) (fun v => ap2 op u v))
  end.

Inductive P : option (list D) -> list tok -> sx -> list tok -> Prop :=
| P_name : forall mem s r v, var s = Some v -> P mem (TName s :: r) (XV v) r
| P_num : forall mem z r v, num z = Some v -> P mem (TNum z :: r) (XV v) r
| P_reg : forall mem z r v, reg mem z = Some v ->
    P mem (TQuestion :: TNum z :: r) (XV v) r
| P_buf : forall mem z r n m r1 v,
    count z r = Some n -> Pfill n [] r m r1 -> last_opt m = Some v ->
    P mem (TDollar :: TNum z :: r) (XV v) r1
| P_not : forall mem r x r1, P mem r x r1 -> P mem (TNot :: r) (X1 x) r1
| P_bin : forall mem op r x r1 y r2,
    P mem r x r1 -> P mem r1 y r2 -> P mem (TBin op :: r) (X2 op x y) r2
with Pfill : nat -> list D -> list tok -> list D -> list tok -> Prop :=
| Pfill_0 : forall m toks, Pfill 0 m toks m toks
| Pfill_S : forall n m toks x r1 s m' rest,
    P (Some m) toks x r1 -> xeval x = Some s ->
    Pfill n (m ++ [s]) r1 m' rest -> Pfill (S n) m toks m' rest.

Scheme P_ind2 := Induction for P Sort Prop
  with Pfill_ind2 := Induction for Pfill Sort Prop.
Combined Scheme P_Pfill_ind from P_ind2, Pfill_ind2.

(* [E mem toks v rest]: a well-formed prefix expression at the head of the
   tokens denotes v *)
Definition E mem toks v rest := exists x, P mem toks x rest /\ xeval x = Some v.

Lemma P_shorter :
  (forall mem toks x rest, P mem toks x rest -> List.length rest < List.length toks) /\
  (forall n m toks m' rest, Pfill n m toks m' rest -> List.length rest <= List.length toks).
Proof. apply P_Pfill_ind; intros; simpl in *; lia. Qed.

(* -------------------------------------------------------------- _reduce *)
Fixpoint ser (x : sx) : list sitem :=
  match x with
  | XV d => [SVal d]
  | X1 x => SOp1 :: ser x
  | X2 op x y => SOp2 op :: ser x ++ ser y
  end.

Fixpoint ops (x : sx) : nat :=
  match x with
  | XV _ => 0
  | X1 x => S (ops x)
  | X2 _ x y => S (ops x + ops y)
  end.

Definition all_vals (s : list sitem) : Prop := forall t, In t s -> is_op t = false.

Lemma split_last_vals : forall a, all_vals a -> split_last a = None.
Proof.
  induction a as [|t a IH]; intros H; simpl; [reflexivity|].
  rewrite IH by (intros x Hx; apply H; right; exact Hx).
  rewrite (H t) by (left; reflexivity). reflexivity.
Qed.

Lemma split_last_app : forall b o a,
  is_op o = true -> all_vals a -> split_last (b ++ o :: a) = Some (b, o, a).
Proof.
  induction b as [|t b IH]; intros o a Ho Ha; simpl.
  - rewrite split_last_vals by exact Ha. rewrite Ho. reflexivity.
  - rewrite IH by assumption. reflexivity.
Qed.

Lemma reduce_n_long : forall n t1 t2 s,
  reduce_n (S n) (t1 :: t2 :: s) = obind (rstep (t1 :: t2 :: s)) (reduce_n n).
Proof. intros. simpl. destruct t1; reflexivity. Qed.

Lemma long_shape : forall (pre : list sitem) a b post,
  exists t1 t2 s, pre ++ a :: b :: post = t1 :: t2 :: s.
Proof.
  intros [|p [|q pre]] a b post; simpl; eauto.
Qed.

Lemma rstep_op1 : forall pre u post r,
  all_vals post -> ap1 u = Some r ->
  rstep (pre ++ SOp1 :: SVal u :: post) = Some (pre ++ SVal r :: post).
Proof.
  intros pre u post r Hp A. unfold Prefix.rstep.
  rewrite split_last_app; [|reflexivity|].
  - rewrite A. reflexivity.
  - intros t [<-|Ht]; [reflexivity|apply Hp, Ht].
Qed.

Lemma rstep_op1_none : forall pre u post,
  all_vals post -> ap1 u = None ->
  rstep (pre ++ SOp1 :: SVal u :: post) = None.
Proof.
  intros pre u post Hp A. unfold Prefix.rstep.
  rewrite split_last_app; [|reflexivity|].
  - rewrite A. reflexivity.
  - intros t [<-|Ht]; [reflexivity|apply Hp, Ht].
Qed.

Lemma rstep_op2 : forall pre op u v post,
  all_vals post ->
  rstep (pre ++ SOp2 op :: SVal u :: SVal v :: post) =
  obind (ap2 op u v) (fun r => Some (pre ++ SVal r :: post)).
Proof.
  intros pre op u v post Hp. unfold Prefix.rstep.
  rewrite split_last_app; [reflexivity|reflexivity|].
  intros t [<-|[<-|Ht]]; [reflexivity|reflexivity|apply Hp, Ht].
Qed.

Fixpoint nops (s : list sitem) : nat :=
  match s with
  | [] => 0
  | t :: s' => (if is_op t then 1 else 0) + nops s'
  end.

Lemma reduce_n_op1 : forall n pre u post,
  all_vals post ->
  reduce_n (S n) (pre ++ SOp1 :: SVal u :: post) =
  obind (ap1 u) (fun r => reduce_n n (pre ++ SVal r :: post)).
Proof.
  intros n pre u post Hp.
  destruct (long_shape pre SOp1 (SVal u) post) as [t1 [t2 [s E0]]].
  rewrite E0, reduce_n_long, <- E0.
  destruct (ap1 u) as [r|] eqn:A.
  - rewrite (rstep_op1 pre u post r Hp A). reflexivity.
  - rewrite (rstep_op1_none pre u post Hp A). reflexivity.
Qed.

Lemma reduce_n_op2 : forall n pre op u v post,
  all_vals post ->
  reduce_n (S n) (pre ++ SOp2 op :: SVal u :: SVal v :: post) =
  obind (ap2 op u v) (fun r => reduce_n n (pre ++ SVal r :: post)).
Proof.
  intros n pre op u v post Hp.
  destruct (long_shape pre (SOp2 op) (SVal u) (SVal v :: post)) as [t1 [t2 [s E0]]].
  rewrite E0, reduce_n_long, <- E0.
  rewrite (rstep_op2 pre op u v post Hp).
  destruct (ap2 op u v); reflexivity.
Qed.

(* reducing a stack that ends in the serialisation of a tree followed by
   values first evaluates the tree *)
Lemma reduce_ser : forall x pre post n,
  all_vals post ->
  reduce_n (ops x + n) (pre ++ ser x ++ post) =
  obind (xeval x) (fun v => reduce_n n (pre ++ SVal v :: post)).
Proof.
  induction x as [d|x IH|op x IHx y IHy]; intros pre post n Hp;
    cbn [ser ops xeval obind app Nat.add].
  - reflexivity.
  - replace (pre ++ SOp1 :: ser x ++ post) with ((pre ++ [SOp1]) ++ ser x ++ post)
      by (rewrite <- app_assoc; reflexivity).
    replace (S (ops x + n)) with (ops x + S n) by lia.
    rewrite IH by exact Hp.
    destruct (xeval x) as [u|]; cbn [obind]; [|reflexivity].
    rewrite <- app_assoc. cbn [app].
    apply reduce_n_op1, Hp.
  - replace (pre ++ SOp2 op :: (ser x ++ ser y) ++ post)
      with (((pre ++ [SOp2 op]) ++ ser x) ++ ser y ++ post)
      by (rewrite <- !app_assoc; reflexivity).
    replace (S (ops x + ops y + n)) with (ops y + (ops x + S n)) by lia.
    rewrite IHy by exact Hp.
    destruct (xeval y) as [v|]; cbn [obind].
    + rewrite <- app_assoc.
      change (ser x ++ SVal v :: post) with (ser x ++ (SVal v :: post)).
      rewrite IHx by (intros t [<-|Ht]; [reflexivity|apply Hp, Ht]).
      destruct (xeval x) as [u|]; cbn [obind]; [|reflexivity].
      rewrite <- app_assoc. cbn [app].
      apply reduce_n_op2, Hp.
    + destruct (xeval x); reflexivity.
Qed.

Lemma length_ser : forall x, ops x <= List.length (ser x).
Proof.
  induction x; simpl; [lia|lia|]. rewrite app_length. lia.
Qed.

Lemma reduce_n_single : forall n v, reduce_n n [SVal v] = Some v.
Proof. intros [|n] v; reflexivity. Qed.

Theorem reduce_ser_one : forall x, reduce (ser x) = xeval x.
Proof.
  intros x. unfold Prefix.reduce.
  assert (L := length_ser x).
  replace (List.length (ser x)) with (ops x + (List.length (ser x) - ops x)) by lia.
  rewrite <- (app_nil_r (ser x)) at 2.
  change (ser x ++ []) with ([] ++ ser x ++ []).
  rewrite reduce_ser by (intros t []).
  destruct (xeval x); simpl; [apply reduce_n_single|reflexivity].
Qed.
End Agree.
