(* C16 — parsing follows the documented precedence; print then re-parse is
   the identity; alternative spellings; GR(1) splitting.
   Statements only; proofs in theories/L6Syntax/*Proofs.v.
   C16_Tables.* is generated on every run from /repo/omega/logic/lexyacc.py
   (precedence tuple, token rules in PLY order, reserved words,
   productions), /repo/omega/logic/bitvector.py (opmap) and /repo/doc/doc.md
   (precedence list, BNF tokens).  C16_Inst.PT is the operator table
   `mk_ptable code_prec productions`. *)
From Coq Require Import List String Ascii NArith Bool.
Import ListNotations.
From Omega Require Import L6Syntax.Tokens L6Syntax.Lexer L6Syntax.Parser
  L6Syntax.Flatten L6Syntax.Gr1Split L6Syntax.Frontend L6Syntax.TableChecks
  L6Syntax.PrecSpec L6Syntax.Gr1Spec L6Syntax.LexSpec L6Syntax.RoundtripSpec
  L6Syntax.AgreeSpec
  L6Syntax.TableChecksProofs L6Syntax.ParserProofs L6Syntax.Gr1SplitProofs
  L6Syntax.LexerProofs L6Syntax.RoundtripProofs L6Syntax.AgreeProofs
  L6Syntax.SpellProofs
  L6Syntax.PrecFullSpec L6Syntax.PrecFullProofs L6Syntax.PrecConverse
  L6Syntax.PrecFullInj.
From OmegaGen Require Import C16_Tables C16_Inst.
Local Open Scope string_scope.

Local Notation dtt := (doc_tok_type lex_rules lex_reserved lex_values lex_ignore).
Local Notation centry :=
  (code_entry lex_rules lex_reserved lex_values lex_ignore code_prec).

(* all tokens the documentation mentions: BNF and precedence list *)
Definition doc_tokens : list string :=
  (doc_bnf_tokens ++ map snd (flat_levels doc_prec 1))%list.

(* ------------------------------------------------------------------ *)
(* Tie G: the documentation's tables against the code's tables.  Finite
   statements over the generated tables (hence _bounded), by vm_compute. *)

(* prec_table_matches_doc: every token of the documentation's BNF and
   precedence list is delivered by the lexer as an operator or keyword
   (F8: `R` was not); every two tokens of the documented precedence list
   have a precedence in the parser's tuple and compare there as documented;
   the documented associativity is the tuple's. *)
Theorem C16_prec_table_matches_doc_bounded :
  (forall d, In d doc_tokens -> exists ty, dtt d = Some ty) /\
  (forall i a1 d1 j a2 d2,
     In (i, a1, d1) (doc_flat doc_prec) -> In (j, a2, d2) (doc_flat doc_prec) ->
     exists b1 c1 b2 c2,
       centry d1 = Some (b1, c1) /\ centry d2 = Some (b2, c2) /\
       c1 <> 0%N /\ c2 <> 0%N /\
       ((i < j)%N <-> (c1 < c2)%N) /\ (i = j <-> c1 = c2)) /\
  (forall i a d, In (i, a, d) (doc_flat doc_prec) -> exists c, centry d = Some (a, c)).
Proof.
  split; [|split].
  - apply check_spelling_sound. vm_compute. reflexivity.
  - apply check_order_sound. vm_compute. reflexivity.
  - apply check_assoc_sound. vm_compute. reflexivity.
Qed.

(* every infix / prefix / postfix operator of the documented BNF is an
   operator of that kind in the parser's grammar *)
Theorem C16_doc_operators_in_grammar_bounded :
  check_shapes lex_rules lex_reserved lex_values lex_ignore code_prec productions
    doc_binary doc_prefix doc_postfix = true.
Proof. vm_compute. reflexivity. Qed.

(* every spelling of a token lexes, on its own, to exactly one token of its
   type, carrying the rule's normalised value when the rule normalises
   (& && /\ -> /\ ; | || \/ -> \/ ; ~ ! -> ~ ; => -> ; <=> <->): alternative
   spellings of those operators give IDENTICAL token sequences, hence
   identical trees *)
Theorem C16_spellings_normalised_bounded :
  check_alts_lex lex_rules lex_reserved lex_values lex_ignore = true.
Proof. vm_compute. reflexivity. Qed.

(* the spellings the lexer does not normalise (# /= != ; <= =<) are sent to
   one operator by bitvector.Nodes.opmap *)
Theorem C16_synonyms_same_opmap_bounded :
  check_synonyms lex_rules bv_opmap = true.
Proof. vm_compute. reflexivity. Qed.

(* side conditions of the parser theorems hold for the generated table *)
Theorem C16_table_ok_bounded : table_ok PT = true.
Proof. vm_compute. reflexivity. Qed.
Print Assumptions C16_table_ok_bounded.

Theorem C16_prefix_levels_disjoint_bounded :
  check_level_disjoint code_prec productions = true.
Proof. vm_compute. reflexivity. Qed.
Print Assumptions C16_prefix_levels_disjoint_bounded.

(* ------------------------------------------------------------------ *)
(* prec_determines_tree (infix / prefix / postfix operators, parentheses,
   terminals, ranges, ite(,,), IF/THEN/ELSE and quantifiers \A \E whose
   bodies extend as far as the precedence of their rule - IF_THEN_ELSE, `:` -
   allows): for EVERY surface tree s whose operators
   are operators of the table (wf) and which groups them as the table
   demands (respects), the parser applied to the token sequence of s
   returns exactly the tree s denotes.  Unbounded: by induction on s. *)
Theorem C16_prec_determines_tree : forall s : stree,
  wf PT s -> respects PT s -> parse PT (yield s) = Some (erase PT s).
Proof. exact (prec_determines_tree PT C16_table_ok_bounded). Qed.

(* the table determines the tree: two groupings of the same token sequence
   that both respect the table denote the same tree *)
Theorem C16_respecting_tree_unique : forall s1 s2 : stree,
  wf PT s1 -> respects PT s1 -> wf PT s2 -> respects PT s2 ->
  yield s1 = yield s2 -> erase PT s1 = erase PT s2.
Proof. exact (respecting_tree_unique PT C16_table_ok_bounded). Qed.

(* what `respects` demands of an operator followed by an infix operator, in
   terms of the levels of the table *)
Theorem C16_stops_reads_levels : forall t c a lv a' lv',
  pt_bin PT (tty t) = Some (c, a, lv) ->
  tok_stops PT (bind_of (a', lv')) t = true <->
  (match a' with RightA => (lv < lv')%N | _ => (lv <= lv')%N end).
Proof. exact (stops_infix_level PT). Qed.
Print Assumptions C16_stops_reads_levels.

(* non-vacuity: `[] a U b /\ c` groups as ([] (a U b)) /\ c *)
Definition ex_s : stree :=
  SBin (Tok "AND" "/\")
    (SPre (Tok "ALWAYS" "[]")
       (SBin (Tok "UNTIL" "U") (SAtom (AVar "a")) (SAtom (AVar "b"))))
    (SAtom (AVar "c")).
Example C16_prec_determines_tree_ex :
  wf PT ex_s /\ respects PT ex_s /\
  yield ex_s = [Tok "ALWAYS" "[]"; Tok "NAME" "a"; Tok "UNTIL" "U"; Tok "NAME" "b";
                Tok "AND" "/\"; Tok "NAME" "c"] /\
  parse PT (yield ex_s)
  = Some (Bin CBinary "/\" (Un "[]" (Bin CBinary "U" (Term KVar "a") (Term KVar "b")))
            (Term KVar "c")).
Proof.
  assert (W : wf PT ex_s) by (vm_compute; repeat split; discriminate).
  assert (R : respects PT ex_s) by (vm_compute; repeat split).
  split; [exact W | split; [exact R | split; [reflexivity|]]].
  rewrite (C16_prec_determines_tree ex_s W R). reflexivity.
Qed.
(* non-vacuity with the special forms: the quantifier body and the ELSE
   branch extend to the right as far as possible *)
Definition ex_q : stree :=
  SQuant (Tok "FORALL" "\A") [("x", None); ("y", Some (Tok "PRIME" "'"))]
    (SBin (Tok "IMPLIES" "=>")
       (SBin (Tok "AND" "/\") (SAtom (AVar "a")) (SAtom (AVar "b")))
       (SIf (SAtom (AVar "p")) (SAtom (AVar "q"))
            (SBin (Tok "PLUS" "+") (SAtom (AVar "r")) (SAtom (ANum (NPos "1")))))).
Example C16_prec_determines_tree_forms_ex :
  wf PT ex_q /\ respects PT ex_q /\
  parse PT (yield ex_q)
  = Some (Opr "\A" [Opr "params" [Term KVar "x"; Un "X" (Term KVar "y")];
            Bin CBinary "=>" (Bin CBinary "/\" (Term KVar "a") (Term KVar "b"))
              (Opr "ite" [Term KVar "p"; Term KVar "q";
                          Bin CArithmetic "+" (Term KVar "r") (Term KNum "1")])]).
Proof.
  assert (W : wf PT ex_q).
  { vm_compute. repeat split; try discriminate; try (left; reflexivity).
    repeat constructor; discriminate. }
  assert (R : respects PT ex_q) by (vm_compute; repeat split).
  split; [exact W | split; [exact R|]].
  rewrite (C16_prec_determines_tree ex_q W R). reflexivity.
Qed.
(* the other grouping does not respect the table *)
Example C16_wrong_grouping_rejected :
  ~ respects PT (SPre (Tok "ALWAYS" "[]")
      (SBin (Tok "AND" "/\")
         (SBin (Tok "UNTIL" "U") (SAtom (AVar "a")) (SAtom (AVar "b")))
         (SAtom (AVar "c")))).
Proof. vm_compute. intros [_ [H _]]. discriminate. Qed.

(* ------------------------------------------------------------------ *)
(* prec_determines_tree for the WHOLE grammar of the parser model, and its
   converse.  Surface trees `xt` (PrecFullSpec.v) carry every token of the
   sequence and cover, besides the forms above, LET ... IN, junction lists
   (/\ a /\ b \/ c), truncation `x <<>> n`, `@ n`, quantifiers over
   arbitrary expression lists; `list xunit` is the module level
   (VARIABLE(S)/CONSTANT(S) declarations and definitions). *)

(* side conditions for the generated table: PrecSpec.table_ok, AND / OR are
   not prefix operators, NAME and IN are not operators *)
Theorem C16_table_ok_full_bounded : table_ok_full PT = true.
Proof. vm_compute. reflexivity. Qed.

(* for EVERY surface tree of the whole expression grammar whose tokens have
   the types their positions demand (xwf) and which groups its operators as
   the table demands (xrespects), the parser applied to its token sequence
   returns exactly the tree it denotes.  Unbounded: mutual induction. *)
Theorem C16_prec_determines_tree_full : forall s : xt,
  xwf PT s -> xrespects PT s -> parse PT (xyield s) = Some (xerase PT s).
Proof. exact (prec_determines_tree_full PT C16_table_ok_full_bounded). Qed.

(* the same at the module level *)
Theorem C16_prec_determines_module : forall us : list xunit,
  mwf PT us -> mrespects PT us -> parse PT (myield us) = Some (merase PT us).
Proof. exact (prec_determines_module PT C16_table_ok_full_bounded). Qed.

(* THE CONVERSE: every token sequence the parser accepts (any tokens, any
   values) is the token sequence of a well-formed surface tree that groups
   its operators as the table demands, and the tree returned is the tree
   that surface tree denotes.  Unbounded: induction on the parser's fuel
   through every branch; holds for every operator table. *)
Theorem C16_parse_is_respecting_tree : forall (ts : list token) (t : tree),
  is_module_start ts = false -> parse PT ts = Some t ->
  exists s : xt, xwf PT s /\ xrespects PT s /\ xyield s = ts /\ xerase PT s = t.
Proof. exact (parse_is_respecting_tree PT). Qed.

Theorem C16_parse_is_respecting_module : forall (ts : list token) (t : tree),
  is_module_start ts = true -> parse PT ts = Some t ->
  exists us : list xunit,
    mwf PT us /\ mrespects PT us /\ myield us = ts /\ merase PT us = t.
Proof. exact (parse_is_respecting_module PT). Qed.

(* both directions: the parser accepts ts and returns t  IFF  ts is the
   token sequence of a table-respecting surface tree denoting t *)
Theorem C16_prec_tree_iff : forall (ts : list token) (t : tree),
  is_module_start ts = false ->
  (parse PT ts = Some t <->
   exists s : xt, xwf PT s /\ xrespects PT s /\ xyield s = ts /\ xerase PT s = t).
Proof. exact (prec_tree_iff PT C16_table_ok_full_bounded). Qed.

Theorem C16_prec_module_iff : forall (ts : list token) (t : tree),
  is_module_start ts = true ->
  (parse PT ts = Some t <->
   exists us : list xunit,
     mwf PT us /\ mrespects PT us /\ myield us = ts /\ merase PT us = t).
Proof. exact (prec_module_iff PT C16_table_ok_full_bounded). Qed.

(* uniqueness over the whole grammar *)
Theorem C16_respecting_tree_unique_full : forall s1 s2 : xt,
  xwf PT s1 -> xrespects PT s1 -> xwf PT s2 -> xrespects PT s2 ->
  xyield s1 = xyield s2 -> xerase PT s1 = xerase PT s2.
Proof. exact (respecting_tree_unique_full PT C16_table_ok_full_bounded). Qed.

(* the surface trees of C16_prec_determines_tree are surface trees of the
   whole grammar: same tokens, same denoted tree, wf and respects kept *)
Theorem C16_full_generalises : forall s : stree,
  wf PT s -> respects PT s ->
  xwf PT (inj s) /\ xrespects PT (inj s) /\ xyield (inj s) = yield s
  /\ xerase PT (inj s) = erase PT s.
Proof.
  exact (fun s W R => conj (inj_wf PT s W) (conj (inj_respects PT s W R)
           (conj (inj_yield PT s W) (inj_erase PT s W)))).
Qed.

(* non-vacuity with LET, a junction list, `<<>>` and `@`:
   LET f == a /\ b IN /\ f \/ c <<>> 2 => @ 3
   groups as ((LET .. IN (/\ f \/ c)) <<>> 2) => (@ 3) *)
Definition ex_x : xt :=
  XBin (Tok "IMPLIES" "=>")
    (XTrunc (Tok "TRUNCATE" "<<>>")
       (XLet (Tok "LET" "LET")
          (D1 (Tok "NAME" "f") (Tok "DEF" "==")
              (XBin (Tok "AND" "/\") (XName (Tok "NAME" "a")) (XName (Tok "NAME" "b"))))
          (Tok "IN_EXPR" "IN")
          (XJunc (JS (J1 (Tok "AND" "/\") (XName (Tok "NAME" "f")))
                     (Tok "OR" "\/") (XName (Tok "NAME" "c")))))
       (XPos (Tok "NUMBER" "2")))
    (XAt (Tok "AT" "@") (XPos (Tok "NUMBER" "3"))).
Example C16_prec_determines_tree_full_ex :
  xwf PT ex_x /\ xrespects PT ex_x /\
  LEX "LET f == a /\ b IN /\ f \/ c <<>> 2 => @ 3" = Some (xyield ex_x) /\
  parse PT (xyield ex_x)
  = Some (Bin CBinary "=>"
            (Bin CArithmetic "<<>>"
               (Opr "LET"
                  [Lst [Bin CBinary "==" (Term KOpname "f")
                          (Bin CBinary "/\" (Term KVar "a") (Term KVar "b"))];
                   Bin CBinary "\/" (Term KVar "f") (Term KVar "c")])
               (Term KNum "2"))
            (Opr "@" [Term KNum "3"])).
Proof.
  assert (W : xwf PT ex_x)
    by (vm_compute; repeat split;
        first [discriminate | reflexivity | left; reflexivity | right; reflexivity]).
  assert (R : xrespects PT ex_x) by (vm_compute; repeat split).
  split; [exact W | split; [exact R | split; [vm_compute; reflexivity|]]].
  rewrite (C16_prec_determines_tree_full ex_x W R). reflexivity.
Qed.

(* a junction list is continued by /\ whatever the context: reading
   `/\ a /\ b` as the infix conjunction of the list `/\ a` and b does not
   respect the table *)
Example C16_wrong_junction_grouping_rejected :
  ~ xrespects PT (XBin (Tok "AND" "/\")
       (XJunc (J1 (Tok "AND" "/\") (XName (Tok "NAME" "a"))))
       (XName (Tok "NAME" "b"))).
Proof. vm_compute. intros [_ [_ [[H _] _]]]. discriminate. Qed.

(* non-vacuity at the module level *)
Definition ex_m : list xunit :=
  [UDecl (Tok "VARIABLES" "VARIABLES")
     (LS (XName (Tok "NAME" "x")) (Tok "COMMA" ",") (L1 (XName (Tok "NAME" "y"))));
   UDef (Tok "NAME" "f") (Tok "DEF" "==")
     (XBin (Tok "PLUS" "+") (XPost (Tok "PRIME" "'") (XName (Tok "NAME" "x")))
           (XNum (XPos (Tok "NUMBER" "1"))));
   UDecl (Tok "CONSTANT" "CONSTANT") (L1 (XName (Tok "NAME" "c")))].
Example C16_prec_determines_module_ex :
  mwf PT ex_m /\ mrespects PT ex_m /\
  LEX "VARIABLES x, y f == x' + 1 CONSTANT c" = Some (myield ex_m) /\
  parse PT (myield ex_m)
  = Some (Lst [Opr "VARIABLES" [Lst [Term KVar "x"; Term KVar "y"]];
               Bin CBinary "==" (Term KOpname "f")
                 (Bin CArithmetic "+" (Un "X" (Term KVar "x")) (Term KNum "1"));
               Opr "CONSTANT" [Lst [Term KVar "c"]]]).
Proof.
  assert (W : mwf PT ex_m).
  { split; [discriminate|]. repeat constructor; vm_compute; auto; discriminate. }
  assert (R : mrespects PT ex_m) by (vm_compute; repeat split).
  split; [exact W | split; [exact R | split; [vm_compute; reflexivity|]]].
  rewrite (C16_prec_determines_module ex_m W R). reflexivity.
Qed.

(* the converse at work: from the parser's answer alone one obtains a
   surface tree of the sentence *)
Example C16_parse_is_respecting_tree_ex :
  exists s : xt, xwf PT s /\ xrespects PT s /\ xyield s = xyield ex_x
                 /\ PS "LET f == a /\ b IN /\ f \/ c <<>> 2 => @ 3" = Some (xerase PT s).
Proof.
  destruct (C16_parse_is_respecting_tree (xyield ex_x) (xerase PT ex_x) eq_refl
              (proj2 (proj2 (proj2 C16_prec_determines_tree_full_ex))))
    as [s [W [R [Ey Ee]]]].
  exists s. repeat split; try assumption. rewrite Ee. vm_compute. reflexivity.
Qed.

(* ------------------------------------------------------------------ *)
(* The DOCUMENTED table determines the tree.  PTdoc is the operator table
   built from the precedence list of doc/doc.md (each documented spelling
   replaced by the token type the lexer gives it) instead of the parser's
   tuple; doc_op_types are the types of the infix / prefix / postfix
   operators of the documented BNF. *)
Definition doc_prec_by_type : list (assoc * list string) := rekey dtt doc_prec.
Definition PTdoc : ptable := mk_ptable doc_prec_by_type productions.
Definition doc_op_types : list string :=
  flat_map (fun d => match dtt d with Some ty => [ty] | None => [] end)
           (doc_binary ++ doc_prefix ++ doc_postfix)%list.

(* for every pair of documented operators (and the rule of `:`), the
   parser's tuple and the documented list make the same shift/reduce
   decision; same kinds, classes and associativities *)
Theorem C16_doc_tables_agree_bounded :
  tables_agree PT PTdoc doc_op_types ["COLON"] = true.
Proof. vm_compute. reflexivity. Qed.
Print Assumptions C16_doc_tables_agree_bounded.

(* for EVERY surface tree s over the documented operators (and quantifiers)
   that groups them as the DOCUMENTED precedence/associativity list demands,
   the parser applied to the token sequence of s returns the tree s denotes *)
Theorem C16_doc_table_determines_tree : forall s : stree,
  ops_in doc_op_types ["COLON"] s -> wf PT s -> respects PTdoc s ->
  parse PT (yield s) = Some (erase PTdoc s).
Proof.
  exact (agree_determines_tree PT PTdoc doc_op_types ["COLON"]
           C16_doc_tables_agree_bounded C16_table_ok_bounded).
Qed.

Example C16_doc_table_determines_tree_ex :
  ops_in doc_op_types ["COLON"] ex_s /\ wf PT ex_s /\ respects PTdoc ex_s /\
  erase PTdoc ex_s
  = Bin CBinary "/\" (Un "[]" (Bin CBinary "U" (Term KVar "a") (Term KVar "b")))
      (Term KVar "c").
Proof.
  split; [vm_compute; tauto|]. split; [vm_compute; repeat split; discriminate|].
  split; [vm_compute; repeat split | reflexivity].
Qed.

(* ------------------------------------------------------------------ *)
(* roundtrip: for EVERY tree of the flatten-able fragment, flatten prints a
   token sequence that parses back to the same tree.  The fragment (flat_ok,
   PrecSpec.v): terminals, unary, binary / comparator / arithmetic, ite, and
   the two forms ast.Nodes.Operator.flatten prints in concrete syntax since
   /repo ef8f9d8 - quantifiers ( \A x, y: body ) and ( LET f == e g == e' IN
   body ) - nested in any way (C16_flat_ok_quant / C16_flat_ok_let spell the
   well-formedness of those two out).  OPTOK is the lexer model applied to one
   lexeme.  Unbounded: by structural induction on t, through the surface
   trees of the whole grammar (C16_prec_determines_tree_full). *)
Definition OPTOK : string -> token :=
  lex1 lex_rules lex_reserved lex_values lex_ignore.

Theorem C16_roundtrip : forall t : tree,
  flat_ok PT OPTOK t -> parse PT (flatten OPTOK t) = Some t.
Proof. exact (roundtrip PT C16_table_ok_full_bounded OPTOK). Qed.

(* a quantifier node is in the fragment iff it is \A or \E over a NON-EMPTY
   list of binders (node "params") that are themselves in the fragment - the
   parser reads a list of expressions there: variables x, primed variables
   ( X x ) - and its body is in the fragment *)
Theorem C16_flat_ok_quant : forall op po vs body,
  flat_ok PT OPTOK (Opr op [Opr po vs; body]) <->
  ((op = "\A" \/ op = "\E") /\ po = "params" /\ vs <> []
   /\ Forall (flat_ok PT OPTOK) vs /\ flat_ok PT OPTOK body).
Proof.
  intros. rewrite flat_ok_quant. split.
  - tauto.
  - intros [Hop H]. split; [exact Hop|].
    destruct Hop as [-> | ->]; vm_compute tty; vm_compute tval; tauto.
Qed.

(* a LET node is in the fragment iff its first operand is a NON-EMPTY list of
   definitions  Bin CBinary "==" (Term KOpname name) e  (what the parser
   builds for `name == e`) with e in the fragment, and its body is in the
   fragment *)
Theorem C16_flat_ok_let : forall op ds body,
  flat_ok PT OPTOK (Opr op [Lst ds; body]) <->
  (op = "LET" /\ ds <> []
   /\ Forall (fun d => exists n e, d = Bin CBinary "==" (Term KOpname n) e
                                  /\ flat_ok PT OPTOK e) ds
   /\ flat_ok PT OPTOK body).
Proof.
  intros. rewrite flat_ok_let. unfold is_def. split.
  - tauto.
  - intros [-> H]. vm_compute tty. vm_compute tval. tauto.
Qed.

Definition ex_t : tree :=
  Bin CBinary "=>"
    (Un "~" (Bin CComparator "<=" (Term KVar "x") (Term KNum "-3")))
    (Opr "ite" [Term KBool "TRUE"; Un "X" (Term KVar "y");
                Bin CArithmetic "+" (Term KVar "z") (Term KStr """s""")]).
Example C16_roundtrip_ex :
  flat_ok PT OPTOK ex_t /\ parse PT (flatten OPTOK ex_t) = Some ex_t.
Proof.
  assert (F : flat_ok PT OPTOK ex_t)
    by (vm_compute; repeat split; (discriminate || (left; reflexivity) || idtac)).
  split; [exact F | exact (C16_roundtrip ex_t F)].
Qed.

(* non-vacuity with the new forms: a quantifier over two binders (one primed)
   under negation, whose body is a LET with two definitions - the first a
   quantifier, the second using the first - and a quantifier as the right
   operand of => in the body of the LET *)
Definition ex_tq : tree :=
  Un "~"
    (Opr "\A" [Opr "params" [Term KVar "x"; Un "X" (Term KVar "y")];
       Opr "LET"
         [Lst [Bin CBinary "==" (Term KOpname "f")
                 (Opr "\E" [Opr "params" [Term KVar "z"];
                            Bin CComparator "<" (Term KVar "z") (Term KVar "x")]);
               Bin CBinary "==" (Term KOpname "g")
                 (Bin CBinary "/\" (Term KVar "f") (Term KVar "y"))];
          Bin CBinary "=>" (Term KVar "g")
            (Opr "\E" [Opr "params" [Term KVar "w"]; Term KVar "w"])]]).
Example C16_roundtrip_quant_let_ex :
  flat_ok PT OPTOK ex_tq /\ parse PT (flatten OPTOK ex_tq) = Some ex_tq.
Proof.
  assert (F : flat_ok PT OPTOK ex_tq).
  { vm_compute.
    repeat split; (discriminate || (left; reflexivity) || (right; reflexivity) || idtac). }
  split; [exact F | exact (C16_roundtrip ex_tq F)].
Qed.

(* ------------------------------------------------------------------ *)
(* The lexer: blanks, line breaks and comments do not matter. *)
Local Notation RenderedG := (Rendered lex_rules lex_reserved lex_values lex_ignore).

(* side conditions of the lexer theorems, for the generated rule table:
   identifiers are PLY's first rule; the number, newline and both comment
   rules are reached (no earlier rule can take their input) and emit /
   discard; blank is ignored, newline, backslash and "(" are not *)
Theorem C16_lexer_table_ok_bounded :
  lex_table_ok lex_rules = true /\ ignore_ok lex_ignore = true
  /\ is_ignored lex_ignore " "%char = true.
Proof. vm_compute. repeat split. Qed.
Print Assumptions C16_lexer_table_ok_bounded.

(* lex_rendered: a string that is a sequence of lexemes (each one delivered
   as its token when followed by the next character, as decided from the
   rule table by `lexeme_tok`) with ARBITRARY separators between them -
   blanks, line breaks, one-line comments, multi-line comments, in any
   number and order - lexes to exactly the tokens of the lexemes.
   Unbounded: by induction on the rendering. *)
Theorem C16_lex_rendered : forall s ts, RenderedG s ts -> LEX s = Some ts.
Proof.
  exact (lex_rendered lex_rules lex_reserved lex_values lex_ignore
           (proj1 C16_lexer_table_ok_bounded)
           (proj1 (proj2 C16_lexer_table_ok_bounded))).
Qed.

(* comments_ws: two renderings of the same token sequence parse alike *)
Theorem C16_comments_ws : forall s1 s2 ts,
  RenderedG s1 ts -> RenderedG s2 ts -> PS s1 = PS s2.
Proof.
  exact (comments_ws_parse lex_rules lex_reserved lex_values lex_ignore PT
           (proj1 C16_lexer_table_ok_bounded)
           (proj1 (proj2 C16_lexer_table_ok_bounded))).
Qed.

Definition nl : string := String "010"%char "".
Definition ex_toks := [Tok "NAME" "a"; Tok "AND" "/\"; Tok "NAME" "b"].
Example C16_comments_ws_ex :
  RenderedG ("a" ++ " " ++ "&&" ++ " " ++ "b" ++ "") ex_toks /\
  RenderedG ("a" ++ (" " ++ "(*" ++ " x " ++ "*)" ++ nl) ++ "/\"
             ++ (" " ++ "\*" ++ " y" ++ nl) ++ "b" ++ "") ex_toks /\
  PS "a && b" = Some (Bin CBinary "/\" (Term KVar "a") (Term KVar "b")).
Proof.
  assert (B : sep lex_ignore " ") by (apply sep_blank; [reflexivity | constructor]).
  split; [|split].
  - apply R_tok; [vm_compute; reflexivity|].
    apply R_sep; [discriminate | exact B |].
    apply R_tok; [vm_compute; reflexivity|].
    apply R_sep; [discriminate | exact B |].
    apply R_tok; [vm_compute; reflexivity | constructor].
  - apply R_tok; [vm_compute; reflexivity|].
    apply R_sep; [discriminate | |].
    { apply sep_blank; [reflexivity|].
      apply (sep_ml lex_ignore " x " nl); [apply closes_nostar; reflexivity|].
      apply sep_newline; [reflexivity | constructor]. }
    apply R_tok; [vm_compute; reflexivity|].
    apply R_sep; [discriminate | |].
    { apply sep_blank; [reflexivity|].
      apply (sep_line lex_ignore " y" "010"%char ""); [reflexivity | reflexivity | constructor]. }
    apply R_tok; [vm_compute; reflexivity | constructor].
  - vm_compute. reflexivity.
Qed.

(* roundtrip at string level: Parser().parse(tree.flatten()) = tree, for
   every tree of the flatten-able fragment (quantifiers and LET included)
   whose lexemes are lexically valid (sflat: decided from the rule table;
   e.g. a variable must not be spelled like a reserved word) *)
Theorem C16_roundtrip_string : forall t : tree,
  flat_ok PT OPTOK t ->
  sflat lex_rules lex_reserved lex_values lex_ignore OPTOK t None ->
  PS (flatten_str t) = Some t.
Proof.
  exact (roundtrip_string lex_rules lex_reserved lex_values lex_ignore OPTOK
           (proj2 (proj2 C16_lexer_table_ok_bounded)) PT C16_table_ok_full_bounded
           (proj1 C16_lexer_table_ok_bounded)
           (proj1 (proj2 C16_lexer_table_ok_bounded))).
Qed.

Example C16_roundtrip_string_ex :
  sflat lex_rules lex_reserved lex_values lex_ignore OPTOK ex_t None /\
  flatten_str ex_t
  = "( ( ~ ( x <= -3 ) ) => ite(TRUE, ( X y ), ( z + ""s"" )) )" /\
  PS (flatten_str ex_t) = Some ex_t.
Proof.
  assert (S : sflat lex_rules lex_reserved lex_values lex_ignore OPTOK ex_t None)
    by (vm_compute; repeat split).
  split; [exact S | split; [reflexivity|]].
  apply C16_roundtrip_string; [|exact S].
  vm_compute; repeat split; (discriminate || (left; reflexivity) || idtac).
Qed.

(* the printed forms of quantifiers and LET, exactly as ast.py prints them *)
Example C16_roundtrip_string_quant_let_ex :
  sflat lex_rules lex_reserved lex_values lex_ignore OPTOK ex_tq None /\
  flatten_str ex_tq
  = "( ~ ( \A x, ( X y ): ( LET f == ( \E z: ( z < x ) ) g == ( f /\ y ) IN ( g => ( \E w: w ) ) ) ) )" /\
  PS (flatten_str ex_tq) = Some ex_tq.
Proof.
  assert (S : sflat lex_rules lex_reserved lex_values lex_ignore OPTOK ex_tq None)
    by (vm_compute; repeat split).
  split; [exact S | split; [reflexivity|]].
  apply C16_roundtrip_string; [exact (proj1 C16_roundtrip_quant_let_ex) | exact S].
Qed.

(* a reserved word as a bound variable is outside the lexical side condition:
   the printed string would not lex to the tokens of the tree *)
Example C16_sflat_rejects_reserved_binder :
  ~ sflat lex_rules lex_reserved lex_values lex_ignore OPTOK
      (Opr "\E" [Opr "params" [Term KVar "IN"]; Term KVar "x"]) None.
Proof. vm_compute. intros [_ [_ [_ [H _]]]]. discriminate. Qed.

(* ------------------------------------------------------------------ *)
(* spellings (operator core): token sequences that are yields of surface
   trees of the same shape whose tokens agree in type and in spelling class
   `cls` parse to trees equal up to the class of every operator name.
   (For the spellings the lexer normalises the token sequences are already
   identical: C16_spellings_normalised_bounded.) *)
Theorem C16_spellings_partial : forall (cls : string -> string) (s1 s2 : stree),
  ssim cls s1 s2 -> wf PT s1 -> respects PT s1 ->
  parse PT (yield s1) = Some (erase PT s1) /\
  parse PT (yield s2) = Some (erase PT s2) /\
  strip cls (erase PT s1) = strip cls (erase PT s2).
Proof. exact (fun cls => spellings_core PT cls C16_table_ok_bounded). Qed.

(* spellings, ALL token sequences (special forms, LET, module level
   included): the parser inspects token types only, so two token sequences
   that agree in types, in the values of identifiers and numbers, and in the
   class `cls` of every other value parse to trees that are equal up to the
   class of operator names and Boolean constants - and one is rejected iff
   the other is.  `cls` is any idempotent choice of representative.
   Unbounded: by induction on the fuel of the parser, through every branch. *)
Theorem C16_spellings : forall cls : string -> string,
  (forall v, cls (cls v) = cls v) ->
  forall ts1 ts2 : list token,
    Forall2 (SpellProofs.tok_sim cls) ts1 ts2 ->
    option_map (strip cls) (parse PT ts1) = option_map (strip cls) (parse PT ts2).
Proof. exact (fun cls H => spellings_full PT cls H). Qed.

(* the synonym classes the lexer does not normalise *)
Definition syn_cls (v : string) : string :=
  if String.eqb v "#" then "!=" else if String.eqb v "/=" then "!="
  else if String.eqb v "=<" then "<=" else v.
Example C16_spellings_ex :
  (forall v, syn_cls (syn_cls v) = syn_cls v) /\
  Forall2 (SpellProofs.tok_sim syn_cls)
    [Tok "NAME" "a"; Tok "NEQUALS" "#"; Tok "NAME" "b"; Tok "LE" "=<"; Tok "NUMBER" "1"]
    [Tok "NAME" "a"; Tok "NEQUALS" "!="; Tok "NAME" "b"; Tok "LE" "<="; Tok "NUMBER" "1"] /\
  option_map (strip syn_cls) (parse PT
    [Tok "NAME" "a"; Tok "NEQUALS" "#"; Tok "NAME" "b"; Tok "LE" "=<"; Tok "NUMBER" "1"])
  = Some (Bin CComparator "!=" (Term KVar "a")
            (Bin CComparator "<=" (Term KVar "b") (Term KNum "1"))).
Proof.
  split; [|split].
  - intros v. unfold syn_cls.
    destruct (String.eqb_spec v "#"); [reflexivity|].
    destruct (String.eqb_spec v "/="); [reflexivity|].
    destruct (String.eqb_spec v "=<"); [reflexivity|].
    destruct (String.eqb_spec v "#"); [contradiction|].
    destruct (String.eqb_spec v "/="); [contradiction|].
    destruct (String.eqb_spec v "=<"); [contradiction|]. reflexivity.
  - repeat constructor.
  - vm_compute. reflexivity.
Qed.

(* ------------------------------------------------------------------ *)
(* split_gr1_spec: on a conjunction, in any nesting of /\, of initial
   predicates, [] safety formulas and generalized Streett pairs, the model of
   omega.gr1.split_gr1 returns exactly what one reads off the conjuncts. *)
Theorem C16_split_gr1_spec : forall n : nest conjunct,
  Forall conjunct_ok (leaves n) ->
  Forall (fun c => is_op (conjunct_tree c) "/\" = false) (leaves n) ->
  temporal_to_canonical (build "/\" (nmap conjunct_tree n))
  = expected (leaves n) empty_parts.
Proof. exact split_gr1_spec. Qed.

Theorem C16_split_gr1_lists : forall n : nest conjunct,
  Forall conjunct_ok (leaves n) ->
  Forall (fun c => is_op (conjunct_tree c) "/\" = false) (leaves n) ->
  order_ok (leaves n) ->
  temporal_to_canonical (build "/\" (nmap conjunct_tree n))
  = Some (mkParts (inits (leaves n)) (actions (leaves n))
                  (recurrences (leaves n)) (persistences (leaves n))).
Proof. exact split_gr1_lists. Qed.

(* outside the fragment the splitter returns None (the code raises) *)
Theorem C16_split_gr1_rejects_outside : forall t r,
  temporal_to_canonical t = Some r -> Forall in_fragment (flatten_op "/\" t).
Proof. exact split_gr1_rejects_outside. Qed.

Definition ex_gr1 : nest conjunct :=
  Node (Node (Leaf (CInit (Term KVar "a")))
             (Leaf (CSafe (Bin CBinary "=>" (Term KVar "b") (Un "X" (Term KVar "c"))))))
       (Node (Leaf (CLive (Leaf (DRec (Leaf (Term KVar "d"))))))
             (Leaf (CLive (Node (Leaf (DPers (Term KVar "e")))
                                (Leaf (DRec (Node (Leaf (Term KVar "f"))
                                                  (Leaf (Term KVar "g"))))))))).
Example C16_split_gr1_ex :
  Forall conjunct_ok (leaves ex_gr1) /\
  Forall (fun c => is_op (conjunct_tree c) "/\" = false) (leaves ex_gr1) /\
  order_ok (leaves ex_gr1) /\
  temporal_to_canonical (build "/\" (nmap conjunct_tree ex_gr1))
  = Some (mkParts [Term KVar "a"]
            [Bin CBinary "=>" (Term KVar "b") (Un "X" (Term KVar "c"))]
            [Term KVar "d"; Term KVar "f"; Term KVar "g"] [Term KVar "e"]).
Proof.
  repeat split; try (vm_compute; repeat constructor).
Qed.
(* a second generalized Streett pair after persistence was collected, and a
   bare <> are rejected *)
Example C16_split_gr1_reject_ex :
  SPLIT "<>[] a /\ []<> b" = None /\ SPLIT "a /\ <> b" = None
  /\ SPLIT "[] [] a" = None /\ SPLIT "a' /\ [] b" = None.
Proof. vm_compute. repeat split. Qed.

Print Assumptions C16_prec_table_matches_doc_bounded.
Print Assumptions C16_doc_operators_in_grammar_bounded.
Print Assumptions C16_spellings_normalised_bounded.
Print Assumptions C16_synonyms_same_opmap_bounded.
Print Assumptions C16_prec_determines_tree.
Print Assumptions C16_respecting_tree_unique.
Print Assumptions C16_table_ok_full_bounded.
Print Assumptions C16_prec_determines_tree_full.
Print Assumptions C16_prec_determines_module.
Print Assumptions C16_parse_is_respecting_tree.
Print Assumptions C16_parse_is_respecting_module.
Print Assumptions C16_prec_tree_iff.
Print Assumptions C16_prec_module_iff.
Print Assumptions C16_respecting_tree_unique_full.
Print Assumptions C16_full_generalises.
Print Assumptions C16_doc_table_determines_tree.
Print Assumptions C16_roundtrip.
Print Assumptions C16_flat_ok_quant.
Print Assumptions C16_flat_ok_let.
Print Assumptions C16_spellings_partial.
Print Assumptions C16_spellings.
Print Assumptions C16_lex_rendered.
Print Assumptions C16_comments_ws.
Print Assumptions C16_roundtrip_string.
Print Assumptions C16_split_gr1_spec.
Print Assumptions C16_split_gr1_lists.
Print Assumptions C16_split_gr1_rejects_outside.
