# standalone replay: the REAL cover_enum.minimize raises AssertionError (finding candidate F17)
# run: cd /verif/tools && PYTHONPATH=${OMEGA_REPO:-/repo}:/verif/tools PYTHONHASHSEED=0 /venv/bin/python /verif/tmp/coverfull/replay_enum_real.py <REALENUM_*.json>
import sys, json, traceback
sys.path.insert(0, '/verif/tools')
from vlib import cover_inst as ci
import omega.symbolic.cover as cov
import omega.symbolic.cover_enum as cov_enum
d = json.load(open(sys.argv[1]))
inst = dict(decl=d['decl'], f=d['f'], care=None, backend=d.get('backend', 'cudd'))
pb = ci.Problem(inst)
pb.care = ~ pb.bdd_of([tuple(p) for p in d['dontcare']])
assert pb.f != pb.ctx.bdd.false and (pb.f & ~pb.care) == pb.ctx.bdd.false   # f non-empty, f => care
c = cov.minimize(pb.f, pb.care, pb.ctx)
boxes, xs = pb.read_boxes(c)
print('cover.minimize returns', len(boxes), 'boxes')
try:
    r = cov_enum.minimize(pb.f, pb.care, pb.ctx)
    print('cover_enum.minimize returns', len(r), 'covers')
    sys.exit(0)
except AssertionError as ex:
    tb = traceback.extract_tb(ex.__traceback__)
    print('cover_enum.minimize raised AssertionError', [(x.name, x.lineno) for x in tb][-3:], ex)
    sys.exit(1)
