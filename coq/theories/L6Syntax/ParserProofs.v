(* L6 Syntax — proofs about the parser model: fuel monotonicity, the parser
   returns the tree determined by the (assoc, level) table
   (prec_determines_tree). *)
From Coq Require Import List String Ascii NArith Bool Lia Arith.
From Omega Require Import L6Syntax.Tokens L6Syntax.Parser L6Syntax.Flatten.
Import ListNotations.
Local Open Scope string_scope.

Section Mono.
Variable T : ptable.

Local Notation p_expr := (p_expr T).
Local Notation p_nud := (p_nud T).
Local Notation p_led := (p_led T).
Local Notation p_junc := (p_junc T).
Local Notation p_defs := (p_defs T).
Local Notation p_list := (p_list T).

Definition mono_at (n : nat) : Prop :=
  (forall k m ts r, n <= k -> p_expr n m ts = Some r -> p_expr k m ts = Some r) /\
  (forall k ts r, n <= k -> p_nud n ts = Some r -> p_nud k ts = Some r) /\
  (forall k m l ts r, n <= k -> p_led n m l ts = Some r -> p_led k m l ts = Some r) /\
  (forall k j ts r, n <= k -> p_junc n j ts = Some r -> p_junc k j ts = Some r) /\
  (forall k ts r, n <= k -> p_defs n ts = Some r -> p_defs k ts = Some r) /\
  (forall k ts r, n <= k -> p_list n ts = Some r -> p_list k ts = Some r).

(* one step of case analysis on the head match of hypothesis H, replaying
   the same choice in the goal; recursive calls are transported with IH *)
Ltac mono_step IH k :=
  match goal with
  | H : match ?x with _ => _ end = Some _ |- _ =>
      let E := fresh "E" in
      destruct x eqn:E; try discriminate H;
      try (first
        [ eapply (proj1 IH k) in E; [| lia]
        | eapply (proj1 (proj2 IH) k) in E; [| lia]
        | eapply (proj1 (proj2 (proj2 IH)) k) in E; [| lia]
        | eapply (proj1 (proj2 (proj2 (proj2 IH))) k) in E; [| lia]
        | eapply (proj1 (proj2 (proj2 (proj2 (proj2 IH)))) k) in E; [| lia]
        | eapply (proj2 (proj2 (proj2 (proj2 (proj2 IH)))) k) in E; [| lia] ];
        rewrite E)
  | H : (if ?x then _ else _) = Some _ |- _ =>
      let E := fresh "E" in destruct x eqn:E; try discriminate H
  | H : (let (_, _) := ?x in _) = Some _ |- _ =>
      let E := fresh "E" in destruct x eqn:E
  end.

Ltac mono_fin IH k :=
  first
    [ assumption
    | eapply (proj1 IH k); [lia | eassumption]
    | eapply (proj1 (proj2 IH) k); [lia | eassumption]
    | eapply (proj1 (proj2 (proj2 IH)) k); [lia | eassumption]
    | eapply (proj1 (proj2 (proj2 (proj2 IH))) k); [lia | eassumption]
    | eapply (proj1 (proj2 (proj2 (proj2 (proj2 IH)))) k); [lia | eassumption]
    | eapply (proj2 (proj2 (proj2 (proj2 (proj2 IH)))) k); [lia | eassumption] ].

Lemma mono_all : forall n, mono_at n.
Proof.
  induction n as [|n IH].
  - unfold mono_at; repeat apply conj; intros; simpl in *; discriminate.
  - unfold mono_at. repeat apply conj.
    + intros k m ts r Hk H. destruct k as [|k]; [lia|]. simpl in *.
      repeat mono_step IH k; mono_fin IH k.
    + intros k ts r Hk H. destruct k as [|k]; [lia|]. simpl in *.
      repeat mono_step IH k; mono_fin IH k.
    + intros k m l ts r Hk H. destruct k as [|k]; [lia|]. simpl in *.
      repeat mono_step IH k; mono_fin IH k.
    + intros k j ts r Hk H. destruct k as [|k]; [lia|]. simpl in *.
      repeat mono_step IH k; mono_fin IH k.
    + intros k ts r Hk H. destruct k as [|k]; [lia|]. simpl in *.
      repeat mono_step IH k; mono_fin IH k.
    + intros k ts r Hk H. destruct k as [|k]; [lia|]. simpl in *.
      repeat mono_step IH k; mono_fin IH k.
Qed.

Lemma expr_mono : forall n k m ts r, n <= k -> p_expr n m ts = Some r -> p_expr k m ts = Some r.
Proof. intros n. exact (proj1 (mono_all n)). Qed.
Lemma nud_mono : forall n k ts r, n <= k -> p_nud n ts = Some r -> p_nud k ts = Some r.
Proof. intros n. exact (proj1 (proj2 (mono_all n))). Qed.
Lemma led_mono : forall n k m l ts r, n <= k -> p_led n m l ts = Some r -> p_led k m l ts = Some r.
Proof. intros n. exact (proj1 (proj2 (proj2 (mono_all n)))). Qed.

End Mono.

(* ------------------------------------------------------------------ *)
From Omega Require Import L6Syntax.PrecSpec L6Syntax.TreeInd.
Local Open Scope list_scope.

Section Prec.
Variable T : ptable.
Hypothesis Hok : table_ok T = true.

Local Notation p_expr := (p_expr T).
Local Notation p_nud := (p_nud T).
Local Notation p_led := (p_led T).
Local Notation erase := (erase T).
Local Notation wf := (wf T).
Local Notation rok := (rok T).
Local Notation fits := (fits T).
Local Notation respects := (respects T).
Local Notation stops := (stops T).
Local Notation tok_stops := (tok_stops T).

Lemma Hok_pre : forall k, In k nud_keywords -> pt_pre T k = None.
Proof.
  intros k Hk. unfold table_ok in Hok. apply andb_prop in Hok. destruct Hok as [H _].
  rewrite forallb_forall in H. specialize (H k Hk).
  destruct (pt_pre T k); [discriminate | reflexivity].
Qed.

Lemma Hok_nonop : forall k, In k non_operators -> pt_bin T k = None /\ pt_post T k = None.
Proof.
  intros k Hk. unfold table_ok in Hok. apply andb_prop in Hok. destruct Hok as [_ H].
  rewrite forallb_forall in H. specialize (H k Hk). apply andb_prop in H.
  destruct H as [H1 H2].
  destruct (pt_bin T k); [discriminate|]. destruct (pt_post T k); [discriminate|]. auto.
Qed.

Lemma pre_not_kw : forall t k, In k nud_keywords -> pt_pre T (tty t) <> None -> is_ty t k = false.
Proof.
  intros t k Hk Hp. unfold is_ty. destruct (String.eqb_spec (tty t) k) as [e|]; [|reflexivity].
  rewrite e in Hp. rewrite (Hok_pre k Hk) in Hp. congruence.
Qed.

Lemma op_not_nonop : forall t k, In k non_operators ->
  (pt_bin T (tty t) <> None \/ pt_post T (tty t) <> None) -> String.eqb (tty t) k = false.
Proof.
  intros t k Hk Hp. destruct (String.eqb_spec (tty t) k) as [e|]; [|reflexivity].
  rewrite e in Hp. destruct (Hok_nonop k Hk) as [H1 H2]. rewrite H1, H2 in Hp.
  destruct Hp; congruence.
Qed.

Lemma tok_stops_nonop : forall m v k, In k non_operators -> k <> "TRUNCATE" ->
  tok_stops m (Tok k v) = true.
Proof.
  intros m v k Hk Hn. unfold PrecSpec.tok_stops. simpl.
  destruct (Hok_nonop k Hk) as [H1 H2]. rewrite H1, H2.
  destruct (String.eqb_spec k "TRUNCATE"); [contradiction | reflexivity].
Qed.

Lemma stops_RP : forall m, stops m (Some RPt).
Proof. intros. apply tok_stops_nonop; [simpl; auto | discriminate]. Qed.
Lemma stops_CM : forall m, stops m (Some CMt).
Proof. intros. apply tok_stops_nonop; [simpl; auto | discriminate]. Qed.

(* the operator loop stops in front of a token it cannot shift *)
Lemma led_stop : forall m rest k x,
  stops m (hd_error rest) -> p_led (S k) m x rest = Some (x, rest).
Proof.
  intros m rest k x H. destruct rest as [|t r]; simpl; [reflexivity|].
  simpl in H. unfold PrecSpec.tok_stops in H.
  destruct (pt_bin T (tty t)) as [[[c a] lv]|].
  - apply negb_true_iff in H. rewrite H. reflexivity.
  - destruct (pt_post T (tty t)) as [[[a lv] name]|].
    + apply negb_true_iff in H. rewrite H. reflexivity.
    + unfold is_ty. destruct (String.eqb (tty t) "TRUNCATE"); [|reflexivity].
      apply negb_true_iff in H. rewrite H. reflexivity.
Qed.

Lemma can_shift0 : forall lv, can_shift 0 lv = true.
Proof. intros. unfold can_shift. apply N.leb_le. lia. Qed.

Lemma fits0 : forall s, fits 0 s.
Proof. induction s; simpl; auto using can_shift0. Qed.

Lemma rok_closer : forall o, (forall m, stops m o) -> not_dots o -> forall s, rok o s.
Proof.
  intros o Hs Hd. induction s; simpl; auto.
  destruct a; simpl; auto.
Qed.

Lemma rok_RP : forall s, rok (Some RPt) s.
Proof. apply rok_closer; [apply stops_RP | reflexivity]. Qed.
Lemma rok_CM : forall s, rok (Some CMt) s.
Proof. apply rok_closer; [apply stops_CM | reflexivity]. Qed.

Lemma p_number_num : forall n rest,
  p_number (num_toks n ++ rest) = Some (num_tree n, rest).
Proof. destruct n; reflexivity. Qed.

Lemma number_tail_nodots : forall n rest,
  not_dots (hd_error rest) -> p_number_tail n rest = Some (n, rest).
Proof.
  intros n rest H. destruct rest as [|t r]; [reflexivity|].
  simpl in H. unfold p_number_tail, is_ty. rewrite H. reflexivity.
Qed.

Lemma minus_pre : pt_pre T "MINUS" = None.
Proof. apply Hok_pre. simpl. tauto. Qed.

(* unfolding equations (by conversion), so that proofs never unfold the
   mutual fixpoint *)
Lemma p_expr_S : forall f m ts,
  p_expr (S f) m ts =
  match p_nud f ts with Some (l, r) => p_led f m l r | None => None end.
Proof. reflexivity. Qed.

Lemma p_led_bin : forall f m l t r c a lv,
  pt_bin T (tty t) = Some (c, a, lv) -> can_shift m lv = true ->
  p_led (S f) m l (t :: r) =
  match p_expr f (bind_of (a, lv)) r with
  | Some (x, r1) => p_led f m (Bin c (tval t) l x) r1
  | None => None
  end.
Proof. intros. cbn [Parser.p_led]. rewrite H, H0. reflexivity. Qed.

Lemma p_led_post : forall f m l t r a lv name,
  pt_bin T (tty t) = None -> pt_post T (tty t) = Some (a, lv, name) ->
  can_shift m lv = true ->
  p_led (S f) m l (t :: r) = p_led f m (Un name l) r.
Proof. intros. cbn [Parser.p_led]. rewrite H, H0, H1. reflexivity. Qed.

Lemma p_nud_pre : forall f t r al,
  pt_pre T (tty t) = Some al ->
  p_nud (S f) (t :: r) =
  match p_expr f (bind_of al) r with
  | Some (x, r1) => Some (Un (tval t) x, r1)
  | None => None
  end.
Proof.
  intros f t r al H.
  assert (Hp : pt_pre T (tty t) <> None) by congruence.
  cbn [Parser.p_nud].
  rewrite !(pre_not_kw t) by (assumption || (simpl; tauto)).
  simpl orb. cbv iota. rewrite H. reflexivity.
Qed.

Lemma p_nud_paren : forall f r,
  p_nud (S f) (LPt :: r) =
  match p_expr f 0 r with
  | Some (e, r1) =>
      match expect "RPAREN" r1 with Some r2 => Some (e, r2) | None => None end
  | None => None
  end.
Proof. reflexivity. Qed.

Lemma p_nud_ite : forall f v r,
  p_nud (S f) (Tok "ITE" v :: LPt :: r) =
  match p_expr f 0 r with
  | Some (a, r2) =>
    match expect "COMMA" r2 with
    | Some r3 =>
      match p_expr f 0 r3 with
      | Some (b, r4) =>
        match expect "COMMA" r4 with
        | Some r5 =>
          match p_expr f 0 r5 with
          | Some (c, r6) =>
            match expect "RPAREN" r6 with
            | Some r7 => Some (Opr v [a; b; c], r7)
            | None => None
            end
          | None => None
          end
        | None => None
        end
      | None => None
      end
    | None => None
    end
  | None => None
  end.
Proof. reflexivity. Qed.

Lemma p_nud_if : forall f r,
  p_nud (S f) (IFt :: r) =
  match p_expr f 0 r with
  | Some (a, r1) =>
    match expect "THEN" r1 with
    | Some r2 =>
      match p_expr f 0 r2 with
      | Some (b, r3) =>
        match expect "ELSE" r3 with
        | Some r4 =>
          match p_expr f (rule_bind T "IF_THEN_ELSE") r4 with
          | Some (c, r5) => Some (Opr "ite" [a; b; c], r5)
          | None => None
          end
        | None => None
        end
      | None => None
      end
    | None => None
    end
  | None => None
  end.
Proof. reflexivity. Qed.

Lemma p_nud_quant : forall f kw r,
  tty kw = "FORALL" \/ tty kw = "EXISTS" ->
  p_nud (S f) (kw :: r) =
  match Parser.p_list T f r with
  | Some (vs, r1) =>
    match expect "COLON" r1 with
    | Some r2 =>
      match p_expr f (rule_bind T "COLON") r2 with
      | Some (b, r3) => Some (Opr (tval kw) [Opr "params" vs; b], r3)
      | None => None
      end
    | None => None
    end
  | None => None
  end.
Proof. intros f [ty v] r [H|H]; simpl in H; subst ty; reflexivity. Qed.

Lemma p_list_S : forall f ts,
  Parser.p_list T (S f) ts =
  match p_expr f 0 ts with
  | Some (e, r1) =>
      match r1 with
      | c :: r2 =>
          if is_ty c "COMMA" then
            match Parser.p_list T f r2 with
            | Some (es, r3) => Some (e :: es, r3)
            | None => None
            end
          else Some ([e], r1)
      | [] => Some ([e], r1)
      end
  | None => None
  end.
Proof. reflexivity. Qed.

Lemma stops_COLON : forall m, stops m (Some COLONt).
Proof. intros. apply tok_stops_nonop; [simpl; tauto | discriminate]. Qed.
Lemma stops_THEN : forall m, stops m (Some THENt).
Proof. intros. apply tok_stops_nonop; [simpl; tauto | discriminate]. Qed.
Lemma stops_ELSE : forall m, stops m (Some ELSEt).
Proof. intros. apply tok_stops_nonop; [simpl; tauto | discriminate]. Qed.

(* a quantified variable, x or x', followed by `,` or `:` *)
Lemma p_expr_var : forall v rest k,
  var_wf T v -> stops 0 (hd_error rest) ->
  p_expr (3 + k) 0 (var_toks v ++ rest) = Some (var_tree T v, rest).
Proof.
  intros [x [t|]] rest k Hw Hs; unfold var_toks, var_tree, var_wf in *; simpl in Hw;
    cbn [fst snd app]; change (3 + k) with (S (S (S k))).
  - destruct Hw as [Hb Hp].
    destruct (pt_post T (tty t)) as [[[a lv] name]|] eqn:Eq; [|congruence].
    rewrite p_expr_S.
    change (p_nud (S (S k)) (Tok "NAME" x :: t :: rest)) with (Some (Term KVar x, t :: rest)).
    cbv iota beta.
    rewrite (p_led_post _ _ _ _ _ _ _ _ Hb Eq (can_shift0 lv)).
    apply led_stop. assumption.
  - rewrite p_expr_S.
    change (p_nud (S (S k)) (Tok "NAME" x :: rest)) with (Some (Term KVar x, rest)).
    cbv iota beta. apply led_stop. assumption.
Qed.

Lemma p_list_vars : forall vs rest k,
  vs <> [] -> Forall (var_wf T) vs ->
  Parser.p_list T (List.length vs + 3 + k) (vars_toks vs ++ COLONt :: rest)
  = Some (map (var_tree T) vs, COLONt :: rest).
Proof.
  induction vs as [|v vs IH]; intros rest k Hne Hw; [congruence|].
  inversion Hw as [|? ? Hv Hvs]; subst.
  destruct vs as [|v2 vs].
  - change (List.length [v] + 3 + k) with (S (3 + k)). rewrite p_list_S.
    change (vars_toks [v] ++ COLONt :: rest) with (var_toks v ++ COLONt :: rest).
    rewrite (p_expr_var v (COLONt :: rest) k Hv (stops_COLON 0%N)). reflexivity.
  - replace (List.length (v :: v2 :: vs) + 3 + k)
      with (S (3 + (List.length (v2 :: vs) + k))) by (simpl; lia).
    rewrite p_list_S.
    change (vars_toks (v :: v2 :: vs) ++ COLONt :: rest)
      with ((var_toks v ++ CMt :: vars_toks (v2 :: vs)) ++ COLONt :: rest).
    rewrite <- app_assoc. simpl app.
    rewrite (p_expr_var v (CMt :: vars_toks (v2 :: vs) ++ COLONt :: rest) _ Hv (stops_CM 0%N)).
    change (is_ty CMt "COMMA") with true. cbv iota.
    replace (3 + (List.length (v2 :: vs) + k)) with (List.length (v2 :: vs) + 3 + k) by lia.
    rewrite IH; [reflexivity | discriminate | assumption].
Qed.

(* an atom is read by p_nud *)
Lemma nud_atom : forall a rest k,
  atom_wf a -> atom_rok (hd_error rest) a ->
  p_nud (S k) (atom_toks a ++ rest) = Some (atom_tree a, rest).
Proof.
  intros a rest k Hwf Hr. destruct a as [v|t|n|v|a d b]; simpl in *.
  - reflexivity.
  - destruct t as [ty v]. simpl in *. destruct Hwf; subst ty; reflexivity.
  - destruct n as [v|v]; simpl.
    + apply number_tail_nodots. exact Hr.
    + rewrite minus_pre. simpl. apply number_tail_nodots. exact Hr.
  - reflexivity.
  - destruct d as [dty dv]. simpl in Hwf. subst dty.
    destruct a as [va|va]; simpl.
    + rewrite p_number_num. reflexivity.
    + rewrite minus_pre. simpl. rewrite p_number_num. reflexivity.
Qed.

(* main lemma: reading the yield of s and then continuing the operator loop
   from (erase s) gives the same result, within cost s extra fuel *)
Lemma expr_yield : forall s, wf s -> respects s ->
  forall m rest k res,
    fits m s -> rok (hd_error rest) s ->
    p_led k m (erase s) rest = Some res ->
    p_expr (cost s + k) m (yield s ++ rest) = Some res.
Proof.
  induction s as [a|t x IHx|t x IHx|t l IHl r IHr|x IHx|kw a IHa b IHb c IHc
                  |a IHa b IHb c IHc|kw vs body IHb];
    intros Hwf Hre m rest k res Hfit Hrok Hled.
  - (* atom *)
    simpl in Hwf, Hrok, Hled. destruct k as [|k]; [discriminate|].
    change (p_expr (cost (SAtom a) + S k) m (yield (SAtom a) ++ rest))
      with (p_expr (S (S (S k))) m (atom_toks a ++ rest)).
    rewrite p_expr_S.
    rewrite (nud_atom a rest (S k) Hwf Hrok).
    eapply led_mono; [|exact Hled]. lia.
  - (* prefix *)
    simpl in Hwf, Hre, Hrok, Hled. destruct Hwf as [Hp Hwx]. destruct Hre as [Hrx Hfx].
    destruct Hrok as [Hst Hrokx].
    destruct k as [|k]; [discriminate|].
    change (cost (SPre t x) + S k) with (cost x + 3 + S k).
    replace (cost x + 3 + S k) with (S (S (cost x + S (S k)))) by lia.
    change (yield (SPre t x) ++ rest) with (t :: (yield x ++ rest)).
    rewrite p_expr_S.
    unfold PrecSpec.pre_pbp in *.
    destruct (pt_pre T (tty t)) as [al|] eqn:Ep; [|congruence].
    rewrite (p_nud_pre _ _ _ _ Ep).
    rewrite (IHx Hwx Hrx (bind_of al) rest (S (S k)) (erase x, rest) Hfx Hrokx
               (led_stop _ _ _ _ Hst)).
    eapply led_mono; [|exact Hled]. lia.
  - (* postfix *)
    simpl in Hwf, Hre, Hfit, Hled. destruct Hwf as [Hb [Hp Hwx]]. destruct Hre as [Hrx Hrokx].
    destruct Hfit as [Hsh Hfx].
    change (cost (SPost t x) + k) with (cost x + 1 + k).
    replace (cost x + 1 + k) with (cost x + S k) by lia.
    change (yield (SPost t x) ++ rest) with ((yield x ++ [t]) ++ rest).
    rewrite <- app_assoc. simpl app.
    apply IHx; try assumption.
    unfold PrecSpec.post_lv in Hsh.
    destruct (pt_post T (tty t)) as [[[a lv] name]|] eqn:Eq; [|congruence].
    rewrite (p_led_post _ _ _ _ _ _ _ _ Hb Eq Hsh). exact Hled.
  - (* infix *)
    simpl in Hwf, Hre, Hfit, Hrok, Hled.
    destruct Hwf as [Hb [Hwl Hwr]]. destruct Hre as [Hrl [Hrr [Hrokl Hfr]]].
    destruct Hfit as [Hsh Hfl]. destruct Hrok as [Hst Hrokr].
    destruct k as [|k]; [discriminate|].
    change (cost (SBin t l r) + S k) with (cost l + cost r + 2 + S k).
    replace (cost l + cost r + 2 + S k) with (cost l + S (cost r + S (S k))) by lia.
    change (yield (SBin t l r) ++ rest) with ((yield l ++ t :: yield r) ++ rest).
    rewrite <- app_assoc. simpl app.
    apply IHl; try assumption.
    unfold PrecSpec.bin_lv, PrecSpec.bin_rbp in *.
    destruct (pt_bin T (tty t)) as [[[c a] lv]|] eqn:Eb; [|congruence].
    rewrite (p_led_bin _ _ _ _ _ _ _ _ Eb Hsh).
    rewrite (IHr Hwr Hrr (bind_of (a, lv)) rest (S (S k)) (erase r, rest) Hfr Hrokr
               (led_stop _ _ _ _ Hst)).
    eapply led_mono; [|exact Hled]. lia.
  - (* parentheses *)
    simpl in Hwf, Hre, Hled.
    destruct k as [|k]; [discriminate|].
    change (cost (SParen x) + S k) with (cost x + 3 + S k).
    replace (cost x + 3 + S k) with (S (S (cost x + S (S k)))) by lia.
    change (yield (SParen x) ++ rest) with (LPt :: (yield x ++ [RPt]) ++ rest).
    rewrite <- app_assoc. simpl app.
    rewrite p_expr_S, p_nud_paren.
    rewrite (IHx Hwf Hre 0%N (RPt :: rest) (S (S k)) (erase x, RPt :: rest)
               (fits0 x) (rok_RP x) (led_stop 0%N (RPt :: rest) _ _ (stops_RP 0%N))).
    simpl expect. cbv iota.
    eapply led_mono; [|exact Hled]. lia.
  - (* ite ( a , b , c ) *)
    simpl in Hwf, Hre, Hled.
    destruct Hwf as [Hkw [Hwa [Hwb Hwc]]]. destruct Hre as [Hra [Hrb Hrc]].
    destruct k as [|k]; [discriminate|].
    change (cost (SIte kw a b c) + S k) with (cost a + cost b + cost c + 5 + S k).
    replace (cost a + cost b + cost c + 5 + S k)
      with (S (S (cost a + cost b + cost c + 3 + S k))) by lia.
    change (yield (SIte kw a b c) ++ rest)
      with (kw :: LPt :: (yield a ++ CMt :: yield b ++ CMt :: yield c ++ [RPt]) ++ rest).
    repeat (rewrite <- app_assoc; simpl app).
    destruct kw as [kty kv]. simpl in Hkw. subst kty. simpl tval in *.
    rewrite p_expr_S, p_nud_ite.
    rewrite (expr_mono T (cost a + S (S k)) _ 0%N _
               (erase a, CMt :: yield b ++ CMt :: yield c ++ RPt :: rest));
      [| lia | apply IHa; auto using fits0, rok_CM; apply led_stop; apply stops_CM].
    simpl expect. cbv iota.
    rewrite (expr_mono T (cost b + S (S k)) _ 0%N _ (erase b, CMt :: yield c ++ RPt :: rest));
      [| lia | apply IHb; auto using fits0, rok_CM; apply led_stop; apply stops_CM].
    simpl expect. cbv iota.
    rewrite (expr_mono T (cost c + S (S k)) _ 0%N _ (erase c, RPt :: rest));
      [| lia | apply IHc; auto using fits0, rok_RP; apply led_stop; apply stops_RP].
    simpl expect. cbv iota.
    eapply led_mono; [|exact Hled]. lia.
  - (* IF a THEN b ELSE c *)
    simpl in Hwf, Hre, Hrok, Hled.
    destruct Hwf as [Hwa [Hwb Hwc]]. destruct Hre as [Hra [Hrb [Hrc Hfc]]].
    destruct Hrok as [Hst Hrokc].
    destruct k as [|k]; [discriminate|].
    change (cost (SIf a b c) + S k) with (cost a + cost b + cost c + 5 + S k).
    replace (cost a + cost b + cost c + 5 + S k)
      with (S (S (cost a + cost b + cost c + 3 + S k))) by lia.
    change (yield (SIf a b c) ++ rest)
      with (IFt :: (yield a ++ THENt :: yield b ++ ELSEt :: yield c) ++ rest).
    repeat (rewrite <- app_assoc; simpl app).
    rewrite p_expr_S, p_nud_if.
    rewrite (expr_mono T (cost a + S (S k)) _ 0%N _
               (erase a, THENt :: yield b ++ ELSEt :: yield c ++ rest));
      [| lia | apply IHa; auto using fits0; [apply rok_closer; [apply stops_THEN | reflexivity]
                                           | apply led_stop; apply stops_THEN]].
    simpl expect. cbv iota.
    rewrite (expr_mono T (cost b + S (S k)) _ 0%N _ (erase b, ELSEt :: yield c ++ rest));
      [| lia | apply IHb; auto using fits0; [apply rok_closer; [apply stops_ELSE | reflexivity]
                                           | apply led_stop; apply stops_ELSE]].
    simpl expect. cbv iota.
    rewrite (expr_mono T (cost c + S (S k)) _ (rule_bind T "IF_THEN_ELSE") _ (erase c, rest));
      [| lia | apply IHc; auto; apply led_stop; exact Hst].
    eapply led_mono; [|exact Hled]. lia.
  - (* quantifier *)
    simpl in Hwf, Hre, Hrok, Hled.
    destruct Hwf as [Hkw [Hne [Hvw Hwb]]]. destruct Hre as [Hrb Hfb].
    destruct Hrok as [Hst Hrokb].
    destruct k as [|k]; [discriminate|].
    change (cost (SQuant kw vs body) + S k) with (List.length vs + cost body + 6 + S k).
    replace (List.length vs + cost body + 6 + S k)
      with (S (S (List.length vs + 3 + (cost body + 1 + S k)))) by lia.
    change (yield (SQuant kw vs body) ++ rest)
      with (kw :: (vars_toks vs ++ COLONt :: yield body) ++ rest).
    repeat (rewrite <- app_assoc; simpl app).
    rewrite p_expr_S, (p_nud_quant _ _ _ Hkw).
    rewrite (p_list_vars vs (yield body ++ rest) _ Hne Hvw).
    simpl expect. cbv iota.
    rewrite (expr_mono T (cost body + S (S k)) _ (rule_bind T "COLON") _ (erase body, rest));
      [| lia | apply IHb; auto; apply led_stop; exact Hst].
    eapply led_mono; [|exact Hled]. lia.
Qed.

Lemma rok_None : forall s, rok None s.
Proof. apply rok_closer; simpl; auto. Qed.

Lemma atom_toks_nonempty : forall a, 1 <= List.length (atom_toks a).
Proof.
  destruct a as [v|t|n|v|a d b]; simpl; try lia.
  - destruct n; simpl; lia.
  - rewrite app_length. simpl. lia.
Qed.

Lemma vars_toks_length : forall vs, List.length vs <= List.length (vars_toks vs).
Proof.
  induction vs as [|v vs IH]; simpl; [lia|].
  destruct vs as [|v2 vs].
  - destruct v as [x [t|]]; simpl; lia.
  - rewrite app_length. simpl in *. destruct v as [x [t|]]; simpl; lia.
Qed.

Lemma cost_le : forall s, cost s <= 3 * List.length (yield s).
Proof.
  induction s; simpl; repeat (rewrite ?app_length; simpl); try lia.
  - pose proof (atom_toks_nonempty a). lia.
  - pose proof (vars_toks_length vars). lia.
Qed.

(* the first token after s, when s is followed by rest *)
Definition not_def (o : option token) : Prop :=
  match o with
  | Some t => is_ty t "DEF" = false
  | None => True
  end.

Lemma decl_false_pre : forall t, pt_pre T (tty t) <> None -> is_decl t = false.
Proof.
  intros t H. unfold is_decl.
  rewrite !(pre_not_kw t) by (assumption || (simpl; tauto)). reflexivity.
Qed.

Lemma not_module : forall s rest, wf s -> not_def (hd_error rest) ->
  is_module_start (yield s ++ rest) = false.
Proof.
  induction s as [a|t x IHx|t x IHx|t l IHl r IHr|x IHx|kw a IHa b IHb c IHc
                  |a IHa b IHb c IHc|kw vs body IHb];
    intros rest Hwf Hd.
  - destruct a as [v|t|n|v|a d b]; simpl in *.
    + destruct rest as [|t r]; [reflexivity|]. simpl in Hd. rewrite Hd. reflexivity.
    + destruct t as [ty v]. destruct Hwf; simpl in *; subst ty; destruct rest; reflexivity.
    + destruct n; destruct rest; reflexivity.
    + reflexivity.
    + destruct a; reflexivity.
  - simpl in Hwf. destruct Hwf as [Hp _].
    change (yield (SPre t x) ++ rest) with (t :: (yield x ++ rest)).
    unfold is_module_start. rewrite (decl_false_pre t Hp).
    rewrite (pre_not_kw t "NAME") by (assumption || (simpl; tauto)).
    destruct (yield x ++ rest); reflexivity.
  - simpl in Hwf. destruct Hwf as [Hb [Hp Hw]].
    change (yield (SPost t x) ++ rest) with ((yield x ++ [t]) ++ rest).
    rewrite <- app_assoc. apply IHx; [assumption|]. simpl.
    apply (op_not_nonop t "DEF"); [simpl; tauto | right; assumption].
  - simpl in Hwf. destruct Hwf as [Hb [Hwl Hwr]].
    change (yield (SBin t l r) ++ rest) with ((yield l ++ t :: yield r) ++ rest).
    rewrite <- app_assoc. apply IHl; [assumption|]. simpl.
    apply (op_not_nonop t "DEF"); [simpl; tauto | left; assumption].
  - change (yield (SParen x) ++ rest) with (LPt :: (yield x ++ [RPt]) ++ rest).
    unfold is_module_start. simpl. destruct ((yield x ++ [RPt]) ++ rest); reflexivity.
  - simpl in Hwf. destruct Hwf as [Hk _]. destruct kw as [ty v]. simpl in Hk. subst ty.
    reflexivity.
  - change (yield (SIf a b c) ++ rest)
      with (IFt :: (yield a ++ THENt :: yield b ++ ELSEt :: yield c) ++ rest).
    unfold is_module_start. simpl.
    destruct ((yield a ++ THENt :: yield b ++ ELSEt :: yield c) ++ rest); reflexivity.
  - simpl in Hwf. destruct Hwf as [Hk _]. destruct kw as [ty v]. simpl in Hk.
    change (yield (SQuant {| tty := ty; tval := v |} vs body) ++ rest)
      with ({| tty := ty; tval := v |} :: (vars_toks vs ++ COLONt :: yield body) ++ rest).
    destruct Hk; subst ty; unfold is_module_start; simpl;
      destruct ((vars_toks vs ++ COLONt :: yield body) ++ rest); reflexivity.
Qed.

(* prec_determines_tree: for every surface tree that groups its operators as
   the table demands, the parser applied to its token sequence returns
   exactly the tree it denotes. *)
Theorem prec_determines_tree : forall s,
  wf s -> respects s -> parse T (yield s) = Some (erase s).
Proof.
  intros s Hwf Hre. unfold parse.
  pose proof (not_module s [] Hwf I) as Hm. rewrite app_nil_r in Hm. rewrite Hm.
  assert (H : p_expr (parse_fuel (yield s)) 0 (yield s) = Some (erase s, [])).
  { eapply expr_mono with (n := cost s + 1).
    - unfold parse_fuel. pose proof (cost_le s). lia.
    - rewrite <- (app_nil_r (yield s)) at 1.
      apply expr_yield; auto using fits0, rok_None. }
  rewrite H. reflexivity.
Qed.

(* two surface trees that both respect the table and have the same token
   sequence denote the same syntax tree *)
Corollary respecting_tree_unique : forall s1 s2,
  wf s1 -> respects s1 -> wf s2 -> respects s2 ->
  yield s1 = yield s2 -> erase s1 = erase s2.
Proof.
  intros s1 s2 W1 R1 W2 R2 E.
  pose proof (prec_determines_tree s1 W1 R1) as H1.
  pose proof (prec_determines_tree s2 W2 R2) as H2.
  rewrite E in H1. rewrite H1 in H2. congruence.
Qed.

(* print then re-parse: RoundtripProofs.v (through the surface trees of the
   whole grammar, PrecFullSpec.v) *)

End Prec.

(* ------------------------------------------------------------------ *)
(* reading of `stops` in terms of levels: the loop of an operator with
   (assoc, level) = (a', lv') stops in front of an infix operator of level
   lv iff lv < lv', or lv = lv' and a' is not right-associative *)
Lemma stops_infix_level : forall T t c a lv a' lv',
  pt_bin T (tty t) = Some (c, a, lv) ->
  tok_stops T (bind_of (a', lv')) t = true <->
  (match a' with RightA => (lv < lv')%N | _ => (lv <= lv')%N end).
Proof.
  intros T t c a lv a' lv' H. unfold tok_stops. rewrite H.
  unfold can_shift, bind_of. cbn [fst snd]. rewrite negb_true_iff, N.leb_gt.
  destruct a'; lia.
Qed.

(* ---- alternative spellings (operator core) ---- *)
(* tokens of the same type whose values agree on identifiers, numbers and
   constants, and belong to the same class `cls` otherwise *)
Section Spell.
Variable T : ptable.
Variable cls : string -> string.

Definition tsim (a b : token) : Prop :=
  tty a = tty b /\ cls (tval a) = cls (tval b).

Definition nsim (a b : numlit) : Prop := a = b.

Definition asim (a b : atom) : Prop :=
  match a, b with
  | ABool s, ABool t => tsim s t
  | ARange x d y, ARange x' d' y' => x = x' /\ tsim d d' /\ y = y'
  | _, _ => a = b
  end.

Fixpoint ssim (s1 s2 : stree) : Prop :=
  match s1, s2 with
  | SAtom a, SAtom b => asim a b
  | SPre t x, SPre u y => tsim t u /\ ssim x y
  | SPost t x, SPost u y => tsim t u /\ ssim x y
  | SBin t l r, SBin u l' r' => tsim t u /\ ssim l l' /\ ssim r r'
  | SParen x, SParen y => ssim x y
  | SIte k a b c, SIte k' a' b' c' => tsim k k' /\ ssim a a' /\ ssim b b' /\ ssim c c'
  | SIf a b c, SIf a' b' c' => ssim a a' /\ ssim b b' /\ ssim c c'
  | SQuant k vs x, SQuant k' vs' x' => tsim k k' /\ vs = vs' /\ ssim x x'
  | _, _ => False
  end.

(* operator names up to their class; terminals are kept, except that
   Boolean constants are identified by class too *)
Fixpoint strip (t : tree) : tree :=
  match t with
  | Term KBool v => Term KBool (cls v)
  | Term k v => Term k v
  | Un op x => Un (cls op) (strip x)
  | Bin c op l r => Bin c (cls op) (strip l) (strip r)
  | Opr op xs => Opr (cls op) (map strip xs)
  | Lst xs => Lst (map strip xs)
  end.

Lemma ssim_fits : forall s1 s2 m, ssim s1 s2 -> fits T m s1 -> fits T m s2.
Proof.
  induction s1; destruct s2; simpl; try tauto; intros m H F.
  - destruct H as [[E _] Hx]. destruct F as [F1 F2]. unfold post_lv in *. rewrite <- E.
    eauto.
  - destruct H as [[E _] [Hl Hr]]. destruct F as [F1 F2]. unfold bin_lv in *. rewrite <- E.
    eauto.
Qed.

Lemma ssim_rok : forall s1 s2 o1 o2,
  ssim s1 s2 -> (match o1, o2 with Some a, Some b => tty a = tty b | None, None => True | _, _ => False end) ->
  rok T o1 s1 -> rok T o2 s2.
Proof.
  assert (St : forall m o1 o2,
    (match o1, o2 with Some a, Some b => tty a = tty b | None, None => True | _, _ => False end) ->
    stops T m o1 -> stops T m o2).
  { intros m [a|] [b|] E; simpl; try tauto. unfold tok_stops. rewrite E. tauto. }
  induction s1; destruct s2; simpl; try tauto; intros o1 o2 H Ho R.
  - destruct a, a0; simpl in *; try tauto; try discriminate; try (inversion H; subst; tauto).
    destruct o1 as [x|], o2 as [y|]; simpl in *; try tauto. rewrite <- Ho. assumption.
  - destruct H as [[E _] Hx]. destruct R as [R1 R2]. unfold pre_pbp in *. rewrite <- E.
    split; eauto.
  - destruct H as [[E _] [Hl Hr]]. destruct R as [R1 R2]. unfold bin_rbp in *. rewrite <- E.
    split; eauto.
  - destruct H as [Ha [Hb Hc]]. destruct R as [R1 R2]. split; eauto.
  - destruct H as [_ [_ Hx]]. destruct R as [R1 R2]. split; eauto.
Qed.

Lemma ssim_wf : forall s1 s2, ssim s1 s2 -> wf T s1 -> wf T s2.
Proof.
  induction s1; destruct s2; simpl; try tauto; intros H W.
  - destruct a, a0; simpl in *; try tauto; try discriminate; try (inversion H; subst; tauto).
    + destruct H as [E _]. rewrite <- E. assumption.
    + destruct H as [_ [[E _] _]]. rewrite <- E. assumption.
  - destruct H as [[E _] Hx]. rewrite <- E. intuition eauto.
  - destruct H as [[E _] Hx]. rewrite <- E. intuition eauto.
  - destruct H as [[E _] [Hl Hr]]. rewrite <- E. intuition eauto.
  - eauto.
  - destruct H as [[E _] [Ha [Hb Hc]]]. rewrite <- E. intuition eauto.
  - destruct H as [Ha [Hb Hc]]. intuition eauto.
  - destruct H as [[E _] [Ev Hx]]. subst. rewrite <- E. intuition eauto.
Qed.

Lemma ssim_respects : forall s1 s2, ssim s1 s2 -> respects T s1 -> respects T s2.
Proof.
  induction s1; destruct s2; simpl; try tauto; intros H R.
  - destruct H as [[E C] Hx]. destruct R as [R1 R2]. split; [eauto|].
    unfold pre_pbp in *. rewrite <- E. eapply ssim_fits; eauto.
  - destruct H as [[E C] Hx]. destruct R as [R1 R2]. split; [eauto|].
    eapply ssim_rok; eauto. simpl. assumption.
  - destruct H as [[E C] [Hl Hr]]. destruct R as [R1 [R2 [R3 R4]]].
    repeat split; eauto.
    + eapply ssim_rok; eauto. simpl. assumption.
    + unfold bin_rbp in *. rewrite <- E. eapply ssim_fits; eauto.
  - eauto.
  - destruct H as [_ [Ha [Hb Hc]]]. intuition eauto.
  - destruct H as [Ha [Hb Hc]]. destruct R as [R1 [R2 [R3 R4]]].
    repeat split; eauto. eapply ssim_fits; eauto.
  - destruct H as [_ [_ Hx]]. destruct R as [R1 R2].
    split; eauto. eapply ssim_fits; eauto.
Qed.

Lemma ssim_erase : forall s1 s2, ssim s1 s2 ->
  strip (erase T s1) = strip (erase T s2).
Proof.
  induction s1; destruct s2; simpl; try tauto; intros H.
  - destruct a, a0; simpl in *; try tauto; try discriminate;
      try (inversion H; subst; reflexivity).
    + destruct H as [_ C]. rewrite C. reflexivity.
    + destruct H as [E1 [[_ C] E2]]. subst. rewrite C. reflexivity.
  - destruct H as [[E C] Hx]. rewrite C, (IHs1 _ Hx). reflexivity.
  - destruct H as [[E C] Hx]. rewrite <- E.
    destruct (pt_post T (tty t)) as [[[a lv] name]|]; simpl; rewrite ?C, (IHs1 _ Hx); reflexivity.
  - destruct H as [[E C] [Hl Hr]]. rewrite <- E.
    destruct (pt_bin T (tty t)) as [[[c a] lv]|]; simpl;
      rewrite C, (IHs1_1 _ Hl), (IHs1_2 _ Hr); reflexivity.
  - eauto.
  - destruct H as [[E C] [Ha [Hb Hc]]].
    rewrite C, (IHs1_1 _ Ha), (IHs1_2 _ Hb), (IHs1_3 _ Hc). reflexivity.
  - destruct H as [Ha [Hb Hc]].
    rewrite (IHs1_1 _ Ha), (IHs1_2 _ Hb), (IHs1_3 _ Hc). reflexivity.
  - destruct H as [[E C] [Ev Hx]]. subst.
    rewrite C, (IHs1 _ Hx). reflexivity.
Qed.

End Spell.

(* spellings (operator core): two token sequences that are the yields of
   surface trees of the same shape whose tokens agree in type and in class
   of spelling parse to trees that are equal up to the class of each
   operator name *)
Theorem spellings_core : forall T cls, table_ok T = true ->
  forall s1 s2, ssim cls s1 s2 -> wf T s1 -> respects T s1 ->
  parse T (yield s1) = Some (erase T s1) /\
  parse T (yield s2) = Some (erase T s2) /\
  strip cls (erase T s1) = strip cls (erase T s2).
Proof.
  intros T cls Hok s1 s2 H W R. repeat split.
  - apply prec_determines_tree; assumption.
  - apply prec_determines_tree; [assumption | eapply ssim_wf | eapply ssim_respects]; eauto.
  - apply ssim_erase. assumption.
Qed.
