(* Model level (arbitrary iterate lists): classification of the steps the
   Rabin transducer model allows when the environment keeps its action.
   Every such step is
     a descent to the previous persistence basin           (rho_1; the part of
       rho_1 that serves level 0 - the repair of finding F3: steps out of
       cpre(FALSE) towards the EMPTY basin - contains no step in which the
       environment keeps its action, [ca_false_breaks_env]),
     the choice of a persistence set at a rim              (rho_2),
     a descent in the attractor of the pursued goal        (rho_3), or
     an advance to the next recurrence goal at a goal state (rho_4),
   with the exact side conditions (memory before/after, the recorded iterate
   that is left and the one that is reached).  Consequence: every such step
   reaches one of the recorded iterates. *)
From Coq Require Import List Bool Arith Lia.
Import ListNotations.
From Omega Require Import L4.Arena L4.ArenaFacts L4.Kleene L4.GameSpec.
From OmegaGen Require Import FixpointGen Gr1Gen.
From OmegaGP Require Import TransducerModel CaSpec StreettTProofs StreettNB1
  StreettClosure1 StreettLive1.

Lemma last_cons_def {A} (y : A) yr d : last (y :: yr) d = last yr y.
Proof.
  revert y d. induction yr as [|b l IH]; intros y d; [reflexivity|].
  change (last (y :: b :: l) d) with (last (b :: l) d). rewrite !IH. reflexivity.
Qed.

Lemma fold_left_pr {A A' B} (pi : A -> A') (f : A -> B -> A) (f' : A' -> B -> A') :
  (forall a b, pi (f a b) = f' (pi a) b) ->
  forall l a, pi (fold_left f l a) = fold_left f' l (pi a).
Proof.
  intros H l. induction l as [|b l IH]; intros a; cbn [fold_left]; [reflexivity|].
  rewrite IH, H. reflexivity.
Qed.

Section Thread.
Variables nc nx ny : nat.
Local Notation bor := (Arena.bor nc nx ny).

(* a fold that accumulates a disjunction while threading the previous element *)
Lemma thread_inv {A} (term : bdd -> A -> bdd) (nb : A -> bdd) l : forall r b v,
  fst (fold_left (fun p a => (bor (fst p) (term (snd p) a), nb a)) l (r, b)) v = true ->
  r v = true \/
  exists l1 a l2, l = l1 ++ a :: l2 /\ term (last (map nb l1) b) a v = true.
Proof.
  induction l as [|a l IH]; intros r b v; cbn [fold_left fst snd]; [auto|].
  intros Hf. destruct (IH _ _ _ Hf) as [Hr|[l1 [a' [l2 [Hl Ht]]]]].
  - rewrite bor_spec in Hr. apply orb_true_iff in Hr. destruct Hr as [Hr|Hr]; [auto|].
    right. exists [], a, l. auto.
  - right. exists (a :: l1), a', l2. split; [rewrite Hl; reflexivity|].
    cbn [map]. rewrite last_cons_def. exact Ht.
Qed.

Lemma outer_inv' {A} (term : nat -> A -> bdd) l : forall k acc v,
  fold_left (fun acc '(i, a) => bor acc (term i a)) (enumerate k l) acc v = true ->
  acc v = true \/ exists j a, nth_error l j = Some a /\ term (k + j) a v = true.
Proof.
  induction l as [|a l IH]; intros k acc v; cbn [enumerate fold_left]; [auto|].
  intros Hf. destruct (IH _ _ _ Hf) as [H|[j [a' [Hj Ht]]]].
  - rewrite bor_spec in H. apply orb_true_iff in H. destruct H as [H|H]; [auto|].
    right. exists 0, a. rewrite Nat.add_0_r. auto.
  - right. exists (Datatypes.S j), a'. cbn [nth_error]. split; [exact Hj|].
    rewrite Nat.add_succ_r. exact Ht.
Qed.

(* nested indexed disjunctions *)
Lemma nested_inv {A B} (sub : A -> list B) (term : nat -> nat -> B -> bdd) l :
  forall k acc v,
  fold_left (fun acc '(i, a) =>
      fold_left (fun acc '(j, b) => bor acc (term i j b)) (enumerate 0 (sub a)) acc)
    (enumerate k l) acc v = true ->
  acc v = true \/
  exists i a j b, nth_error l i = Some a /\ nth_error (sub a) j = Some b /\
                  term (k + i) j b v = true.
Proof.
  induction l as [|a l IH]; intros k acc v; cbn [enumerate fold_left]; [auto|].
  intros Hf. destruct (IH _ _ _ Hf) as [Ha|[i [a' [j [b [Hi [Hj Ht]]]]]]].
  - destruct (outer_inv' (fun j b => term k j b) (sub a) 0 acc v) as [H0|[j [b [Hj Ht]]]].
    + exact Ha.
    + auto.
    + right. exists 0, a, j, b. rewrite Nat.add_0_r. cbn [nth_error Nat.add] in *. auto.
  - right. exists (Datatypes.S i), a', j, b. cbn [nth_error]. rewrite Nat.add_succ_r.
    auto.
Qed.
End Thread.

Section Kinds.
Variables nc nx ny H G : nat.
Variables E S : bdd.
Variables holds goals : list bdd.
Variables moore plus_one : bool.
Variables (zk : list bdd) (yki : list (list bdd)) (xkijr : list (list (list (list bdd)))).

Local Notation M := (H * G).
Local Notation nyE := (ny * M).
Local Notation band := (Arena.band nc nx nyE).
Local Notation bor := (Arena.bor nc nx nyE).
Local Notation bnot := (Arena.bnot nc nx nyE).
Local Notation inr := (inr nc nx nyE).
Local Notation ca := (Gr1Gen.controllable_action nc nx nyE E S moore plus_one 0).
Local Notation step := (FixpointGen.step nc nx nyE moore plus_one 0).
Local Notation rg := (rg H G).
Local Notation rh := (rh H G).
Local Notation rgp := (rgp H G).
Local Notation rhp := (rhp H G).
Local Notation mp := (mp nc nx ny H G).
Local Notation none := (length holds).
Local Notation rounds := (combine (combine zk yki) xkijr).

Definition tz (t : bdd * list bdd * list (list (list bdd))) : bdd := fst (fst t).

(* the rim of a round: in its z, outside the previous basin and outside the
   controllable predecessor of the previous basin *)
Definition at_rim (T1 : list (bdd * list bdd * list (list (list bdd)))) (z : bdd) (v : V) : Prop :=
  z v = true /\ last (map tz T1) bfalse v = false /\
  step E S (last (map tz T1) bfalse) v = false.

Inductive kind (v : V) : Prop :=
| k_down l1 z l2 :
    tl zk = l1 ++ z :: l2 ->
    z v = true -> last l1 (hd bfalse zk) v = false ->
    last l1 (hd bfalse zk) (nextpt v) = true ->
    rgp v = rg v -> rhp v = none -> kind v
| k_pick T1 z yi xijr T2 i y :
    rounds = T1 ++ (z, yi, xijr) :: T2 -> at_rim T1 z v ->
    rh v = none -> rgp v = rg v ->
    nth_error yi i = Some y -> rhp v = i -> y (nextpt v) = true -> kind v
| k_desc T1 z yi xijr T2 xjr xr goal l1 x l2 :
    rounds = T1 ++ (z, yi, xijr) :: T2 -> at_rim T1 z v ->
    rh v <> none -> rhp v = rh v -> rgp v = rg v ->
    nth_error xijr (rh v) = Some xjr ->
    nth_error (combine xjr goals) (rg v) = Some (xr, goal) ->
    goal v = false ->
    tl xr = l1 ++ x :: l2 ->
    x v = true -> last l1 (hd bfalse xr) v = false ->
    last l1 (hd bfalse xr) (nextpt v) = true -> kind v
| k_adv T1 z yi xijr T2 goal y :
    rounds = T1 ++ (z, yi, xijr) :: T2 -> at_rim T1 z v ->
    rh v <> none -> rhp v = rh v -> rgp v = (rg v + 1) mod length goals ->
    nth_error goals (rg v) = Some goal -> goal v = true ->
    nth_error yi (rh v) = Some y -> y (nextpt v) = true -> kind v.

Lemma mp_true f v : mp f v = true -> f v = true.
Proof. unfold TransducerModel.mp. rewrite memo_id. auto. Qed.

Lemma rim_unfold basin z v :
  band (band z (bnot basin)) (bnot (step E S basin)) v = true ->
  z v = true /\ basin v = false /\ step E S basin v = false.
Proof.
  rewrite !band_spec, !bnot_spec, !andb_true_iff, !negb_true_iff. tauto.
Qed.

(* the disjunction over the persistence sets of a round *)
Lemma vsel_inv (K : nat -> V -> bool) yi v :
  inr v -> E v = true ->
  fold_left (fun acc '(i, y) => bor acc (band (mp (K i)) (ca y None)))
    (enumerate 0 yi) bfalse v = true ->
  exists i y, nth_error yi i = Some y /\ K i v = true /\ y (nextpt v) = true.
Proof.
  intros Hv He Hf.
  destruct (outer_inv' nc nx nyE (fun i y => band (mp (K i)) (ca y None)) yi 0 bfalse v Hf)
    as [H0|[i [y [Hi Ht]]]]; [discriminate|].
  cbn [Nat.add] in Ht. rewrite band_spec in Ht. apply andb_true_iff in Ht.
  destruct Ht as [Hk Hc]. apply mp_true in Hk.
  destruct (ca_env_target nc nx ny M E S moore plus_one _ _ v Hv Hc He) as [Ht _].
  exists i, y. auto.
Qed.

(* A controllable action towards the EMPTY set contains no step in which the
   environment keeps its action: the level-0 part of rho_1 (steps out of
   cpre(FALSE)) ends the behaviour / makes the environment lose.  Closure and
   liveness therefore have nothing to show for these steps. *)
Lemma ca_false_breaks_env e v : inr v -> ca bfalse e v = true -> E v = false.
Proof.
  intros Hv Hca. destruct (E v) eqn:He; [|reflexivity].
  destruct (ca_env_target nc nx ny M E S moore plus_one _ _ v Hv Hca He) as [Hn _].
  discriminate Hn.
Qed.

Theorem rabin_step_kinds v :
  inr v ->
  rabin_action nc nx ny H G E S holds goals moore plus_one zk yki xkijr v = true ->
  E v = true -> kind v.
Proof.
  intros Hv HA He.
  unfold rabin_action, rabin_action_k in HA. cbv beta zeta in HA.
  match type of HA with context [fold_left ?f rounds ?a] =>
    set (F2 := f) in HA; set (a2 := a) in HA end.
  match type of HA with context [fold_left ?f zk ?a] =>
    set (F1 := f) in HA; set (a1 := a) in HA end.
  (* generic forms of the two folds *)
  set (t1 := fun (basin z : bdd) =>
    band (band (band z (bnot basin)) (ca basin None))
         (mp (fun v => Nat.eqb (rgp v) (rg v) && Nat.eqb (rhp v) none))).
  assert (E1 : fold_left F1 zk a1 =
               fold_left (fun p z => (bor (fst p) (t1 (snd p) z), z)) zk a1).
  { apply fold_left_ext. intros [r b] z. reflexivity. }
  set (rim := fun (basin z : bdd) => band (band z (bnot basin)) (bnot (step E S basin))).
  set (t2 := fun (basin : bdd) (t : bdd * list bdd * list (list (list bdd))) =>
    band (band (rim basin (tz t))
               (mp (fun v => Nat.eqb (rgp v) (rg v) && Nat.eqb (rh v) none)))
         (fold_left (fun acc '(i, y) =>
              bor acc (band (mp (fun v => Nat.eqb (rhp v) i)) (ca y None)))
            (enumerate 0 (snd (fst t))) bfalse)).
  set (px := fun xr : list bdd =>
    fst (fold_left (fun p x =>
           (bor (fst p) (band (band (ca (snd p) None) (bnot (snd p))) x), x))
         (tl xr) (bfalse, hd bfalse xr))).
  set (t3 := fun (basin : bdd) (t : bdd * list bdd * list (list (list bdd))) =>
    band (band (rim basin (tz t))
               (mp (fun v => Nat.eqb (rgp v) (rg v) && negb (Nat.eqb (rh v) none)
                             && Nat.eqb (rhp v) (rh v))))
         (fold_left (fun acc '(i, xjr) =>
              fold_left (fun acc '(j, xg) =>
                  bor acc (band (band (px (fst xg))
                                      (mp (fun v => Nat.eqb (rg v) j && Nat.eqb (rh v) i)))
                                (bnot (snd xg))))
                (enumerate 0 (combine xjr goals)) acc)
            (enumerate 0 (snd t)) bfalse)).
  set (t4 := fun (basin : bdd) (t : bdd * list bdd * list (list (list bdd))) =>
    band (ca btrue (Some
            (band (band (fold_left (fun acc '(j, goal) =>
                             bor acc (band (mp (fun v => Nat.eqb (rg v) j
                                              && Nat.eqb (rgp v) ((j + 1) mod length goals))) goal))
                           (enumerate 0 goals) bfalse)
                        (mp (fun v => negb (Nat.eqb (rh v) none) && Nat.eqb (rhp v) (rh v))))
                  (rim basin (tz t)))))
         (fold_left (fun acc '(i, y) =>
              bor acc (band (mp (fun v => Nat.eqb (rh v) i)) (ca y None)))
            (enumerate 0 (snd (fst t))) bfalse)).
  set (G2 := fun (p : bdd * bdd * bdd * bdd) t =>
    (bor (fst (fst (fst p))) (t2 (snd p) t), bor (snd (fst (fst p))) (t3 (snd p) t),
     bor (snd (fst p)) (t4 (snd p) t), tz t)).
  assert (E2 : fold_left F2 rounds a2 = fold_left G2 rounds a2).
  { apply fold_left_ext. intros [[[r2 r3] r4] b] [[z yi] xijr].
    unfold F2, G2, t2, t3, t4, rim, tz. cbn [fst snd]. f_equal. f_equal. f_equal.
    f_equal. f_equal.
    apply fold_left_ext. intros acc [i xjr]. apply fold_left_ext. intros acc2 [j [xr goal]].
    unfold px. cbn [fst snd].
    match goal with |- context [fold_left ?f (tl xr) ?a] =>
      assert (Ep : fold_left f (tl xr) a =
                   fold_left (fun p x =>
                     (bor (fst p) (band (band (ca (snd p) None) (bnot (snd p))) x), x))
                     (tl xr) a)
        by (apply fold_left_ext; intros [p xb] x; reflexivity);
      rewrite Ep; clear Ep end.
    destruct (fold_left _ (tl xr) _) as [p xb]. reflexivity. }
  (* projections of the 4-tuple fold *)
  assert (P2 : forall l a, (fst (fst (fst (fold_left G2 l a))), snd (fold_left G2 l a)) =
               fold_left (fun p t => (bor (fst p) (t2 (snd p) t), tz t)) l
                 (fst (fst (fst a)), snd a)).
  { apply (fold_left_pr (fun p : bdd * bdd * bdd * bdd => (fst (fst (fst p)), snd p))).
    intros [[[r2 r3] r4] b] t. reflexivity. }
  assert (P3 : forall l a, (snd (fst (fst (fold_left G2 l a))), snd (fold_left G2 l a)) =
               fold_left (fun p t => (bor (fst p) (t3 (snd p) t), tz t)) l
                 (snd (fst (fst a)), snd a)).
  { apply (fold_left_pr (fun p : bdd * bdd * bdd * bdd => (snd (fst (fst p)), snd p))).
    intros [[[r2 r3] r4] b] t. reflexivity. }
  assert (P4 : forall l a, (snd (fst (fold_left G2 l a)), snd (fold_left G2 l a)) =
               fold_left (fun p t => (bor (fst p) (t4 (snd p) t), tz t)) l
                 (snd (fst a), snd a)).
  { apply (fold_left_pr (fun p : bdd * bdd * bdd * bdd => (snd (fst p), snd p))).
    intros [[[r2 r3] r4] b] t. reflexivity. }
  rewrite E1, E2 in HA. clearbody F1 F2. clear E1 E2 F1 F2.
  specialize (P2 rounds a2). specialize (P3 rounds a2). specialize (P4 rounds a2).
  pose proof (thread_inv nc nx nyE t1 (fun z => z) zk bfalse bfalse v) as I1.
  fold a1 in I1.
  destruct (fold_left _ zk a1) as [rho_1 b1].
  destruct (fold_left G2 rounds a2) as [[[rho_2 rho_3] rho_4] b2].
  cbn [fst snd] in *.
  assert (Hu0 : bor (bor (bor rho_1 rho_2) rho_3) rho_4 v = true).
  { destruct plus_one; cbn [negb] in HA.
    - rewrite band_spec in HA. apply andb_true_iff in HA. apply HA.
    - destruct moore.
      + rewrite forall_spec in HA. cbn [forall_raw dom] in HA. rewrite forallb_forall in HA.
        specialize (HA _ (inr_vxp' nc nx ny M v Hv)).
        replace (setg Envp v (vxp v)) with v in HA by (destruct v; reflexivity).
        rewrite bor_spec, bnot_spec, He in HA. cbn [negb] in HA. rewrite orb_false_r in HA.
        rewrite band_spec in HA. apply andb_true_iff in HA. apply HA.
      + rewrite bor_spec, bnot_spec, He in HA. cbn [negb] in HA. rewrite orb_false_r in HA.
        rewrite band_spec in HA. apply andb_true_iff in HA. apply HA. }
  clear HA. rewrite !bor_spec in Hu0.
  apply orb_true_iff in Hu0. destruct Hu0 as [Hu0|H4].
  apply orb_true_iff in Hu0. destruct Hu0 as [Hu0|H3].
  apply orb_true_iff in Hu0. destruct Hu0 as [H1|H2].
  - (* rho_1 *)
    destruct (I1 H1) as [Hf|[l1 [z [l2 [Hl Ht]]]]]; [discriminate|].
    rewrite map_id in Ht. unfold t1 in Ht.
    rewrite !band_spec, bnot_spec in Ht.
    apply andb_true_iff in Ht. destruct Ht as [Ht Hc].
    apply andb_true_iff in Ht. destruct Ht as [Ht Hca].
    apply andb_true_iff in Ht. destruct Ht as [Hz Hb]. apply negb_true_iff in Hb.
    apply mp_true in Hc. apply andb_true_iff in Hc. destruct Hc as [C1 C2].
    apply Nat.eqb_eq in C1, C2.
    destruct l1 as [|z0 l1'].
    + (* level 0, towards the empty basin: the environment breaks its action *)
      cbn [last] in Hca. rewrite (ca_false_breaks_env None v Hv Hca) in He. discriminate He.
    + destruct (ca_env_target nc nx ny M E S moore plus_one _ _ v Hv Hca He) as [Hn _].
      rewrite last_cons_def in Hb, Hn.
      assert (Htl : tl zk = l1' ++ z :: l2) by (rewrite Hl; reflexivity).
      assert (Hhd : hd bfalse zk = z0) by (rewrite Hl; reflexivity).
      rewrite <- Hhd in Hb, Hn.
      apply (k_down v l1' z l2 Htl Hz Hb Hn C1 C2).
  - (* rho_2 *)
    pose proof (thread_inv nc nx nyE t2 tz rounds bfalse bfalse v) as I2.
    unfold a2 in P2. cbn [fst snd] in P2. rewrite <- P2 in I2. cbn [fst] in I2.
    destruct (I2 H2) as [Hf|[T1 [[[z yi] xijr] [T2 [Hl Ht]]]]]; [discriminate|].
    unfold t2 in Ht. cbn [tz fst snd] in Ht. rewrite band_spec in Ht.
    apply andb_true_iff in Ht. destruct Ht as [Ht Hsel].
    rewrite band_spec in Ht. apply andb_true_iff in Ht. destruct Ht as [Hrim Hc].
    apply rim_unfold in Hrim. apply mp_true in Hc. apply andb_true_iff in Hc.
    destruct Hc as [C1 C2]. apply Nat.eqb_eq in C1, C2.
    destruct (vsel_inv (fun i v => Nat.eqb (rhp v) i) yi v Hv He Hsel) as [i [y [Hi [Hk Hy]]]].
    apply Nat.eqb_eq in Hk.
    apply (k_pick v T1 z yi xijr T2 i y Hl Hrim C2 C1 Hi Hk Hy).
  - (* rho_3 *)
    pose proof (thread_inv nc nx nyE t3 tz rounds bfalse bfalse v) as I3.
    unfold a2 in P3. cbn [fst snd] in P3. rewrite <- P3 in I3. cbn [fst] in I3.
    destruct (I3 H3) as [Hf|[T1 [[[z yi] xijr] [T2 [Hl Ht]]]]]; [discriminate|].
    unfold t3 in Ht. cbn [tz fst snd] in Ht. rewrite band_spec in Ht.
    apply andb_true_iff in Ht. destruct Ht as [Ht Hsel].
    rewrite band_spec in Ht. apply andb_true_iff in Ht. destruct Ht as [Hrim Hc].
    apply rim_unfold in Hrim. apply mp_true in Hc. apply andb_true_iff in Hc.
    destruct Hc as [Hc C3]. apply andb_true_iff in Hc. destruct Hc as [C1 C2].
    apply Nat.eqb_eq in C1, C3. apply negb_true_iff in C2. apply Nat.eqb_neq in C2.
    destruct (nested_inv nc nx nyE (fun xjr : list (list bdd) => combine xjr goals)
                (fun i j xg => band (band (px (fst xg))
                                 (mp (fun v => Nat.eqb (rg v) j && Nat.eqb (rh v) i)))
                               (bnot (snd xg)))
                xijr 0 bfalse v Hsel)
      as [Hf|[i [xjr [j [[xr goal] [Hi [Hj Ht]]]]]]]; [discriminate|].
    cbn [Nat.add fst snd] in Ht. rewrite !band_spec, bnot_spec in Ht.
    apply andb_true_iff in Ht. destruct Ht as [Ht Hg]. apply negb_true_iff in Hg.
    apply andb_true_iff in Ht. destruct Ht as [Hp Hc]. apply mp_true in Hc.
    apply andb_true_iff in Hc. destruct Hc as [D1 D2]. apply Nat.eqb_eq in D1, D2.
    unfold px in Hp.
    destruct (thread_inv nc nx nyE (fun xb x => band (band (ca xb None) (bnot xb)) x)
                (fun x => x) (tl xr) bfalse (hd bfalse xr) v Hp)
      as [Hf|[l1 [x [l2 [Hlx Htx]]]]]; [discriminate|].
    rewrite map_id in Htx. rewrite !band_spec, bnot_spec in Htx.
    apply andb_true_iff in Htx. destruct Htx as [Htx Hx].
    apply andb_true_iff in Htx. destruct Htx as [Hca Hxb]. apply negb_true_iff in Hxb.
    destruct (ca_env_target nc nx ny M E S moore plus_one _ _ v Hv Hca He) as [Hn _].
    subst i j.
    apply (k_desc v T1 z yi xijr T2 xjr xr goal l1 x l2 Hl Hrim C2 C3 C1 Hi Hj Hg Hlx Hx Hxb Hn).
  - (* rho_4 *)
    pose proof (thread_inv nc nx nyE t4 tz rounds bfalse bfalse v) as I4.
    unfold a2 in P4. cbn [fst snd] in P4. rewrite <- P4 in I4. cbn [fst] in I4.
    destruct (I4 H4) as [Hf|[T1 [[[z yi] xijr] [T2 [Hl Ht]]]]]; [discriminate|].
    unfold t4 in Ht. cbn [tz fst snd] in Ht. rewrite band_spec in Ht.
    apply andb_true_iff in Ht. destruct Ht as [Hca Hsel].
    destruct (ca_env_target nc nx ny M E S moore plus_one _ _ v Hv Hca He) as [_ Hex].
    rewrite !band_spec in Hex. apply andb_true_iff in Hex. destruct Hex as [Hex Hrim].
    change (rim (last (map tz T1) bfalse) z v = true) in Hrim. unfold rim in Hrim.
    apply rim_unfold in Hrim.
    apply andb_true_iff in Hex. destruct Hex as [Hgo Hc]. apply mp_true in Hc.
    apply andb_true_iff in Hc. destruct Hc as [C1 C2].
    apply negb_true_iff in C1. apply Nat.eqb_neq in C1. apply Nat.eqb_eq in C2.
    destruct (outer_inv' nc nx nyE
                (fun j goal => band (mp (fun v => Nat.eqb (rg v) j
                                  && Nat.eqb (rgp v) ((j + 1) mod length goals))) goal)
                goals 0 bfalse v Hgo) as [Hf|[j [goal [Hj Htg]]]]; [discriminate|].
    cbn [Nat.add] in Htg. rewrite band_spec in Htg. apply andb_true_iff in Htg.
    destruct Htg as [Hc Hg]. apply mp_true in Hc. apply andb_true_iff in Hc.
    destruct Hc as [D1 D2]. apply Nat.eqb_eq in D1, D2.
    destruct (vsel_inv (fun i v => Nat.eqb (rh v) i) yi v Hv He Hsel) as [i [y [Hi [Hk Hy]]]].
    apply Nat.eqb_eq in Hk. subst i j.
    apply (k_adv v T1 z yi xijr T2 goal y Hl Hrim C1 C2 D2 Hj Hg Hi Hy).
Qed.

(* ---- closure, model level ---------------------------------------------- *)
(* the point reached belongs to one of the recorded iterates *)
Definition RQ (w : V) : Prop :=
  (exists z, In z zk /\ z w = true) \/
  (exists yi y, In yi yki /\ In y yi /\ y w = true) \/
  (exists xijr xjr xr x, In xijr xkijr /\ In xjr xijr /\ In xr xjr /\ In x xr /\ x w = true).

Lemma last_in_hd_tl {A} (l l1 l2 : list A) (z d : A) :
  tl l = l1 ++ z :: l2 -> In (last l1 (hd d l)) l.
Proof.
  destruct l as [|a l]; [destruct l1; discriminate|]. cbn [tl hd]. intros Hl.
  destruct l1 as [|b l1]; [left; reflexivity|]. right. rewrite Hl.
  apply in_or_app. left.
  destruct (exists_last (l := b :: l1)) as [l' [c Hc]]; [discriminate|].
  rewrite Hc, last_last. apply in_or_app. right. left. reflexivity.
Qed.

Lemma round_in T1 z yi xijr T2 :
  rounds = T1 ++ (z, yi, xijr) :: T2 -> In z zk /\ In yi yki /\ In xijr xkijr.
Proof.
  intros Hl. assert (Hin : In (z, yi, xijr) rounds) by (rewrite Hl; apply in_elt).
  pose proof (in_combine_l _ _ _ _ Hin) as H1. pose proof (in_combine_r _ _ _ _ Hin) as H2.
  pose proof (in_combine_l _ _ _ _ H1). pose proof (in_combine_r _ _ _ _ H1). auto.
Qed.

Theorem rabin_action_hits v :
  inr v ->
  rabin_action nc nx ny H G E S holds goals moore plus_one zk yki xkijr v = true ->
  E v = true -> RQ (nextpt v).
Proof.
  intros Hv HA He.
  destruct (rabin_step_kinds v Hv HA He)
    as [l1 z l2 Hl Hz Hb Hn _ _
       |T1 z yi xijr T2 i y Hl _ _ _ Hi _ Hy
       |T1 z yi xijr T2 xjr xr goal l1 x l2 Hl _ _ _ _ Hi Hj _ Hlx _ _ Hn
       |T1 z yi xijr T2 goal y Hl _ _ _ _ _ _ Hi Hy].
  - left. exists (last l1 (hd bfalse zk)). split; [|exact Hn].
    apply (last_in_hd_tl zk l1 l2 z bfalse Hl).
  - right. left. exists yi, y. destruct (round_in _ _ _ _ _ Hl) as [_ [Hyi _]].
    split; [exact Hyi|]. split; [apply (nth_error_In _ _ Hi)|exact Hy].
  - right. right. destruct (round_in _ _ _ _ _ Hl) as [_ [_ Hx]].
    exists xijr, xjr, xr, (last l1 (hd bfalse xr)).
    split; [exact Hx|]. split; [apply (nth_error_In _ _ Hi)|].
    split; [apply (in_combine_l _ _ _ _ (nth_error_In _ _ Hj))|].
    split; [apply (last_in_hd_tl xr l1 l2 x bfalse Hlx)|exact Hn].
  - right. left. exists yi, y. destruct (round_in _ _ _ _ _ Hl) as [_ [Hyi _]].
    split; [exact Hyi|]. split; [apply (nth_error_In _ _ Hi)|exact Hy].
Qed.

End Kinds.
