(* "Whenever the verdict is true and the winning region is non-empty,
   constructing the implementation succeeds" (C03), for the TRANSLATED
   Streett(1) construction: none of its refusals (is_realizable, the
   non-empty-action assertion, _make_init's assertion) fires. *)
From Coq Require Import List Bool Arith Lia.
Import ListNotations.
From Omega Require Import L4.Arena L4.ArenaFacts L4.Kleene.
From OmegaGen Require Import FixpointGen Gr1Gen TransducerGen.
From OmegaGP Require Import TransducerModel TransducerBridge InitProofs StreettNB2 StreettIter2.

Section Succeeds.
Variables nc nx ny : nat.
Variables E S EI SI : bdd.
Variables holds goals : list bdd.
Variables moore plus_one : bool.
Variable qinit : qinit_t.
Variables fuel G : nat.
Hypothesis Hf : NV nc nx ny <= fuel.
Hypothesis Sh : Forall spred holds.
Hypothesis Sg : Forall spred goals.
Hypothesis HG : 0 < G.
Hypothesis HnG : length goals <= G.
Hypothesis Hgoals : 0 < length goals.

Local Notation L := (lift nc nx ny G).
Local Notation sol := (Gr1Gen.solve_streett_game nc nx ny E S holds goals moore plus_one fuel).
Local Notation z := (fst (fst sol)).
Local Notation A := (streett_action nc nx ny G (L E) (L S) (map L holds) (map L goals)
                       moore plus_one (L z) (map (map L) (snd (fst sol)))
                       (map (map (map L)) (snd sol))).

Lemma ev_inr c x yb m x' yb' m' :
  c < nc -> x < nx -> yb < ny -> m < G -> x' < nx -> yb' < ny -> m' < G ->
  inr nc nx (ny * G) (ev G c x yb m x' yb' m').
Proof.
  intros. unfold Kleene.inr, in_range, ev. cbn [vc vx vy vxp vyp].
  repeat rewrite andb_true_iff. repeat rewrite Nat.ltb_lt.
  assert (yb * G + m < ny * G) by nia. assert (yb' * G + m' < ny * G) by nia. lia.
Qed.

Lemma action_nonempty :
  (exists c x yb, c < nc /\ x < nx /\ yb < ny /\ z (sv c x yb) = true) ->
  beq nc nx (ny * G) A bfalse = false.
Proof.
  intros [c [x [yb [Hc [Hx [Hyb Hz]]]]]].
  destruct (streett_impl_nonblocking nc nx ny E S holds goals moore plus_one fuel Hf Sh Sg
              G HG HnG c x yb 0 Hc Hx Hyb Hgoals Hz) as [m' [Hm' Hstep]].
  destruct (beq nc nx (ny * G) A bfalse) eqn:Eb; [|reflexivity]. exfalso.
  rewrite beq_true_iff in Eb.
  destruct moore.
  - destruct Hstep as [yb' [Hyb' Hall]]. specialize (Hall x Hx).
    rewrite (Eb _ (ev_inr c x yb 0 x yb' m' Hc Hx Hyb HG Hx Hyb' Hm')) in Hall. discriminate.
  - destruct (Hstep x Hx) as [yb' [Hyb' Hs]].
    rewrite (Eb _ (ev_inr c x yb 0 x yb' m' Hc Hx Hyb HG Hx Hyb' Hm')) in Hs. discriminate.
Qed.

Theorem streett_construction_succeeds :
  Gr1Gen.is_realizable nc nx (ny * G) (L EI) (L SI) plus_one qinit fuel (L z) = Some true ->
  (exists c x yb, c < nc /\ x < nx /\ yb < ny /\ z (sv c x yb) = true) ->
  StreettGen.make_streett_transducer nc nx ny G (L E) (L S) (L EI) (L SI)
    (map L holds) (map L goals) moore plus_one qinit fuel
    (L z) (map (map L) (snd (fst sol))) (map (map (map L)) (snd sol)) <> None.
Proof.
  intros Hreal Hne.
  rewrite streett_generated_is_model. unfold streett_construction.
  rewrite Hreal. rewrite map_length.
  assert (Hl : Nat.leb 1 (length goals) = true) by (apply Nat.leb_le; lia).
  rewrite Hl. cbv zeta. rewrite (action_nonempty Hne). cbn [negb].
  destruct Hne as [c [x [yb [Hc [Hx [Hyb _]]]]]].
  pose proof (make_init_succeeds nc nx (ny * G) (L EI) (L SI) plus_one qinit fuel
                (streett_init_count nc nx ny G) (L z) ltac:(lia) ltac:(lia) ltac:(nia) Hreal) as Hi.
  destruct (Gr1Gen.make_init _ _ _ _ _ _ _ _ _ _) as [i|]; [discriminate|].
  exfalso. apply Hi. reflexivity.
Qed.

End Succeeds.
