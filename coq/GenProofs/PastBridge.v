(* The functions TRANSLATED from omega/logic/past.py (and the flatten methods
   of omega/logic/ast.py / astutils it inherits): gen/PastGen.v, written by
   tools/py2coq_past.py on every run (tie T for C15), compute what the
   hand-written model L6Past/PastModel.v computes, which is what the C15
   theorems are about.

     flatten_ok                      tree.flatten(testers=T, context='bool',
                                     until=u) = PastModel.tr true u, for every
                                     dictionary T and every sufficient fuel
     translate_generated_is_model    translate(..., debug=False, until=u)
                                     = PastModel.translate true u

   The relation is Leibniz equality after (1) reading a formula f as the tree
   the parser returns for it ([node_of]) and (2) forgetting the ghost field
   t_tracks of the model's testers and packing the result as the tuple the
   code returns ([erase], [erase_translation]).  Fuel bounds the depth of
   nested flatten calls ([need f] suffices; Python: the recursion limit).

   Re-proved on every run: a change of past.py that alters what the
   translated term computes (order of the two flatten calls, `strong` set
   after the sharing test, a changed formula template, a different `_aux`
   index, ...) breaks these lemmas; a rewrite that leaves the computed values
   the same (renamed locals, an expression or an f-string split over several
   assignments) does not, because the proofs only evaluate the generated
   code (cbn) and never mention its internal structure. *)
From Coq Require Import String List Bool NArith Lia.
Import ListNotations.
From Omega Require Import L6Past.PastSyntax L6Past.PastModel L6Past.PastSpec
  L6Past.PastProofs L6Past.PastUntil L6Past.PastUntilProofs
  L6Past.PastUntilClassical.
From OmegaGen Require PastGen.
Open Scope string_scope.
Module G := PastGen.

(* ---- a formula as the tree the parser returns for it -------------------- *)
Definition binop_text (o : binop) : string :=
  match o with
  | OAnd => "/\" | OOr => "\/" | OImp => "=>" | OIff => "<=>" | OXor => "^"
  end.

Fixpoint node_of (f : form) : G.node :=
  match f with
  | FVar v => G.NVar v
  | FAtom a => G.NAtom a
  | FConst b => G.NBool b
  | FNot x => G.NOp G.CUnary "~" [node_of x]
  | FBin o x y => G.NOp G.CBinary (binop_text o) [node_of x; node_of y]
  | FIte c x y => G.NOp G.COperator "ite" [node_of c; node_of x; node_of y]
  | FPrevW x => G.NOp G.CUnary "-X" [node_of x]
  | FPrevS x => G.NOp G.CUnary "--X" [node_of x]
  | FHist x => G.NOp G.CUnary "-[]" [node_of x]
  | FOnce x => G.NOp G.CUnary "-<>" [node_of x]
  | FSince x y => G.NOp G.CBinary "S" [node_of x; node_of y]
  | FAlways x => G.NOp G.CUnary "[]" [node_of x]
  | FEvent x => G.NOp G.CUnary "<>" [node_of x]
  | FUntil x y => G.NOp G.CBinary "U" [node_of x; node_of y]
  end.

(* depth of nested flatten calls: -[] x and [] x (until=True) go through the
   node Unary('~', x) that the code builds *)
Fixpoint need (f : form) : nat :=
  match f with
  | FVar _ | FAtom _ | FConst _ => 1
  | FNot x | FPrevW x | FPrevS x | FOnce x | FEvent x => S (need x)
  | FHist x | FAlways x => S (S (need x))
  | FBin _ x y | FSince x y | FUntil x y => S (Nat.max (need x) (need y))
  | FIte c x y => S (Nat.max (need c) (Nat.max (need x) (need y)))
  end.

(* the model's tester as the entry of the Python dict: key, and the value
   dict(type='bool', init=..., trans=..., win=...); t_tracks is forgotten *)
Definition erase_t (t : tester) : string * G.trec :=
  (t_name t, G.mkRec "bool" (t_init t) (t_trans t) (t_win t)).
Definition erase (T : list tester) : G.dict := map erase_t T.

(* the keyword arguments translate passes: testers=<the dict>,
   context='bool', until=u *)
Definition K (u : bool) : G.kwargs :=
  G.mkKw (Some (Some tt)) (Some (Some "bool")) (Some (Some u)) None None.

Lemma d_len_erase T : G.d_len (erase T) = len T.
Proof. unfold G.d_len, len, erase. now rewrite map_length. Qed.

Lemma d_set_erase t T :
  G.d_set (t_name t) (G.mkRec "bool" (t_init t) (t_trans t) (t_win t)) (erase T)
  = erase (upd t T).
Proof.
  unfold erase. induction T as [|u T IH]; cbn; [reflexivity|].
  destruct (String.eqb (t_name u) (t_name t)); cbn; [reflexivity|].
  now rewrite IH.
Qed.

Lemma d_get_erase k T :
  G.d_get k (erase T) = option_map (fun t => snd (erase_t t)) (find k T).
Proof.
  unfold erase. induction T as [|u T IH]; cbn; [reflexivity|].
  destruct (String.eqb (t_name u) k); [reflexivity|exact IH].
Qed.

Lemma d_mem_erase k T :
  G.d_mem k (erase T) = match find k T with Some _ => true | None => false end.
Proof. unfold G.d_mem. rewrite d_get_erase. now destruct (find k T). Qed.

Arguments erase : simpl never.

Lemma need_pos f : 1 <= need f.
Proof. destruct f; cbn; lia. Qed.

Lemma flatten_bool fuel b kw T :
  1 <= fuel -> G.flatten fuel (G.NBool b) kw T = Some (TConst b, T).
Proof. destruct fuel; [lia|reflexivity]. Qed.

Ltac use_IH :=
  match goal with
  | IH : forall fuel T, need ?f <= fuel -> _
    |- context [G.flatten ?n (node_of ?f) _ (erase ?T0)] =>
      rewrite (IH n T0) by (cbn [need] in *; lia)
  end.
Ltac split_tr :=
  repeat match goal with
  | |- context [tr true ?u ?f ?T] =>
      is_var T; destruct (tr true u f T) as [? ?] eqn:?; cbn [fst snd] in *
  end.
Ltac use_bool :=
  match goal with
  | |- context [G.flatten ?n (G.NBool ?b) ?k ?t] =>
      rewrite (flatten_bool n b k t)
        by (match goal with
            | H : context [need ?f] |- _ => pose proof (need_pos f)
            end; cbn [need] in *; lia)
  end.
Ltac go := repeat (cbn; try use_IH; try use_bool); split_tr.
Ltac fin :=
  cbn; rewrite ?d_len_erase; unfold G.dec;
  repeat rewrite <- d_set_erase;
  cbn [t_name t_init t_trans t_win since_tester until_tester prev_tester
       prev_init prev_trans];
  reflexivity.

Definition op_prev (strong : bool) : string := if strong then "--X" else "-X".

Lemma prev_ok u strong x fuel T :
  (forall fuel T, need x <= fuel ->
     G.flatten fuel (node_of x) (K u) (erase T)
     = Some (fst (tr true u x T), erase (snd (tr true u x T)))) ->
  need x <= fuel ->
  G.past_flatten_previous (G.flatten fuel) (op_prev strong) (node_of x)
    (K u) (erase T)
  = Some (fst (prev_case true strong x (Fprev strong x) (tr true u x T) T),
          erase (snd (prev_case true strong x (Fprev strong x)
                        (tr true u x T) T))).
Proof.
  intros IH Hf. unfold K in *.
  destruct x.
  1: { (* a variable: shared history variable, or an _aux tester *)
    destruct fuel as [|fuel]; [cbn in Hf; lia|].
    unfold G.past_flatten_previous, can_share, prev_name.
    destruct strong; cbn; unfold can_share, prev_name;
      rewrite d_mem_erase, d_get_erase;
      (destruct (find (v ++ "_prev1") T) as [t|]; cbn;
       [destruct (tform_eqb (t_init t) _); cbn|]); fin. }
  (* anything else: an _aux tester for the flattened operand *)
  all: match goal with
       | |- context [node_of ?X] =>
           assert (Hv : G.is_Var (node_of X) = false) by reflexivity;
           set (nx := node_of X) in *; clearbody nx
       end.
  all: match goal with
       | |- context [tr true ?u0 ?X ?T0] =>
           destruct (tr true u0 X T0) as [e T1] eqn:E
       end.
  all: unfold G.past_flatten_previous; destruct strong; cbn;
       rewrite Hv; cbn; rewrite (IH fuel T Hf), E; cbn; fin.
Qed.

Lemma flatten_ok : forall u f fuel T, need f <= fuel ->
  G.flatten fuel (node_of f) (K u) (erase T)
  = Some (fst (tr true u f T), erase (snd (tr true u f T))).
Proof.
  intros u f.
  induction f; intros fuel T Hf; (destruct fuel as [|fuel]; [cbn in Hf; lia|]);
    cbn [need] in Hf.
  1-6: unfold K in *.
  - reflexivity.
  - reflexivity.
  - reflexivity.
  - go. reflexivity.
  - destruct o; go; reflexivity.
  - go. reflexivity.
  - (* -X *)
    cbn [G.flatten node_of G.dispatch]. unfold G.past_Unary_flatten.
    cbn -[G.past_flatten_previous].
    match goal with
    | |- context [G.past_flatten_previous ?r ?o ?n ?k ?t] =>
        change (G.past_flatten_previous r o n k t)
          with (G.past_flatten_previous (G.flatten fuel) (op_prev false)
                  (node_of f) (K u) (erase T))
    end.
    rewrite (prev_ok u false f fuel T IHf) by lia. reflexivity.
  - (* --X *)
    cbn [G.flatten node_of G.dispatch]. unfold G.past_Unary_flatten.
    cbn -[G.past_flatten_previous].
    match goal with
    | |- context [G.past_flatten_previous ?r ?o ?n ?k ?t] =>
        change (G.past_flatten_previous r o n k t)
          with (G.past_flatten_previous (G.flatten fuel) (op_prev true)
                  (node_of f) (K u) (erase T))
    end.
    rewrite (prev_ok u true f fuel T IHf) by lia. reflexivity.
  - (* -[] *) unfold K in *. destruct fuel as [|fuel]; [lia|]. go. fin.
  - (* -<> *) unfold K in *. go. fin.
  - (* S *) unfold K in *. go. fin.
  - (* [] *) unfold K in *.
    destruct u; [destruct fuel as [|fuel]; [lia|]|]; go; fin.
  - (* <> *) unfold K in *. destruct u; go; fin.
  - (* U *) unfold K in *. destruct u; go; fin.
Qed.

(* ---- keys of the dictionary are distinct (Python dict invariant) -------- *)
Lemma upd_in k t T :
  In k (map t_name (upd t T)) -> k = t_name t \/ In k (map t_name T).
Proof.
  induction T as [|w T IH]; cbn.
  - intros [H|[]]; auto.
  - destruct (String.eqb (t_name w) (t_name t)) eqn:E; cbn.
    + apply String.eqb_eq in E. intros [H|H]; [left; congruence|auto].
    + intros [H|H]; [auto|]. destruct (IH H); auto.
Qed.

Lemma upd_nodup t T :
  NoDup (map t_name T) -> NoDup (map t_name (upd t T)).
Proof.
  induction T as [|w T IH]; cbn; intros H.
  - constructor; [intros []|constructor].
  - inversion H as [|? ? Hn Hd]; subst.
    destruct (String.eqb (t_name w) (t_name t)) eqn:E; cbn.
    + apply String.eqb_eq in E. rewrite <- E. constructor; assumption.
    + constructor; [|auto]. intros Hi. destruct (upd_in _ _ _ Hi) as [Hk|Hk].
      * rewrite Hk, String.eqb_refl in E. discriminate.
      * contradiction.
Qed.

Ltac nodup_step :=
  match goal with
  | IH : forall T, NoDup (map t_name T) -> NoDup (map t_name (snd (tr true ?u ?g T))),
    H : NoDup (map t_name ?T0) |- context [tr true ?u ?g ?T0] =>
      let H' := fresh "H" in
      pose proof (IH T0 H) as H';
      destruct (tr true u g T0) as [? ?]; cbn [fst snd] in *
  end.

Lemma tr_nodup u f : forall T,
  NoDup (map t_name T) -> NoDup (map t_name (snd (tr true u f T))).
Proof.
  induction f; intros T H; cbn [tr]; repeat nodup_step;
    unfold since_case, until_case; cbn [fst snd];
    try assumption; try (apply upd_nodup; assumption).
  all: try (destruct u; cbn [fst snd]; try assumption;
            apply upd_nodup; assumption).
  all: unfold prev_case; destruct f; cbn [fst snd];
    repeat match goal with
           | |- context [if ?c then _ else _] => destruct c
           end; cbn [fst snd]; apply upd_nodup; assumption.
Qed.

(* ---- translate ---------------------------------------------------------- *)
Definition var_entry (t : tester) : string * G.vrec :=
  (t_name t, G.mkVar "bool" None "sys").

(* what the generated translate returns for the model's result *)
Definition erase_translation (X : translation)
    : G.pydict G.vrec * tform * tform * tform * list tform :=
  (map var_entry (x_testers X), x_formula X, x_init X, x_trans X, x_win X).

Lemma d_set_fresh {V : Type} k (v : V) d :
  ~ In k (map fst d) -> G.d_set k v d = (d ++ [(k, v)])%list.
Proof.
  induction d as [|[k' v'] d IH]; cbn; intros H; [reflexivity|].
  destruct (String.eqb k' k) eqn:E.
  - apply String.eqb_eq in E. tauto.
  - rewrite IH by tauto. reflexivity.
Qed.

Lemma dvars_fold T : NoDup (map t_name T) -> forall acc,
  (forall k, In k (map fst acc) -> ~ In k (map t_name T)) ->
  fold_left (fun acc '(k, d) => G.d_set k (G.mkVar (G.r_type d) None "sys") acc)
    (G.d_items (erase T)) acc
  = (acc ++ map var_entry T)%list.
Proof.
  unfold G.d_items, erase.
  induction T as [|t T IH]; cbn; intros Hn acc Hd.
  - now rewrite app_nil_r.
  - inversion Hn as [|? ? Hx Hn']; subst.
    rewrite d_set_fresh by (intros Hi; apply (Hd _ Hi); left; reflexivity).
    rewrite IH; [now rewrite <- app_assoc| assumption |].
    intros k Hk. rewrite map_app in Hk. apply in_app_or in Hk.
    destruct Hk as [Hk|[Hk|[]]].
    + intros Hi. apply (Hd _ Hk). right. exact Hi.
    + cbn in Hk. subst k. exact Hx.
Qed.

Lemma wins_erase T :
  G.filter_some (map (fun d => G.r_win d) (G.d_values (erase T))) = wins T.
Proof.
  unfold G.d_values, erase. induction T as [|t T IH]; cbn; [reflexivity|].
  destruct (t_win t); cbn; now rewrite IH.
Qed.

Theorem translate_generated_is_model : forall (u : bool) (f : form) fuel,
  need f <= fuel ->
  G.translate fuel (node_of f) false u
  = Some (erase_translation (PastModel.translate true u f)).
Proof.
  intros u f fuel Hf. unfold G.translate, G.past_translate.
  cbn -[G.flatten].
  change [] with (erase []) at 1.
  pose proof (flatten_ok u f fuel [] Hf) as H. unfold K in H. rewrite H.
  pose proof (tr_nodup u f [] (NoDup_nil _)) as Hn.
  unfold PastModel.translate, erase_translation.
  destruct (tr true u f []) as [r T]. cbn [fst snd] in *.
  cbn [x_testers x_formula x_init x_trans x_win].
  rewrite wins_erase.
  rewrite (dvars_fold T Hn []) by (intros k []).
  unfold G.py_conj, G.d_values, erase. rewrite !map_map. cbn [app].
  reflexivity.
Qed.

(* ---- the theorems of C15 restated for the generated function ------------ *)
(* the result tuple of the generated translate, seen as a [translation]
   (no ghost field: x_testers is empty; the predicates is_solution,
   is_solution_inf, eval only read the other fields) *)
Definition of_output (o : G.pydict G.vrec * tform * tform * tform * list tform)
    : translation :=
  let '(dvars, r, init, trans, win) := o in
  mkTr (map fst dvars) r init trans win [].

Lemma view_translate u f :
  let X := PastModel.translate true u f in
  let Y := of_output (erase_translation X) in
  x_names Y = x_names X /\ x_formula Y = x_formula X /\
  x_init Y = x_init X /\ x_trans Y = x_trans X /\ x_win Y = x_win X.
Proof.
  unfold PastModel.translate. destruct (tr true u f []) as [r T].
  cbn. rewrite map_map. cbn. repeat split; reflexivity.
Qed.

Theorem translated_past_exact : forall (unt : bool) (f : form) (fuel : nat),
  past_only f = true -> need f <= fuel ->
  exists o, G.translate fuel (node_of f) false unt = Some o /\
  let X := of_output o in
  no_clash f (x_names X) ->
  forall (sigma : nat -> env) (n : nat),
  exists alpha : nat -> env,
    is_solution X sigma alpha n /\
    (forall alpha', is_solution X sigma alpha' n ->
       forall i v, i < n -> In v (x_names X) -> alpha' i v = alpha i v) /\
    (forall alpha', is_solution X sigma alpha' n ->
       forall i, i < n ->
         (eval (comb (x_names X) sigma alpha' i) (x_formula X) = true
          <-> holds f sigma i)).
Proof.
  intros unt f fuel Hp Hf.
  exists (erase_translation (PastModel.translate true unt f)).
  split; [apply translate_generated_is_model; exact Hf|].
  destruct (view_translate unt f) as (Hn & Hr & Hi & Ht & _).
  cbv zeta. unfold is_solution, solves.
  rewrite Hn, Hr, Hi, Ht.
  exact (translate_exact unt f Hp).
Qed.

Theorem translated_until_full : forall (f : form) (fuel : nat),
  need f <= fuel ->
  exists o, G.translate fuel (node_of f) false true = Some o /\
  let X := of_output o in
  no_clash f (x_names X) ->
  forall sigma : nat -> env,
  exists alpha : nat -> env,
    is_solution_inf X sigma alpha /\
    (forall alpha', is_solution_inf X sigma alpha' ->
       forall i v, In v (x_names X) -> alpha' i v = alpha i v) /\
    (forall alpha', is_solution_inf X sigma alpha' ->
       forall i, eval (comb (x_names X) sigma alpha' i) (x_formula X) = true
                 <-> holds f sigma i).
Proof.
  intros f fuel Hf.
  exists (erase_translation (PastModel.translate true true f)).
  split; [apply translate_generated_is_model; exact Hf|].
  destruct (view_translate true f) as (Hn & Hr & Hi & Ht & Hw).
  cbv zeta. unfold is_solution_inf, solves_inf.
  rewrite Hn, Hr, Hi, Ht, Hw.
  exact (translate_until_full f).
Qed.
