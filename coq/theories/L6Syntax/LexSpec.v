(* L6 Syntax — specification side of the lexer theorems: separators
   (blanks, line breaks, comments), the rendering of a token sequence with
   arbitrary separators, and the executable scans that decide, from the rule
   table, that a spelling followed by a given character is delivered as one
   token.  Definitions only. *)
From Coq Require Import List String Ascii NArith Bool.
From Omega Require Import L6Syntax.Tokens L6Syntax.Lexer.
Import ListNotations.
Local Open Scope string_scope.

Definition hd_char (s : string) : option ascii :=
  match s with String c _ => Some c | EmptyString => None end.

Definition char_is (f : ascii -> bool) (o : option ascii) : bool :=
  match o with Some c => f c | None => false end.

(* can literal [a] match at the start of [s ++ tail], where tail starts with
   [c] (or is empty)?  [noconf a s c = true] : it cannot *)
Fixpoint noconf (a s : string) (c : option ascii) : bool :=
  match a with
  | EmptyString => false
  | String x a' =>
      match s with
      | EmptyString =>
          match c with Some c => negb (Ascii.eqb x c) | None => true end
      | String y s' => if Ascii.eqb x y then noconf a' s' c else true
      end
  end.

(* literal [a] and opener [op] differ inside their common length: [a] can
   match no string that starts with [op] *)
Fixpoint diverge (a op : string) : bool :=
  match a, op with
  | String x a', String y op' => if Ascii.eqb x y then diverge a' op' else true
  | _, _ => false
  end.

(* [s] is one of [alts] and no earlier alternative takes the input *)
Fixpoint alts_ok (alts : list string) (s : string) (c : option ascii) : bool :=
  match alts with
  | [] => false
  | a :: r => if String.eqb a s then true else noconf a s c && alts_ok r s c
  end.

(* rule [r] cannot match at the start of [s ++ tail] *)
Definition rule_none (r : lexrule) (s : string) (c : option ascii) : bool :=
  match lr_kind r with
  | RLit => forallb (fun a => noconf a s c) (lr_alts r)
  | RName => negb (char_is is_name_start (hd_char s))
  | RNumber => negb (char_is is_digit (hd_char s))
  | RLineComment => noconf "\*" s c
  | RMlComment => noconf "(*" s c
  | RNewline => negb (char_is is_newline (hd_char s))
  end.

(* the rule that delivers literal spelling [s] when followed by [c] *)
Fixpoint lit_scan (rules : list lexrule) (s : string) (c : option ascii)
  : option lexrule :=
  match rules with
  | [] => None
  | r :: rs =>
      match lr_kind r with
      | RLit =>
          if alts_ok (lr_alts r) s c then Some r
          else if rule_none r s c then lit_scan rs s c else None
      | _ => if rule_none r s c then lit_scan rs s c else None
      end
  end.

(* rule [r] can match no string starting with a character satisfying [f] /
   with opener [op] *)
Definition rule_skips_char (f : ascii -> bool) (r : lexrule) : bool :=
  match lr_kind r with
  | RLit => forallb (fun a => match a with
                              | String x _ => negb (f x)
                              | EmptyString => false end) (lr_alts r)
  | _ => false
  end.
Definition rule_skips_opener (op : string) (r : lexrule) : bool :=
  match lr_kind r with
  | RLit => forallb (fun a => diverge a op) (lr_alts r)
  | RName => negb (char_is is_name_start (hd_char op))
  | RNumber => negb (char_is is_digit (hd_char op))
  | RLineComment => diverge "\*" op
  | RMlComment => diverge "(*" op
  | RNewline => negb (char_is is_newline (hd_char op))
  end.

(* the first rule of the given kind, provided every rule before it skips *)
Fixpoint find_kind (skip : lexrule -> bool) (k : rule_kind -> bool)
  (rules : list lexrule) : option lexrule :=
  match rules with
  | [] => None
  | r :: rs => if k (lr_kind r) then Some r
               else if skip r then find_kind skip k rs else None
  end.

Definition is_kind_name k := match k with RName => true | _ => false end.
Definition is_kind_number k := match k with RNumber => true | _ => false end.
Definition is_kind_newline k := match k with RNewline => true | _ => false end.
Definition is_kind_lc k := match k with RLineComment => true | _ => false end.
Definition is_kind_mlc k := match k with RMlComment => true | _ => false end.

Definition digit_skip (r : lexrule) : bool :=
  match lr_kind r with
  | RLit => rule_skips_char is_digit r
  | RName | RLineComment | RMlComment | RNewline => true
  | RNumber => false
  end.
Definition newline_skip (r : lexrule) : bool :=
  match lr_kind r with
  | RLit => rule_skips_char is_newline r
  | RName | RNumber | RLineComment | RMlComment => true
  | RNewline => false
  end.

(* the table supports the theorems: identifiers are the first rule; the
   number, newline and comment rules are reachable and discard / emit as
   expected *)
Definition lex_table_ok (rules : list lexrule) : bool :=
  match rules with
  | r :: _ => is_kind_name (lr_kind r) && lr_emit r
  | [] => false
  end
  && match find_kind digit_skip is_kind_number rules with
     | Some r => lr_emit r | None => false end
  && match find_kind newline_skip is_kind_newline rules with
     | Some r => negb (lr_emit r) | None => false end
  && match find_kind (rule_skips_opener "\*") is_kind_lc rules with
     | Some r => negb (lr_emit r) | None => false end
  && match find_kind (rule_skips_opener "(*") is_kind_mlc rules with
     | Some r => negb (lr_emit r) | None => false end.

(* ---- separators ---- *)
Fixpoint all_chars (f : ascii -> bool) (s : string) : bool :=
  match s with
  | EmptyString => true
  | String c r => f c && all_chars f r
  end.

Definition no_newline (s : string) : bool := all_chars (fun c => negb (is_newline c)) s.
(* body of a multi-line comment: it does not contain the closer, even
   together with the star of the closer *)
Definition closes (body : string) : Prop :=
  forall rest, find_after "*)" (body ++ "*)" ++ rest) = Some rest.

Section Sep.
Variable ignore : list N.

Inductive sep : string -> Prop :=
| sep_nil : sep ""
| sep_blank c w : is_ignored ignore c = true -> sep w -> sep (String c w)
| sep_newline c w : is_newline c = true -> sep w -> sep (String c w)
| sep_line text c w : no_newline text = true -> is_newline c = true -> sep w ->
    sep ("\*" ++ text ++ String c w)
| sep_ml body w : closes body -> sep w -> sep ("(*" ++ body ++ "*)" ++ w).

End Sep.

(* ---- lexemes and renderings ---- *)
Section Render.
Variable rules : list lexrule.
Variable reserved values : list (string * string).
Variable ignore : list N.

Definition first_not_ignored (s : string) : bool :=
  match s with
  | String c _ => negb (is_ignored ignore c)
  | EmptyString => false
  end.

(* the token delivered for spelling [sp] when the next character is [c]
   (None: end of input); None if the table does not guarantee one *)
Definition lexeme_tok (sp : string) (c : option ascii) : option token :=
  if negb (first_not_ignored sp) then None else
  match sp with
  | EmptyString => None
  | String c0 sp' =>
      if is_name_start c0 then
        if all_chars is_name_char sp' && negb (char_is is_name_char c) then
          match rules with
          | rn :: _ => Some (mk_token reserved values rn sp)
          | [] => None
          end
        else None
      else if is_digit c0 then
        if all_chars is_digit sp' && negb (char_is is_digit c) then
          match find_kind digit_skip is_kind_number rules with
          | Some r => Some (mk_token reserved values r sp)
          | None => None
          end
        else None
      else
        match lit_scan rules sp c with
        | Some r => if lr_emit r then Some (mk_token reserved values r sp) else None
        | None => None
        end
  end.

(* a string that is a sequence of lexemes with arbitrary separators (blanks,
   line breaks, comments) between them, and the tokens it denotes *)
Inductive Rendered : string -> list token -> Prop :=
| R_nil : Rendered "" []
| R_sep w s ts : w <> "" -> sep ignore w -> Rendered s ts -> Rendered (w ++ s) ts
| R_tok sp s ts tok :
    lexeme_tok sp (hd_char s) = Some tok -> Rendered s ts ->
    Rendered (sp ++ s) (tok :: ts).

(* characters that must not be ignorable for the comment and newline rules
   to be reached *)
Definition ignore_ok : bool :=
  negb (is_ignored ignore "010"%char) && negb (is_ignored ignore "\"%char)
  && negb (is_ignored ignore "("%char).

End Render.
