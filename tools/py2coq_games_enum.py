"""Fail-closed translator for omega/games/enumeration.py (tie T for C12).

Turns the CURRENT source text of

    action_to_steps, _action_to_steps, _select_candidate_nodes,
    _primed_vars_per_quantifier, _init_search, _forall_init, _exist_init,
    _forall_exist_init, _exist_forall_init, _find_node, _add_new_node,
    _node_tuple

into Gallina over the arena model of coq/theories/L4Enum/EnumArena.v.  Like
py2coq.py it reads the source with `ast` (never imports omega), compiles the
statements in continuation style and raises `Refuse` on anything outside the
subset below.  Output: coq/gen/GamesEnumGen.v; the generated functions are
related to the hand-written model L4Enum/EnumModel.v in
coq/GenProofs/GamesEnumBridge.v on every run.

Values and their Gallina types (a kind error is a refusal)

  aut       the automaton                      automaton (record of dicts
                                               keyed by player names)
  bdd       a BDD node                         bdd (canonical table of the
                                               function over the arena)
  var       a variable name                    var = U p | P p; ALL the
            variables of a player are one vector-valued variable, as in the
            arena model of L4Enum (a value = index of the valuation)
  varlist / varset / variter   list / set / one-shot iterator of names
                                               list var
  asg       dict name -> value                 asg = list (var * nat)
  renmap    dict name -> name                  list (var * var)
  pvars     dict player -> set of names        list (string * list var)
  vldict    aut.varlist                        list (string * list var)
  asgiter   what aut.pick_iter returns         list asg (consumed by ONE
                                               `for`, at the loop depth of
                                               its creation)
  graph     networkx.DiGraph                   nxgraph (nodes with attribute
                                               dicts, edge set, the attribute
                                               initial_nodes)
  nodes / nodeset   list / set of node numbers list nat
  umap      dict tuple -> node                 list (key * nat)
  key       tuple of values                    key = list nat
  node      a node number (len(g))             nat
  bool, str                                    bool, string

What dd leaves unspecified is a parameter (Section variable) of the generated
file: `pick : bdd -> list var -> option asg` for aut.pick(u, care_vars=...)
and `pick_iter : bdd -> list var -> list asg` for aut.pick_iter.

Effects.  Every function body is a term of type `option _`; None is ANY
exception (failed assert, KeyError, TypeError on a None picked, raise, fuel
exhausted).  `while` is recursion on an extra first argument `fuel`
(m_while); `for` is m_for over the list.  The state of a loop is the tuple of
the names, bound before the loop, that its body changes in place or rebinds
while they are live at the loop head (liveness is computed; a name the body
rebinds that is dead at the head is NOT carried and is unusable after the
loop).  `if` duplicates the rest of the block into both branches.

Mutation/aliasing discipline (value semantics is exact only without aliasing):
objects of kind graph / nodes / umap / asg / aut may be changed in place only
through a parameter or a local bound to a fresh object (`list()`, `dict()`,
`dict(d)`, `nx.DiGraph()`, `copy.copy(aut)`, comprehensions, results of
calls); `x = y` for such a y is refused; `values = g.nodes[n]` is a VIEW that
may not be used after `g` changed; only immutable values are stored in
containers (`**d` copies).  A function that changes parameters in place
returns them after its result: `(result, p1, ..., pk)` in parameter order,
and its callers rebind the argument names (which must be distinct names).

Nothing is dropped silently: every skipped statement/expression is a note.
"""
import ast
import textwrap

from py2coq import Refuse, _src, _dotted

SRC = 'omega/games/enumeration.py'

# (python name, coq name, parameter kinds BY POSITION, result kind)
T2 = lambda a, b: ('tuple', a, b)
SIGNATURES = [
    ('_node_tuple', 'node_tuple', ['asg', 'varlist'], 'key'),
    ('_find_node', 'find_node', ['asg', 'umap', 'varlist'], 'node'),
    ('_add_new_node', 'add_new_node',
     ['asg', 'graph', 'nodes', 'umap', 'varlist'], 'node'),
    ('_select_candidate_nodes', 'select_candidate_nodes',
     ['bdd', 'bdd', 'aut', 'bool'], T2('bdd', 'bool')),
    ('_primed_vars_per_quantifier', 'primed_vars_per_quantifier',
     ['vldict'], 'pvars'),
    ('_forall_init', 'forall_init', ['graph', 'aut', 'umap', 'varlist'],
     T2('nodes', 'bdd')),
    ('_exist_init', 'exist_init', ['graph', 'aut', 'umap', 'varlist'],
     T2('nodes', 'bdd')),
    ('_forall_exist_init', 'forall_exist_init',
     ['graph', 'aut', 'umap', 'varlist'], T2('nodes', 'bdd')),
    ('_exist_forall_init', 'exist_forall_init',
     ['graph', 'aut', 'umap', 'varlist'], T2('nodes', 'bdd')),
    ('_init_search', 'init_search',
     ['graph', 'aut', 'umap', 'varlist', 'str'], T2('nodes', 'bdd')),
    ('_action_to_steps', 'action_to_steps_', ['aut', 'str'], 'graph'),
    ('action_to_steps', 'action_to_steps', ['aut', 'str', 'str', 'str'],
     'graph'),
]
NOT_TRANSLATED = {
    '_add_to_visited': (
        'add_to_visited',
        'enumeration._add_to_visited is NOT translated (it builds a formula '
        'as a string and has it parsed by aut.add_expr: C06\'s subject); '
        'calls are taken as what it denotes, visited \\/ (conjunction of '
        'var = value over the assignment): EnumArena.add_to_visited'),
}
# module-level names the translated functions rely on: alias -> how bound
IMPORTS = {
    'copy': ('import', 'copy', None),
    'nx': ('import', 'networkx', 'nx'),
    'chain': ('from', 'itertools', 'chain'),
    'Sequence': ('from', 'collections.abc', 'Sequence'),
    'stx': ('from-as', 'omega.logic', 'syntax', 'stx'),
    'symbolic': ('from', 'omega.symbolic', 'symbolic'),
}
MUTABLE = ('graph', 'nodes', 'umap', 'asg', 'aut')
COQ_TYPE = {
    'aut': 'automaton', 'bdd': 'bdd', 'var': 'var', 'varlist': 'list var',
    'varset': 'list var', 'asg': 'asg', 'renmap': 'list (var * var)',
    'pvars': 'list (string * list var)', 'vldict': 'list (string * list var)',
    'graph': 'nxgraph', 'nodes': 'list nat', 'nodeset': 'list nat',
    'umap': 'list (key * nat)', 'key': 'key', 'node': 'nat', 'bool': 'bool',
    'str': 'string',
}
SKIP_CALLS = ('log.debug', 'log.info', 'log.warning')


def coq_type(k):
    if isinstance(k, tuple) and k[0] == 'tuple':
        return '(' + ' * '.join(coq_type(x) for x in k[1:]) + ')'
    if k not in COQ_TYPE:
        raise Refuse(f'no Gallina type for kind {k}')
    return COQ_TYPE[k]


def coq_string(s):
    if '"' in s or any(ord(c) < 32 or ord(c) > 126 for c in s):
        raise Refuse(f'string constant {s!r} is not representable')
    return '"' + s + '"%string'


def _comment(s):
    return (s.replace('(*', '( *').replace('*)', '* )').replace('\n', ' ')
            .replace('"', "'"))


class Var:
    """A Python name in scope."""

    def __init__(self, kind, fresh=False, param=False, depth=0):
        self.kind = kind            # may be 'empty_dict' / 'empty_list'
        self.fresh = fresh          # bound to an object nobody else holds
        self.param = param
        self.view_of = None         # (base name, base version)
        self.consumed = False       # one-shot iterators
        self.depth = depth          # loop depth where bound (iterators)
        self.poison = None          # reason it may not be read

    def copy(self):
        v = Var(self.kind, self.fresh, self.param, self.depth)
        v.view_of, v.consumed, v.poison = self.view_of, self.consumed, \
            self.poison
        return v


class Func:
    def __init__(self, name, coq, params_k, result_k, node):
        self.name, self.coq, self.params_k, self.result_k = \
            name, coq, params_k, result_k
        self.node = node
        self.params = []
        self.defaults = {}
        self.mut = []       # names of parameters changed in place
        self.fuel = False
        self.text = None


# ---------------------------------------------------------------- liveness
def _loads(node, name):
    return any(isinstance(n, ast.Name) and n.id == name
               and isinstance(n.ctx, ast.Load) for n in ast.walk(node))


def live_in(stmts, name, out):
    """Is `name` live (read before being rebound) at the start of stmts, if
    it is live at their end exactly when `out`?"""
    if not stmts:
        return out
    s, rest = stmts[0], stmts[1:]
    after = lambda: live_in(rest, name, out)
    if isinstance(s, ast.Assign):
        if _loads(s.value, name):
            return True
        for t in s.targets:
            if not isinstance(t, ast.Name) and _loads(t, name):
                return True
        if any(isinstance(t, ast.Name) and t.id == name for t in s.targets):
            return False
        if any(isinstance(t, ast.Tuple) and any(
                isinstance(e, ast.Name) and e.id == name for e in t.elts)
                for t in s.targets):
            return False
        return after()
    if isinstance(s, ast.AugAssign):
        if _loads(s.value, name) or _loads(s.target, name) or (
                isinstance(s.target, ast.Name) and s.target.id == name):
            return True
        return after()
    if isinstance(s, ast.If):
        if _loads(s.test, name):
            return True
        a = after()
        return live_in(s.body, name, a) or live_in(s.orelse, name, a)
    if isinstance(s, (ast.For, ast.While)):
        head = s.iter if isinstance(s, ast.For) else s.test
        if _loads(head, name):
            return True
        if s.orelse:
            raise Refuse('loop with else clause')
        a = after()
        if a:
            return True
        if isinstance(s, ast.For) and any(
                isinstance(n, ast.Name) and n.id == name
                for n in ast.walk(s.target)):
            return live_in(s.body, name, False) and False
        # head liveness L = a or live_in(body, L); a is False here
        return live_in(s.body, name, False)
    if isinstance(s, (ast.Return, ast.Raise)):
        return _loads(s, name)
    if isinstance(s, (ast.Expr, ast.Assert, ast.Pass)):
        return _loads(s, name) or after()
    raise Refuse(f'{type(s).__name__} is outside the translated subset')


def assigned_names(stmts):
    out = []
    for s in stmts:
        for n in ast.walk(s):
            if isinstance(n, ast.Name) and isinstance(n.ctx, ast.Store) \
                    and n.id not in out:
                out.append(n.id)
    return out


MUT_METHODS = ('append', 'extend', 'add', 'update', 'pop', 'popitem',
               'remove', 'clear', 'insert', 'setdefault', 'discard', 'sort',
               'reverse', 'add_node', 'add_edge', 'add_nodes_from',
               'add_edges_from', 'remove_node', 'remove_edge',
               'prime_varlists')


class Translator:
    def __init__(self, path):
        with open(path) as f:
            self.tree = ast.parse(f.read())
        self.funcs = {}
        self.notes = []
        self.cur = None
        self.ntmp = 0
        self.binds = None
        self.versions = {}
        self.depth = 0

    def note(self, s):
        s = f'{self.cur.name}: {s}' if self.cur else s
        if s not in self.notes:
            self.notes.append(s)

    def tmp(self):
        self.ntmp += 1
        return f't{self.ntmp}'

    # ------------------------------------------------------------ module level
    def find(self, name):
        defs = [n for n in self.tree.body if isinstance(n, ast.FunctionDef)
                and n.name == name]
        if len(defs) != 1:
            raise Refuse(f'{name}: {len(defs)} definitions')
        for n in ast.walk(self.tree):
            if isinstance(n, ast.Name) and n.id == name and isinstance(
                    n.ctx, (ast.Store, ast.Del)):
                raise Refuse(f'{name} is rebound in the module')
            if isinstance(n, (ast.Global, ast.Nonlocal)) and name in n.names:
                raise Refuse(f'{name} is declared global/nonlocal')
            if isinstance(n, (ast.FunctionDef, ast.ClassDef,
                              ast.AsyncFunctionDef)) and \
                    n.name == name and n is not defs[0]:
                raise Refuse(f'{name} is defined twice')
            if isinstance(n, (ast.Import, ast.ImportFrom)):
                for a in n.names:
                    if (a.asname or a.name.split('.')[0]) == name:
                        raise Refuse(f'{name} is rebound by an import')
            if isinstance(n, ast.arg) and n.arg == name:
                raise Refuse(f'{name} is shadowed by a parameter')
        if defs[0].decorator_list:
            raise Refuse(f'{name}: decorated')
        return defs[0]

    def check_import(self, alias):
        kind = IMPORTS[alias]
        hits = 0
        for n in ast.walk(self.tree):
            if isinstance(n, ast.Import):
                for a in n.names:
                    bound = a.asname or a.name.split('.')[0]
                    if bound != alias:
                        continue
                    ok = (kind[0] == 'import' and a.name == kind[1]
                          and a.asname == kind[2] and n in self.tree.body)
                    if not ok:
                        raise Refuse(f'{alias} is not bound as expected')
                    hits += 1
            elif isinstance(n, ast.ImportFrom):
                for a in n.names:
                    bound = a.asname or a.name
                    if bound != alias:
                        continue
                    if kind[0] == 'from':
                        ok = (n.module == kind[1] and a.name == kind[2]
                              and a.asname is None)
                    elif kind[0] == 'from-as':
                        ok = (n.module == kind[1] and a.name == kind[2]
                              and a.asname == kind[3])
                    else:
                        ok = False
                    if not ok or n.level or n not in self.tree.body:
                        raise Refuse(f'{alias} is not bound as expected')
                    hits += 1
            elif isinstance(n, ast.Name) and n.id == alias and isinstance(
                    n.ctx, (ast.Store, ast.Del)):
                raise Refuse(f'{alias} is rebound')
            elif isinstance(n, (ast.FunctionDef, ast.ClassDef)) and \
                    n.name == alias:
                raise Refuse(f'{alias} is rebound')
            elif isinstance(n, ast.arg) and n.arg == alias:
                raise Refuse(f'{alias} is shadowed by a parameter')
            elif isinstance(n, (ast.Global, ast.Nonlocal)) and \
                    alias in n.names:
                raise Refuse(f'{alias} is declared global/nonlocal')
        if hits != 1:
            raise Refuse(f'{alias}: {hits} imports')

    def check_log(self):
        """`log` is the module logger (calls on it are skipped)."""
        hits = 0
        for n in ast.walk(self.tree):
            if isinstance(n, ast.Name) and n.id == 'log' and isinstance(
                    n.ctx, ast.Store):
                hits += 1
            if isinstance(n, ast.arg) and n.arg == 'log':
                raise Refuse('log is shadowed by a parameter')
        ok = [s for s in self.tree.body if isinstance(s, ast.Assign)
              and len(s.targets) == 1 and isinstance(s.targets[0], ast.Name)
              and s.targets[0].id == 'log'
              and _src(s.value) == 'logging.getLogger(__name__)']
        if hits != 1 or len(ok) != 1:
            raise Refuse('`log` is not the module logger')

    # ------------------------------------------------------------ functions
    def mutated_names(self, stmts):
        """Names changed IN PLACE (not merely rebound) by statements."""
        out = []

        def add(x):
            if x not in out:
                out.append(x)
        for s in stmts:
            for n in ast.walk(s):
                if isinstance(n, (ast.Subscript, ast.Attribute)) and \
                        isinstance(n.ctx, ast.Store):
                    b = n.value
                    while isinstance(b, (ast.Subscript, ast.Attribute)):
                        b = b.value
                    if isinstance(b, ast.Name):
                        add(b.id)
                elif isinstance(n, ast.Call):
                    if isinstance(n.func, ast.Attribute) and \
                            n.func.attr in MUT_METHODS:
                        b = n.func.value
                        while isinstance(b, (ast.Subscript, ast.Attribute)):
                            b = b.value
                        if isinstance(b, ast.Name):
                            add(b.id)
                    fn = _dotted(n.func)
                    c = self.funcs.get(fn)
                    if c is not None:
                        for p, a in zip(c.params, n.args):
                            if p in c.mut and isinstance(a, ast.Name):
                                add(a.id)
                        for kw in n.keywords:
                            if kw.arg in c.mut and isinstance(
                                    kw.value, ast.Name):
                                add(kw.value.id)
        return out

    def translate_function(self, name, coq, params_k, result_k):
        node = self.find(name)
        fi = Func(name, coq, params_k, result_k, node)
        self.cur = fi
        a = node.args
        if a.vararg or a.kwarg or a.kwonlyargs or a.posonlyargs:
            raise Refuse(f'{name}: unsupported signature')
        if len(a.args) != len(params_k):
            raise Refuse(f'{name}: {len(a.args)} parameters, expected '
                         f'{len(params_k)}')
        fi.params = [x.arg for x in a.args]
        if len(set(fi.params)) != len(fi.params):
            raise Refuse(f'{name}: repeated parameter')
        nd = len(a.defaults)
        for p, k, dv in zip(fi.params[len(fi.params) - nd:],
                            params_k[len(fi.params) - nd:], a.defaults):
            if k == 'bool' and isinstance(dv, ast.Constant) and \
                    type(dv.value) is bool:
                fi.defaults[p] = 'true' if dv.value else 'false'
            elif k == 'str' and isinstance(dv, ast.Constant) and \
                    type(dv.value) is str:
                fi.defaults[p] = coq_string(dv.value)
            else:
                raise Refuse(f'{name}: default of {p}')
        for n in ast.walk(node):
            if n is not node and isinstance(n, (
                    ast.Global, ast.Nonlocal, ast.FunctionDef, ast.Lambda,
                    ast.AsyncFunctionDef, ast.Yield, ast.YieldFrom, ast.Await,
                    ast.Try, ast.With, ast.Delete, ast.Import, ast.ImportFrom,
                    ast.ClassDef, ast.NamedExpr, ast.Break, ast.Continue,
                    ast.IfExp, ast.ListComp)):
                raise Refuse(f'{name}: {type(n).__name__} is outside the '
                             'translated subset')
        locals_ = set(fi.params) | set(assigned_names(node.body))
        for al in list(IMPORTS) + ['log'] + [s[0] for s in SIGNATURES] + \
                list(NOT_TRANSLATED):
            if al in locals_:
                raise Refuse(f'{name}: local name {al} shadows a module name')
        body = list(node.body)
        if (body and isinstance(body[0], ast.Expr)
                and isinstance(body[0].value, ast.Constant)
                and isinstance(body[0].value.value, str)):
            body = body[1:]
            self.note('docstring skipped')
        mut = self.mutated_names(body)
        fi.mut = [p for p in fi.params if p in mut]
        for p in fi.mut:
            k = params_k[fi.params.index(p)]
            if k not in MUTABLE:
                raise Refuse(f'{name}: parameter {p} of kind {k} is changed '
                             'in place')
        fi.fuel = any(isinstance(n, ast.While) for n in ast.walk(node)) or \
            any(isinstance(n, ast.Call) and _dotted(n.func) in self.funcs
                and self.funcs[_dotted(n.func)].fuel for n in ast.walk(node))
        self.ntmp = 0
        self.versions = {}
        self.depth = 0
        env = {}
        for p, k in zip(fi.params, params_k):
            env[p] = Var(k, param=True)
        fi.text = self.block(body, env, ('func', None), lambda n: False)
        self.funcs[name] = fi
        self.cur = None
        return fi

    def emit(self, fi):
        ps = ' '.join(f'(v_{p} : {coq_type(k)})'
                      for p, k in zip(fi.params, fi.params_k))
        rt = coq_type(fi.result_k)
        for p in fi.mut:
            rt += ' * ' + coq_type(fi.params_k[fi.params.index(p)])
        fp = '(fuel : nat) ' if fi.fuel else ''
        return (f'Definition {fi.coq} {fp}{ps} : option ({rt}) :=\n'
                + textwrap.indent(fi.text, '  ') + '.')

    # ------------------------------------------------------------ environment
    def lookup(self, env, name, what='read'):
        if name not in env:
            raise Refuse(f'name `{name}` is not bound here')
        v = env[name]
        if v.poison:
            raise Refuse(f'`{name}` may not be used here: {v.poison}')
        if v.view_of is not None:
            base, ver = v.view_of
            if self.versions.get(base, 0) != ver:
                raise Refuse(f'`{name}` is a view of `{base}`, which changed '
                             'since')
        return v

    def bump(self, env, name):
        self.versions[name] = self.versions.get(name, 0) + 1

    def mutable_target(self, env, node, what):
        """A Name that may be changed in place; returns the name."""
        if not isinstance(node, ast.Name):
            raise Refuse(f'{what}: in-place change of {_src(node)}')
        v = self.lookup(env, node.id)
        if v.kind in ('empty_dict', 'empty_list'):
            return node.id
        if v.kind not in MUTABLE:
            raise Refuse(f'{what}: `{node.id}` of kind {v.kind} is changed in '
                         'place')
        if not (v.fresh or v.param):
            raise Refuse(f'{what}: `{node.id}` may be aliased')
        if v.view_of is not None:
            raise Refuse(f'{what}: `{node.id}` is a view')
        return node.id

    def fix_kind(self, env, node, want):
        """An expression in a position where kind `want` is expected; fixes
        the kind of a container created empty.  Returns the term."""
        if isinstance(node, ast.Name) and node.id in env and \
                env[node.id].kind in ('empty_dict', 'empty_list'):
            v = env[node.id]
            ok = {'empty_dict': ('umap', 'asg', 'renmap'),
                  'empty_list': ('nodes', 'varlist')}[v.kind]
            if want not in ok:
                raise Refuse(f'`{node.id}` created empty used as {want}')
            v.kind = want
        t, k = self.expr(node, env)
        if k != want and not (want == 'varlist' and k == 'varset') and \
                not (want == 'varset' and k == 'varlist'):
            raise Refuse(f'{_src(node)}: kind {k} where {want} is expected')
        return t

    # ------------------------------------------------------------ expressions
    def bind_opt(self, term):
        """A term of type option A, evaluated here; returns the name bound
        to its value (failure = the whole statement fails)."""
        t = self.tmp()
        self.binds.append(f'm_bind {term} (fun {t} =>')
        return t

    def aut_field(self, node, env):
        """aut.action / aut.init / aut.varlist -> (term, value kind)."""
        if isinstance(node, ast.Attribute) and isinstance(
                node.value, ast.Name):
            v = self.lookup(env, node.value.id)
            if v.kind == 'aut' and node.attr in ('action', 'init', 'varlist'):
                vk = 'varlist' if node.attr == 'varlist' else 'bdd'
                return f'(a_{node.attr} v_{node.value.id})', vk
        return None

    def str_key(self, node, env):
        if isinstance(node, ast.Constant) and type(node.value) is str:
            return coq_string(node.value)
        t, k = self.expr(node, env)
        if k != 'str':
            raise Refuse(f'{_src(node)}: a dict key of kind {k}')
        return t

    def care(self, node, env):
        t, k = self.expr(node, env)
        if k not in ('varlist', 'varset'):
            raise Refuse(f'care_vars of kind {k}')
        return t

    def expr(self, node, env):
        """-> (term, kind).  Failing sub-expressions are bound in
        self.binds, in evaluation order."""
        if isinstance(node, ast.Name):
            v = self.lookup(env, node.id)
            if v.kind in ('variter', 'asgiter'):
                raise Refuse(f'iterator `{node.id}` used as a value')
            return f'v_{node.id}', v.kind
        if isinstance(node, ast.Constant):
            if type(node.value) is bool:
                return ('true' if node.value else 'false'), 'bool'
            if type(node.value) is str:
                return coq_string(node.value), 'str'
            raise Refuse(f'constant {node.value!r}')
        if isinstance(node, ast.Attribute):
            if isinstance(node.value, ast.Name):
                v = self.lookup(env, node.value.id)
                if v.kind == 'aut' and node.attr in ('true', 'false'):
                    return f'(b{node.attr} nx ny)', 'bdd'
                if v.kind == 'aut' and node.attr == 'moore':
                    return f'(a_moore v_{node.value.id})', 'bool'
                if v.kind == 'aut' and node.attr == 'varlist':
                    return f'(a_varlist v_{node.value.id})', 'vldict'
            raise Refuse(f'attribute {_src(node)}')
        if isinstance(node, ast.Subscript):
            return self.subscript(node, env)
        if isinstance(node, ast.BinOp):
            a, ka = self.expr(node.left, env)
            b, kb = self.expr(node.right, env)
            op = {ast.BitAnd: 'band', ast.BitOr: 'bor'}.get(type(node.op))
            if op is None or ka != 'bdd' or kb != 'bdd':
                raise Refuse(f'operator in {_src(node)}')
            return f'({op} nx ny {a} {b})', 'bdd'
        if isinstance(node, ast.UnaryOp):
            a, ka = self.expr(node.operand, env)
            if isinstance(node.op, ast.Invert) and ka == 'bdd':
                return f'(bnot nx ny {a})', 'bdd'
            if isinstance(node.op, ast.Not) and ka == 'bool':
                return f'(negb {a})', 'bool'
            raise Refuse(f'operator in {_src(node)}')
        if isinstance(node, ast.BoolOp):
            ts = [self.expr(v, env) for v in node.values]
            if any(k != 'bool' for _, k in ts):
                raise Refuse(f'{_src(node)}: and/or on non-Booleans')
            op = ' || ' if isinstance(node.op, ast.Or) else ' && '
            return '(' + op.join(t for t, _ in ts) + ')', 'bool'
        if isinstance(node, ast.Compare):
            return self.compare(node, env)
        if isinstance(node, ast.Call):
            return self.call(node, env)
        if isinstance(node, ast.Tuple):
            ts = [self.expr(e, env) for e in node.elts]
            for e, (t, k) in zip(node.elts, ts):
                self.check_storable(e, env, k, 'tuple', allow_fresh=True)
            return ('(' + ', '.join(t for t, _ in ts) + ')',
                    ('tuple',) + tuple(k for _, k in ts))
        if isinstance(node, (ast.SetComp, ast.DictComp)):
            t, k = self.comprehension(node, env)
            if isinstance(node, ast.SetComp) and k == ('seq', 'var'):
                return t, 'varset'
            if isinstance(node, ast.DictComp) and k == (
                    'seq', ('pair', 'var', 'var')):
                return f'(dict_of_items var_eqb {t})', 'renmap'
            if isinstance(node, ast.DictComp) and k == (
                    'seq', ('pair', 'var', 'val')):
                return f'(dict_of_items var_eqb {t})', 'asg'
            raise Refuse(f'{_src(node)}: comprehension of kind {k}')
        if isinstance(node, ast.GeneratorExp):
            raise Refuse(f'generator expression {_src(node)} in this '
                         'position')
        raise Refuse(f'expression {_src(node)} ({type(node).__name__})')

    def check_storable(self, node, env, kind, where, allow_fresh=False):
        if kind in MUTABLE or kind in ('empty_dict', 'empty_list'):
            if allow_fresh and isinstance(node, ast.Name) and (
                    env[node.id].fresh or env[node.id].param):
                return
            raise Refuse(f'{_src(node)}: a mutable object stored in a {where}')

    def subscript(self, node, env):
        if isinstance(node.slice, ast.Slice):
            raise Refuse(f'slice {_src(node)}')
        af = self.aut_field(node.value, env)
        if af is not None:
            d, vk = af
            k = self.str_key(node.slice, env)
            return self.bind_opt(f'(dict_get String.eqb {k} {d})'), vk
        # g.nodes[node]
        if isinstance(node.value, ast.Attribute) and \
                node.value.attr == 'nodes' and isinstance(
                    node.value.value, ast.Name) and \
                self.lookup(env, node.value.value.id).kind == 'graph':
            i, ki = self.expr(node.slice, env)
            if ki != 'node':
                raise Refuse(f'{_src(node)}: index of kind {ki}')
            g = node.value.value.id
            t = self.bind_opt(f'(nx_node_attrs v_{g} {i})')
            return t, ('view', g)
        d, kd = self.expr(node.value, env)
        i, ki = self.expr(node.slice, env) if not (
            kd in ('pvars', 'vldict')) else (self.str_key(node.slice, env),
                                             'str')
        table = {('asg', 'var'): ('var_eqb', 'val'),
                 ('renmap', 'var'): ('var_eqb', 'var'),
                 ('umap', 'key'): ('key_eqb', 'node'),
                 ('pvars', 'str'): ('String.eqb', 'varset'),
                 ('vldict', 'str'): ('String.eqb', 'varlist')}
        if (kd, ki) not in table:
            raise Refuse(f'{_src(node)}: {kd}[{ki}]')
        eqb, vk = table[(kd, ki)]
        return self.bind_opt(f'(dict_get {eqb} {i} {d})'), vk

    def compare(self, node, env):
        if len(node.ops) != 1:
            raise Refuse(f'chained comparison {_src(node)}')
        op = node.ops[0]
        l, r = node.left, node.comparators[0]
        if isinstance(op, (ast.In, ast.NotIn)):
            b, kb = self.expr(r, env)
            if kb in ('pvars', 'vldict'):
                a, ka = self.str_key(l, env), 'str'
            else:
                a, ka = self.expr(l, env)
            if (ka, kb) == ('key', 'umap'):
                t = f'(dict_has key_eqb {a} {b})'
            elif (ka, kb) == ('node', 'graph'):
                t = f'(nx_has_node {b} {a})'
            elif ka == 'str' and kb in ('pvars', 'vldict'):
                t = f'(dict_has String.eqb {a} {b})'
            else:
                raise Refuse(f'{_src(node)}: {ka} in {kb}')
            return (t if isinstance(op, ast.In) else f'(negb {t})'), 'bool'
        if not isinstance(op, (ast.Eq, ast.NotEq)):
            raise Refuse(f'comparison {_src(node)}')
        a, ka = self.expr(l, env)
        b, kb = self.expr(r, env)
        if ka != kb:
            raise Refuse(f'{_src(node)}: comparison of {ka} with {kb}')
        eq = {'bdd': 'bdd_eqb', 'str': 'String.eqb', 'bool': 'Bool.eqb',
              'varset': 'set_eqb var_eqb'}.get(ka)
        if eq is None:
            raise Refuse(f'{_src(node)}: == on kind {ka}')
        t = f'({eq} {a} {b})'
        return (t if isinstance(op, ast.Eq) else f'(negb {t})'), 'bool'

    def kwargs(self, node, names, required):
        """Positional + keyword arguments of a call as a dict by name."""
        if len(node.args) > len(names):
            raise Refuse(f'{_src(node)}: too many arguments')
        out = dict(zip(names, node.args))
        for kw in node.keywords:
            if kw.arg is None or kw.arg not in names or kw.arg in out:
                raise Refuse(f'{_src(node)}: keyword argument')
            out[kw.arg] = kw.value
        for r in required:
            if r not in out:
                raise Refuse(f'{_src(node)}: argument {r} missing')
        return out

    def call(self, node, env):
        fn = _dotted(node.func)
        # ---- methods of the automaton
        if isinstance(node.func, ast.Attribute) and isinstance(
                node.func.value, ast.Name) and \
                node.func.value.id in env and \
                env[node.func.value.id].kind == 'aut':
            self.lookup(env, node.func.value.id)
            m = node.func.attr
            if m == 'let':
                a = self.kwargs(node, ['defs', 'u'], ['defs', 'u'])
                d, kd = self.expr(a['defs'], env)
                u, ku = self.expr(a['u'], env)
                if ku != 'bdd':
                    raise Refuse(f'{_src(node)}: let on kind {ku}')
                if kd == 'asg':
                    return f'(blet nx ny {d} {u})', 'bdd'
                if kd == 'renmap':
                    return f'(brename nx ny {d} {u})', 'bdd'
                raise Refuse(f'{_src(node)}: let with definitions of kind '
                             f'{kd}')
            if m in ('exist', 'forall'):
                a = self.kwargs(node, ['qvars', 'u'], ['qvars', 'u'])
                q = self.care(a['qvars'], env)
                u, ku = self.expr(a['u'], env)
                if ku != 'bdd':
                    raise Refuse(f'{_src(node)}: {m} on kind {ku}')
                return f'(b{m} nx ny {q} {u})', 'bdd'
            if m in ('pick', 'pick_iter'):
                a = self.kwargs(node, ['u', 'care_vars'], ['u', 'care_vars'])
                u, ku = self.expr(a['u'], env)
                if ku != 'bdd':
                    raise Refuse(f'{_src(node)}: {m} on kind {ku}')
                c = self.care(a['care_vars'], env)
                if m == 'pick':
                    self.note(
                        '`aut.pick(...)` returning None (no satisfying '
                        'assignment) is taken as failure at the call (the '
                        'code fails at the first use of the result: '
                        'dict.update(None) / `**None` raise TypeError)')
                    return self.bind_opt(f'(pick {u} {c})'), 'asg!'
                return f'(pick_iter {u} {c})', 'asgiter'
            raise Refuse(f'method {_src(node.func)}')
        # ---- builtins and library functions
        if fn == 'set' and len(node.args) == 1 and not node.keywords:
            a = node.args[0]
            if isinstance(a, ast.Name) and a.id in env and \
                    env[a.id].kind == 'empty_list':
                raise Refuse(f'{_src(node)}: kind not fixed yet')
            t, k = self.expr(a, env)
            if k in ('varlist', 'varset'):
                return t, 'varset'
            if k == 'asg' or (isinstance(k, tuple) and k[0] == 'view'):
                return f'(map fst {t})', 'varset'
            if k == 'nodes':
                return t, 'nodeset'
            raise Refuse(f'{_src(node)}: set of kind {k}')
        if isinstance(node.func, ast.Attribute) and \
                node.func.attr == 'union' and len(node.args) == 1 and \
                not node.keywords:
            a, ka = self.expr(node.func.value, env)
            b, kb = self.expr(node.args[0], env)
            if ka != 'varset' or kb not in ('varlist', 'varset'):
                raise Refuse(f'{_src(node)}: union of {ka} and {kb}')
            return f'(set_union var_eqb {a} {b})', 'varset'
        if fn == 'list' and not node.keywords:
            if not node.args:
                return '[]', 'empty_list'
            if len(node.args) == 1:
                a = node.args[0]
                if isinstance(a, ast.Name) and a.id in env and \
                        env[a.id].kind == 'variter':
                    v = self.lookup(env, a.id)
                    if v.consumed or v.depth != self.depth:
                        raise Refuse(f'iterator `{a.id}` consumed twice or '
                                     'inside a loop')
                    v.consumed = True
                    return f'v_{a.id}', 'varlist'
                t, k = self.expr(a, env)
                if k in ('varlist', 'varset'):
                    if k == 'varset':
                        self.note(
                            f'`{_src(node)}`: the order in which Python lists '
                            'the elements of a set is the order of the list '
                            'that models the set')
                    return t, 'varlist'
            raise Refuse(f'{_src(node)}')
        if fn == 'chain' and not node.keywords and node.args:
            self.check_import('chain')
            ts = [self.expr(a, env) for a in node.args]
            if any(k not in ('varlist', 'varset') for _, k in ts):
                raise Refuse(f'{_src(node)}: chain of non-lists')
            return '(' + ' ++ '.join(t for t, _ in ts) + ')', 'variter'
        if fn == 'dict':
            if not node.args and not node.keywords:
                return '[]', 'empty_dict'
            if len(node.args) == 1 and not node.keywords:
                t, k = self.expr(node.args[0], env)
                if k == 'asg' or (isinstance(k, tuple) and k[0] == 'view'):
                    return t, 'asg'
                raise Refuse(f'{_src(node)}: dict of kind {k}')
            if not node.args and all(kw.arg for kw in node.keywords):
                items = []
                for kw in node.keywords:
                    t, k = self.expr(kw.value, env)
                    if k not in ('varset', 'varlist'):
                        raise Refuse(f'{_src(node)}: value of kind {k}')
                    items.append(f'({coq_string(kw.arg)}, {t})')
                if len({kw.arg for kw in node.keywords}) != len(items):
                    raise Refuse(f'{_src(node)}: repeated key')
                return '[' + '; '.join(items) + ']', 'pvars'
            raise Refuse(f'{_src(node)}')
        if fn == 'tuple' and len(node.args) == 1 and not node.keywords and \
                isinstance(node.args[0], ast.GeneratorExp):
            t, k = self.comprehension(node.args[0], env)
            if k != ('seq', 'val'):
                raise Refuse(f'{_src(node)}: tuple of kind {k}')
            return t, 'key'
        if fn == 'len' and len(node.args) == 1 and not node.keywords:
            t, k = self.expr(node.args[0], env)
            if k == 'graph':
                return f'(nx_len {t})', 'node'
            raise Refuse(f'{_src(node)}: len of kind {k}')
        if fn == 'copy.copy' and len(node.args) == 1 and not node.keywords:
            self.check_import('copy')
            t, k = self.expr(node.args[0], env)
            if k != 'aut':
                raise Refuse(f'{_src(node)}: copy of kind {k}')
            self.note('`copy.copy(aut)` is taken as a copy that shares no '
                      'dict with `aut` (temporal.Automaton.__copy__ '
                      'deep-copies varlist and rebuilds init/action)')
            return t, 'aut'
        if fn == 'nx.DiGraph' and not node.args and not node.keywords:
            self.check_import('nx')
            return 'nx_empty', 'graph'
        if fn == 'stx.prime' and len(node.args) == 1 and not node.keywords:
            self.check_import('stx')
            t, k = self.expr(node.args[0], env)
            if k != 'var':
                raise Refuse(f'{_src(node)}: prime of kind {k}')
            return self.bind_opt(f'(stx_prime {t})'), 'var'
        if isinstance(node.func, ast.Attribute) and \
                node.func.attr == 'items' and not node.args and \
                not node.keywords:
            t, k = self.expr(node.func.value, env)
            if k == 'asg':
                return t, ('seq', ('pair', 'var', 'val'))
            raise Refuse(f'{_src(node)}: items of kind {k}')
        if isinstance(node.func, ast.Attribute) and \
                node.func.attr == 'pop' and not node.args and \
                not node.keywords and isinstance(node.func.value, ast.Name):
            n = self.mutable_target(env, node.func.value, _src(node))
            self.fix_kind(env, node.func.value, 'nodes')
            self.bump(env, n)
            t = self.tmp()
            self.binds.append(f"m_bind (py_pop v_{n}) (fun '(v_{n}, {t}) =>")
            return t, 'node'
        if fn in NOT_TRANSLATED:
            coq, why = NOT_TRANSLATED[fn]
            self.note(why)
            a = self.kwargs(node, ['values', 'visited', 'aut'],
                            ['values', 'visited', 'aut'])
            d, kd = self.expr(a['values'], env)
            u, ku = self.expr(a['visited'], env)
            au, ka = self.expr(a['aut'], env)
            if (kd, ku, ka) != ('asg', 'bdd', 'aut'):
                raise Refuse(f'{_src(node)}: argument kinds')
            return f'({coq} nx ny {d} {u} {au})', 'bdd'
        if fn in self.funcs:
            raise Refuse(f'{_src(node)}: call of a translated function in '
                         'this position')
        raise Refuse(f'call {_src(node)}')

    def comprehension(self, node, env):
        """Set / dict comprehension or generator expression ->
        (term of the list of its values, ('seq', element kind))."""
        if len(node.generators) != 1:
            raise Refuse(f'{_src(node)}: nested comprehension')
        g = node.generators[0]
        if g.ifs or g.is_async:
            raise Refuse(f'{_src(node)}: filtered comprehension')
        it, kit = self.expr(g.iter, env)
        env2 = {n: v.copy() for n, v in env.items()}
        if kit in ('varlist', 'varset'):
            if not isinstance(g.target, ast.Name):
                raise Refuse(f'{_src(node)}: target')
            env2[g.target.id] = Var('var')
            pat = f'v_{g.target.id}'
        elif kit == ('seq', ('pair', 'var', 'val')):
            if not (isinstance(g.target, ast.Tuple) and len(g.target.elts) == 2
                    and all(isinstance(e, ast.Name) for e in g.target.elts)):
                raise Refuse(f'{_src(node)}: target')
            a, b = (e.id for e in g.target.elts)
            if a == b:
                raise Refuse(f'{_src(node)}: target')
            env2[a], env2[b] = Var('var'), Var('val')
            pat = f"'(v_{a}, v_{b})"
        else:
            raise Refuse(f'{_src(node)}: iteration over kind {kit}')
        saved = self.binds
        self.binds = []
        if isinstance(node, ast.DictComp):
            k, kk = self.expr(node.key, env2)
            v, kv = self.expr(node.value, env2)
            elt, ke = f'({k}, {v})', ('pair', kk, kv)
        else:
            elt, ke = self.expr(node.elt, env2)
        inner = self.binds
        self.binds = saved
        body = ' '.join(inner) + f' Some {elt}' + ')' * len(inner)
        t = self.bind_opt(f'(m_map (fun {pat} => {body}) {it})')
        return t, ('seq', ke)

    # ------------------------------------------------------------ statements
    def wrap(self, binds, text):
        """binds: list of open prefixes `... (fun x =>`."""
        if not binds:
            return text
        return '\n'.join(binds) + '\n' + text + ')' * len(binds)

    def block(self, stmts, env, ctx, out):
        """stmts in continuation style.  ctx = ('func', None) or
        ('loop', [state names]); out(name) = is `name` live after the
        block."""
        if not stmts:
            if ctx[0] == 'loop':
                for n in ctx[1]:
                    self.lookup(env, n)
                return 'Some ' + self.state_tuple(ctx[1])
            raise Refuse('a path falls off the end of the function')
        s, rest = stmts[0], stmts[1:]
        cont = lambda e=env: self.block(rest, e, ctx, out)
        self.binds = []
        if isinstance(s, ast.Pass):
            return cont()
        if isinstance(s, ast.Expr):
            return self.expr_stmt(s, env, cont)
        if isinstance(s, ast.Assert):
            if _src(s.test).startswith('isinstance('):
                self.note(f'`{_src(s)}` skipped (a type test; kinds are '
                          'static here)')
                return cont()
            t, k = self.expr(s.test, env)
            if k != 'bool':
                raise Refuse(f'assert on kind {k}')
            if s.msg is not None:
                self.note(f'message of `assert {_src(s.test)}` skipped')
            b = self.binds
            return self.wrap(b, f'm_assert {t} (\n' + cont() + ')')
        if isinstance(s, ast.Raise):
            self.note(f'`{_src(s)}` is failure (None)')
            return 'None'
        if isinstance(s, ast.Return):
            if ctx[0] != 'func':
                raise Refuse('return inside a loop')
            if s.value is None:
                raise Refuse('return without a value')
            return self.ret(s, env)
        if isinstance(s, ast.Assign):
            return self.assign(s, env, cont)
        if isinstance(s, ast.AugAssign):
            if not isinstance(s.target, ast.Name):
                raise Refuse(f'{_src(s)}')
            op = {ast.BitAnd: ast.BitAnd, ast.BitOr: ast.BitOr}.get(
                type(s.op))
            if op is None:
                raise Refuse(f'{_src(s)}')
            v = self.lookup(env, s.target.id)
            if v.kind != 'bdd':
                raise Refuse(f'{_src(s)}: on kind {v.kind}')
            new = ast.Assign(
                targets=[ast.Name(id=s.target.id, ctx=ast.Store())],
                value=ast.BinOp(left=ast.Name(id=s.target.id, ctx=ast.Load()),
                                op=op(), right=s.value))
            return self.assign(new, env, cont)
        if isinstance(s, ast.If):
            t, k = self.expr(s.test, env)
            if k != 'bool':
                raise Refuse(f'if on kind {k}')
            b = self.binds
            rest_out = lambda n: live_in(rest, n, out(n))
            e1 = {n: v.copy() for n, v in env.items()}
            e2 = {n: v.copy() for n, v in env.items()}
            saved = dict(self.versions)
            a = self.block(list(s.body) + rest, e1, ctx, out)
            self.versions = dict(saved)
            c = self.block(list(s.orelse) + rest, e2, ctx, out)
            return self.wrap(b, f'if {t} then\n' + textwrap.indent(a, '  ')
                             + '\nelse\n' + textwrap.indent(c, '  '))
        if isinstance(s, (ast.For, ast.While)):
            return self.loop(s, rest, env, ctx, out)
        raise Refuse(f'{type(s).__name__} is outside the translated subset')

    def state_tuple(self, names):
        if not names:
            return 'tt'
        if len(names) == 1:
            return f'v_{names[0]}'
        return '(' + ', '.join(f'v_{n}' for n in names) + ')'

    def state_pat(self, names):
        if not names:
            return '_'
        if len(names) == 1:
            return f'v_{names[0]}'
        return "'(" + ', '.join(f'v_{n}' for n in names) + ')'

    def ret(self, s, env):
        fi = self.cur
        if isinstance(s.value, ast.Call) and _dotted(s.value.func) in \
                self.funcs:
            # return f(...): bind, then return
            t = self.tmp()
            new = [ast.Assign(targets=[ast.Name(id='%ret', ctx=ast.Store())],
                              value=s.value)]
            return self.assign(new[0], env, lambda e=env: self.ret_value(
                'v_%ret', e['%ret'].kind, e), ret_tmp=t)
        t, k = self.expr(s.value, env)
        return self.wrap(self.binds, self.ret_value(t, k, env, s.value))

    def ret_value(self, t, k, env, node=None):
        fi = self.cur
        if k != fi.result_k:
            raise Refuse(f'returns kind {k}, expected {fi.result_k}')
        if node is not None and isinstance(node, ast.Name):
            v = env[node.id]
            if v.kind in MUTABLE and not (v.fresh or v.param):
                raise Refuse(f'returns `{node.id}`, which may be aliased')
        parts = [t.replace('v_%ret', 'ret')]
        for p in fi.mut:
            self.lookup(env, p)
            parts.append(f'v_{p}')
        return 'Some (' + ', '.join(parts) + ')' if len(parts) > 1 \
            else f'Some {parts[0]}'

    def call_translated(self, node, env):
        """Call of a translated function -> (open prefix binding the result
        pattern, result name, result kind).  Rebinds the names passed for
        parameters the callee changes in place."""
        c = self.funcs[_dotted(node.func)]
        a = self.kwargs(node, c.params,
                        [p for p in c.params if p not in c.defaults])
        args, seen = [], []
        for p, k in zip(c.params, c.params_k):
            if p not in a:
                args.append(c.defaults[p])
                continue
            an = a[p]
            if p in c.mut:
                n = self.mutable_target(env, an, _src(node))
                if n in seen:
                    raise Refuse(f'{_src(node)}: `{n}` passed twice')
                seen.append(n)
            if k in MUTABLE and isinstance(an, ast.Name):
                if an.id in seen and p not in c.mut:
                    raise Refuse(f'{_src(node)}: `{an.id}` passed twice')
            args.append(self.fix_kind(env, an, k))
        for p in c.mut:
            n = a[p].id
            self.bump(env, n)
        r = self.tmp()
        pat = [r] + [f'v_{a[p].id}' for p in c.mut]
        fuel = 'fuel ' if c.fuel else ''
        if c.fuel and not self.cur.fuel:
            raise Refuse(f'{_src(node)}: fuel')
        pre = (f'm_bind ({c.coq} {fuel}' + ' '.join(args) + ') (fun '
               + (f"'({', '.join(pat)})" if len(pat) > 1 else pat[0]) + ' =>')
        return pre, r, c.result_k

    def assign(self, s, env, cont, ret_tmp=None):
        if len(s.targets) != 1:
            raise Refuse(f'{_src(s)}: chained assignment')
        tgt, val = s.targets[0], s.value
        # ---- stores into containers / attributes
        if isinstance(tgt, ast.Subscript):
            n = self.mutable_target(env, tgt.value, _src(s))
            d = self.fix_kind(env, tgt.value, 'umap') if env[n].kind in (
                'empty_dict', 'umap') else None
            if d is None:
                raise Refuse(f'{_src(s)}: store into kind {env[n].kind}')
            k, kk = self.expr(tgt.slice, env)
            v, kv = self.expr(val, env)
            if (kk, kv) != ('key', 'node'):
                raise Refuse(f'{_src(s)}: {kk} -> {kv}')
            self.bump(env, n)
            b = self.binds
            return self.wrap(b, f'let v_{n} := dict_set key_eqb {k} {v} '
                                f'v_{n} in\n' + cont())
        if isinstance(tgt, ast.Attribute):
            if not isinstance(tgt.value, ast.Name):
                raise Refuse(f'{_src(s)}')
            n = self.mutable_target(env, tgt.value, _src(s))
            kind = env[n].kind
            v, kv = self.expr(val, env)
            if kind == 'graph' and tgt.attr == 'initial_nodes' and \
                    kv == 'nodeset':
                new = f'nx_set_initial v_{n} {v}'
            elif kind == 'aut' and tgt.attr == 'moore' and kv == 'bool':
                new = f'set_moore v_{n} {v}'
            else:
                raise Refuse(f'{_src(s)}: attribute store')
            self.bump(env, n)
            b = self.binds
            return self.wrap(b, f'let v_{n} := {new} in\n' + cont())
        # ---- calls of translated functions
        if isinstance(val, ast.Call) and _dotted(val.func) in self.funcs:
            pre, r, rk = self.call_translated(val, env)
            b = self.binds + [pre]
            text = self.bind_names(tgt, r, rk, env, fresh=True)
            return self.wrap(b, text + cont())
        # ---- plain values
        if isinstance(val, ast.Name) and val.id in env and (
                env[val.id].kind in MUTABLE
                or env[val.id].kind in ('empty_dict', 'empty_list')):
            raise Refuse(f'{_src(s)}: alias of a mutable object')
        t, k = self.expr(val, env)
        b = self.binds
        fresh = isinstance(val, (ast.Call, ast.SetComp, ast.DictComp))
        text = self.bind_names(tgt, t, k, env, fresh=fresh)
        return self.wrap(b, text + cont())

    def bind_names(self, tgt, term, kind, env, fresh):
        """`tgt = term`; returns the `let ... in\n` text and updates env."""
        if isinstance(tgt, ast.Name):
            self.bind_one(tgt.id, kind, env, fresh)
            return f'let v_{tgt.id} := {term} in\n'.replace('v_%ret', 'ret')
        if isinstance(tgt, ast.Tuple) and all(
                isinstance(e, ast.Name) for e in tgt.elts):
            if not (isinstance(kind, tuple) and kind[0] == 'tuple'
                    and len(kind) - 1 == len(tgt.elts)):
                raise Refuse(f'unpacking kind {kind} into {_src(tgt)}')
            names = [e.id for e in tgt.elts]
            if len(set(names)) != len(names):
                raise Refuse(f'{_src(tgt)}: repeated name')
            for n, k in zip(names, kind[1:]):
                self.bind_one(n, k, env, fresh)
            return ("let '(" + ', '.join(f'v_{n}' for n in names)
                    + f') := {term} in\n')
        raise Refuse(f'assignment to {_src(tgt)}')

    def bind_one(self, name, kind, env, fresh):
        if name in self.cur.params and name in self.cur.mut:
            raise Refuse(f'parameter `{name}`, changed in place, is rebound')
        v = Var(kind, fresh=fresh, depth=self.depth)
        if isinstance(kind, tuple) and kind[0] == 'view':
            v.kind = 'asg'
            v.fresh = False
            v.view_of = (kind[1], self.versions.get(kind[1], 0))
        if kind == 'asg!':
            v.kind, v.fresh = 'asg', True
        if kind in ('empty_dict', 'empty_list'):
            v.fresh = True
        if kind == 'val' or (isinstance(kind, tuple) and kind[0] in (
                'seq', 'pair')):
            raise Refuse(f'`{name}` bound to a value of kind {kind}')
        env[name] = v
        # a rebinding invalidates views of the old object? no: views hold
        # the old object; but the NAME now denotes another object
        self.versions[name] = self.versions.get(name, 0) + 1

    def expr_stmt(self, s, env, cont):
        v = s.value
        if isinstance(v, ast.Constant) and isinstance(v.value, str):
            self.note('string statement skipped')
            return cont()
        if not isinstance(v, ast.Call):
            raise Refuse(f'expression statement {_src(s)}')
        fn = _dotted(v.func)
        if fn in SKIP_CALLS:
            self.check_log()
            self.note(f'`{_src(v)[:60]}` skipped (logging; its arguments are '
                      'not evaluated in the model)')
            return cont()
        if fn == 'symbolic._assert_support_moore':
            self.check_import('symbolic')
            self.note(f'`{_src(v)}` skipped (an assertion of '
                      'omega.symbolic.symbolic: a Moore component\'s action '
                      'must not depend on the primed environment variables; '
                      'the generated function may return a graph where the '
                      'code raises AssertionError)')
            for a in v.args:
                self.binds = []
                self.expr(a, env)       # must still be well-formed
                if self.binds:
                    self.note(f'`{_src(a)}` (argument of the skipped '
                              'assertion): a KeyError here is not modelled')
            self.binds = []
            return cont()
        if fn in self.funcs:
            pre, r, rk = self.call_translated(v, env)
            return self.wrap(self.binds + [pre], cont())
        if isinstance(v.func, ast.Attribute) and isinstance(
                v.func.value, ast.Name):
            n, m = v.func.value.id, v.func.attr
            kind = self.lookup(env, n).kind
            if m == 'append' and len(v.args) == 1 and not v.keywords:
                self.mutable_target(env, v.func.value, _src(s))
                q = self.fix_kind(env, v.func.value, 'nodes')
                t, k = self.expr(v.args[0], env)
                if k != 'node':
                    raise Refuse(f'{_src(s)}: append of kind {k}')
                self.bump(env, n)
                return self.wrap(self.binds,
                                 f'let v_{n} := v_{n} ++ [{t}] in\n' + cont())
            if m == 'update' and len(v.args) == 1 and not v.keywords and \
                    kind in ('asg', 'empty_dict'):
                self.mutable_target(env, v.func.value, _src(s))
                self.fix_kind(env, v.func.value, 'asg')
                t, k = self.expr(v.args[0], env)
                if k != 'asg':
                    raise Refuse(f'{_src(s)}: update with kind {k}')
                self.bump(env, n)
                return self.wrap(
                    self.binds, f'let v_{n} := dict_update var_eqb v_{n} {t} '
                                'in\n' + cont())
            if m == 'add_node' and kind == 'graph' and len(v.args) == 1 and \
                    len(v.keywords) == 1 and v.keywords[0].arg is None:
                self.mutable_target(env, v.func.value, _src(s))
                u, ku = self.expr(v.args[0], env)
                d, kd = self.expr(v.keywords[0].value, env)
                if (ku, kd) != ('node', 'asg'):
                    raise Refuse(f'{_src(s)}: add_node({ku}, **{kd})')
                self.bump(env, n)
                return self.wrap(
                    self.binds,
                    f'let v_{n} := nx_add_node v_{n} {u} {d} in\n' + cont())
            if m == 'add_edge' and kind == 'graph' and len(v.args) == 2 and \
                    not v.keywords:
                self.mutable_target(env, v.func.value, _src(s))
                a, ka = self.expr(v.args[0], env)
                b, kb = self.expr(v.args[1], env)
                if (ka, kb) != ('node', 'node'):
                    raise Refuse(f'{_src(s)}: add_edge({ka}, {kb})')
                self.bump(env, n)
                return self.wrap(
                    self.binds,
                    f'let v_{n} := nx_add_edge v_{n} {a} {b} in\n' + cont())
            if m == 'prime_varlists' and kind == 'aut' and not v.args and \
                    not v.keywords:
                self.mutable_target(env, v.func.value, _src(s))
                self.note('`aut.prime_varlists()` is a method of '
                          'temporal.Automaton, modelled by hand '
                          '(EnumArena.prime_varlists), not translated')
                self.bump(env, n)
                return (f'm_bind (prime_varlists v_{n}) (fun v_{n} =>\n'
                        + cont() + ')')
        # _aut.varlist.update(env=..., sys=...) and the like
        if isinstance(v.func, ast.Attribute) and v.func.attr == 'update' and \
                isinstance(v.func.value, ast.Attribute) and \
                isinstance(v.func.value.value, ast.Name) and \
                not v.args and v.keywords and all(
                    kw.arg for kw in v.keywords):
            n, field = v.func.value.value.id, v.func.value.attr
            if self.lookup(env, n).kind == 'aut' and field in (
                    'varlist', 'init', 'action'):
                self.mutable_target(env, v.func.value.value, _src(s))
                vk = 'varlist' if field == 'varlist' else 'bdd'
                items = []
                for kw in v.keywords:
                    t, k = self.expr(kw.value, env)
                    if k != vk:
                        raise Refuse(f'{_src(s)}: value of kind {k}')
                    items.append(f'({coq_string(kw.arg)}, {t})')
                self.bump(env, n)
                return self.wrap(
                    self.binds,
                    f'let v_{n} := set_{field} v_{n} (dict_update String.eqb '
                    f'(a_{field} v_{n}) [' + '; '.join(items) + ']) in\n'
                    + cont())
        raise Refuse(f'statement {_src(s)}')

    # ------------------------------------------------------------ loops
    def loop(self, s, rest, env, ctx, out):
        if s.orelse:
            raise Refuse('loop with else clause')
        body = list(s.body)
        for n in ast.walk(s):
            if isinstance(n, ast.Return):
                raise Refuse('return inside a loop')
        after = lambda n: live_in(rest, n, out(n))
        assigned = assigned_names(body)
        mutated = self.mutated_names(body)
        if isinstance(s, ast.For):
            if not isinstance(s.target, ast.Name):
                raise Refuse(f'loop target {_src(s.target)}')
            tname = s.target.id
            if tname in mutated:
                raise Refuse(f'loop variable `{tname}` is changed in place')
            if after(tname):
                raise Refuse(f'loop variable `{tname}` is used after the loop')
        else:
            tname = None
        # the state: names bound before the loop, in the order of binding
        state = []
        for n in env:
            if n == tname:
                continue
            if n in mutated:
                self.mutable_target(env, ast.Name(id=n, ctx=ast.Load()),
                                    f'loop at line {s.lineno}')
                state.append(n)
            elif n in assigned:
                head_live = after(n) or live_in(body, n, False)
                if isinstance(s, ast.While) and _loads(s.test, n):
                    head_live = True
                if head_live:
                    state.append(n)
        for n in state:
            v = self.lookup(env, n)
            if v.kind in ('variter', 'asgiter'):
                raise Refuse(f'iterator `{n}` carried by a loop')
            if v.kind in ('empty_dict', 'empty_list'):
                # fix its kind by a dry run of the body below
                pass
        # the iterable / the test
        self.binds = []
        if isinstance(s, ast.For):
            if isinstance(s.iter, ast.Name) and s.iter.id in env and \
                    env[s.iter.id].kind == 'asgiter':
                v = self.lookup(env, s.iter.id)
                if v.consumed or v.depth != self.depth:
                    raise Refuse(f'iterator `{s.iter.id}` consumed twice or '
                                 'inside a deeper loop')
                v.consumed = True
                it, kit = f'v_{s.iter.id}', 'asgiter'
            else:
                it, kit = self.expr(s.iter, env)
            if kit != 'asgiter':
                raise Refuse(f'for over kind {kit}')
            self.note(f'`{_src(s.iter)}`: the generator returned by '
                      'aut.pick_iter is taken as the list of the assignments '
                      'it yields (BDDs are immutable; it is consumed by this '
                      'loop only)')
        head_binds = self.binds
        # names mutated in the body: views taken before are stale inside
        for n in mutated:
            self.bump(env, n)
        # dry run to fix kinds of containers created empty, then the real one
        text = None
        for attempt in range(2):
            e2 = {n: v.copy() for n, v in env.items()}
            for n in assigned:
                if n in e2 and n not in state and n != tname:
                    pass    # rebound before use in the body (dead at head)
            if tname:
                e2[tname] = Var('asg', fresh=False, depth=self.depth + 1)
                e2[tname].fresh = True      # each yielded dict is new
            saved_v = dict(self.versions)
            saved_t = self.ntmp
            self.depth += 1
            body_out = lambda n: n in state
            text = self.block(body, e2, ('loop', state), body_out)
            self.depth -= 1
            changed = False
            for n in state:
                if env[n].kind in ('empty_dict', 'empty_list') and \
                        e2[n].kind != env[n].kind:
                    env[n].kind = e2[n].kind
                    changed = True
            for n in state:
                if e2[n].kind != env[n].kind:
                    raise Refuse(f'`{n}` changes kind in the loop body '
                                 f'({env[n].kind} -> {e2[n].kind})')
            if not changed:
                break
            self.versions = saved_v
            self.ntmp = saved_t
        # after the loop
        e3 = {n: v.copy() for n, v in env.items()}
        for n in assigned:
            if n in e3 and n not in state:
                e3[n].poison = ('rebound in the loop above while dead at its '
                                'head')
        if tname and tname in e3:
            e3[tname].poison = 'loop variable'
        for n in state:
            if e3[n].kind in MUTABLE:
                e3[n].fresh = env[n].fresh or env[n].param
            self.bump(e3, n)
        pat = self.state_pat(state)
        tup = self.state_tuple(state)
        k = self.block(rest, e3, ctx, out)
        if isinstance(s, ast.For):
            inner = (f'm_bind (m_for (fun st v_{tname} =>\n'
                     + (f'    let {pat} := st in\n' if len(state) > 1 else
                        f'    let {pat} := st in\n')
                     + textwrap.indent(text, '    ') + f')\n  {it} {tup}) '
                     f'(fun {pat} =>\n' + k + ')')
            return self.wrap(head_binds, inner)
        # while
        if not self.cur.fuel:
            raise Refuse('while without fuel')
        self.binds = []
        e4 = {n: v.copy() for n, v in env.items()}
        if isinstance(s.test, ast.Name) and s.test.id in env and \
                env[s.test.id].kind == 'nodes':
            self.lookup(env, s.test.id)
            cond = f'negb (is_nil v_{s.test.id})'
        else:
            cond, kc = self.expr(s.test, e4)
            if kc != 'bool' or self.binds:
                raise Refuse(f'while test {_src(s.test)}')
        for n in ast.walk(s.test):
            if isinstance(n, ast.Name) and n.id not in state and (
                    n.id in assigned or n.id in mutated):
                raise Refuse(f'while test reads `{n.id}` outside the state')
        return (f'm_bind (m_while fuel (fun {pat} => {cond}) (fun {pat} =>\n'
                + textwrap.indent(text, '    ') + f')\n  {tup}) '
                f'(fun {pat} =>\n' + k + ')')


HEADER = '''(* GENERATED by tools/py2coq_games_enum.py from
     %(src)s : %(functions)s
   in the working tree of the omega repository.
   Do not edit; regenerated on every check run.

   Python names are prefixed with v_; t1, t2, ... are intermediate values.
   Every function returns [option _]; None is any exception.  A function that
   changes parameters in place returns them after its result.  The meaning of
   the constructs used (BDDs by meaning over the arena, dicts, the networkx
   graph) is theories/L4Enum/EnumArena.v; see tools/py2coq_games_enum.py for
   the subset and the notes at the end for everything that was skipped. *)
From Coq Require Import List Bool Arith String.
From Omega Require Import L4Enum.EnumArena.
Import ListNotations.

Section Gen.
(* the arena: number of valuations of the environment's / the component's
   variables *)
Variables nx ny : nat.
(* dd, through omega.symbolic.fol.Context: aut.pick(u, care_vars=c) and
   list(aut.pick_iter(u, care_vars=c)) *)
Variable pick : bdd -> list var -> option asg.
Variable pick_iter : bdd -> list var -> list asg.

'''
FOOTER = '''
End Gen.
'''


def translate(path):
    """-> (text of the definitions, notes)."""
    tr = Translator(path)
    out = []
    for name, coq, pk, rk in SIGNATURES:
        fi = tr.translate_function(name, coq, pk, rk)
        out.append(tr.emit(fi))
    for name in NOT_TRANSLATED:
        tr.find(name)       # must exist, once, not rebound
    return '\n\n'.join(out) + '\n', tr.notes


def file_text(path):
    text, notes = translate(path)
    body = HEADER % dict(
        src=SRC, functions=', '.join(s[0] for s in SIGNATURES)) + text + FOOTER
    body += ''.join(f'(* note: {_comment(n)} *)\n' for n in notes)
    return body, notes


if __name__ == '__main__':
    import os
    import sys
    repo = os.environ.get('OMEGA_REPO', '/repo')
    print(file_text(os.path.join(repo, SRC))[0])
