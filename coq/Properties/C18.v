(* C18 — Priming, renaming and type-hint predicates are exact.
   Statements only; proofs in GenProofs/BitsProofs.v (about the definitions
   GENERATED from bitvector.dom_to_width and _type_hints._bitfield_limits on
   every run), theories/L0Bits/BitsFacts.v and theories/L3Context/*Facts.v. *)
From Coq Require Import ZArith List Bool String Lia.
From Omega Require Import L0Bits.Bits L0Bits.BitsFacts.
From OmegaGen Require Import BitsGen.
From OmegaGP Require Import BitsProofs.
Import ListNotations.
Open Scope Z_scope.

(* ---- type hints: representability and limits (no bound on lo, hi) ------------- *)

(* every declaration lo <= hi is accepted *)
Theorem C18_declaration_total : forall lo hi, lo <= hi ->
  exists h, declared_hint lo hi = Some h /\ wf_hint h /\ h_dom h = (lo, hi).
Proof. exact declared_hint_some. Qed.

(* every value inside a declared type hint lies within the reported limits *)
Theorem C18_hint_representable : forall lo hi h L H, lo <= hi ->
  declared_hint lo hi = Some h -> bitfield_limits h = Some (L, H) ->
  forall v, lo <= v <= hi -> L <= v <= H.
Proof. exact hint_representable. Qed.

(* the value map over all bit fields of the declared width (completed by the
   constant sign bit for sign-definite hints) is a bijection onto [L..H] *)
Theorem C18_limits_exact : forall lo hi h L H, lo <= hi ->
  declared_hint lo hi = Some h -> bitfield_limits h = Some (L, H) ->
  (forall bits, List.length bits = wnat h ->
     exists v, decode_val h bits = Some v /\ L <= v <= H) /\
  (forall v, L <= v <= H ->
     exists bits, List.length bits = wnat h /\ decode_val h bits = Some v) /\
  (forall b1 b2, List.length b1 = wnat h -> List.length b2 = wnat h ->
     decode_val h b1 = decode_val h b2 -> b1 = b2).
Proof. exact limits_exact. Qed.

(* so the reported limits are the least and greatest representable values *)
Theorem C18_limits_least_greatest : forall lo hi h L H, lo <= hi ->
  declared_hint lo hi = Some h -> bitfield_limits h = Some (L, H) ->
  let representable v :=
    exists bits, List.length bits = wnat h /\ decode_val h bits = Some v in
  representable L /\ representable H /\
  (forall v, representable v -> L <= v <= H).
Proof. exact limits_least_greatest. Qed.

(* the sign bit is stored exactly for ranges that cross zero, otherwise it is
   the constant that _append_sign_bit adds; 0..0 gets width 1; the magnitude
   width is bit_length of the largest absolute value *)
Theorem C18_width_minimal_shape : forall lo hi h, lo <= hi ->
  declared_hint lo hi = Some h ->
  (h_signed h = true <-> lo < 0 <= hi) /\
  (forall (A : Type) (z o : A) bits, List.length bits = wnat h ->
     exists l, append_sign_bit z o bits h = Some l /\
       List.length l = (List.length bits + (if h_signed h then 0 else 1))%nat /\
       (h_signed h = false -> l = bits ++ [if lo >=? 0 then z else o])) /\
  (lo = 0 -> hi = 0 -> h_width h = 1 /\ h_signed h = false) /\
  (absval lo hi <> 0 ->
     let m := h_width h - (if h_signed h then 1 else 0) in
     2 ^ (m - 1) <= absval lo hi < 2 ^ m).
Proof. exact width_minimal_shape. Qed.

(* a value within the limits is stored digit by digit (fol._int_to_bit_assignment)
   and read back unchanged *)
Theorem C18_encode_decode : forall h z, wf_hint h -> in_limits h z = true ->
  int_to_bit_assignment h z = Some (combine (seq 0 (wnat h)) (encode_val h z)) /\
  decode_val h (encode_val h z) = Some z.
Proof.
  intros h z Hwf Hin. split.
  - exact (int_to_bit_assignment_spec h z Hwf Hin).
  - exact (decode_encode h z Hwf Hin).
Qed.

Example C18_hypotheses_satisfiable :
  declared_hint (-3) 2 = Some (mkHint 3 true (-3, 2)) /\
  bitfield_limits (mkHint 3 true (-3, 2)) = Some (-4, 3) /\
  wf_hint (mkHint 3 true (-3, 2)) /\ in_limits (mkHint 3 true (-3, 2)) (-4) = true.
Proof. repeat split; try reflexivity; try discriminate; simpl; lia. Qed.

Print Assumptions C18_declaration_total.
Print Assumptions C18_hint_representable.
Print Assumptions C18_limits_exact.
Print Assumptions C18_limits_least_greatest.
Print Assumptions C18_width_minimal_shape.
Print Assumptions C18_encode_decode.
