(* PrefixBridge: the iterative prefix translator TRANSLATED from
   omega/symbolic/bdd_iterative.py (gen/PrefixGen.v, regenerated on every
   run) computes what the hand-written model (L3History/Prefix.v:
   iter_add_expr) computes, on every list of tokens and for every sufficient
   fuel.  The C17 theorems about the model (parsers_agree, translators_spec)
   are thereby theorems about the translated code.

   The generated code works on Python-shaped tokens (type and value
   strings) and on stacks / memory buffers of [item]s (string or node); the
   model on [tok] and on stacks of [sitem] / buffers of nodes.  [abs] maps a
   Python token to the model token, [wf_tok] says that the token is one the
   lexer can produce.

   The proofs use the generated definitions only through (a) unfolding one
   step on constructor-headed arguments and (b) conversion, so renaming
   locals or splitting expressions in the Python source does not break
   them; a change of behaviour does. *)
From Coq Require Import ZArith List Bool String Ascii Lia.
From Omega Require Import L3History.Prefix L3History.PrefixProofs.
From OmegaGen Require Import PrefixGen.
Import ListNotations.
Open Scope Z_scope.

(* ------------------------------------------------- the Python list prelude *)
Lemma py_len_app : forall A (a b : list A), py_len (a ++ b) = py_len a + py_len b.
Proof. intros. unfold py_len. rewrite app_length. lia. Qed.

Lemma py_len_nonneg : forall A (a : list A), 0 <= py_len a.
Proof. intros. unfold py_len. lia. Qed.

Lemma for_list_b_app : forall A S (body : A -> S -> option (S * bool)) l1 l2 s,
  for_list_b body (l1 ++ l2) s =
  match for_list_b body l1 s with
  | Some (s', false) => for_list_b body l2 s'
  | r => r
  end.
Proof.
  induction l1 as [|x l1 IH]; intros l2 s; simpl; [reflexivity|].
  destruct (body x s) as [[s' [|]]|]; [reflexivity|apply IH|reflexivity].
Qed.

Lemma py_enum_from_app : forall A (a b : list A) i,
  py_enum_from i (a ++ b) = py_enum_from i a ++ py_enum_from (i + py_len a) b.
Proof.
  induction a as [|x a IH]; intros b i; simpl.
  - unfold py_len. simpl. rewrite Z.add_0_r. reflexivity.
  - rewrite IH. unfold py_len. simpl List.length. rewrite Nat2Z.inj_succ.
    replace (i + 1 + Z.of_nat (List.length a)) with (i + Z.succ (Z.of_nat (List.length a))) by lia.
    reflexivity.
Qed.

(* the position in l1 ++ x :: l2 given as an integer *)
Lemma py_pop_mid : forall A (l1 l2 : list A) x,
  py_pop (l1 ++ x :: l2) (py_len l1) = Some (l1 ++ l2, x).
Proof.
  intros A l1 l2 x. unfold py_pop. cbv zeta.
  assert (H0 := py_len_nonneg A l1).
  destruct (py_len l1 <? 0) eqn:E; [apply Z.ltb_lt in E; lia|].
  rewrite E, py_len_app.
  replace (py_len (x :: l2)) with (1 + py_len l2)
    by (unfold py_len; simpl List.length; lia).
  assert (H1 := py_len_nonneg A l2).
  destruct (py_len l1 + (1 + py_len l2) <=? py_len l1) eqn:E2; [apply Z.leb_le in E2; lia|].
  simpl orb. unfold py_len. rewrite Nat2Z.id.
  rewrite nth_error_app2 by lia. rewrite Nat.sub_diag. simpl nth_error.
  rewrite firstn_app, Nat.sub_diag, firstn_all. simpl firstn. rewrite app_nil_r.
  replace (S (List.length l1)) with (List.length l1 + 1)%nat by lia.
  rewrite skipn_app.
  rewrite skipn_all2 by lia.
  replace (List.length l1 + 1 - List.length l1)%nat with 1%nat by lia.
  reflexivity.
Qed.

Lemma py_pop_end : forall A (l1 : list A),
  py_pop l1 (py_len l1) = None.
Proof.
  intros A l1. unfold py_pop. cbv zeta.
  assert (H0 := py_len_nonneg A l1).
  destruct (py_len l1 <? 0) eqn:E; [apply Z.ltb_lt in E; lia|].
  rewrite Z.leb_refl, orb_true_r. reflexivity.
Qed.

Lemma py_insert_mid : forall A (l1 l2 : list A) x,
  py_insert (l1 ++ l2) (py_len l1) x = l1 ++ x :: l2.
Proof.
  intros A l1 l2 x. unfold py_insert, py_bound. cbv zeta.
  assert (H0 := py_len_nonneg A l1). assert (H1 := py_len_nonneg A l2).
  destruct (py_len l1 <? 0) eqn:E; [apply Z.ltb_lt in E; lia|].
  rewrite py_len_app, Z.min_l by lia.
  unfold py_len. rewrite Nat2Z.id.
  rewrite firstn_app, Nat.sub_diag, firstn_all. simpl firstn. rewrite app_nil_r.
  rewrite skipn_app, skipn_all, Nat.sub_diag. reflexivity.
Qed.

(* stack[k:k+n] where k is the length of a prefix *)
Lemma py_slice_mid : forall A (l1 l2 : list A) n,
  0 <= n ->
  py_slice (l1 ++ l2) (py_len l1) (py_len l1 + n) = firstn (Z.to_nat n) l2.
Proof.
  intros A l1 l2 n Hn. unfold py_slice, py_bound. cbv zeta.
  assert (H0 := py_len_nonneg A l1). assert (H1 := py_len_nonneg A l2).
  destruct (py_len l1 <? 0) eqn:E; [apply Z.ltb_lt in E; lia|].
  destruct (py_len l1 + n <? 0) eqn:E2; [apply Z.ltb_lt in E2; lia|].
  rewrite py_len_app. rewrite (Z.min_l (py_len l1)) by lia.
  replace (Z.to_nat (py_len l1)) with (List.length l1) by (unfold py_len; lia).
  rewrite skipn_app, skipn_all, Nat.sub_diag. simpl.
  destruct (Z.le_ge_cases n (py_len l2)) as [L|L].
  - rewrite Z.min_l by lia. f_equal. lia.
  - rewrite Z.min_r by lia.
    replace (py_len l1 + py_len l2 - py_len l1) with (py_len l2) by lia.
    unfold py_len in *. rewrite Nat2Z.id.
    rewrite firstn_all. rewrite firstn_all2 by lia. reflexivity.
Qed.

Section Bridge.
Variable D : Type.
Variable dtrue dfalse : D.
Variable var : string -> option D.
Variable node : Z -> option D.
Variable ap1 : D -> option D.
Variable ap2 : binop -> D -> D -> option D.

Local Notation item := (PrefixGen.item D).
Local Notation IStr := (PrefixGen.IStr D).
Local Notation IVal := (PrefixGen.IVal D).
Local Notation sitem := (sitem D).
Local Notation it_reduce_while1 := (it_reduce_while1 D ap1 ap2).
Local Notation it_reduce := (it_reduce D ap1 ap2).
Local Notation it_increase := (it_increase D dtrue dfalse var node ap1 ap2).
Local Notation it_increase_while1 := (it_increase_while1 D dtrue dfalse var node ap1 ap2).
Local Notation it_push := (it_push D dtrue dfalse var node ap1 ap2).
Local Notation it_parse := (it_parse D dtrue dfalse var node ap1 ap2).
Local Notation it_add_expr := (it_add_expr D dtrue dfalse var node ap1 ap2).

(* ------------------------------------------------------------- embedding *)
Definition binop_str (op : binop) : string :=
  match op with
  | And => "&" | Or => "|" | Xor => "^"
  | Forall => "\A" | Exists => "\E" | Rename => "\S"
  end%string.

(* a stack entry of the model as a stack entry of the code *)
Definition emb (t : sitem) : item :=
  match t with
  | SOp1 _ => IStr "!"%string
  | SOp2 _ op => IStr (binop_str op)
  | SVal _ d => IVal d
  end.

Lemma emb_op : forall o, is_op D o = true ->
  exists s, emb o = IStr s /\ str_in s c_OPERATORS = true.
Proof.
  intros [|op|d] H; try discriminate; simpl.
  - eexists. split; reflexivity.
  - destruct op; eexists; split; reflexivity.
Qed.

Lemma emb_val : forall t, is_op D t = false -> exists d, t = SVal D d.
Proof. intros [|op|d] H; try discriminate. eauto. Qed.

Lemma for_vals : forall (S : Type) (B : Z * item -> S -> option (S * bool)) (g : Z -> D -> S),
  (forall i d st, B (i, IVal d) st = Some (g i d, false)) ->
  forall vs i st, all_vals D vs ->
  exists st', for_list_b B (py_enum_from i (map emb vs)) st = Some (st', false).
Proof.
  intros S B g HB. induction vs as [|t vs IH]; intros i st Hv; simpl.
  - eauto.
  - destruct (emb_val t) as [d ->]; [apply Hv; left; reflexivity|].
    simpl. rewrite HB. apply IH. intros x Hx. apply Hv. right. exact Hx.
Qed.

Lemma all_vals_rev : forall vs, all_vals D vs -> all_vals D (rev vs).
Proof. intros vs H t Ht. apply H. apply in_rev. exact Ht. Qed.

(* the `for i, t in enumerate(reversed(stack))` of _reduce finds the last
   operator of the stack *)
Lemma find_last : forall (B : Z * item -> option Z * option item ->
                               option ((option Z * option item) * bool)),
  (forall i d st, B (i, IVal d) st = Some ((Some i, Some (IVal d)), false)) ->
  (forall i s st, B (i, IStr s) st =
                  Some ((Some i, Some (IStr s)), str_in s c_OPERATORS)) ->
  forall pre o post init, is_op D o = true -> all_vals D post ->
  for_list B (py_enumerate (rev (map emb (pre ++ o :: post)))) init
  = Some (Some (py_len post), Some (emb o)).
Proof.
  intros B HV HS pre o post init Ho Hp.
  rewrite map_app, rev_app_distr. simpl map. simpl rev.
  rewrite <- app_assoc. simpl app. rewrite <- map_rev.
  unfold for_list, py_enumerate. rewrite py_enum_from_app, for_list_b_app.
  destruct (for_vals _ B (fun i d => (Some i, Some (IVal d))) HV (rev post) 0 init
              (all_vals_rev _ Hp)) as [st' ->].
  destruct (emb_op o Ho) as [s [E S]]. rewrite E.
  simpl py_enum_from. simpl for_list_b. rewrite HS, S. simpl.
  unfold py_len. rewrite map_length, rev_length. reflexivity.
Qed.
Lemma len_gt1 : forall (pre : list sitem) a b post,
  (py_len (map emb (pre ++ a :: b :: post)) >? 1) = true.
Proof.
  intros. unfold py_len. rewrite map_length, app_length. simpl List.length.
  apply Z.gtb_lt. lia.
Qed.

(* the index arithmetic of one round of _reduce, on a stack split at its
   last operator: P ++ o :: Q *)
Lemma k_eq : forall (P Q : list item) o (q : list sitem),
  py_len q = py_len Q ->
  py_len (P ++ o :: Q) - py_len q = py_len (P ++ [o]).
Proof.
  intros P Q o q H. rewrite !py_len_app, H. unfold py_len. simpl List.length. lia.
Qed.

Lemma k1_eq : forall (P : list item) o, py_len (P ++ [o]) - 1 = py_len P.
Proof. intros. rewrite py_len_app. unfold py_len. simpl. lia. Qed.

Lemma py_len_map : forall (l : list sitem), py_len (map emb l) = py_len l.
Proof. intros. unfold py_len. rewrite map_length. reflexivity. Qed.

Lemma py_pop_after : forall A (l1 l2 : list A) x y,
  py_pop (l1 ++ x :: y :: l2) (py_len (l1 ++ [x])) = Some (l1 ++ x :: l2, y).
Proof.
  intros A l1 l2 x y.
  replace (l1 ++ x :: y :: l2) with ((l1 ++ [x]) ++ y :: l2)
    by (rewrite <- app_assoc; reflexivity).
  rewrite py_pop_mid, <- app_assoc. reflexivity.
Qed.

Lemma py_slice_after : forall A (l1 l2 : list A) x n,
  0 <= n ->
  py_slice (l1 ++ x :: l2) (py_len (l1 ++ [x])) (py_len (l1 ++ [x]) + n)
  = firstn (Z.to_nat n) l2.
Proof.
  intros A l1 l2 x n Hn.
  replace (l1 ++ x :: l2) with ((l1 ++ [x]) ++ l2)
    by (rewrite <- app_assoc; reflexivity).
  apply py_slice_mid, Hn.
Qed.

Ltac norm_stack :=
  rewrite ?map_app; cbn [map emb].

Ltac reduce_round Hp :=
  cbn [PrefixGen.it_reduce_while1];
  rewrite len_gt1;
  erewrite find_last;
    [|intros ? ? st; destruct st; reflexivity
     |intros ? s st; destruct st; cbv beta iota zeta;
      destruct (str_in s c_OPERATORS); reflexivity
     |reflexivity
     |repeat (let t := fresh in let Ht := fresh in
              intros t [<-|Ht]; [reflexivity|revert t Ht]); exact Hp];
  cbn [obind emb].

Lemma gen_rstep_op1 : forall f pre u post oi ot, all_vals D post ->
  it_reduce_while1 (S f) (map emb (pre ++ SOp1 D :: SVal D u :: post), oi, ot) =
  obind (ap1 u) (fun r =>
    it_reduce_while1 f (map emb (pre ++ SVal D r :: post), Some 0, Some "!"%string)).
Proof.
  intros f pre u post oi ot Hp.
  reduce_round Hp.
  replace (str_in "!" c_OPERATORS) with true by reflexivity.
  rewrite String.eqb_refl.
  norm_stack.
  rewrite (k_eq (map emb pre) (IVal u :: map emb post) (IStr "!"%string) (SVal D u :: post))
    by (unfold py_len; simpl; rewrite map_length; reflexivity).
  rewrite k1_eq.
  change (py_range 1) with [0].
  unfold for_list; cbn [for_list_b].
  rewrite py_pop_after. cbn [obind option_map fst].
  rewrite py_pop_mid. cbn [obind].
  rewrite py_slice_after by lia. change (Z.to_nat 1) with 1%nat. cbn [firstn].
  change (bdd_apply D ap1 ap2 "!" [IVal u]) with (ap1 u).
  destruct (ap1 u) as [r|]; cbn [obind]; [|reflexivity].
  rewrite py_insert_mid. norm_stack. reflexivity.
Qed.


Lemma binop_str_in : forall op,
  str_in (binop_str op) c_OPERATORS = true /\
  String.eqb (binop_str op) "!" = false /\
  str_in (binop_str op) c_BINARY_OPERATORS = true /\
  binop_of_str (binop_str op) = Some op.
Proof. intros []; repeat split; reflexivity. Qed.

Lemma gen_rstep_op2 : forall f pre op u v post oi ot, all_vals D post ->
  it_reduce_while1 (S f)
    (map emb (pre ++ SOp2 D op :: SVal D u :: SVal D v :: post), oi, ot) =
  obind (ap2 op u v) (fun r =>
    it_reduce_while1 f (map emb (pre ++ SVal D r :: post), Some 1, Some (binop_str op))).
Proof.
  intros f pre op u v post oi ot Hp.
  reduce_round Hp.
  destruct (binop_str_in op) as [E1 [E2 [E3 E4]]].
  rewrite E1, E2, E3.
  norm_stack.
  rewrite (k_eq (map emb pre) (IVal u :: IVal v :: map emb post) (IStr (binop_str op))
             (SVal D u :: SVal D v :: post))
    by (unfold py_len; simpl; rewrite map_length; reflexivity).
  rewrite k1_eq.
  change (py_range 2) with [0; 1].
  unfold for_list; cbn [for_list_b].
  rewrite py_pop_after. cbn [obind option_map fst].
  rewrite py_pop_after. cbn [obind option_map fst].
  rewrite py_pop_mid. cbn [obind].
  rewrite py_slice_after by lia. change (Z.to_nat 2) with 2%nat. cbn [firstn].
  change (bdd_apply D ap1 ap2 (binop_str op) [IVal u; IVal v])
    with (match binop_of_str (binop_str op) with Some b => ap2 b u v | None => None end).
  rewrite E4.
  destruct (ap2 op u v) as [r|]; cbn [obind]; [|reflexivity].
  rewrite py_insert_mid. norm_stack. reflexivity.
Qed.

(* a stack of at most one entry ends the loop *)
Lemma gen_reduce_done : forall f t oi ot,
  it_reduce_while1 (S f) ([t], oi, ot) = Some ([t], oi, ot).
Proof. reflexivity. Qed.


Local Notation sx := (sx D).
Local Notation xeval := (xeval D ap1 ap2).
Local Notation ser := (ser D).
Local Notation ops := (ops D).

(* reducing a stack that ends in the serialisation of a tree followed by
   values first evaluates the tree (as reduce_ser for the model) *)
Lemma gen_reduce_ser : forall x pre post n oi ot, all_vals D post ->
  (forall v, xeval x = Some v -> exists oi' ot',
     it_reduce_while1 (ops x + n) (map emb (pre ++ ser x ++ post), oi, ot) =
     it_reduce_while1 n (map emb (pre ++ SVal D v :: post), oi', ot')) /\
  (xeval x = None ->
     it_reduce_while1 (ops x + n) (map emb (pre ++ ser x ++ post), oi, ot) = None).
Proof.
  induction x as [d|x IH|op x IHx y IHy]; intros pre post n oi ot Hp;
    cbn [PrefixProofs.ser PrefixProofs.ops PrefixProofs.xeval obind app Nat.add].
  - split; [|discriminate]. intros v E. injection E as <-. eauto.
  - replace (pre ++ SOp1 D :: ser x ++ post) with ((pre ++ [SOp1 D]) ++ ser x ++ post)
      by (rewrite <- app_assoc; reflexivity).
    replace (S (ops x + n)) with (ops x + S n)%nat by lia.
    destruct (IH (pre ++ [SOp1 D]) post (S n) oi ot Hp) as [IHs IHn].
    destruct (xeval x) as [u|]; cbn [obind].
    + destruct (IHs u eq_refl) as [oi' [ot' ->]].
      rewrite <- app_assoc. cbn [app].
      rewrite gen_rstep_op1 by exact Hp.
      split.
      * intros v E. rewrite E. cbn [obind]. eauto.
      * intros E. rewrite E. reflexivity.
    + split; [discriminate|]. intros _. apply IHn. reflexivity.
  - replace (pre ++ SOp2 D op :: (ser x ++ ser y) ++ post)
      with (((pre ++ [SOp2 D op]) ++ ser x) ++ ser y ++ post)
      by (rewrite <- !app_assoc; reflexivity).
    replace (S (ops x + ops y + n)) with (ops y + (ops x + S n))%nat by lia.
    destruct (IHy ((pre ++ [SOp2 D op]) ++ ser x) post (ops x + S n)%nat oi ot Hp) as [IHys IHyn].
    destruct (xeval y) as [v|]; cbn [obind].
    + destruct (IHys v eq_refl) as [oi' [ot' ->]].
      rewrite <- app_assoc.
      assert (Hp' : all_vals D (SVal D v :: post))
        by (intros t [<-|Ht]; [reflexivity|apply Hp, Ht]).
      destruct (IHx (pre ++ [SOp2 D op]) (SVal D v :: post) (S n) oi' ot' Hp') as [IHxs IHxn].
      destruct (xeval x) as [u|]; cbn [obind].
      * destruct (IHxs u eq_refl) as [oi'' [ot'' ->]].
        rewrite <- app_assoc. cbn [app].
        rewrite gen_rstep_op2 by exact Hp.
        split.
        -- intros w E. rewrite E. cbn [obind]. eauto.
        -- intros E. rewrite E. reflexivity.
      * split; [discriminate|]. intros _. apply IHxn. reflexivity.
    + split.
      * destruct (xeval x); discriminate.
      * intros _. apply IHyn. reflexivity.
Qed.

(* `_reduce` on the serialisation of a tree: its value, for every fuel above
   the number of operators *)
Lemma gen_reduce_ser_one : forall x f,
  (f > ops x)%nat ->
  it_reduce f (map emb (ser x)) =
  option_map (fun v => (IVal v, [IVal v])) (xeval x).
Proof.
  intros x f Hf. unfold PrefixGen.it_reduce.
  replace f with (ops x + (f - ops x))%nat by lia.
  rewrite <- (app_nil_r (ser x)).
  change (ser x ++ []) with ([] ++ ser x ++ []).
  destruct (gen_reduce_ser x [] [] (f - ops x)%nat None None) as [Hs Hn];
    [intros t []|].
  destruct (xeval x) as [v|].
  - destruct (Hs v eq_refl) as [oi' [ot' ->]].
    destruct (f - ops x)%nat as [|m] eqn:E; [lia|].
    cbn [app map emb]. rewrite gen_reduce_done. reflexivity.
  - rewrite Hn by reflexivity. reflexivity.
Qed.


(* ---------------------------------------------------------------- tokens *)
Definition binop_type (op : binop) : string :=
  match op with
  | And => "AND" | Or => "OR" | Xor => "XOR"
  | Forall => "FORALL" | Exists => "EXISTS" | Rename => "RENAME"
  end%string.

(* the Python token (type, value) that the lexer delivers for a token of the
   model: operators have their lexeme as value, a NAME its text (never a
   numeral), a NUMBER a text that int() reads as z (or rejects: z = None) *)
Definition tok_rel (t : tok) (p : ptok) : Prop :=
  match t with
  | TNot => p = mkTok "NOT" "!"
  | TBin op => p = mkTok (binop_type op) (binop_str op)
  | TDollar => p = mkTok "DOLLAR" "$"
  | TQuestion => p = mkTok "QUESTION" "?"
  | TAt => p = mkTok "AT" "@"
  | TName s => p = mkTok "NAME" s /\ py_int s = None
  | TNum z => exists s, p = mkTok "NUMBER" s /\ py_int s = z
  end%string.

(* ------------------------------------------------- one step of `_push` *)
Definition K3 (need : Z) (gs : list item) (pr : list ptok) (t : item)
    : option (Z * list item * list ptok) :=
  Some (need, gs ++ [t], pr).

Lemma push_nil : forall f gs gm need, it_push (S f) gs gm need [] = None.
Proof. reflexivity. Qed.

Lemma push_name : forall f gs gm need s pr,
  it_push (S f) gs gm need (mkTok "NAME" s :: pr) =
  obind (var s) (fun v => K3 (need - 1) gs pr (IVal v)).
Proof. reflexivity. Qed.

Lemma push_num : forall f gs gm need s pr,
  it_push (S f) gs gm need (mkTok "NUMBER" s :: pr) =
  obind (py_int s) (fun u =>
  obind (num D dtrue dfalse node (Some u)) (fun v => K3 (need - 1) gs pr (IVal v))).
Proof.
  intros. cbn [PrefixGen.it_push next_token p_type p_value].
  change (String.eqb "NUMBER" "NAME") with false.
  change (String.eqb "NUMBER" "NUMBER") with true.
  cbv beta iota zeta.
  destruct (py_int s) as [u|]; [|reflexivity]. cbn [obind].
  destruct u as [|p|p]; try reflexivity.
  destruct p; reflexivity.
Qed.

Lemma push_not : forall f gs gm need pr,
  it_push (S f) gs gm need (mkTok "NOT" "!" :: pr) = K3 need gs pr (IStr "!"%string).
Proof. reflexivity. Qed.

Lemma push_bin : forall f gs gm need op pr,
  it_push (S f) gs gm need (mkTok (binop_type op) (binop_str op) :: pr) =
  K3 (need + 1) gs pr (IStr (binop_str op)).
Proof. intros. destruct op; reflexivity. Qed.

Lemma push_at : forall f gs gm need pr,
  it_push (S f) gs gm need (mkTok "AT" "@" :: pr) = None.
Proof. reflexivity. Qed.

Lemma push_question : forall f gs gm need pr,
  it_push (S f) gs gm need (mkTok "QUESTION" "?" :: pr) =
  match pr with
  | [] => None
  | p2 :: pr' =>
      obind (py_int (p_value p2)) (fun i =>
      obind (if 0 <=? i
             then obind gm (fun l => if i <? py_len l then py_index l i else None)
             else None)
            (fun r => K3 (need - 1) gs pr' r))
  end.
Proof.
  intros. destruct pr as [|p2 pr']; [reflexivity|].
  cbn [PrefixGen.it_push next_token p_type p_value].
  change (String.eqb "QUESTION" "NAME") with false.
  change (String.eqb "QUESTION" "NUMBER") with false.
  change (String.eqb "QUESTION" "NOT") with false.
  change (str_in "QUESTION" c_BINARY) with false.
  change (String.eqb "QUESTION" "QUESTION") with true.
  cbv beta iota zeta. cbn [obind].
  destruct (py_int (p_value p2)) as [i|]; [|reflexivity]. cbn [obind].
  destruct gm as [l|]; cbn [obind]; [|destruct (0 <=? i); reflexivity].
  destruct (0 <=? i); cbn [andb]; [|reflexivity].
  destruct (i <? py_len l); [|reflexivity].
  destruct (py_index l i); reflexivity.
Qed.

(* the loop of the `$` case: n times `_increase` with the memory filled so
   far *)
Definition fill_step (f : nat) (st : list item * list ptok)
    : option (list item * list ptok) :=
  let '(m, tk) := st in
  obind (it_increase f (Some m) tk) (fun '(s, tk') => Some (m ++ [s], tk')).

Fixpoint iter_opt {S : Type} (k : nat) (g : S -> option S) (s : S) : option S :=
  match k with
  | O => Some s
  | Datatypes.S k' => obind (g s) (iter_opt k' g)
  end.

Lemma for_range_iter : forall (S : Type) (B : Z -> S -> option (S * bool)) (g : S -> option S),
  (forall i s, B i s = option_map (fun s' => (s', false)) (g s)) ->
  forall n s, for_list B (py_range n) s = iter_opt (Z.to_nat n) g s.
Proof.
  intros S B g HB n s. unfold for_list, py_range.
  generalize (Z.to_nat n) as k. generalize 0%nat as a. intros a k. revert a s.
  induction k as [|k IH]; intros a s; simpl; [reflexivity|].
  rewrite HB. destruct (g s) as [s'|]; simpl; [apply IH|reflexivity].
Qed.

Lemma push_dollar : forall f gs gm need pr,
  it_push (S f) gs gm need (mkTok "DOLLAR" "$" :: pr) =
  match pr with
  | [] => None
  | p2 :: pr' =>
      obind (py_int (p_value p2)) (fun n =>
      obind (iter_opt (Z.to_nat n) (fill_step f) ([], pr')) (fun '(m, pr1) =>
      obind (py_index m (-1)) (fun r => K3 (need - 1) gs pr1 r)))
  end.
Proof.
  intros. destruct pr as [|p2 pr']; [reflexivity|].
  cbn [PrefixGen.it_push next_token p_type p_value].
  change (String.eqb "DOLLAR" "NAME") with false.
  change (String.eqb "DOLLAR" "NUMBER") with false.
  change (String.eqb "DOLLAR" "NOT") with false.
  change (str_in "DOLLAR" c_BINARY) with false.
  change (String.eqb "DOLLAR" "QUESTION") with false.
  change (String.eqb "DOLLAR" "DOLLAR") with true.
  cbv beta iota zeta. cbn [obind].
  destruct (py_int (p_value p2)) as [n|]; [|reflexivity]. cbn [obind].
  erewrite (for_range_iter _ _ (fill_step f)); [reflexivity|].
  intros i [m tk]. unfold fill_step. cbv beta iota zeta.
  match goal with
  | |- obind ?X _ = _ => change X with (it_increase f (Some m) tk)
  end.
  destruct (it_increase f (Some m) tk) as [[s tk']|]; reflexivity.
Qed.


Lemma increase_S : forall f gm pr,
  it_increase (S f) gm pr =
  obind (it_increase_while1 f gm ([], 1, pr)) (fun '(gs, _, pr') =>
  obind (it_reduce f gs) (fun '(t, _) => Some (t, pr'))).
Proof. reflexivity. Qed.

Lemma while_S : forall f gm gs need pr,
  it_increase_while1 (S f) gm (gs, need, pr) =
  if need >? 0
  then obind (it_push f gs gm need pr) (fun '(need', gs', pr') =>
       it_increase_while1 f gm (gs', need', pr'))
  else Some (gs, need, pr).
Proof. reflexivity. Qed.

(* -------------------------------------------------------------- memory *)
Definition gmem (mem : option (list D)) : option (list item) :=
  option_map (map IVal) mem.

Lemma reg_gen : forall mem i,
  (if 0 <=? i
   then obind (gmem mem) (fun l => if i <? py_len l then py_index l i else None)
   else None) = option_map IVal (reg D mem (Some i)).
Proof.
  intros [m|] i; simpl; [|destruct (0 <=? i); reflexivity].
  destruct (0 <=? i) eqn:E0; simpl; [|reflexivity].
  unfold py_len. rewrite map_length.
  destruct (i <? Z.of_nat (List.length m)) eqn:E1; [|reflexivity].
  unfold py_index. apply Z.leb_le in E0.
  destruct (i <? 0) eqn:E2; [apply Z.ltb_lt in E2; lia|].
  apply nth_error_map.
Qed.

Lemma last_gen : forall m,
  py_index (map IVal m) (-1) = option_map IVal (last_opt D m).
Proof.
  intros m. unfold last_opt, py_index, py_len. rewrite map_length.
  change (-1 <? 0) with true. cbv iota.
  destruct m as [|x m'] using rev_ind; [reflexivity|].
  rewrite rev_unit, app_length. simpl List.length.
  destruct (-1 + Z.of_nat (List.length m' + 1) <? 0) eqn:E; [apply Z.ltb_lt in E; lia|].
  replace (Z.to_nat (-1 + Z.of_nat (List.length m' + 1))) with (List.length m') by lia.
  rewrite map_app, nth_error_app2 by (rewrite map_length; lia).
  rewrite map_length, Nat.sub_diag. reflexivity.
Qed.

Lemma emb_app_val : forall stack v,
  map emb stack ++ [IVal v] = map emb (stack ++ [SVal D v]).
Proof. intros. rewrite map_app. reflexivity. Qed.


(* ------------------------------------------------------------ soundness *)
Local Notation P := (P D dtrue dfalse var node ap1 ap2).
Local Notation Pfill := (Pfill D dtrue dfalse var node ap1 ap2).
Local Notation Pseq := (Pseq D dtrue dfalse var node ap1 ap2).
Local Notation E := (E D dtrue dfalse var node ap1 ap2).
Local Notation XV := (XV D).
Local Notation X1 := (X1 D).
Local Notation X2 := (X2 D).

Definition rel : list tok -> list ptok -> Prop := Forall2 tok_rel.

Lemma tok_int : forall t p, tok_rel t p ->
  py_int (p_value p) = match t with TNum z => z | _ => None end.
Proof.
  intros [|op| | | |s|z] p H; simpl in H.
  - subst p. reflexivity.
  - subst p. destruct op; reflexivity.
  - subst p. reflexivity.
  - subst p. reflexivity.
  - subst p. reflexivity.
  - destruct H as [-> H]. exact H.
  - destruct H as [s [-> H]]. exact H.
Qed.

Lemma tok_int_some : forall t p n, tok_rel t p -> py_int (p_value p) = Some n ->
  t = TNum (Some n).
Proof.
  intros t p n H I. rewrite (tok_int t p H) in I. destruct t; try discriminate.
  rewrite I. reflexivity.
Qed.

Lemma Pfill_count_aux :
  (forall mem toks x rest, P mem toks x rest -> True) /\
  (forall n m toks m' rest, Pfill n m toks m' rest ->
     (n + List.length rest <= List.length toks)%nat).
Proof.
  apply P_Pfill_ind; intros; auto; simpl; try lia.
  match goal with
  | HP : PrefixProofs.P _ _ _ _ _ _ _ _ _ _ _ |- _ =>
      apply (proj1 (P_shorter D dtrue dfalse var node ap1 ap2)) in HP
  end. lia.
Qed.

Lemma Pfill_count : forall n m toks m' rest,
  Pfill n m toks m' rest -> (n + List.length rest <= List.length toks)%nat.
Proof. exact (proj2 Pfill_count_aux). Qed.

Lemma count_ok : forall n m toks m' rest,
  Pfill (Z.to_nat n) m toks m' rest ->
  count (Some n) toks = Some (Z.to_nat n).
Proof.
  intros n m toks m' rest H. apply Pfill_count in H. unfold count.
  destruct (n <=? 0) eqn:E0.
  - apply Z.leb_le in E0. f_equal. lia.
  - apply Z.leb_gt in E0.
    destruct (n <=? Z.of_nat (List.length toks)) eqn:E1; [reflexivity|].
    apply Z.leb_gt in E1. lia.
Qed.

Lemma gtb_succ : forall n, (Z.of_nat (S n) >? 0) = true.
Proof. intros. apply Z.gtb_lt. lia. Qed.

Definition push_result (mem : option (list D)) (stack : list sitem) (need : nat)
    (toks rest : list tok) (need' : Z) (gs' : list item) : Prop :=
  (exists v, P mem toks (XV v) rest /\ gs' = map emb (stack ++ [SVal D v]) /\
             need' = Z.of_nat need) \/
  (toks = TNot :: rest /\ gs' = map emb (stack ++ [SOp1 D]) /\
   need' = Z.of_nat (S need)) \/
  (exists op, toks = TBin op :: rest /\ gs' = map emb (stack ++ [SOp2 D op]) /\
              need' = Z.of_nat (S (S need))).

Lemma K3_val : forall need pr v need' gs' prest stack,
  K3 need (map emb stack) pr (IVal v) = Some (need', gs', prest) ->
  need' = need /\ gs' = map emb (stack ++ [SVal D v]) /\ prest = pr.
Proof.
  intros. unfold K3 in H. injection H as <- <- <-. rewrite map_app. auto.
Qed.

Lemma fill_sound : forall f,
  (forall mem toks ptoks it prest, rel toks ptoks ->
     it_increase f (gmem mem) ptoks = Some (it, prest) ->
     exists v rest, it = IVal v /\ rel rest prest /\ E mem toks v rest) ->
  forall k m toks ptoks gm' prest, rel toks ptoks ->
    iter_opt k (fill_step f) (map IVal m, ptoks) = Some (gm', prest) ->
    exists m' rest, gm' = map IVal m' /\ rel rest prest /\ Pfill k m toks m' rest.
Proof.
  intros f IHi. induction k as [|k IH]; intros m toks ptoks gm' prest R H; simpl in H.
  - injection H as <- <-. exists m, toks. split; [reflexivity|split; [exact R|constructor]].
  - unfold fill_step at 1 in H.
    destruct (it_increase f (Some (map IVal m)) ptoks) as [[s tk']|] eqn:I;
      cbn [obind] in H; [|discriminate].
    destruct (IHi (Some m) toks ptoks s tk' R I) as [v [rest1 [-> [R1 [x [Px Xv]]]]]].
    replace (map IVal m ++ [IVal v]) with (map IVal (m ++ [v])) in H
      by (rewrite map_app; reflexivity).
    destruct (IH _ _ _ _ _ R1 H) as [m' [rest [-> [R2 PF]]]].
    exists m', rest. split; [reflexivity|split; [exact R2|]].
    econstructor; eauto.
Qed.

Lemma gen_sound : forall f,
  (forall mem toks ptoks it prest, rel toks ptoks ->
     it_increase f (gmem mem) ptoks = Some (it, prest) ->
     exists v rest, it = IVal v /\ rel rest prest /\ E mem toks v rest) /\
  (forall mem stack need toks ptoks gs' need' prest, rel toks ptoks ->
     it_increase_while1 f (gmem mem) (map emb stack, Z.of_nat need, ptoks)
       = Some (gs', need', prest) ->
     exists xs rest, rel rest prest /\ Pseq mem need toks xs rest /\
       gs' = map emb (stack ++ flat_map ser xs) /\
       (List.length (flat_map ser xs) < f)%nat) /\
  (forall mem stack need toks ptoks need' gs' prest, rel toks ptoks ->
     it_push f (map emb stack) (gmem mem) (Z.of_nat (S need)) ptoks
       = Some (need', gs', prest) ->
     exists rest, rel rest prest /\ push_result mem stack need toks rest need' gs').
Proof.
  induction f as [|f [IHi [IHw IHp]]]; [repeat split; intros; discriminate|].
  split; [|split].
  - (* _increase *)
    intros mem toks ptoks it prest R H. rewrite increase_S in H.
    destruct (it_increase_while1 f (gmem mem) ([], 1, ptoks)) as [[[gs n'] pr']|] eqn:W;
      cbn [obind] in H; [|discriminate].
    change ([] : list item) with (map emb []) in W.
    change 1 with (Z.of_nat 1) in W.
    destruct (IHw _ _ _ _ _ _ _ _ R W) as [xs [rest [R1 [PS [-> L]]]]].
    inversion PS as [|? ? x r1 xs' ? Px PS']; subst. inversion PS'; subst.
    cbn [flat_map app] in H, L. rewrite app_nil_r in H, L.
    rewrite gen_reduce_ser_one in H
      by (pose proof (length_ser D x); lia).
    destruct (PrefixProofs.xeval D ap1 ap2 x) as [v|] eqn:Xv; cbn [option_map obind] in H;
      [|discriminate].
    injection H as <- <-. exists v, rest. split; [reflexivity|split; [exact R1|]].
    exists x. split; assumption.
  - (* the loop of _increase *)
    intros mem stack need toks ptoks gs' need' prest R H. rewrite while_S in H.
    destruct need as [|need].
    + change (Z.of_nat 0 >? 0) with false in H. cbv iota in H.
      injection H as <- <- <-. exists [], toks.
      split; [exact R|split; [constructor|split; [|simpl; lia]]].
      simpl. rewrite app_nil_r. reflexivity.
    + rewrite gtb_succ in H.
      destruct (it_push f (map emb stack) (gmem mem) (Z.of_nat (S need)) ptoks)
        as [[[n1 gs1] pr1]|] eqn:PU; cbn [obind] in H; [|discriminate].
      destruct (IHp _ _ _ _ _ _ _ _ R PU) as [rest1 [R1 [[v [Pv [-> ->]]]|[[-> [-> ->]]|[op [-> [-> ->]]]]]]].
      * destruct (IHw _ _ _ _ _ _ _ _ R1 H) as [xs [rest [R2 [PS [-> L]]]]].
        exists (XV v :: xs), rest.
        split; [exact R2|split; [econstructor; eauto|split]].
        -- simpl. rewrite <- app_assoc. reflexivity.
        -- simpl. lia.
      * destruct (IHw _ _ _ _ _ _ _ _ R1 H) as [xs [rest [R2 [PS [-> L]]]]].
        inversion PS as [|? ? x r1 xs' ? Px PS']; subst.
        exists (X1 x :: xs'), rest.
        split; [exact R2|split; [econstructor; [constructor; exact Px|exact PS']|split]].
        -- simpl. rewrite <- !app_assoc. reflexivity.
        -- simpl in *. lia.
      * destruct (IHw _ _ _ _ _ _ _ _ R1 H) as [xs [rest [R2 [PS [-> L]]]]].
        inversion PS as [|? ? x r1 xs' ? Px PS']; subst.
        inversion PS' as [|? ? y r2 xs'' ? Py PS'']; subst.
        exists (X2 op x y :: xs''), rest.
        split; [exact R2|split; [econstructor; [econstructor; eauto|exact PS'']|split]].
        -- simpl. rewrite <- !app_assoc. reflexivity.
        -- simpl in *. rewrite !app_length in *. lia.
  - (* _push *)
    intros mem stack need toks ptoks need' gs' prest R H.
    destruct ptoks as [|p pr]; [rewrite push_nil in H; discriminate|].
    inversion R as [|t ? tr ? TR R']; subst.
    destruct t as [|op| | | |s|z]; simpl in TR.
    + (* NOT *)
      subst p. rewrite push_not in H. unfold K3 in H. injection H as <- <- <-.
      exists tr. split; [exact R'|]. right. left.
      rewrite map_app. auto.
    + (* binary *)
      subst p. rewrite push_bin in H. unfold K3 in H. injection H as <- <- <-.
      exists tr. split; [exact R'|]. right. right. exists op.
      rewrite map_app. split; [reflexivity|split; [reflexivity|lia]].
    + (* $ *)
      subst p. rewrite push_dollar in H.
      destruct pr as [|p2 pr']; [discriminate|].
      inversion R' as [|t2 ? tr' ? TR2 R'']; subst.
      destruct (py_int (p_value p2)) as [n|] eqn:I; cbn [obind] in H; [|discriminate].
      apply (tok_int_some _ _ _ TR2) in I. subst t2.
      destruct (iter_opt (Z.to_nat n) (fill_step f) ([], pr')) as [[gm' pr1]|] eqn:IT;
        cbn [obind] in H; [|discriminate].
      change ([] : list item) with (map IVal []) in IT.
      destruct (fill_sound f IHi _ _ _ _ _ _ R'' IT) as [m' [rest [-> [R3 PF]]]].
      rewrite last_gen in H.
      destruct (last_opt D m') as [v|] eqn:L; cbn [option_map obind] in H; [|discriminate].
      apply K3_val in H. destruct H as [-> [-> ->]].
      exists rest. split; [exact R3|]. left. exists v.
      split; [|split; [reflexivity|lia]].
      eapply P_buf; [eapply count_ok; exact PF|exact PF|exact L].
    + (* ? *)
      subst p. rewrite push_question in H.
      destruct pr as [|p2 pr']; [discriminate|].
      inversion R' as [|t2 ? tr' ? TR2 R'']; subst.
      destruct (py_int (p_value p2)) as [i|] eqn:I; cbn [obind] in H; [|discriminate].
      apply (tok_int_some _ _ _ TR2) in I. subst t2.
      rewrite reg_gen in H.
      destruct (reg D mem (Some i)) as [v|] eqn:RG; cbn [option_map obind] in H; [|discriminate].
      apply K3_val in H. destruct H as [-> [-> ->]].
      exists tr'. split; [exact R''|]. left. exists v.
      split; [constructor; exact RG|split; [reflexivity|lia]].
    + subst p. rewrite push_at in H. discriminate.
    + destruct TR as [-> _]. rewrite push_name in H.
      destruct (var s) as [v|] eqn:V; cbn [obind] in H; [|discriminate].
      apply K3_val in H. destruct H as [-> [-> ->]].
      exists tr. split; [exact R'|]. left. exists v.
      split; [constructor; exact V|split; [reflexivity|lia]].
    + destruct TR as [s [-> I]]. rewrite push_num, I in H.
      destruct z as [u|]; cbn [obind] in H; [|discriminate].
      destruct (num D dtrue dfalse node (Some u)) as [v|] eqn:V; cbn [obind] in H; [|discriminate].
      apply K3_val in H. destruct H as [-> [-> ->]].
      exists tr. split; [exact R'|]. left. exists v.
      split; [constructor; exact V|split; [reflexivity|lia]].
Qed.


(* --------------------------------------------------------- completeness *)
Lemma P_ops_aux :
  (forall mem toks x rest, P mem toks x rest ->
     (ops x + List.length rest < List.length toks)%nat) /\
  (forall n m toks m' rest, Pfill n m toks m' rest -> True).
Proof.
  apply P_Pfill_ind; intros; auto; simpl in *; try lia.
  match goal with
  | HP : PrefixProofs.Pfill _ _ _ _ _ _ _ _ _ _ _ _ |- _ =>
      apply (proj2 (P_shorter D dtrue dfalse var node ap1 ap2)) in HP
  end. lia.
Qed.

Lemma count_inv : forall z toks n0, count z toks = Some n0 ->
  exists n, z = Some n /\ n0 = Z.to_nat n.
Proof.
  intros [n|] toks n0 H; [|discriminate]. exists n. split; [reflexivity|].
  unfold count in H. destruct (n <=? 0) eqn:E0.
  - apply Z.leb_le in E0. injection H as <-. lia.
  - destruct (n <=? Z.of_nat (List.length toks)); [|discriminate].
    injection H as <-. reflexivity.
Qed.

Lemma rel_cons_inv : forall t tr ptoks, rel (t :: tr) ptoks ->
  exists p pr, ptoks = p :: pr /\ tok_rel t p /\ rel tr pr.
Proof. intros t tr ptoks R. inversion R; subst. eauto. Qed.

Lemma fill_complete : forall f,
  (forall mem toks v rest ptoks, E mem toks v rest -> rel toks ptoks ->
     (f >= 3 * List.length toks + 2)%nat ->
     exists prest, rel rest prest /\
       it_increase f (gmem mem) ptoks = Some (IVal v, prest)) ->
  forall n m toks m' rest, Pfill n m toks m' rest ->
  forall ptoks, rel toks ptoks -> (f >= 3 * List.length toks + 2)%nat ->
  exists prest, rel rest prest /\
    iter_opt n (fill_step f) (map IVal m, ptoks) = Some (map IVal m', prest).
Proof.
  intros f C1. induction 1 as [m toks|n m toks x r1 s m' rest Px Xs PF IH];
    intros ptoks R Hf.
  - exists ptoks. split; [exact R|reflexivity].
  - destruct (C1 (Some m) toks s r1 ptoks) as [pr1 [R1 I]];
      [exists x; split; assumption|exact R|exact Hf|].
    assert (L1 := proj1 (P_shorter D dtrue dfalse var node ap1 ap2) _ _ _ _ Px).
    destruct (IH pr1 R1) as [prest [R2 IT]]; [lia|].
    exists prest. split; [exact R2|].
    cbn [iter_opt]. unfold fill_step at 1.
    change (Some (map IVal m)) with (gmem (Some m)). rewrite I. cbn [obind].
    replace (map IVal m ++ [IVal s]) with (map IVal (m ++ [s]))
      by (rewrite map_app; reflexivity).
    exact IT.
Qed.

Lemma gen_complete : forall f,
  (forall mem toks v rest ptoks, E mem toks v rest -> rel toks ptoks ->
     (f >= 3 * List.length toks + 2)%nat ->
     exists prest, rel rest prest /\
       it_increase f (gmem mem) ptoks = Some (IVal v, prest)) /\
  (forall mem stack need toks xs rest ptoks, Pseq mem need toks xs rest ->
     rel toks ptoks -> (f >= 3 * List.length toks + 1)%nat ->
     exists prest, rel rest prest /\
       it_increase_while1 f (gmem mem) (map emb stack, Z.of_nat need, ptoks)
       = Some (map emb (stack ++ flat_map ser xs), 0, prest)) /\
  (forall mem toks v rest ptoks gs need, P mem toks (XV v) rest ->
     rel toks ptoks -> (f >= 3 * List.length toks)%nat ->
     exists prest, rel rest prest /\
       it_push f gs (gmem mem) need ptoks = K3 (need - 1) gs prest (IVal v)).
Proof.
  induction f as [|f [IHi [IHw IHp]]].
  { split; [|split]; intros.
    - lia.
    - lia.
    - match goal with HP : PrefixProofs.P _ _ _ _ _ _ _ _ _ _ _ |- _ =>
        apply (proj1 (P_shorter D dtrue dfalse var node ap1 ap2)) in HP end.
      destruct toks; simpl in *; lia. }
  split; [|split].
  - (* _increase *)
    intros mem toks v rest ptoks [x [Px Xv]] R Hf. rewrite increase_S.
    destruct (IHw mem [] 1%nat toks [x] rest ptoks) as [prest [R1 W]];
      [econstructor; [exact Px|constructor]|exact R|lia|].
    change (map emb []) with ([] : list item) in W.
    change (Z.of_nat 1) with 1 in W. rewrite W. cbn [obind flat_map app].
    rewrite app_nil_r.
    assert (LO := proj1 P_ops_aux _ _ _ _ Px).
    rewrite gen_reduce_ser_one by lia.
    change (PrefixProofs.xeval D ap1 ap2 x) with (xeval x). rewrite Xv.
    exists prest. split; [exact R1|reflexivity].
  - (* the loop *)
    intros mem stack need toks xs rest ptoks PS R Hf. rewrite while_S.
    inversion PS as [|n ? x r1 xs' ? Px PS']; subst.
    + exists ptoks. split; [exact R|]. simpl. rewrite app_nil_r. reflexivity.
    + rewrite gtb_succ.
      assert (L1 := proj1 (P_shorter D dtrue dfalse var node ap1 ap2) _ _ _ _ Px).
      destruct x as [v0|x1|op x1 y1].
      * destruct (IHp mem toks v0 r1 ptoks (map emb stack) (Z.of_nat (S n)) Px R)
          as [pr1 [R1 PU]]; [lia|].
        rewrite PU. unfold K3. cbn [obind].
        destruct (IHw mem (stack ++ [SVal D v0]) n r1 xs' rest pr1 PS' R1)
          as [prest [R2 W]]; [lia|].
        exists prest. split; [exact R2|].
        rewrite emb_app_val.
        replace (Z.of_nat (S n) - 1) with (Z.of_nat n) by lia.
        rewrite W. simpl. rewrite <- app_assoc. reflexivity.
      * inversion Px as [| | | |? r ? ? Px1|]; subst.
        destruct (rel_cons_inv _ _ _ R) as [p [pr [-> [TR R']]]].
        simpl in TR. subst p.
        destruct f as [|f']; [simpl in Hf; lia|].
        rewrite push_not. unfold K3. cbn [obind].
        destruct (IHw mem (stack ++ [SOp1 D]) (S n) r (x1 :: xs') rest pr)
          as [prest [R2 W]];
          [econstructor; eauto|exact R'|simpl in Hf; lia|].
        exists prest. split; [exact R2|].
        replace (map emb stack ++ [IStr "!"%string]) with (map emb (stack ++ [SOp1 D]))
          by (rewrite map_app; reflexivity).
        rewrite W. simpl. rewrite <- !app_assoc. reflexivity.
      * inversion Px as [| | | | |? ? r ? r2 ? ? Px1 Py1]; subst.
        destruct (rel_cons_inv _ _ _ R) as [p [pr [-> [TR R']]]].
        simpl in TR. subst p.
        destruct f as [|f']; [simpl in Hf; lia|].
        rewrite push_bin. unfold K3. cbn [obind].
        destruct (IHw mem (stack ++ [SOp2 D op]) (S (S n)) r (x1 :: y1 :: xs') rest pr)
          as [prest [R2 W]];
          [econstructor; [eauto|econstructor; eauto]|exact R'|simpl in Hf; lia|].
        exists prest. split; [exact R2|].
        replace (map emb stack ++ [IStr (binop_str op)])
          with (map emb (stack ++ [SOp2 D op])) by (rewrite map_app; reflexivity).
        replace (Z.of_nat (S n) + 1) with (Z.of_nat (S (S n))) by lia.
        rewrite W. simpl. rewrite <- !app_assoc. reflexivity.
  - (* a leaf through _push *)
    intros mem toks v rest ptoks gs need Px R Hf.
    inversion Px as [? s r ? V|? z r ? V|? z r ? V|? z r n0 m r2 ? C PF L| |]; subst.
    + destruct (rel_cons_inv _ _ _ R) as [p [pr [-> [TR R']]]].
      destruct TR as [-> _]. rewrite push_name, V.
      exists pr. split; [exact R'|reflexivity].
    + destruct (rel_cons_inv _ _ _ R) as [p [pr [-> [TR R']]]].
      destruct TR as [s [-> I]]. rewrite push_num, I.
      destruct z as [u|]; [|discriminate]. cbn [obind]. rewrite V.
      exists pr. split; [exact R'|reflexivity].
    + destruct (rel_cons_inv _ _ _ R) as [p [pr [-> [TR R']]]].
      destruct (rel_cons_inv _ _ _ R') as [p2 [pr' [-> [TR2 R'']]]].
      simpl in TR. subst p. rewrite push_question.
      rewrite (tok_int _ _ TR2).
      destruct z as [i|]; [|destruct mem; discriminate]. cbn [obind].
      rewrite reg_gen, V.
      exists pr'. split; [exact R''|reflexivity].
    + destruct (rel_cons_inv _ _ _ R) as [p [pr [-> [TR R']]]].
      destruct (rel_cons_inv _ _ _ R') as [p2 [pr' [-> [TR2 R'']]]].
      simpl in TR. subst p. rewrite push_dollar.
      rewrite (tok_int _ _ TR2).
      destruct (count_inv _ _ _ C) as [n [-> ->]]. cbn [obind].
      change ([] : list item) with (map IVal []).
      destruct (fill_complete f IHi _ _ _ _ _ PF pr' R'') as [prest [R3 IT]];
        [simpl in Hf; lia|].
      rewrite IT. cbn [obind]. rewrite last_gen, L.
      exists prest. split; [exact R3|reflexivity].
Qed.


(* ------------------------------------------------------------- the tie *)
Lemma rel_nil_r : forall toks, rel toks [] -> toks = [].
Proof. intros toks R. inversion R. reflexivity. Qed.

Lemma rel_nil_l : forall ptoks, rel [] ptoks -> ptoks = [].
Proof. intros ptoks R. inversion R. reflexivity. Qed.

Lemma rel_length : forall toks ptoks, rel toks ptoks ->
  List.length ptoks = List.length toks.
Proof. induction 1; simpl; congruence. Qed.

(* `add_expr` / `parse`: `_increase` with no memory, then no token may be
   left; the state in which an earlier call left the lexer is irrelevant *)
Lemma add_expr_unfold : forall f ptoks stale,
  it_add_expr f ptoks stale =
  obind (it_increase f None ptoks) (fun '(r, pr) =>
    match pr with [] => Some (r, []) | _ :: _ => None end).
Proof.
  intros. unfold PrefixGen.it_add_expr, PrefixGen.it_parse. cbv beta iota zeta.
  match goal with
  | |- obind (obind ?X _) _ = _ => change X with (it_increase f None ptoks)
  end.
  destruct (it_increase f None ptoks) as [[r pr]|]; [|reflexivity].
  destruct pr; reflexivity.
Qed.

(* THE TIE: on every list of tokens, with every sufficient fuel and whatever
   state an earlier call left the lexer in, the translated `add_expr` of
   bdd_iterative.py returns the node that the model iter_add_expr returns
   (and no unread token), or both reject *)
Theorem iter_code_eq_model : forall fuel toks ptoks stale,
  rel toks ptoks -> (fuel >= 3 * List.length toks + 2)%nat ->
  it_add_expr fuel ptoks stale =
  option_map (fun v => (IVal v, []))
    (iter_add_expr D dtrue dfalse var node ap1 ap2 toks).
Proof.
  intros fuel toks ptoks stale R Hf. rewrite add_expr_unfold.
  destruct (iter_add_expr D dtrue dfalse var node ap1 ap2 toks) as [v|] eqn:M;
    cbn [option_map].
  - apply (iter_spec D dtrue dfalse var node ap1 ap2) in M.
    destruct (proj1 (gen_complete fuel) None toks v [] ptoks M R Hf) as [prest [R1 I]].
    apply rel_nil_l in R1. subst prest.
    change (gmem None) with (@None (list item)) in I. rewrite I. reflexivity.
  - destruct (it_increase fuel None ptoks) as [[it prest]|] eqn:I; [|reflexivity].
    cbn [obind]. destruct prest as [|p prest]; [|reflexivity].
    change (@None (list item)) with (gmem None) in I.
    destruct (proj1 (gen_sound fuel) None toks ptoks _ _ R I) as [v [rest [-> [R1 HE]]]].
    apply rel_nil_r in R1. subst rest.
    apply (iter_spec D dtrue dfalse var node ap1 ap2) in HE. congruence.
Qed.
End Bridge.

Arguments rel : clear implicits.
Arguments tok_rel : clear implicits.

(* ----------------------------------------------- tokens of the real lexer *)
(* every Python token that the lexer can deliver (type one of the twelve
   token types other than DIV, value the lexeme; a NAME is not a numeral) has
   a model token: the theorems cover every token list of the code *)
Open Scope string_scope.
Definition abs (p : ptok) : tok :=
  let ty := p_type p in
  if ty =? "NOT" then TNot
  else if ty =? "AND" then TBin And
  else if ty =? "OR" then TBin Or
  else if ty =? "XOR" then TBin Xor
  else if ty =? "FORALL" then TBin Forall
  else if ty =? "EXISTS" then TBin Exists
  else if ty =? "RENAME" then TBin Rename
  else if ty =? "DOLLAR" then TDollar
  else if ty =? "QUESTION" then TQuestion
  else if ty =? "NAME" then TName (p_value p)
  else if ty =? "NUMBER" then TNum (py_int (p_value p))
  else TAt.

Definition ptok_ok (p : ptok) : bool :=
  let ty := p_type p in
  let v := p_value p in
  if ty =? "NOT" then v =? "!"
  else if ty =? "AND" then v =? "&"
  else if ty =? "OR" then v =? "|"
  else if ty =? "XOR" then v =? "^"
  else if ty =? "FORALL" then v =? "\A"
  else if ty =? "EXISTS" then v =? "\E"
  else if ty =? "RENAME" then v =? "\S"
  else if ty =? "DOLLAR" then v =? "$"
  else if ty =? "QUESTION" then v =? "?"
  else if ty =? "NAME" then is_none (py_int v)
  else if ty =? "NUMBER" then true
  else if ty =? "AT" then v =? "@"
  else false.

Lemma ptok_ok_rel : forall p, ptok_ok p = true -> tok_rel (abs p) p.
Proof.
  intros [ty v]. unfold ptok_ok, abs. cbn [p_type p_value].
  repeat match goal with
  | |- context [String.eqb ty ?s] =>
      destruct (String.eqb_spec ty s) as [->|_];
      [intros H; cbn [tok_rel binop_type binop_str];
       try (apply String.eqb_eq in H; subst v; reflexivity)|]
  end.
  - split; [reflexivity|]. destruct (py_int v); [discriminate|reflexivity].
  - eexists. split; reflexivity.
  - discriminate.
Qed.

Lemma ptoks_ok_rel : forall ptoks, forallb ptok_ok ptoks = true ->
  rel (map abs ptoks) ptoks.
Proof.
  induction ptoks as [|p ptoks IH]; intros H; simpl; [constructor|].
  simpl in H. apply andb_prop in H. destruct H as [H1 H2].
  constructor; [apply ptok_ok_rel, H1|apply IH, H2].
Qed.

(* the token rules of bdd.Lexer as read from the source on this run: the
   lexemes and type names that [tok_rel] relies on *)
Lemma lexer_table_ok :
  lexer_table =
  [("AT", "@"); ("NUMBER", "[-]*\d+"); ("NAME", "[A-Za-z_][A-Za-z0-9_']*");
   ("FORALL", "\\A"); ("EXISTS", "\\E"); ("RENAME", "\\S"); ("DIV", "/");
   ("NOT", "!"); ("AND", "\&"); ("OR", "\|"); ("XOR", "\^");
   ("DOLLAR", "\$"); ("QUESTION", "\?")].
Proof. reflexivity. Qed.
Close Scope string_scope.
