From Coq Require Import List String.
From OmegaGen Require Import C13_tables.
