(* L6 Syntax — model of omega.gr1.split_gr1 (_temporal_to_canonical,
   _split_always, _split_liveness, _split_recurrence, flatten_op,
   _has_operator), following the code statement by statement.  Every failed
   `assert`, failed tuple unpacking, AttributeError or ValueError of the
   Python is the result None.  Model file: no proofs. *)
From Coq Require Import List String Bool.
From Omega Require Import L6Syntax.Tokens.
Import ListNotations.
Local Open Scope string_scope.
Local Open Scope list_scope.

(* getattr(u, 'operator', None) and u.operands *)
Definition operator_of (t : tree) : option string :=
  match t with
  | Un op _ | Bin _ op _ _ | Opr op _ => Some op
  | Term _ _ | Lst _ => None
  end.
Definition operands (t : tree) : list tree :=
  match t with
  | Un _ x => [x]
  | Bin _ _ l r => [l; r]
  | Opr _ xs => xs
  | Term _ _ | Lst _ => []
  end.

(* _has_operator(u, operators) *)
Fixpoint has_op (ops : list string) (t : tree) : bool :=
  match t with
  | Term _ _ => false
  | Lst _ => false                      (* a list has no attribute `operator` *)
  | Un op x => mem_str op ops || has_op ops x
  | Bin _ op l r => mem_str op ops || has_op ops l || has_op ops r
  | Opr op xs => mem_str op ops || existsb (has_op ops) xs
  end.

(* flatten_op(u, op).operands *)
Fixpoint flatten_op (op : string) (t : tree) : list tree :=
  match t with
  | Un o x => if String.eqb o op then flatten_op op x else [t]
  | Bin _ o l r =>
      if String.eqb o op then flatten_op op l ++ flatten_op op r else [t]
  | Opr o xs =>
      if String.eqb o op then flat_map (flatten_op op) xs else [t]
  | Term _ _ | Lst _ => [t]
  end.

Definition is_op (t : tree) (op : string) : bool :=
  match operator_of t with
  | Some o => String.eqb o op
  | None => false
  end.

(* `x, = u.operands` *)
Definition the_operand (t : tree) : option tree :=
  match operands t with
  | [x] => Some x
  | _ => None
  end.

Record gr1_parts := mkParts {
  g_init : list tree;
  g_action : list tree;
  g_recurrence : list tree;
  g_persistence : list tree
}.

(* _split_always(u, action) : the body to append *)
Definition split_always (u : tree) : option tree :=
  if is_op u "[]" then
    match the_operand u with
    | Some v => if has_op ["[]"; "<>"] v then None else Some v
    | None => None
    end
  else None.

(* the conjuncts []<> state of _split_recurrence *)
Fixpoint split_recurrence_items (vs : list tree) : option (list tree) :=
  match vs with
  | [] => Some []
  | v :: r =>
      if is_op v "[]" then
        match the_operand v with
        | Some w =>
            if is_op w "<>" then
              match the_operand w with
              | Some state =>
                  if has_op ["[]"; "<>"; "X"] state then None else
                  match split_recurrence_items r with
                  | Some l => Some (state :: l)
                  | None => None
                  end
              | None => None
              end
            else None
        | None => None
        end
      else None
  end.

Definition split_recurrence (u : tree) : option (list tree) :=
  split_recurrence_items (flatten_op "/\" u).

(* the loop of _split_liveness over the disjuncts: (recurrence, persistence)
   to append *)
Fixpoint split_liveness_items (vs : list tree) : option (list tree * list tree) :=
  match vs with
  | [] => Some ([], [])
  | v :: r =>
      match operator_of v with
      | None => None                                   (* AttributeError *)
      | Some op =>
          if String.eqb op "<>" then
            match the_operand v with
            | Some w =>
                if is_op w "[]" then                   (* assert w.operator == '[]' *)
                  match the_operand w with
                  | Some state =>
                      if has_op ["[]"; "<>"; "X"] state then None else
                      match split_liveness_items r with
                      | Some (rc, ps) => Some (rc, state :: ps)
                      | None => None
                      end
                  | None => None
                  end
                else None
            | None => None
            end
          else if String.eqb op "/\" || String.eqb op "[]" then
            match split_recurrence v with
            | Some rc1 =>
                match split_liveness_items r with
                | Some (rc, ps) => Some (rc1 ++ rc, ps)
                | None => None
                end
            | None => None
            end
          else None                                    (* ValueError(op) *)
      end
  end.

(* the loop of _temporal_to_canonical over the conjuncts *)
Fixpoint canon_items (vs : list tree) (acc : gr1_parts) : option gr1_parts :=
  match vs with
  | [] => Some acc
  | v :: r =>
      let has_box := has_op ["[]"] v in
      let has_diamond := has_op ["<>"] v in
      if has_box && negb has_diamond then
        match split_always v with
        | Some a => canon_items r (mkParts (g_init acc) (g_action acc ++ [a])
                                           (g_recurrence acc) (g_persistence acc))
        | None => None
        end
      else if has_box && has_diamond then
        match g_persistence acc with
        | [] =>                                        (* assert not persistence *)
            match split_liveness_items (flatten_op "\/" v) with
            | Some (rc, ps) =>
                canon_items r (mkParts (g_init acc) (g_action acc)
                                       (g_recurrence acc ++ rc) ps)
            | None => None
            end
        | _ :: _ => None
        end
      else
        if has_box || has_diamond then None
        else if has_op ["X"] v then None
        else canon_items r (mkParts (g_init acc ++ [v]) (g_action acc)
                                    (g_recurrence acc) (g_persistence acc))
  end.

Definition temporal_to_canonical (u : tree) : option gr1_parts :=
  canon_items (flatten_op "/\" u) (mkParts [] [] [] []).

Definition parts_eqb (a b : option gr1_parts) : bool :=
  match a, b with
  | None, None => true
  | Some x, Some y =>
      trees_eqb (g_init x) (g_init y) && trees_eqb (g_action x) (g_action y)
      && trees_eqb (g_recurrence x) (g_recurrence y)
      && trees_eqb (g_persistence x) (g_persistence y)
  | _, _ => false
  end.
