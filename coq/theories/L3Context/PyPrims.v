(* L3 / PyPrims: the meaning given to the Python primitives that
   tools/py2coq_prime.py maps the code of omega/symbolic/prime.py and the
   identifier helpers of omega/logic/syntax.py to (no proofs).

   Representation fixed by the translator:
     str                      ident (= string)
     set of str               duplicate-free list of ident (order: the order in
                              which Context.support lists the identifiers)
     list of str              list ident
     dict str -> str          association list, keys distinct (Bits.dict_set)
     BDD node                 pred (its meaning, Ctx.v)
     fol / aut                the declaration table  t : tbl
     a call that may raise (assert, KeyError inside fol.let ...)
                              option, None = the exception
   The primitives shared with the hand-written model are used as they are:
   Ctx.ctx_support (fol.support / u.support), Ctx.ctx_let_vars (fol.let with a
   renaming), Prime.declared (name in fol.vars), Ctx.mem / subset / set_add /
   set_union / set_eqb / dict_update, List.filter / map / existsb / forallb,
   Prime.filter_opt, Ctx.map_opt, Prime.str_last / str_removelast. *)
From Coq Require Import List Bool String Ascii.
From Omega Require Import L0Bits.Bits L3Context.Ctx L3Context.Prime.
Import ListNotations.

(* s[-1] == c for a one-character string c (IndexError on the empty string:
   false here, as in Prime.isprimed; declared identifiers are non-empty) *)
Definition last_char_is (s : string) (c : ascii) : bool :=
  match str_last s with
  | Some c' => Ascii.eqb c' c
  | None => false
  end.

(* any(f(x) for x in l): stops at the first True *)
Fixpoint any_opt {A} (f : A -> option bool) (l : list A) : option bool :=
  match l with
  | [] => Some false
  | x :: r =>
    match f x with
    | Some true => Some true
    | Some false => any_opt f r
    | None => None
    end
  end.

(* all(f(x) for x in l): stops at the first False *)
Fixpoint all_opt {A} (f : A -> option bool) (l : list A) : option bool :=
  match l with
  | [] => Some true
  | x :: r =>
    match f x with
    | Some true => all_opt f r
    | Some false => Some false
    | None => None
    end
  end.

(* [e(x) for x in l if c(x)]: the element is evaluated only where the
   condition holds *)
Fixpoint comp_opt {A B} (c : A -> option bool) (e : A -> option B)
    (l : list A) : option (list B) :=
  match l with
  | [] => Some []
  | x :: r =>
    match c x with
    | Some true =>
      match e x, comp_opt c e r with
      | Some y, Some ys => Some (y :: ys)
      | _, _ => None
      end
    | Some false => comp_opt c e r
    | None => None
    end
  end.

(* set(l) *)
Definition set_of_list (l : list ident) : list ident :=
  set_union String.eqb [] l.
(* dict(l) for a list of pairs: a later pair with the same key wins *)
Definition dict_of_list (l : list (ident * ident)) : list (ident * ident) :=
  dict_update String.eqb [] l.
(* a - b, a & b (a.intersection(b)) *)
Definition set_diff (a b : list ident) : list ident :=
  filter (fun k => negb (mem String.eqb k b)) a.
Definition set_inter (a b : list ident) : list ident :=
  filter (fun k => mem String.eqb k b) a.
(* truth value of a container *)
Definition nonempty {A} (l : list A) : bool :=
  match l with [] => false | _ :: _ => true end.
(* the union of a sequence of sets (set().union applied to the unpacked sequence) *)
Definition union_all (sets : list (list ident)) : list ident :=
  fold_left (set_union String.eqb) sets [].
