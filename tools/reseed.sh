#!/bin/bash
# Re-confirm and re-run every stored seeded change (or those of the given
# property ids) from /verif/seeded/<id>-<k>/, each applied in a scratch
# worktree of /repo (never to /repo itself).
cd /verif
# always through a scratch worktree: several reseeds may run at once, and a
# patch applied to /repo itself by one would be seen (and reverted) by another
export SEEDED_VIA_WORKTREE=1
ids=${@:-$(ls seeded | sed 's/-[0-9]*$//' | sort -u)}
for P in $ids; do
  out=/tmp/reseed-$P-out; wt=/tmp/reseed-$P
  rm -rf $out; mkdir -p $out
  for d in seeded/$P-*; do k=${d##*-}; cp $d/patch.diff $out/patch_$k.diff; cp $d/demo.py $out/demo_$k.py; [ -f $d/notes.txt ] && cp $d/notes.txt $out/notes_$k.txt; done
  git -C /repo worktree add --detach $wt HEAD -q
  extra=""
  [ "$P" = "C15" ] && extra="C15 C16"
  [ "$P" = "C13" ] && extra="C13 C14"
  [ "$P" = "C17" ] && extra="C17 C07"
  python3 tools/seeded.py $P $out $wt $extra
  git -C /repo worktree remove --force $wt; rm -rf $out
done
