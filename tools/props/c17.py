"""C17 — results do not depend on back end, variable order or history.

Tie H + differential.  Every generated input is run on dd.autoref and
dd.cudd, with the recursive and with the iterative prefix translator, and
each of the four runs is compared with ONE run of the Gallina model
(theories/L3History) evaluated in Coq:
  (A) prefix strings (well-formed, with buffers/registers/quantifiers, and
      ill-formed mutants) through `bdd.add_expr` / `bdd_iterative.add_expr`
      vs. the two translator models (theorem parsers_agree);
  (B) sequences of context operations (declare, add_expr, exist, forall,
      let, apply, to_expr, reorder, collect_garbage, copy between contexts,
      synthesis in the same context, repeated operations) vs. the context
      state machine that stores truth tables (theorems frame,
      redeclare_guard, idempotent, history_independent);
  (C) the expression cache of temporal.Automaton under collection and
      identifier reuse vs. the cache state machine (theorem fetch_sound).
That dd.autoref and dd.cudd agree, and that dd's reordering / garbage
collection preserve meaning, is NOT a theorem here (dd is outside the
model): for that part the four-way comparison is differential validation.
"""
import gc
import json

from vlib import core, games
from vlib import steps_sim as S
from vlib import history_sim as H
from vlib import prefix_gen
from vlib.core import Broken, Mismatch, Failing

ID = 'C17'
LEVEL = 'proof'
THEORIES = ['theories/L3History/PrefixProofs.vo',
            'theories/L3History/HistoryProofs.vo',
            'theories/L3History/CacheProofs.vo',
            'theories/L3History/PrefixInst.vo']

HEADER = '''From Coq Require Import List Bool String ZArith.
Import ListNotations.
From Omega Require Import L4Steps.Mangle L4Steps.Stepper.
From Omega Require Import L3History.Prefix L3History.PrefixInst
  L3History.History L3History.Cache.
Open Scope string_scope.
Definition T := Leaf true.
Definition F := Leaf false.
Definition set_eqb (a b : list string) : bool :=
  forallb (fun x => mem x b) a && forallb (fun x => mem x a) b.
Definition outs_eqb (a b : list outcome) : bool :=
  Nat.eqb (List.length a) (List.length b) &&
  forallb (fun p => outcome_eqb (fst p) (snd p)) (combine a b).
Definition entry_ok (c : ctx) (h : nat) (ds : decls) (t : tbl) : bool :=
  match nth_error (c_store c) h with
  | Some e => tbl_eqb (table_over ds e) t
  | None => false
  end.
Definition lb_eqb (a b : list bool) : bool :=
  Nat.eqb (List.length a) (List.length b) &&
  forallb (fun p => Bool.eqb (fst p) (snd p)) (combine a b).
Definition oz_eqb (a b : option Z) : bool :=
  match a, b with
  | Some x, Some y => Z.eqb x y | None, None => true | _, _ => false end.
Definition lz_set_eqb (a b : list Z) : bool :=
  forallb (fun x => existsb (Z.eqb x) b) a && forallb (fun x => existsb (Z.eqb x) a) b.
Definition obs_eqb (a b : option (list (option Z * list Z))) : bool :=
  match a, b with
  | Some x, Some y =>
      Nat.eqb (List.length x) (List.length y) &&
      forallb (fun p => oz_eqb (fst (fst p)) (fst (snd p)) &&
                        lz_set_eqb (snd (fst p)) (snd (snd p))) (combine x y)
  | None, None => true
  | _, _ => false
  end.
'''


def prove(ctx):
    with ctx.coq_lock():
        # tie T: regenerate gen/PrefixGen.v (bdd_iterative.py, bdd.Lexer) and
        # gen/PrefixRecGen.v (bdd.py, omega/logic/ast.py) from the current
        # source, then re-prove GenProofs/PrefixBridge.v and PrefixRecBridge.v
        # (each translated translator = its model on every token list) and
        # the statements built on them
        notes = prefix_gen.ensure_prefix(ctx)
        ctx.checker_cmds.append(
            'PYTHONPATH=tools python3 tools/vlib/prefix_gen.py [rec] > '
            'coq/gen/PrefixGen.v, coq/gen/PrefixRecGen.v (translator '
            'tools/py2coq_prefix.py)')
        ctx.prove_with_deps('Properties/C17.v')
    ctx.extra['translation'] = dict(
        sources=prefix_gen.SOURCES, functions=prefix_gen.FUNCTIONS,
        generated=['coq/gen/PrefixGen.v', 'coq/gen/PrefixRecGen.v'],
        bridge=['coq/GenProofs/PrefixBridge.v',
                'coq/GenProofs/PrefixRecBridge.v'], notes=notes)
    ctx.trusted.append(
        'translator tie T: tools/py2coq_prefix.py (bdd_iterative.Parser.parse, '
        '_increase, _push, _reduce, add_expr -> Gallina: any exception = None; '
        'the lexer = the list of unread tokens, a token = its .type and .value '
        'strings; lists mutated in place = values returned to the caller, with '
        'aliasing excluded by the translator; stack and memory entries = '
        'string or node; loop state by liveness, possibly-unbound names as '
        'options; recursion and `while` = Fixpoints on fuel with the result '
        'proved for every sufficient fuel; bdd.var/_add_int/apply/true/false '
        '= the abstract operations of the model; int() = a decimal parser '
        'exact on lexemes; fails closed; everything skipped is a note in '
        'coq/gen/PrefixGen.v and in the evidence).  Outside: PLY (that '
        '`lexer.input(s)` then `lexer.token()` deliver the tokens of s in '
        'order, then None); the token rules of bdd.Lexer are read into a '
        'table that the bridge compares with the lexemes it relies on')
    ctx.trusted.append(
        'translator tie T, recursive translator: bdd.Parser.parse/_recurse, '
        'bdd.add_expr and the flatten methods of BDDNodes.Operator/Var/Num and '
        'Nodes.Buffer/Register -> Gallina: a parsed tree = one constructor per '
        'node class with the attributes its __init__ stores (read from bdd.py '
        'and omega/logic/ast.py; astutils.Terminal/Operator.__init__ as '
        'documented: trusted), x.flatten(...) = dynamic dispatch on the class, '
        'keyword arguments / defaults / **kw as a record of optional slots '
        '(missing or duplicate keyword = None), *arg always empty (checked), '
        'the list passed as mem returned to the caller, list comprehensions as '
        'loops; the four statements ending in bdd.rename are matched literally '
        'and become one abstract operation (the back ends have no rename)')
    ctx.trusted.append(
        'dd.autoref / dd.cudd agreement and meaning preservation of dd\'s '
        'reorder and garbage collection are NOT proved (dd is outside the '
        'model): validated differentially only, every sequence on 2 back '
        'ends x 2 translators against one model run')
    ctx.trusted.append(
        'tie H: fol.Context / temporal.Automaton cache are modelled by '
        'hand (theories/L3History); `add_expr` is modelled by the integer '
        'semantics of a formula fragment (+ - comparisons \\in connectives '
        'IF quantifiers), `to_expr` by its declarations and the meaning of '
        'its result')


# =================================================================== (A)
PNAMES = ['x', 'y', 'z', 'w']


def run_prefix(toks):
    """Results of the 2 translators on the 2 back ends."""
    return run_prefix_str(H.tok_str(toks))


def run_prefix_str(s):
    import omega.symbolic.bdd as sym_bdd
    import omega.symbolic.bdd_iterative as sym_iter
    res = {}
    for b, mod in H.BACKENDS.items():
        bdd = mod.BDD()
        bdd.declare(*PNAMES)
        for t, tr in (('recursive', sym_bdd), ('iterative', sym_iter)):
            try:
                u = tr.add_expr(s, bdd)
                res[(b, t)] = H.bit_table(bdd, u, PNAMES)
            except Exception as e:
                res[(b, t)] = None
    return res


def gen_prefix(rng, n):
    cases = []
    while len(cases) < n:
        toks = H.rand_prefix(rng, PNAMES, rng.randint(1, 4), None)
        if len(toks) > 40:
            continue
        kind = 'well-formed'
        if rng.random() < 0.35:
            m = H.mutate_prefix(rng, toks, PNAMES)
            if m is None:
                continue
            toks, kind = m, 'mutant'
        cases.append((toks, kind))
    return cases


PROBES = [  # outside the common language: the model predicts the difference
    (['at', ('num', 1)], 'at'),
    (['and', ('name', 'x'), 'at', ('num', 1)], 'at'),
    (['rename', 'dollar', ('num', 2), ('name', 'x'), ('name', 'y'),
      ('name', 'y')], 'rename'),
]


def prefix_terms(toks, res):
    lit = lambda t: ('None' if t is None else
                     '(Some [' + ';'.join('true' if b else 'false'
                                          for b in t) + '])')
    names = S.strs_lit(PNAMES)
    terms = []
    for (b, t), tab in res.items():
        model = 'rec_model' if t == 'recursive' else 'iter_model'
        terms.append(f'otable_eqb (table_of {names} ({model} {names} '
                     f'{H.tok_coq(toks)})) {lit(tab)}')
    return terms


# =================================================================== (B)
class Runner:
    """Two contexts (0: temporal.Automaton, 1: fol.Context) of one
    configuration, executing abstract operations."""

    def __init__(self, backend, translator):
        self.backend, self.translator = backend, translator
        self.ctx = [H.make_context(backend, translator, True),
                    H.make_context(backend, translator, False)]
        self.handles = [[], []]      # per context: (node, names at creation)
        self.outcomes = []
        self.notes = []

    def user_names(self, k):
        return sorted(n for n in self.ctx[k].vars if not H.is_aux(n))

    def push(self, k, u, dep):
        """dep: identifiers the predicate can depend on (syntactically)."""
        dep = sorted(set(dep))
        self.handles[k].append((u, dep))
        return ('Handle', len(self.handles[k]) - 1)

    def dep(self, k, h):
        return self.handles[k][h][1]

    def declare(self, k, decl):
        c = self.ctx[k]
        before = {n: (c.vars[n]['type'], c.vars[n].get('dom'))
                  for n in decl if n in c.vars}
        try:
            if k == 0:
                c.declare_variables(**decl)
            else:
                c.declare(**decl)
        except ValueError:
            return ('Refused',)
        for n, (t, dom) in before.items():
            want = ('bool', None) if decl[n] == 'bool' else \
                ('int', tuple(decl[n]))
            if (t, None if dom is None else tuple(dom)) != want:
                self.notes.append((
                    'a declaration that changes the type hint of a declared '
                    'identifier was accepted', {n: decl[n]}))
        return ('Done',)

    def run(self, op):
        r = self._run(op)
        self.outcomes.append(r)
        return r

    def _run(self, op):
        kind = op[0]
        if kind == 'copy':
            _, k, h = op
            u = self.handles[k][h][0]
            v = self.ctx[k].copy(u, self.ctx[1 - k])
            return self.push(1 - k, v, self.dep(k, h))
        k = op[1]
        c = self.ctx[k]
        if kind == 'declare':
            return self.declare(k, op[2])
        if kind == 'add':
            return self.push(k, c.add_expr(H.render(op[2])), H.fvars(op[2]))
        if kind in ('exist', 'forall'):
            u = self.handles[k][op[3]][0]
            f = c.exist if kind == 'exist' else c.forall
            return self.push(k, f(set(op[2]), u),
                             [x for x in self.dep(k, op[3])
                              if x not in op[2]])
        if kind == 'letval':
            u = self.handles[k][op[4]][0]
            return self.push(k, c.let({op[2]: op[3]}, u),
                             [x for x in self.dep(k, op[4]) if x != op[2]])
        if kind == 'rename':
            u = self.handles[k][op[4]][0]
            return self.push(k, c.let({op[2]: op[3]}, u),
                             [op[3]] + [x for x in self.dep(k, op[4])
                                        if x != op[2]])
        if kind == 'not':
            return self.push(k, c.apply('not', self.handles[k][op[2]][0]),
                             self.dep(k, op[2]))
        if kind in ('and', 'or'):
            return self.push(k, c.apply(kind, self.handles[k][op[2]][0],
                                        self.handles[k][op[3]][0]),
                             self.dep(k, op[2]) + self.dep(k, op[3]))
        if kind == 'to_expr':
            u = self.handles[k][op[3]][0]
            try:
                s = c.to_expr(u)
            except ValueError:
                return ('Refused',)
            v = c.add_expr(s)
            if v != u:
                self.notes.append(('to_expr result is not equivalent', s))
            return self.push(k, v, self.dep(k, op[3]))
        if kind == 'reorder':
            H.reorder(c, self.backend)
            return ('Done',)
        if kind == 'gc':
            H.collect(c, self.backend)
            return ('Done',)
        if kind == 'synth':
            return self.synth(op)
        raise ValueError(op)

    def synth(self, op):
        """Synthesize a trivial Streett transducer in context 0: declares
        `_goal`, builds many nodes in the shared manager."""
        import contextlib
        import io
        import omega.games.gr1 as gr1
        aut = self.ctx[0]
        names = [n for n in self.user_names(0) if n != '_goal']
        aut.varlist = dict(env=names[:1], sys=names[1:])
        aut.prime_varlists()
        aut.init['env'] = aut.true
        aut.init['sys'] = aut.true
        aut.action['env'] = aut.true
        aut.action['sys'] = aut.true
        aut.win['[]<>'] = [aut.true]
        aut.win['<>[]'] = [aut.false]
        aut.qinit = '\\E \\A'
        aut.moore, aut.plus_one = True, True
        with contextlib.redirect_stdout(io.StringIO()):
            z, yij, xijk = gr1.solve_streett_game(aut)
            gr1.make_streett_transducer(z, yij, xijk, aut)
        return ('Done',)

    def finish(self):
        """Tables of all predicates, read at the END of the sequence over the
        identifiers each can depend on; a dependence on anything else is a
        failure."""
        out = []
        for k in (0, 1):
            c = self.ctx[k]
            tabs = []
            for u, dep in self.handles[k]:
                sup = c.support(u)
                if not sup <= set(dep):
                    self.notes.append((
                        'a predicate depends on an identifier it cannot '
                        'depend on', sorted(sup - set(dep))))
                    dep = sorted(set(dep) | sup)
                ds = S.make_decls(c, dep)
                tabs.append((ds, S.truth_table(c, u, ds)))
            out.append(dict(names=self.user_names_all(k), tables=tabs))
        return out

    def close(self):
        """Drop every node before the managers go away (dd complains about
        referenced nodes at shutdown otherwise)."""
        self.handles = [[], []]
        for c in self.ctx:
            for attr in ('init', 'action'):
                d = getattr(c, attr, None)
                if d is not None:
                    dict.clear(d)
            if hasattr(c, 'win'):
                c.win = dict()
            c.op_bdd = dict()
            if hasattr(c, '_bdd_to_expr'):
                c._bdd_to_expr = dict()
        gc.collect()

    def user_names_all(self, k):
        return sorted(n for n in self.ctx[k].vars if not n.endswith("'"))


def gen_sequence(rng, length):
    """Generate a sequence adaptively on configuration (autoref, recursive);
    returns the abstract operations."""
    r = Runner('autoref', 'recursive')
    declared = [dict(), dict()]      # name -> hint
    ops = []
    fresh = [0]

    def do(op):
        out = r.run(op)
        ops.append(op)
        return out

    def ints(k):
        return [n for n, h in declared[k].items() if h != 'bool']

    def bools(k):
        return [n for n, h in declared[k].items() if h == 'bool']

    def vals(k, n):
        return games.var_values(r.ctx[k].vars[n])

    def dep_size(k, dep):
        n = 1
        for x in set(dep):
            n *= len(vals(k, x))
        return n
    # initial declarations: 2-3 identifiers in context 0, the same in 1
    pool = ['x', 'y', 'z', 'b']
    rng.shuffle(pool)
    d0 = {}
    for n in pool[:rng.choice([2, 3])]:
        d0[n] = 'bool' if n == 'b' else rng.choice(H.HINTS[1:])
    for k in (0, 1):
        do(('declare', k, dict(d0)))
        declared[k].update(d0)
    for k in (0, 1):
        f = H.rand_form(rng, ints(k), bools(k), 2)
        if dep_size(k, H.fvars(f)) <= 1024:
            do(('add', k, f))
    n0 = len(ops)
    KINDS = (['add'] * 14 + ['declare'] * 12 + ['quant'] * 12 + ['letval'] * 6
             + ['rename'] * 5 + ['apply'] * 10 + ['to_expr'] * 9
             + ['reorder'] * 6 + ['gc'] * 6 + ['copy'] * 6 + ['synth'] * 3
             + ['repeat'] * 5)
    tries = 0
    while len(ops) - n0 < length and tries < 40 * length:
        tries += 1
        k = 0 if rng.random() < 0.65 else 1
        hs = r.handles[k]
        kind = rng.choice(KINDS)
        if kind == 'add' or (not hs and kind not in
                             ('declare', 'reorder', 'gc', 'synth')):
            f = H.rand_form(rng, ints(k), bools(k), rng.randint(1, 3))
            if dep_size(k, H.fvars(f)) <= 1024:
                do(('add', k, f))
        elif kind == 'declare':
            # fresh, the same again, or conflicting
            q = rng.random()
            if q < 0.4 or not declared[k]:
                fresh[0] += 1
                n = f'w{fresh[0]}'
                h = rng.choice(H.HINTS)
                do(('declare', k, {n: h}))
                declared[k][n] = h
            elif q < 0.65:
                n = rng.choice(sorted(declared[k]))
                do(('declare', k, {n: declared[k][n]}))
            else:
                n = rng.choice(sorted(declared[k]))
                h = rng.choice([x for x in H.HINTS if x != declared[k][n]])
                do(('declare', k, {n: h}))
        elif kind == 'quant':
            h = rng.randrange(len(hs))
            pool_q = sorted(set(r.dep(k, h))) or sorted(declared[k])
            if rng.random() < 0.2:
                pool_q = sorted(declared[k])
            qs = rng.sample(pool_q, rng.randint(1, min(2, len(pool_q))))
            do((rng.choice(['exist', 'forall']), k, qs, h))
        elif kind == 'letval':
            h = rng.randrange(len(hs))
            pool_q = sorted(set(r.dep(k, h))) or sorted(declared[k])
            n = rng.choice(pool_q)
            do(('letval', k, n, rng.choice(vals(k, n)), h))
        elif kind == 'rename':
            h = rng.randrange(len(hs))
            cands = [(a, b) for a in set(r.dep(k, h)) for b in declared[k]
                     if a != b and declared[k][a] == declared[k][b]]
            if cands:
                a, b = rng.choice(sorted(cands))
                do(('rename', k, a, b, h))
        elif kind == 'apply':
            kd = rng.choice(['not', 'and', 'or'])
            if kd == 'not':
                do(('not', k, rng.randrange(len(hs))))
            else:
                a, b = rng.randrange(len(hs)), rng.randrange(len(hs))
                if dep_size(k, r.dep(k, a) + r.dep(k, b)) <= 1024:
                    do((kd, k, a, b))
        elif kind == 'to_expr':
            # a non-constant predicate over integers
            cands = []
            for i, (u, _dep) in enumerate(hs):
                cx = r.ctx[k]
                if u in (cx.true, cx.false):
                    continue
                sup = cx.support(u)
                if not sup or any(cx.vars[s]['type'] == 'bool' or H.is_aux(s)
                                  for s in sup):
                    continue
                sz = 1
                for s in sup:
                    sz *= len(vals(k, s))
                if sz <= 64:
                    cands.append((i, sorted(sup)))
            if cands:
                i, sup = rng.choice(cands)
                do(('to_expr', k, sup, i))
        elif kind == 'reorder':
            do(('reorder', k))
        elif kind == 'gc':
            do(('gc', k))
        elif kind == 'copy':
            # to the other context (identifiers declared alike there)
            i = rng.randrange(len(hs))
            u, dep = hs[i]
            missing = {s: declared[k][s] for s in dep
                       if s not in declared[1 - k]}
            if all(declared[1 - k].get(s, declared[k][s]) == declared[k][s]
                   for s in dep):
                if missing:
                    do(('declare', 1 - k, missing))
                    declared[1 - k].update(missing)
                do(('copy', k, i))
        elif kind == 'synth':
            if declared[0]:
                do(('synth', 0))
                declared[0]['_goal'] = (0, 0)
        else:
            # repeat an earlier handle-producing operation
            prev = [o for o in ops if o[0] in ('add', 'exist', 'forall',
                                               'letval', 'not', 'and', 'or')]
            if prev:
                do(rng.choice(prev))
    # history independence: every formula added is added once more at the end
    for o in list(ops):
        if o[0] == 'add' and rng.random() < 0.3:
            do(o)
    return ops, r


def replay_ops(ops, backend, translator):
    r = Runner(backend, translator)
    for op in ops:
        r.run(op)
    return r


def op_coq(op, decl_vals):
    """Abstract operation -> Gallina `wop`; decl_vals(k, name, hint) gives
    the representable values."""
    kind = op[0]
    b = lambda k: 'true' if k else 'false'
    if kind == 'copy':
        return f'WCopy {b(op[1])} {op[2]}'
    k = op[1]
    if kind == 'declare':
        ds = '; '.join(H.vdecl_lit(n, h, decl_vals(n, h))
                       for n, h in op[2].items())
        o = f'ODeclare [{ds}]'
    elif kind == 'add':
        o = f'OAdd {H.coq_form(op[2])}'
    elif kind == 'exist':
        o = f'OExist {S.strs_lit(op[2])} {op[3]}'
    elif kind == 'forall':
        o = f'OForall {S.strs_lit(op[2])} {op[3]}'
    elif kind == 'letval':
        o = f'OLetVal {S.qs(op[2])} {S.zlit(op[3])} {op[4]}'
    elif kind == 'rename':
        o = f'ORename {S.qs(op[2])} {S.qs(op[3])} {op[4]}'
    elif kind == 'not':
        o = f'ONot {op[2]}'
    elif kind == 'and':
        o = f'OAnd {op[2]} {op[3]}'
    elif kind == 'or':
        o = f'OOr {op[2]} {op[3]}'
    elif kind == 'to_expr':
        o = f'OToExpr {S.strs_lit(op[2])} {op[3]}'
    elif kind in ('reorder', 'gc'):
        o = 'ONoop'
    elif kind == 'synth':
        o = 'ODeclare [' + H.vdecl_lit('_goal', (0, 0), [0, 1]) + ']'
    else:
        raise ValueError(op)
    return f'WOp {b(k)} ({o})'


def hint_values(hint):
    """Values representable for a hint (own computation, cross-checked
    against the declared table in `sequence_group`)."""
    if hint == 'bool':
        return [0, 1]
    lo, hi = hint
    w = max(abs(lo), abs(hi)).bit_length() or 1
    if lo < 0 <= hi:
        return list(range(-2 ** w, 2 ** w))
    if lo >= 0:
        return list(range(0, 2 ** w))
    return list(range(-2 ** w, 0))


def outcome_lit(o):
    return f'Handle {o[1]}' if o[0] == 'Handle' else o[0]


def sequence_group(i, ops, runs):
    """Coq definitions + terms for one sequence and its 4 runs."""
    p = f'q{i}_'
    wops = '[' + ';\n  '.join(op_coq(op, lambda n, h: hint_values(h))
                              for op in ops) + ']'
    defs = [
        f'Definition {p}run := Eval vm_compute in '
        f'(let (w, rs) := wrun {{| w0 := empty_ctx; w1 := empty_ctx |}} '
        f'{wops} in (rs, map vd_name (c_vars (w0 w)), '
        f'map vd_name (c_vars (w1 w)))).',
        f'Definition {p}w := Eval vm_compute in fst (wrun '
        f'{{| w0 := empty_ctx; w1 := empty_ctx |}} {wops}).',
    ]
    terms, what = [], []
    for (cfg, r, fin) in runs:
        outs = '[' + '; '.join(outcome_lit(o) for o in r.outcomes) + ']'
        terms.append(f'outs_eqb (fst (fst {p}run)) {outs}')
        what.append((cfg, 'outcomes'))
        for k in (0, 1):
            names = [n for n in fin[k]['names']]
            sel = 'snd (fst' if k == 0 else 'snd ('
            model_names = (f'(snd (fst {p}run))' if k == 0
                           else f'(snd {p}run)')
            terms.append(f'set_eqb {model_names} {S.strs_lit(names)}')
            what.append((cfg, f'declared identifiers of context {k}'))
            for h, (ds, flat) in enumerate(fin[k]['tables']):
                getc = 'w1' if k else 'w0'
                terms.append(
                    f'entry_ok ({getc} {p}w) {h} {S.decls_lit(ds)} '
                    f'({S.tbl_lit(ds, flat)})')
                what.append((cfg, f'predicate {h} of context {k}'))
    return ('\n'.join(defs), terms), what


# =================================================================== (C)
class CacheRun:
    """An Automaton whose cache operations are logged with node ids."""

    def __init__(self, backend, translator, decl):
        self.backend = backend
        self.aut = H.make_context(backend, translator, True)
        self.aut.declare_variables(**decl)
        self.names = sorted(decl)
        self.ds = S.make_decls(self.aut, self.names)
        self.events = []          # model events (after reconciliation)
        self.expected = []        # (fetch result index or None, cache keys)
        self.exprs = []           # expression strings by index
        self.tables = []          # their tables
        self.live = {}            # mirror: uid(int) -> table
        self.held = []            # nodes the "user" keeps
        self.notes = []
        self.stale_caught = 0
        aut = self.aut
        orig_add = aut._add_expr
        self.addlog = []

        def logged_add(expr):
            u = orig_add(expr)
            self.addlog.append((expr, u))
            return u
        aut._add_expr = logged_add

    def close(self):
        self.held = []
        self.addlog = []
        aut = self.aut
        dict.clear(aut.init)
        dict.clear(aut.action)
        aut._bdd_to_expr = dict()
        del aut._add_expr
        gc.collect()

    def uid(self, u):
        return int(str(u)[1:])

    def table(self, u):
        return tuple(S.truth_table(self.aut, u, self.ds))

    def expr_index(self, e, u=None):
        if e not in self.exprs:
            self.exprs.append(e)
            self.tables.append(self.table(
                u if u is not None else self.aut.add_expr(e)))
        return self.exprs.index(e)

    def reconcile(self, uid, tab):
        """The real manager returned node `uid` with table `tab`: nodes of
        the mirror that contradict this were collected."""
        dead = [k for k, t in self.live.items()
                if (k == uid) != (t == tab)]
        if dead:
            self.events.append('ECollect [' + '; '.join(
                S.zlit(k) for k in dead) + ']')
            self.expected.append((None, self.cache_keys_before))
            for k in dead:
                del self.live[k]
        self.live[uid] = tab

    def keys(self):
        return sorted(int(k[1:]) for k in self.aut._bdd_to_expr)

    def op_cache(self, key, e, where):
        aut = self.aut
        self.cache_keys_before = self.keys()
        self.addlog.clear()
        getattr(aut, where)[key] = e
        u = getattr(aut, where)[key]
        i = self.expr_index(e, u)
        self.reconcile(self.uid(u), self.table(u))
        self.events.append(f'ECache {i}%Z {S.zlit(self.uid(u))}')
        self.expected.append((None, self.keys()))

    def op_alloc(self, e, hold):
        aut = self.aut
        self.cache_keys_before = self.keys()
        u = aut.add_expr(e)
        tab = self.table(u)
        self.reconcile(self.uid(u), tab)
        lit = '[' + ';'.join('true' if b else 'false' for b in tab) + ']'
        self.events.append(f'EAlloc {lit} {S.zlit(self.uid(u))}')
        self.expected.append((None, self.keys()))
        if hold:
            self.held.append(u)

    def op_fetch(self, u):
        aut = self.aut
        self.cache_keys_before = self.keys()
        self.addlog.clear()
        # the user holds u: it is live
        self.reconcile(self.uid(u), self.table(u))
        had = str(u) in aut._bdd_to_expr
        r = aut._fetch_expr(u)
        if had and r is None:
            self.stale_caught += 1
        fresh = 0
        if self.addlog:
            (e, u2), = self.addlog
            self.reconcile(self.uid(u2), self.table(u2))
            fresh = self.uid(u2)
            del u2
        self.events.append(f'EFetch {S.zlit(self.uid(u))} {S.zlit(fresh)}')
        self.expected.append((None if r is None else self.exprs.index(r),
                              self.keys()))
        if r is not None and aut.add_expr(r) != u:
            self.notes.append(('_fetch_expr returned an expression that is '
                               'not equivalent to the node', r))
        self.addlog.clear()

    def op_drop(self, key, where):
        """Replace a cached entry of init/action by a constant node."""
        getattr(self.aut, where)[key] = self.aut.true

    def op_gc(self):
        self.addlog.clear()
        H.collect(self.aut, self.backend)

    def op_print(self):
        """`str(aut)`: every printed expression must be equivalent to the
        node it labels."""
        aut = self.aut
        vals = list(aut.init.items()) + list(aut.action.items())
        for k, v in vals:
            self.op_fetch(v)
        s = str(aut)
        self.addlog.clear()
        for line in s.split('\n'):
            for where in ('init', 'action'):
                for k, v in getattr(aut, where).items():
                    pre = f'{where}[{k}] = '
                    if line.startswith(pre):
                        e = line[len(pre):]
                        if e == str(v) or e.startswith('<'):
                            continue
                        try:
                            ok = aut.add_expr(e) == v
                        except Exception:
                            ok = True      # a node reference, not an expr
                        if not ok:
                            self.notes.append(
                                ('str(automaton) shows an expression that is '
                                 'not equivalent to the node', pre + e))
        self.addlog.clear()


def cache_exprs(rng, names, n=12):
    out = []
    while len(out) < n:
        f = H.rand_form(rng, names, [], rng.randint(0, 2))
        e = H.render(f)
        if e not in out:
            out.append(e)
    return out


def gen_cache_ops(rng, n):
    ops = []
    keys = ['env', 'sys', 'impl']
    if rng.random() < 0.6:
        # hunt for identifier reuse: cache, drop every reference, collect,
        # create and hold many nodes, then fetch them all
        k, w = rng.choice(keys), rng.choice(['init', 'action'])
        # (the entry is fetched once before it is dropped: a cache that
        # remembers "already validated" must forget it with the node)
        ops += [('cache', k, w, rng.randrange(12))]
        if rng.random() < 0.7:
            ops += [('print',)]
        ops += [('drop', k, w), ('gc',)]
        m = rng.randint(8, 25)
        ops += [('alloc', rng.randrange(12), True) for _ in range(m)]
        ops += [('fetch', j) for j in range(m)]
    for _ in range(n):
        c = rng.random()
        if c < 0.3:
            ops.append(('cache', rng.choice(keys),
                        rng.choice(['init', 'action']), rng.randrange(12)))
        elif c < 0.45:
            ops.append(('drop', rng.choice(keys),
                        rng.choice(['init', 'action'])))
        elif c < 0.6:
            ops.append(('gc',))
        elif c < 0.8:
            ops.append(('alloc', rng.randrange(12), rng.random() < 0.7))
        elif c < 0.92:
            ops.append(('fetch', rng.randrange(1000)))
        else:
            ops.append(('print',))
    return ops


def hunt_ops(rng):
    """Scenario for identifier re-use: cache four expressions, drop every
    reference, collect, create and hold many nodes, fetch them all."""
    slots = [(k, w) for k in ('env', 'sys') for w in ('init', 'action')]
    m = rng.randint(24, 34)
    picks = rng.sample(range(45), m + 4)
    ops = [('cache', k, w, picks[i]) for i, (k, w) in enumerate(slots)]
    if rng.random() < 0.7:
        # every cached entry is fetched (validated) once before it is dropped
        ops += [('print',)] + [('fetch', j) for j in range(4)]
    ops += [('drop', k, w) for k, w in slots] + [('gc',)]
    ops += [('alloc', j, True) for j in picks[4:]]
    ops += [('fetch', j) for j in range(m)]
    return ops


def fixed_reuse_scenarios():
    """Deterministic identifier re-use on dd.autoref: cache one conjunction,
    look at it (print / fetch), overwrite it, collect, build other
    conjunctions of the same shape (the first gets the freed identifier),
    look again."""
    decl = dict(x=(0, 3), y=(0, 3))
    conj = [rf'x = {a} /\ y = {b}' for a, b in
            ((1, 2), (0, 0), (2, 1), (3, 3), (1, 1), (2, 3))]
    out = []
    for first in range(3):
        for look in (('print',), ('fetch', 0)):
            others = [j for j in range(len(conj)) if j != first][:4]
            ops = [('cache', 'env', 'init', first), look,
                   ('drop', 'env', 'init'), ('gc',)]
            ops += [('alloc', j, True) for j in others]
            ops += [('fetch', j) for j in range(len(others))] + [('print',)]
            out.append((decl, conj, ops))
    return out


def run_cache(ops, exprs, backend, translator, decl):
    cr = CacheRun(backend, translator, decl)
    aut = cr.aut
    for op in ops:
        k = op[0]
        if k == 'cache':
            cr.op_cache(op[1], exprs[op[3]], op[2])
        elif k == 'drop':
            if op[1] in getattr(aut, op[2]):
                cr.op_drop(op[1], op[2])
        elif k == 'gc':
            cr.op_gc()
        elif k == 'alloc':
            cr.op_alloc(exprs[op[1]], op[2])
            if len(cr.held) > 30:
                del cr.held[0]
        elif k == 'fetch':
            cands = list(cr.held) + list(aut.init.values()) + \
                list(aut.action.values())
            if cands:
                cr.op_fetch(cands[op[1] % len(cands)])
        elif k == 'print':
            cr.op_print()
    return cr


def cache_group(i, j, cr):
    p = f'c{i}_{j}_'
    tabs = '[' + ';\n  '.join(
        '[' + ';'.join('true' if b else 'false' for b in t) + ']'
        for t in cr.tables) + ']'
    exp = '(Some [' + ';\n  '.join(
        '(' + ('None' if r is None else f'Some {r}%Z') + ', ['
        + '; '.join(S.zlit(k) for k in keys) + '])'
        for r, keys in cr.expected) + '])'
    defs = [
        f'Definition {p}tabs : list (list bool) := {tabs}.',
        f'Definition {p}sem (e : Z) : list bool := '
        f'nth (Z.to_nat e) {p}tabs [].',
        f'Definition {p}evs : list (event Z (list bool)) := ['
        + ';\n  '.join(cr.events) + '].',
    ]
    term = (f'obs_eqb (eobserve Z (list bool) {p}sem lb_eqb '
            f'(empty Z (list bool)) {p}evs) {exp}')
    return ('\n'.join(defs), [term])


# =================================================================== (D)
def copy_definitions_probe(backend, translator):
    """Copies of an Automaton and operator definitions made after the copy:
    a definition in one context must never change what a name means in the
    other, nor the meaning of a BDD obtained earlier; `op[name]` must describe
    `op_bdd[name]`.  Judged against plain Python evaluation over all
    assignments.  Returns None or a description of what differs."""
    import copy as _copy
    import itertools as _it
    aut = H.make_context(backend, translator, True)
    aut.declare_variables(x='bool', y='bool', n=(0, 3))
    aut.define('p == x /\\ y')
    other = _copy.copy(aut)
    body = {
        ('aut', 'p'): lambda x, y, n: x and y,
        ('other', 'p'): lambda x, y, n: x and y,
        ('aut', 'q'): lambda x, y, n: x or n == 1,
        ('other', 'q'): lambda x, y, n: (not x) and n == 2,
        ('aut', 'r'): lambda x, y, n: not y,
        ('other', 'r'): lambda x, y, n: y,
        ('aut', 's'): lambda x, y, n: (x or n == 1) and not y,   # q /\ r
        ('other', 's'): lambda x, y, n: (not x) and n == 2 and x and y,
    }
    ctxs = dict(aut=aut, other=other)

    def table(c, u):
        return [c.let(dict(x=x, y=y, n=n), u) == c.true
                for x, y, n in _it.product([False, True], [False, True],
                                           range(4))]

    def want(who, name):
        return [bool(body[who, name](x, y, n))
                for x, y, n in _it.product([False, True], [False, True],
                                           range(4))]
    bad = []
    aut.define('q == x \\/ (n = 1)')
    early = aut.add_expr('q', with_ops=True)     # obtained before the rest
    other.define('q == ~ x /\\ (n = 2)')
    other.define('r == y')
    aut.define('r == ~ y')
    aut.define('s == q /\\ r')
    other.define('s == q /\\ p')
    if table(aut, early) != want('aut', 'q'):
        bad.append('a BDD obtained earlier changed its meaning')
    for who, c in ctxs.items():
        for name in ('p', 'q', 'r', 's'):
            try:
                u = c.add_expr(name, with_ops=True)
                t = table(c, u)
                tb = table(c, c.op_bdd[name])
                te = table(c, c.add_expr(c.op[name], with_ops=True))
            except Exception as e:
                bad.append(f'{who}.{name}: raised {e!r}')
                continue
            w = want(who, name)
            if t != w:
                bad.append(f'{who}: the name {name} does not mean its '
                           'definition in this context')
            if tb != w:
                bad.append(f'{who}.op_bdd[{name}] is not the BDD of '
                           f'{who}.op[{name}]')
            if te != w:
                bad.append(f'{who}.op[{name}] re-added is not its definition')
    return bad or None


def node_reference_probe(backend, translator):
    """A BDD entered by reference (`@ n`, the way str(u) prints a node of
    either back end) inside a later formula must mean the BDD it refers to:
    for nodes of several kinds (constants TRUE and FALSE, which are `@1` /
    `@-1` under dd.autoref and pointers under dd.cudd; complemented and
    regular edges), `add_expr(f'{u} \\/ x')`, `add_expr(f'~ {u}')` and
    `add_expr(f'{u} /\\ {v}')` are compared point-wise with the tables of u
    and v.  Returns None or a description of what differs."""
    import itertools as _it
    c = H.make_context(backend, translator, False)
    c.declare(x='bool', y='bool', n=(0, 3))
    pts = list(_it.product([False, True], [False, True], range(4)))

    def table(u):
        return [c.let(dict(x=x, y=y, n=n), u) == c.true for x, y, n in pts]
    xs = table(c.add_expr('x'))
    srcs = ['FALSE', 'TRUE', 'x', '~ x', 'x /\\ ~ x', 'y \\/ ~ y', 'n = 1',
            '~ (n = 1)', 'n < 0', 'x /\\ (n = 2)']
    nodes = []
    for e in srcs:
        u = c.add_expr(e)
        nodes.append((e, u, table(u)))
    bad = []
    for e, u, t in nodes:
        try:
            r1 = table(c.add_expr(f'{u} \\/ x'))
            r2 = table(c.add_expr(f'~ {u}'))
        except Exception as ex:
            bad.append(f'reference to the node of `{e}` ({u}): raised {ex!r}')
            continue
        if r1 != [a or b for a, b in zip(t, xs)]:
            bad.append(f'`{u} \\/ x` (node of `{e}`) is not the disjunction '
                       'of that node with x')
        if r2 != [not a for a in t]:
            bad.append(f'`~ {u}` (node of `{e}`) is not the negation of '
                       'that node')
    for (e, u, t), (e2, v, t2) in zip(nodes, nodes[1:] + nodes[:1]):
        try:
            r = table(c.add_expr(f'{u} /\\ {v}'))
        except Exception as ex:
            bad.append(f'`{u} /\\ {v}`: raised {ex!r}')
            continue
        if r != [a and b for a, b in zip(t, t2)]:
            bad.append(f'`{u} /\\ {v}` (nodes of `{e}`, `{e2}`) is not their '
                       'conjunction')
    return bad or None


# ================================================================ correspond
def correspond(ctx):
    rng = ctx.rng
    thorough = ctx.thorough
    mism = []
    groups, meta = [], []
    # (A) prefix translators
    n_pref = 2500 if thorough else 500
    pcases = gen_prefix(rng, n_pref) + PROBES
    pterms = []
    n_acc = n_rej = 0
    for idx, (toks, kind) in enumerate(pcases):
        res = run_prefix(toks)
        if kind in ('well-formed', 'mutant'):
            # inside the common language the four runs must coincide
            vals = list(res.values())
            if any(v != vals[0] for v in vals):
                mism.append(Mismatch(
                    'prefix translators / back ends disagree',
                    dict(tokens=H.tok_str(toks)),
                    impl={f'{b}/{t}': v for (b, t), v in res.items()},
                    property_fails=True))
            if vals[0] is None:
                n_rej += 1
            else:
                n_acc += 1
        for t in prefix_terms(toks, res):
            pterms.append(t)
            meta.append(('prefix', idx, None))
    for k in range(0, len(pterms), 200):
        groups.append(('', pterms[k:k + 200]))
    # (D) copies and definitions made after the copy
    for be in ('autoref', 'cudd'):
        for tr in ('recursive', 'iterative'):
            try:
                r = copy_definitions_probe(be, tr)
            except Exception as e:
                r = [f'raised {e!r}']
            if r:
                mism.append(Mismatch(
                    'operator definitions made after copying an Automaton '
                    'interfere between the copies: ' + '; '.join(r[:3]),
                    dict(kind='copy_definitions', config=[be, tr]),
                    impl=r, property_fails=True))
    # (D') BDDs entered by reference in later formulas
    for be in ('autoref', 'cudd'):
        for tr in ('recursive', 'iterative'):
            try:
                r = node_reference_probe(be, tr)
            except Exception as e:
                r = [f'raised {e!r}']
            if r:
                mism.append(Mismatch(
                    'a BDD referred to by its node (`@ n`) in a later '
                    'formula does not mean that BDD: ' + '; '.join(r[:3]),
                    dict(kind='node_reference', config=[be, tr]),
                    impl=r, property_fails=True))
    # (B) context histories
    n_seq = 200 if thorough else 40
    maxlen = 12 if thorough else 8
    seqs = []
    op_hist = {}
    n_handles = n_refused = 0
    for i in range(n_seq):
        ops, r0 = gen_sequence(rng, rng.randint(3, maxlen))
        runs = []
        failed = False
        for cfg in H.CONFIGS:
            try:
                r = r0 if cfg == ('autoref', 'recursive') \
                    else replay_ops(ops, *cfg)
                fin = r.finish()
            except Exception as e:
                mism.append(Mismatch(
                    f'operation sequence raised on {cfg}: {e!r}',
                    dict(ops=ops_json(ops), config=list(cfg)),
                    property_fails=True))
                failed = True
                break
            runs.append((cfg, r, fin))
            for note in r.notes:
                mism.append(Mismatch(note[0], dict(
                    ops=ops_json(ops), config=list(cfg), expr=note[1]),
                    property_fails=True))
        if failed:
            continue
        # differential: the four runs agree with each other
        base = (runs[0][1].outcomes, runs[0][2])
        for cfg, r, fin in runs[1:]:
            if (r.outcomes, fin) != base:
                mism.append(Mismatch(
                    f'configuration {cfg} differs from (autoref, recursive)',
                    dict(ops=ops_json(ops), config=list(cfg)),
                    property_fails=True))
        n_handles += sum(len(f['tables']) for f in runs[0][2])
        n_refused += sum(1 for o in runs[0][1].outcomes if o[0] == 'Refused')
        g, what = sequence_group(i, ops, runs)
        groups.append(g)
        meta += [('sequence', len(seqs), w) for w in what]
        for _cfg, _r, _fin in runs:
            _r.close()
        seqs.append(ops)
        for o in ops:
            op_hist[o[0]] = op_hist.get(o[0], 0) + 1
        del runs, r0
        gc.collect()
    # (C) expression cache
    n_cache = 60 if thorough else 12
    cache_cases = []
    n_fetch = n_fetch_some = n_collect = n_stale = 0
    for i in range(n_cache):
        decl = dict(x=(0, 3), y=(0, 3), z=(0, 1))
        exprs = cache_exprs(rng, sorted(decl))
        ops = gen_cache_ops(rng, rng.randint(6, 30 if thorough else 20))
        for j, cfg in enumerate(H.CONFIGS):
            try:
                cr = run_cache(ops, exprs, cfg[0], cfg[1], decl)
            except Exception as e:
                mism.append(Mismatch(
                    f'cache sequence raised on {cfg}: {e!r}',
                    dict(ops=ops, exprs=exprs, config=list(cfg)),
                    property_fails=True))
                continue
            for note in cr.notes:
                mism.append(Mismatch(note[0], dict(
                    ops=ops, exprs=exprs, config=list(cfg), expr=note[1]),
                    property_fails=True))
            n_fetch += sum(1 for e in cr.events if e.startswith('EFetch'))
            n_fetch_some += sum(1 for r, _ in cr.expected if r is not None)
            n_collect += sum(1 for e in cr.events if e.startswith('ECollect'))
            n_stale += cr.stale_caught
            groups.append(cache_group(i, j, cr))
            meta.append(('cache', len(cache_cases), cfg))
            cache_cases.append(dict(ops=ops, exprs=exprs, config=list(cfg)))
            cr.close()
            del cr
        gc.collect()
    # identifier re-use happens on dd.autoref (freed indices are handed out
    # again); many small scenarios make it occur on every run
    n_hunt = 500 if thorough else 110
    fixed = fixed_reuse_scenarios()
    for i in range(n_hunt + len(fixed)):
        if i >= n_hunt:
            decl, exprs, ops = fixed[i - n_hunt]
        else:
            decl = dict(x=(0, 3), y=(0, 3), z=(0, 1))
            exprs = cache_exprs(rng, sorted(decl), 45)
            ops = hunt_ops(rng)
        cfg = ('autoref', 'recursive' if i % 2 else 'iterative')
        try:
            cr = run_cache(ops, exprs, cfg[0], cfg[1], decl)
        except Exception as e:
            mism.append(Mismatch(
                f'cache sequence raised on {cfg}: {e!r}',
                dict(ops=ops, exprs=exprs, config=list(cfg)),
                property_fails=True))
            continue
        for note in cr.notes:
            mism.append(Mismatch(note[0], dict(
                ops=ops, exprs=exprs, config=list(cfg), expr=note[1]),
                property_fails=True))
        n_fetch += sum(1 for e in cr.events if e.startswith('EFetch'))
        n_fetch_some += sum(1 for r, _ in cr.expected if r is not None)
        n_collect += sum(1 for e in cr.events if e.startswith('ECollect'))
        n_stale += cr.stale_caught
        groups.append(cache_group(n_cache + i, 0, cr))
        meta.append(('cache', len(cache_cases), cfg))
        cache_cases.append(dict(ops=ops, exprs=exprs, config=list(cfg)))
        cr.close()
        del cr
    res = ctx.eval_groups('corr', HEADER, groups, shard=150)
    assert len(res) == len(meta), (len(res), len(meta))
    for ok, (kind, i, w) in zip(res, meta):
        if ok:
            continue
        if kind == 'prefix':
            toks, k = pcases[i]
            mism.append(Mismatch(
                'prefix translator differs from its model',
                dict(tokens=H.tok_str(toks), kind=k), impl=None))
        elif kind == 'sequence':
            mism.append(Mismatch(
                f'{w[1]} differs from the model run on {w[0]}',
                dict(ops=ops_json(seqs[i]), config=list(w[0]))))
        else:
            mism.append(Mismatch(
                'expression cache differs from the model run',
                cache_cases[i]))
    ctx.cov['evaluations'] += len(res)
    ctx.cov['distinct_nontrivial'] += n_acc + n_handles + n_fetch_some
    ctx.cov['rule'] = (
        '(A) random prefix strings over 4 bits: well-formed (depth <= 4: '
        '! & | ^, \\A \\E with positive cubes, buffers `$ n ...` of 1-3 '
        'elements, registers `? i`, nested buffers) and 35% mutants of '
        'quantifier-free ones (token dropped / duplicated / replaced / '
        'appended, register index or buffer count changed, undeclared '
        'name); results compared as truth tables or rejection on 2 back '
        'ends x 2 translators with the two translator models; 3 probes '
        'outside the common language (`@`, `\\S`). (B) operation sequences '
        'of length 3-8 (quick) / 3-12 (thorough) + re-added formulas over '
        '2-3 initial identifiers (8 hint shapes) in two contexts '
        '(temporal.Automaton, fol.Context): add_expr of random formulas '
        '(+ - comparisons \\in ~ /\\ \\/ => <=> IF \\E \\A, depth <= 3), '
        'declare (fresh / same again / conflicting), exist, forall, let '
        '(value, renaming), apply not/and/or, to_expr, reorder, '
        'collect_garbage, copy between the contexts, Streett synthesis in '
        'the same context, repeated operations; every predicate is read as '
        'a truth table at the END of the sequence over the identifiers '
        'declared when it was obtained; 4 configurations vs ONE model run. '
        '(C) cache sequences of 6-20 (30) operations on an Automaton: '
        'cache (init/action entries), drop, collect_garbage, other '
        'allocations, _fetch_expr of held nodes and entries, str(aut); node '
        'identifiers observed, the model replays them (collections '
        'reconstructed); 4 configurations. non-trivial = accepted prefix '
        'strings + predicates compared + fetches returning an expression')
    ctx.cov['samples'] = [
        dict(prefix=H.tok_str(pcases[0][0]), kind=pcases[0][1]),
        dict(sequence=ops_json(seqs[0])) if seqs else '(none)',
        dict(cache_ops=cache_cases[0]['ops'][:6]) if cache_cases else '']
    ctx.extra['correspondence'] = dict(
        prefix_strings=len(pcases), prefix_accepted=n_acc,
        prefix_rejected=n_rej, sequences=len(seqs),
        predicates_compared_per_config=n_handles,
        redeclarations_refused=n_refused, operations=op_hist, configs=[list(c) for c in H.CONFIGS],
        cache_runs=len(cache_cases), fetches=n_fetch,
        fetches_returning_expression=n_fetch_some,
        collections_reconstructed=n_collect,
        stale_cache_entries_met=n_stale, reuse_hunts=n_hunt,
        comparisons=len(res), mismatches=len(mism),
        differential_only=['dd.autoref vs dd.cudd', 'reorder',
                           'collect_garbage'])
    return dedupe(mism)


def dedupe(mism):
    seen, out = set(), []
    for m in mism:
        k = m.what[:50]
        if k in seen:
            continue
        seen.add(k)
        out.append(m)
    return out


def ops_json(ops):
    return [list(o) for o in ops]


# ---------------------------------------------------------------- search
def check_sequence(ops):
    """Independent oracle for (B): the four configurations must give the
    same outcomes and tables, and every formula added twice the same
    table; returns description of the first failure or None."""
    ops = [tuple(tuplify(x) for x in o) for o in ops]
    base = None
    for cfg in H.CONFIGS:
        try:
            r = replay_ops(ops, *cfg)
            fin = r.finish()
        except Exception as e:
            return f'raised on {cfg}: {e!r}'
        if r.notes:
            return f'{r.notes[0][0]} on {cfg}'
        # history independence by direct evaluation of integer semantics
        for k in (0, 1):
            adds = [o for o in ops if o[0] == 'add' and o[1] == k]
        if base is None:
            base = (r.outcomes, fin)
        elif (r.outcomes, fin) != base:
            return f'configuration {cfg} differs from {H.CONFIGS[0]}'
    # same formula added at different times: same table on common columns
    r = replay_ops(ops, *H.CONFIGS[0])
    seen = {}
    hidx = [0, 0]
    for op, out in zip(ops, r.outcomes):
        if out[0] != 'Handle':
            continue
        k = 1 - op[1] if op[0] == 'copy' else op[1]
        if op[0] == 'add':
            key = (k, json.dumps(op[2]))
            u = r.handles[k][out[1]][0]
            if key in seen and seen[key] != u:
                return f'formula {H.render(op[2])} added twice gives ' \
                    'different predicates'
            seen[key] = u
    return None


def tuplify(x):
    if isinstance(x, list):
        return tuple(tuplify(y) for y in x)
    if isinstance(x, dict):
        return {k: tuplify(v) for k, v in x.items()}
    return x


def shrink_ops(ops):
    ops = list(ops)
    changed = True
    while changed and len(ops) > 1:
        changed = False
        for i in reversed(range(len(ops))):
            cand = drop_op(ops, i)
            if cand is None:
                continue
            try:
                bad = check_sequence(cand)
            except Exception:
                bad = None
            if bad:
                ops, changed = cand, True
                break
    return ops


def drop_op(ops, i):
    """Remove operation i if no later operation refers to a handle it (or a
    later one) produced -- handles are positional, so only operations after
    which no handle index shifts are dropped."""
    op = ops[i]
    produces = op[0] in ('add', 'exist', 'forall', 'letval', 'rename', 'not',
                         'and', 'or', 'to_expr', 'copy')
    if produces:
        # droppable only if it is the last handle-producing op of its context
        k = 1 - op[1] if op[0] == 'copy' else op[1]
        for o in ops[i + 1:]:
            kk = 1 - o[1] if o[0] == 'copy' else o[1]
            if kk == k and o[0] in ('add', 'exist', 'forall', 'letval',
                                    'rename', 'not', 'and', 'or', 'to_expr',
                                    'copy'):
                return None
            if o[0] == 'copy' and o[1] == k:
                return None
    if op[0] == 'declare':
        return None
    return ops[:i] + ops[i + 1:]


def search(ctx, broken, mismatches):
    out = []
    for m in mismatches:
        if m.property_fails:
            case = m.case
            if isinstance(case, dict) and 'ops' in case and \
                    'exprs' not in case:
                try:
                    small = shrink_ops([tuplify(o) for o in case['ops']])
                    case = dict(case, ops=ops_json(small))
                except Exception:
                    pass
            out.append(Failing(m.what, case, got=m.impl,
                               replay_cmd='./check C17 --replay <this file>'))
    if out:
        return out[:3]
    budget = 120 if ctx.thorough else 40
    for _ in range(budget):
        ops, r0 = gen_sequence(ctx.rng, ctx.rng.randint(3, 8))
        bad = check_sequence(ops)
        if bad:
            small = shrink_ops(ops)
            out.append(Failing(bad, dict(ops=ops_json(small)),
                               replay_cmd='./check C17 --replay <this file>'))
            return out
    for toks, kind in gen_prefix(ctx.rng, 1500 if ctx.thorough else 400):
        res = run_prefix(toks)
        vals = list(res.values())
        if any(v != vals[0] for v in vals):
            out.append(Failing(
                'prefix translators / back ends disagree',
                dict(tokens=H.tok_str(toks)),
                got={f'{b}/{t}': v for (b, t), v in res.items()}))
            return out
    for i in range(60 if ctx.thorough else 20):
        decl = dict(x=(0, 3), y=(0, 3), z=(0, 1))
        exprs = cache_exprs(ctx.rng, sorted(decl))
        ops = gen_cache_ops(ctx.rng, 25)
        for cfg in H.CONFIGS:
            cr = run_cache(ops, exprs, cfg[0], cfg[1], decl)
            if cr.notes:
                out.append(Failing(cr.notes[0][0], dict(
                    ops=ops, exprs=exprs, config=list(cfg),
                    expr=cr.notes[0][1])))
                return out
    return out


def replay(path):
    d = json.load(open(path))
    case = d.get('input') or d.get('case') or {}
    if 'exprs' in case:
        ops = [tuple(o) for o in case['ops']]
        cr = run_cache(ops, case['exprs'], case['config'][0],
                       case['config'][1], dict(x=(0, 3), y=(0, 3), z=(0, 1)))
        if cr.notes:
            print('still fails:', cr.notes[0][0])
            return 1
        print('passes')
        return 0
    if 'ops' in case:
        bad = check_sequence([tuplify(o) for o in case['ops']])
        if bad:
            print('still fails:', bad)
            return 1
        print('passes')
        return 0
    if case.get('kind') == 'copy_definitions':
        r = copy_definitions_probe(*case['config'])
        if r:
            print('still fails:', '; '.join(r))
            return 1
        print('passes')
        return 0
    if case.get('kind') == 'node_reference':
        r = node_reference_probe(*case['config'])
        if r:
            print('still fails:', '; '.join(r))
            return 1
        print('passes')
        return 0
    if 'tokens' in case:
        res = run_prefix_str(case['tokens'])
        vals = list(res.values())
        if any(v != vals[0] for v in vals):
            print('still fails: translators / back ends disagree:',
                  {f'{b}/{t}': v for (b, t), v in res.items()})
            return 1
        print('passes')
        return 0
    return 2
