(* The automaton fields each function translated from fixpoint.py reads (by
   name).  A change that reads another flag or action of the same type keeps
   every other proof valid (they are positional); it changes this list. *)
From Coq Require Import List String.
Import ListNotations.
From OmegaGen Require Import FixpointGen.
Local Open Scope string_scope.

Example reads_pinned_fixpoint :
  FixpointGen.step_reads = ["moore"; "plus_one"; "varlist[env']"; "varlist[sys']"] /\
  FixpointGen.attractor_reads = [] /\ FixpointGen.trap_reads = [] /\
  FixpointGen.ee_image_reads = ["action[sys]"; "varlist[env]"; "varlist[sys]"] /\
  FixpointGen.descendants_reads = [].
Proof. repeat split. Qed.
