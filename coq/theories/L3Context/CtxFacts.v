(* L3 / CtxFacts: facts about the model of fol.Context (Ctx.v).

   Conventions.  [agree l a a'] : two bit assignments coincide on the bits of
   l.  [uses_only l p] : the predicate p reads only bits of l (a BDD of a
   manager whose variables are l).  All semantic statements about a BDD u of a
   context with table t assume [uses_only (all_bits t) u]; [of_tt_uses_only]
   shows every BDD handed to the model by the correspondence satisfies it, and
   the operations preserve it. *)
From Coq Require Import ZArith List Bool String Lia Permutation.
From Omega Require Import L0Bits.Bits L0Bits.BitsFacts L3Context.Ctx.
Import ListNotations.
Open Scope Z_scope.

(* ---- equalities -------------------------------------------------------------- *)
Lemma bit_eqb_spec (a b : bit) : reflect (a = b) (bit_eqb a b).
Proof.
  destruct a as [x i], b as [y j]. unfold bit_eqb. cbn [fst snd].
  destruct (String.eqb_spec x y), (Nat.eqb_spec i j); cbn [andb]; constructor;
    congruence.
Qed.

Lemma bit_eqb_refl b : bit_eqb b b = true.
Proof. destruct (bit_eqb_spec b b); congruence. Qed.

Lemma upd_same a b v : upd a b v b = v.
Proof. unfold upd. rewrite bit_eqb_refl. reflexivity. Qed.

Lemma upd_other a b v b' : b' <> b -> upd a b v b' = a b'.
Proof. intro H. unfold upd. destruct (bit_eqb_spec b' b); congruence. Qed.

(* ---- generic dictionaries ------------------------------------------------------ *)
Section Dict.
Context {K V : Type} (keq : K -> K -> bool).
Hypothesis keq_spec : forall a b, reflect (a = b) (keq a b).

Lemma dict_get_set k k' (v : V) d :
  dict_get keq k (dict_set keq k' v d) =
  if keq k k' then Some v else dict_get keq k d.
Proof.
  induction d as [|[k0 v0] r IH]; cbn [dict_set dict_get].
  - reflexivity.
  - destruct (keq_spec k' k0).
    + subst. cbn [dict_get]. destruct (keq_spec k k0); reflexivity.
    + cbn [dict_get]. rewrite IH.
      destruct (keq_spec k k0), (keq_spec k k'); subst; congruence.
Qed.

Lemma dict_set_keys k (v : V) d :
  forall x, In x (map fst (dict_set keq k v d)) <-> x = k \/ In x (map fst d).
Proof.
  induction d as [|[k0 v0] r IH]; intro x; cbn [dict_set map fst In].
  - intuition.
  - destruct (keq_spec k k0).
    + subst. cbn [map fst In]. intuition.
    + cbn [map fst In]. rewrite IH. intuition.
Qed.

Lemma dict_set_nodup k (v : V) d :
  NoDup (map fst d) -> NoDup (map fst (dict_set keq k v d)).
Proof.
  induction d as [|[k0 v0] r IH]; intro H; cbn [dict_set map fst].
  - constructor; [intros []|constructor].
  - inversion H; subst. destruct (keq_spec k k0).
    + subst. cbn [map fst]. constructor; auto.
    + cbn [map fst]. constructor; auto.
      rewrite dict_set_keys. intros [E|E]; [congruence|auto].
Qed.

Lemma dict_get_update k (d e : list (K * V)) :
  dict_get keq k (dict_update keq d e) =
  match dict_get keq k (rev e) with
  | Some v => Some v
  | None => dict_get keq k d
  end.
Proof.
  unfold dict_update. revert d; induction e as [|[k0 v0] e IH]; intro d.
  - reflexivity.
  - cbn [fold_left fst snd rev]. rewrite IH, dict_get_set.
    assert (G : forall l, dict_get keq k (l ++ [(k0, v0)]) =
              match dict_get keq k l with
              | Some v => Some v
              | None => if keq k k0 then Some v0 else None
              end).
    { induction l as [|[k1 v1] l IHl]; cbn [app dict_get]; [reflexivity|].
      destruct (keq k k1); auto. }
    rewrite G. destruct (dict_get keq k (rev e)); auto.
    destruct (keq k k0); auto.
Qed.

Lemma dict_update_nodup (d e : list (K * V)) :
  NoDup (map fst d) -> NoDup (map fst (dict_update keq d e)).
Proof.
  unfold dict_update. revert d; induction e as [|[k0 v0] e IH]; intros d H; auto.
  cbn [fold_left]. apply IH. apply dict_set_nodup; auto.
Qed.

Lemma dict_update_keys (d e : list (K * V)) x :
  In x (map fst (dict_update keq d e)) <-> In x (map fst d) \/ In x (map fst e).
Proof.
  unfold dict_update. revert d; induction e as [|[k0 v0] e IH]; intro d.
  - cbn. intuition.
  - cbn [fold_left fst snd map In]. rewrite IH, dict_set_keys. intuition.
Qed.

Lemma dict_get_in k (v : V) d : dict_get keq k d = Some v -> In (k, v) d.
Proof.
  induction d as [|[k0 v0] r IH]; cbn [dict_get]; [discriminate|].
  destruct (keq_spec k k0).
  - intro E; inversion E; subst. left; reflexivity.
  - intro E. right. auto.
Qed.

Lemma dict_get_nodup_in k (v : V) d :
  NoDup (map fst d) -> In (k, v) d -> dict_get keq k d = Some v.
Proof.
  induction d as [|[k0 v0] r IH]; intros ND Hin; [destruct Hin|].
  inversion ND; subst. cbn [dict_get]. destruct Hin as [E|Hin].
  - inversion E; subst. destruct (keq_spec k k); congruence.
  - destruct (keq_spec k k0).
    + subst. exfalso. apply H1. apply in_map_iff. exists (k0, v). auto.
    + auto.
Qed.

Lemma dict_get_none k (d : list (K * V)) :
  dict_get keq k d = None <-> ~ In k (map fst d).
Proof.
  induction d as [|[k0 v0] r IH]; cbn [dict_get map fst In].
  - intuition.
  - destruct (keq_spec k k0).
    + subst. split; [discriminate|]. intro H. exfalso. apply H. auto.
    + rewrite IH. intuition.
Qed.

Lemma mem_spec k (l : list K) : mem keq k l = true <-> In k l.
Proof.
  induction l as [|x r IH]; cbn [mem In].
  - split; [discriminate|tauto].
  - rewrite orb_true_iff, IH. destruct (keq_spec k x); intuition; try congruence.
Qed.

Lemma set_add_in k (l : list K) x : In x (set_add keq k l) <-> x = k \/ In x l.
Proof.
  unfold set_add. destruct (mem keq k l) eqn:E.
  - apply mem_spec in E. intuition. subst; auto.
  - rewrite in_app_iff. cbn. intuition.
Qed.


Lemma set_union_in (a b : list K) x :
  In x (set_union keq a b) <-> In x a \/ In x b.
Proof.
  unfold set_union. revert a; induction b as [|k b IH]; intro a.
  - cbn. intuition.
  - cbn [fold_left In]. rewrite IH, set_add_in. intuition.
Qed.

Lemma subset_spec (a b : list K) :
  subset keq a b = true <-> (forall x, In x a -> In x b).
Proof.
  unfold subset. rewrite forallb_forall.
  split; intros H x Hx; specialize (H x Hx); apply mem_spec; auto.
Qed.
End Dict.

Lemma string_eqb_spec' (a b : string) : reflect (a = b) (String.eqb a b).
Proof. apply String.eqb_spec. Qed.

Lemma nodup_snoc {A} (l : list A) x : NoDup l -> ~ In x l -> NoDup (l ++ [x]).
Proof.
  induction l; intros ND Hx; cbn.
  - constructor; [intros []|constructor].
  - inversion ND; subst. constructor.
    + rewrite in_app_iff. cbn. intros [H|[H|[]]]; [auto|].
      subst. apply Hx. left; auto.
    + apply IHl; auto. intro; apply Hx; right; auto.
Qed.

Lemma set_add_nodup {K} (keq : K -> K -> bool)
    (keq_spec : forall a b, reflect (a = b) (keq a b)) k (l : list K) :
  NoDup l -> NoDup (set_add keq k l).
Proof.
  intro H. unfold set_add. destruct (mem keq k l) eqn:E; auto.
  apply nodup_snoc; auto. rewrite <- (mem_spec keq keq_spec). congruence.
Qed.

Lemma set_union_nodup {K} (keq : K -> K -> bool)
    (keq_spec : forall a b, reflect (a = b) (keq a b)) (a b : list K) :
  NoDup a -> NoDup (set_union keq a b).
Proof.
  unfold set_union. revert a; induction b as [|k b IH]; intros a H; auto.
  cbn [fold_left]. apply IH. apply set_add_nodup; auto.
Qed.

(* ---- assignments that coincide on a set of bits -------------------------------- *)
Definition agree (l : list bit) (a a' : bitasg) : Prop :=
  forall b, In b l -> a b = a' b.
Definition uses_only (l : list bit) (p : pred) : Prop :=
  forall a a', agree l a a' -> p a = p a'.
Definition exteq (a a' : bitasg) : Prop := forall b, a b = a' b.

Lemma uses_only_exteq l p a a' : uses_only l p -> exteq a a' -> p a = p a'.
Proof. intros H E. apply H. intros b _. apply E. Qed.

Lemma uses_only_incl l l' p :
  (forall b, In b l -> In b l') -> uses_only l p -> uses_only l' p.
Proof. intros Hi H a a' Ha. apply H. intros b Hb. apply Ha. auto. Qed.

Lemma asgs_from_spec bits : forall base a0,
  In a0 (asgs_from base bits) -> forall b, ~ In b bits -> a0 b = base b.
Proof.
  induction bits as [|c r IH]; intros base a0 Hin b Hb.
  - destruct Hin as [<-|[]]. reflexivity.
  - cbn [asgs_from] in Hin. apply in_app_iff in Hin.
    assert (b <> c) by (intro; subst; apply Hb; left; auto).
    destruct Hin as [Hin|Hin]; apply IH with (b := b) in Hin;
      try (intro; apply Hb; right; auto); rewrite Hin; apply upd_other; auto.
Qed.

Lemma asgs_from_complete bits : forall base (a : bitasg),
  exists a0, In a0 (asgs_from base bits) /\
    (forall b, In b bits -> a0 b = a b) /\
    (forall b, ~ In b bits -> a0 b = base b).
Proof.
  induction bits as [|c r IH]; intros base a.
  - exists base. cbn. intuition.
  - destruct (IH (upd base c (a c)) a) as (a0 & Hin & Hon & Hoff).
    exists a0. split; [|split].
    + cbn [asgs_from]. apply in_app_iff. destruct (a c); auto.
    + intros b [<-|Hb]; [|auto].
      destruct (in_dec (fun x y => reflect_dec _ _ (bit_eqb_spec x y)) c r) as [Hc|Hc].
      * auto.
      * rewrite Hoff by auto. apply upd_same.
    + intros b Hb.
      assert (b <> c) by (intro; subst; apply Hb; left; auto).
      rewrite Hoff by (intro; apply Hb; right; auto). apply upd_other; auto.
Qed.

Lemma all_asgs_complete bits (a : bitasg) :
  exists a0, In a0 (all_asgs bits) /\ agree bits a0 a.
Proof.
  destruct (asgs_from_complete bits zero_asg a) as (a0 & H1 & H2 & _).
  exists a0. split; auto.
Qed.

(* quantification over the tabulated assignments = over all assignments *)
Lemma forallb_all_asgs univ (q : bitasg -> bool) :
  (forall a a', agree univ a a' -> q a = q a') ->
  (forallb q (all_asgs univ) = true <-> forall a, q a = true).
Proof.
  intro Hq. rewrite forallb_forall. split.
  - intros H a. destruct (all_asgs_complete univ a) as (a0 & Hin & Hag).
    rewrite <- (Hq a0 a Hag). auto.
  - intros H a _. auto.
Qed.

Lemma existsb_all_asgs univ (q : bitasg -> bool) :
  (forall a a', agree univ a a' -> q a = q a') ->
  (existsb q (all_asgs univ) = true <-> exists a, q a = true).
Proof.
  intro Hq. rewrite existsb_exists. split.
  - intros (a & _ & H). eauto.
  - intros (a & H). destruct (all_asgs_complete univ a) as (a0 & Hin & Hag).
    exists a0. split; auto. rewrite (Hq a0 a Hag). auto.
Qed.

Lemma agree_upd l a a' b v : agree l a a' -> agree l (upd a b v) (upd a' b v).
Proof.
  intros H c Hc. unfold upd. destruct (bit_eqb c b); auto.
Qed.

(* ---- support --------------------------------------------------------------------- *)
Definition depends_on (p : pred) (b : bit) : Prop :=
  exists a, p (upd a b true) <> p (upd a b false).

Lemma depends_b_spec univ p b : uses_only univ p ->
  (depends_b univ p b = true <-> depends_on p b).
Proof.
  intro Hu. unfold depends_b, depends_on.
  rewrite existsb_all_asgs.
  - split; intros (a & H); exists a.
    + destruct (p (upd a b true)), (p (upd a b false)); cbn in H; congruence.
    + destruct (p (upd a b true)), (p (upd a b false)); cbn; congruence.
  - intros a a' Ha. f_equal; apply Hu; apply agree_upd; auto.
Qed.

Theorem bsupport_spec univ p b : uses_only univ p ->
  (In b (bsupport univ p) <-> In b univ /\ depends_on p b).
Proof.
  intro Hu. unfold bsupport. rewrite filter_In, depends_b_spec by auto. reflexivity.
Qed.

Definition indep (p : pred) (b : bit) : Prop := forall a v, p (upd a b v) = p a.

Lemma not_depends_indep univ p b : uses_only univ p ->
  ~ depends_on p b -> indep p b.
Proof.
  intros Hu Hn a v.
  assert (E : p (upd a b true) = p (upd a b false)).
  { destruct (bool_dec (p (upd a b true)) (p (upd a b false))); auto.
    exfalso. apply Hn. exists a. auto. }
  assert (X : p (upd a b (a b)) = p a).
  { apply uses_only_exteq with (l := univ); auto.
    intro c. unfold upd. destruct (bit_eqb_spec c b); subst; auto. }
  destruct v, (a b) eqn:Eab; congruence.
Qed.

Lemma outside_indep univ p b : uses_only univ p -> ~ In b univ -> indep p b.
Proof.
  intros Hu Hn a v. apply Hu. intros c Hc. apply upd_other. intro; subst; auto.
Qed.

Lemma indep_not_in_support univ p b : uses_only univ p ->
  ~ In b (bsupport univ p) -> indep p b.
Proof.
  intros Hu Hn.
  destruct (in_dec (fun x y => reflect_dec _ _ (bit_eqb_spec x y)) b univ) as [Hi|Hi].
  - apply (not_depends_indep univ); auto. intro Hd. apply Hn.
    apply bsupport_spec; auto.
  - apply (outside_indep univ); auto.
Qed.

(* overwrite the bits of l that satisfy [sel] with the values of a' *)
Fixpoint overwrite (sel : bit -> bool) (l : list bit) (a a' : bitasg) : bitasg :=
  match l with
  | [] => a
  | b :: r => if sel b then upd (overwrite sel r a a') b (a' b)
              else overwrite sel r a a'
  end.

Lemma overwrite_val sel l a a' b :
  overwrite sel l a a' b = if sel b && existsb (bit_eqb b) l then a' b else a b.
Proof.
  induction l as [|c r IH]; cbn [overwrite existsb].
  - rewrite andb_false_r. reflexivity.
  - destruct (sel c) eqn:Ec.
    + unfold upd. destruct (bit_eqb_spec b c).
      * subst. rewrite Ec. reflexivity.
      * rewrite IH. reflexivity.
    + rewrite IH. destruct (bit_eqb_spec b c); [subst; rewrite Ec|]; reflexivity.
Qed.

Lemma overwrite_pres sel l p a a' :
  (forall b, sel b = true -> indep p b) -> p (overwrite sel l a a') = p a.
Proof.
  intro H. induction l as [|c r IH]; cbn [overwrite]; auto.
  destruct (sel c) eqn:Ec; auto. rewrite H by auto. auto.
Qed.

(* a predicate reads only the bits of its support *)
Theorem uses_only_support univ p : uses_only univ p ->
  uses_only (bsupport univ p) p.
Proof.
  intros Hu a a' Ha.
  set (sel := fun b => negb (mem bit_eqb b (bsupport univ p))).
  rewrite <- (overwrite_pres sel univ p a a').
  2:{ intros b Hb. apply (indep_not_in_support univ); auto.
      unfold sel in Hb. rewrite <- (mem_spec bit_eqb bit_eqb_spec).
      destruct (mem bit_eqb b (bsupport univ p)); cbn in Hb; congruence. }
  apply Hu. intros b Hb. rewrite overwrite_val.
  assert (existsb (bit_eqb b) univ = true).
  { apply existsb_exists. exists b. split; auto. apply bit_eqb_refl. }
  rewrite H, andb_true_r. unfold sel.
  destruct (mem bit_eqb b (bsupport univ p)) eqn:E; cbn; auto.
  apply Ha. apply (mem_spec bit_eqb bit_eqb_spec). auto.
Qed.

Lemma bsupport_incl univ p b : In b (bsupport univ p) -> In b univ.
Proof. unfold bsupport. rewrite filter_In. tauto. Qed.

(* ---- the truth tables of the correspondence satisfy uses_only ------------------- *)
Lemma of_tt_uses_only bits t : uses_only bits (of_tt bits t).
Proof.
  unfold of_tt. revert bits; induction t as [b|lo IHlo hi IHhi|t' IH];
    intros bits a a' Ha; cbn [eval_tt]; [reflexivity| |].
  - destruct bits as [|c r]; [reflexivity|].
    rewrite (Ha c) by (left; auto).
    destruct (a' c); [apply IHhi|apply IHlo]; intros x Hx; apply Ha; right; auto.
  - destruct bits as [|c r]; [reflexivity|].
    apply IH. intros x Hx; apply Ha; right; auto.
Qed.

(* ---- Boolean operations ----------------------------------------------------------- *)
Lemma uses_only_bnot l p : uses_only l p -> uses_only l (bnot p).
Proof. intros H a a' Ha. unfold bnot. f_equal. auto. Qed.

Lemma uses_only_bin l (f : bool -> bool -> bool) p q :
  uses_only l p -> uses_only l q -> uses_only l (fun a => f (p a) (q a)).
Proof. intros Hp Hq a a' Ha. rewrite (Hp a a' Ha), (Hq a a' Ha). reflexivity. Qed.

(* ---- quantification at the bit level ----------------------------------------------- *)
Lemma bexist_spec univ bs p : uses_only univ p -> forall a,
  bexist bs p a = true <->
  exists a', (forall b, ~ In b bs -> a' b = a b) /\ p a' = true.
Proof.
  intro Hu. induction bs as [|c r IH]; intro a; cbn [bexist fold_right].
  - split.
    + intro H. exists a. auto.
    + intros (a' & Hag & H). rewrite <- H. apply (uses_only_exteq univ); auto.
      intro b. symmetry. apply Hag. intros [].
  - fold (bexist r p). unfold bexist1. rewrite orb_true_iff, !IH. split.
    + intros [(a' & Hag & H)|(a' & Hag & H)]; exists a'; split; auto;
        intros b Hb; rewrite Hag by (intro; apply Hb; right; auto);
        apply upd_other; intro; subst; apply Hb; left; auto.
    + intros (a' & Hag & H).
      assert (G : forall b, ~ In b r -> a' b = upd a c (a' c) b).
      { intros b Hb. destruct (bit_eqb_spec b c) as [->|Hn].
        - rewrite upd_same. reflexivity.
        - rewrite upd_other by auto. apply Hag. intros [E|E]; [congruence|auto]. }
      destruct (a' c); [right|left]; exists a'; auto.
Qed.

Lemma uses_only_bexist univ bs p : uses_only univ p -> uses_only univ (bexist bs p).
Proof.
  intro Hu. induction bs as [|c r IH]; cbn [bexist fold_right]; auto.
  fold (bexist r p). intros a a' Ha. unfold bexist1.
  f_equal; apply IH; apply agree_upd; auto.
Qed.

(* ---- tables ------------------------------------------------------------------------- *)
Definition wf_tbl (t : tbl) : Prop :=
  NoDup (map fst t) /\ forall x h, In (x, DInt h) t -> wf_hint h.

Definition in_range (t : tbl) (f : fasg) : Prop :=
  forall x d, In (x, d) t -> val_in_range d (f x) = true.

Lemma tlookup_in t x d : tlookup x t = Some d -> In (x, d) t.
Proof. apply (dict_get_in String.eqb string_eqb_spec'). Qed.

Lemma in_tlookup t x d : NoDup (map fst t) -> In (x, d) t -> tlookup x t = Some d.
Proof. apply (dict_get_nodup_in String.eqb string_eqb_spec'). Qed.

Lemma in_bitnames x d b :
  In b (bitnames x d) <->
  fst b = x /\ match d with
               | DBool => snd b = 0%nat
               | DInt h => (snd b < wnat h)%nat
               end.
Proof.
  destruct b as [y i]. destruct d as [|h]; cbn [bitnames fst snd].
  - cbn. split; [intros [E|[]]; inversion E; auto | intros [-> ->]; auto].
  - rewrite in_map_iff. split.
    + intros (j & E & Hj). inversion E; subst. apply in_seq in Hj. split; auto; lia.
    + intros [-> Hi]. exists i. split; auto. apply in_seq. lia.
Qed.

Lemma in_all_bits t b :
  In b (all_bits t) <-> exists x d, In (x, d) t /\ In b (bitnames x d).
Proof.
  unfold all_bits. rewrite in_flat_map. split.
  - intros ([x d] & Hin & Hb). exists x, d. auto.
  - intros (x & d & Hin & Hb). exists (x, d). auto.
Qed.

Lemma zbits_map n z :
  zbits n z = map (fun i => Z.testbit z (Z.of_nat i)) (seq 0 n).
Proof.
  induction n.
  - reflexivity.
  - rewrite zbits_snoc, seq_S, map_app, IHn. reflexivity.
Qed.

Lemma nth_map_seq {A} (f : nat -> A) n i d : (i < n)%nat ->
  nth i (map f (seq 0 n)) d = f i.
Proof.
  intro Hi. rewrite (nth_indep _ d (f 0%nat)) by (rewrite map_length, seq_length; auto).
  rewrite map_nth, seq_nth by auto. reflexivity.
Qed.

Lemma encode_bitnames t f x h z :
  tlookup x t = Some (DInt h) -> f x = VZ z ->
  map (encode t f) (bitnames x (DInt h)) = encode_val h z.
Proof.
  intros Hl Hf. unfold encode_val. rewrite zbits_map. cbn [bitnames].
  rewrite map_map. apply map_ext. intro i. unfold encode. cbn [fst snd].
  rewrite Hl, Hf. reflexivity.
Qed.

(* decode after encode gives back the assignment (on declared variables) *)
Theorem decode_encode_f t f x d : wf_tbl t -> in_range t f -> In (x, d) t ->
  decode t (encode t f) x = f x.
Proof.
  intros [ND Hwf] Hr Hin. pose proof (in_tlookup t x d ND Hin) as Hl.
  specialize (Hr x d Hin). unfold decode. rewrite Hl.
  destruct d as [|h].
  - unfold encode. cbn [fst]. rewrite Hl.
    destruct (f x); cbn in Hr; [reflexivity|discriminate].
  - destruct (f x) as [|z] eqn:Hf; cbn in Hr; [discriminate|].
    rewrite (encode_bitnames t f x h z) by auto.
    rewrite decode_encode; auto. eapply Hwf; eauto.
Qed.

(* encode after decode gives back the bits (on declared bits) *)
Theorem encode_decode_b t a b : wf_tbl t -> In b (all_bits t) ->
  encode t (decode t a) b = a b.
Proof.
  intros [ND Hwf] Hb. apply in_all_bits in Hb. destruct Hb as (x & d & Hin & Hb).
  pose proof (in_tlookup t x d ND Hin) as Hl.
  apply in_bitnames in Hb. destruct Hb as [Hx Hi]. destruct b as [y i].
  cbn [fst snd] in *. subst y.
  unfold encode, decode. cbn [fst snd]. rewrite Hl.
  destruct d as [|h].
  - subst i. reflexivity.
  - assert (Hw : wf_hint h) by (eapply Hwf; eauto).
    destruct (decode_in_limits h (map a (bitnames x (DInt h))) Hw) as (z & D & _ & E).
    { cbn [bitnames]. rewrite !map_length, seq_length. reflexivity. }
    rewrite D. unfold encode_val in E.
    rewrite <- (zbits_nth (wnat h) z i Hi), E. cbn [bitnames].
    rewrite map_map. apply (nth_map_seq (fun j => a (x, j))). auto.
Qed.

Theorem decode_in_range t a : wf_tbl t -> in_range t (decode t a).
Proof.
  intros [ND Hwf] x d Hin. pose proof (in_tlookup t x d ND Hin) as Hl.
  unfold decode. rewrite Hl. destruct d as [|h]; [reflexivity|].
  assert (Hw : wf_hint h) by (eapply Hwf; eauto).
  destruct (decode_in_limits h (map a (bitnames x (DInt h))) Hw) as (z & D & I & _).
  { cbn [bitnames]. rewrite !map_length, seq_length. reflexivity. }
  rewrite D. exact I.
Qed.

(* every bit assignment is, on the declared bits, the refinement of an
   assignment of representable values *)
Corollary encode_decode_agree t a : wf_tbl t ->
  agree (all_bits t) (encode t (decode t a)) a.
Proof. intros H b Hb. apply encode_decode_b; auto. Qed.

Lemma sem_decode t u a : wf_tbl t -> uses_only (all_bits t) u ->
  sem t u (decode t a) = u a.
Proof. intros Hwf Hu. unfold sem. apply Hu. apply encode_decode_agree; auto. Qed.

(* encode reads f only at the variable of the bit *)
Lemma encode_local t f g b : f (fst b) = g (fst b) -> encode t f b = encode t g b.
Proof. intro H. unfold encode. rewrite H. reflexivity. Qed.

(* ---- bit_table / refine_vars ---------------------------------------------------------- *)
Lemma bit_table_spec vars t : (forall x, In x vars -> exists d, tlookup x t = Some d) ->
  exists bs, bit_table vars t = Some bs /\ NoDup bs /\
    forall b, In b bs <->
      exists x d, In x vars /\ tlookup x t = Some d /\ In b (bitnames x d).
Proof.
  induction vars as [|x r IH]; intro Hd.
  - exists []. split; [reflexivity|]. split; [constructor|].
    intro b. split; [intros []|intros (x & d & [] & _)].
  - destruct (Hd x (or_introl eq_refl)) as (d & Hl).
    destruct IH as (rest & E & ND & Hin); [intros; apply Hd; right; auto|].
    cbn [bit_table]. rewrite Hl, E.
    eexists. split; [reflexivity|]. split.
    + apply (set_union_nodup bit_eqb bit_eqb_spec).
      destruct d; cbn [bitnames].
      * constructor; [intros []|constructor].
      * apply FinFun.Injective_map_NoDup; [|apply seq_NoDup].
        intros i j Eij. inversion Eij; auto.
    + intro b. rewrite (set_union_in bit_eqb bit_eqb_spec), Hin. split.
      * intros [Hb|(y & d' & Hy & Hl' & Hb)].
        -- exists x, d. cbn; auto.
        -- exists y, d'. cbn; auto.
      * intros (y & d' & [<-|Hy] & Hl' & Hb).
        -- left. congruence.
        -- right. eauto.
Qed.

Lemma bitnames_declared t x d b : wf_tbl t -> tlookup x t = Some d ->
  In b (bitnames x d) -> In b (all_bits t) /\ fst b = x.
Proof.
  intros _ Hl Hb. split.
  - apply in_all_bits. exists x, d. split; auto. apply tlookup_in; auto.
  - apply in_bitnames in Hb. tauto.
Qed.

Lemma declared_bit_lookup t b : wf_tbl t -> In b (all_bits t) ->
  exists d, tlookup (fst b) t = Some d /\ In b (bitnames (fst b) d).
Proof.
  intros [ND _] Hb. apply in_all_bits in Hb. destruct Hb as (x & d & Hin & Hb).
  pose proof Hb as Hb'. apply in_bitnames in Hb'. destruct Hb' as [<- _].
  exists d. split; auto. apply in_tlookup; auto.
Qed.

(* ---- Context.exist / forall --------------------------------------------------------- *)
Definition agree_off (qvars : list ident) (f f' : fasg) : Prop :=
  forall x, ~ In x qvars -> f' x = f x.

Lemma sem_ext t u f g : uses_only (all_bits t) u ->
  (forall x, f x = g x) -> sem t u f = sem t u g.
Proof.
  intros Hu E. unfold sem. apply Hu. intros b _. apply encode_local. apply E.
Qed.

Theorem exist_spec t qvars u : wf_tbl t -> uses_only (all_bits t) u ->
  (forall x, In x qvars -> exists d, tlookup x t = Some d) ->
  exists r, ctx_exist t qvars u = Some r /\ uses_only (all_bits t) r /\
    forall f, in_range t f ->
      (sem t r f = true <->
       exists f', in_range t f' /\ agree_off qvars f f' /\ sem t u f' = true).
Proof.
  intros Hwf Hu Hd. destruct qvars as [|q0 qr].
  - exists u. split; [reflexivity|]. split; auto. intros f Hf. split.
    + intro H. exists f. split; auto. split; auto. intros x _. reflexivity.
    + intros (f' & _ & Hag & H). rewrite <- H. apply sem_ext; auto.
      intro x. symmetry. apply Hag. intros [].
  - set (qvars := q0 :: qr) in *.
    destruct (bit_table_spec qvars t Hd) as (qbits & E & ND & Hq).
    exists (bexist qbits u). split; [unfold ctx_exist; fold qvars; rewrite E; reflexivity|].
    split; [apply uses_only_bexist; auto|].
    assert (Hqv : forall b, In b (all_bits t) -> (In b qbits <-> In (fst b) qvars)).
    { intros b Hb. rewrite Hq. split.
      - intros (x & d & Hx & Hl & Hbn). apply in_bitnames in Hbn.
        destruct Hbn as [-> _]. auto.
      - intro Hx. destruct (declared_bit_lookup t b Hwf Hb) as (d & Hl & Hbn).
        exists (fst b), d. auto. }
    intros f Hf. unfold sem at 1. rewrite (bexist_spec (all_bits t)) by auto. split.
    + intros (a' & Hag & H).
      exists (fun x => if mem String.eqb x qvars then decode t a' x else f x).
      split; [|split].
      * intros x d Hin. destruct (mem String.eqb x qvars).
        -- apply decode_in_range; auto.
        -- apply Hf; auto.
      * intros x Hx. destruct (mem String.eqb x qvars) eqn:Em; auto.
        apply (mem_spec String.eqb string_eqb_spec') in Em. tauto.
      * rewrite <- H. unfold sem. apply Hu. intros b Hb.
        destruct (mem String.eqb (fst b) qvars) eqn:Em.
        -- rewrite (encode_local t _ (decode t a') b) by (rewrite Em; reflexivity).
           apply encode_decode_b; auto.
        -- rewrite (encode_local t _ f b) by (rewrite Em; reflexivity).
           symmetry. apply Hag. rewrite Hqv by auto.
           rewrite <- (mem_spec String.eqb string_eqb_spec'). congruence.
    + intros (f' & Hf' & Hag & H).
      exists (fun b => if mem bit_eqb b qbits then encode t f' b else encode t f b).
      split.
      * intros b Hb. destruct (mem bit_eqb b qbits) eqn:Em; auto.
        apply (mem_spec bit_eqb bit_eqb_spec) in Em. tauto.
      * rewrite <- H. unfold sem. apply Hu. intros b Hb.
        destruct (mem bit_eqb b qbits) eqn:Em; auto.
        apply encode_local. symmetry. apply Hag.
        rewrite <- Hqv by auto.
        rewrite <- (mem_spec bit_eqb bit_eqb_spec). congruence.
Qed.

Theorem forall_spec t qvars u : wf_tbl t -> uses_only (all_bits t) u ->
  (forall x, In x qvars -> exists d, tlookup x t = Some d) ->
  exists r, ctx_forall t qvars u = Some r /\ uses_only (all_bits t) r /\
    forall f, in_range t f ->
      (sem t r f = true <->
       forall f', in_range t f' -> agree_off qvars f f' -> sem t u f' = true).
Proof.
  intros Hwf Hu Hd.
  destruct (exist_spec t qvars (bnot u) Hwf (uses_only_bnot _ _ Hu) Hd)
    as (r & E & Hur & Hr).
  exists (bnot r). unfold ctx_forall. rewrite E. split; [reflexivity|].
  split; [apply uses_only_bnot; auto|].
  intros f Hf. specialize (Hr f Hf). unfold sem, bnot in *. split.
  - intros H f' Hf' Hag.
    destruct (u (encode t f')) eqn:Eu; auto.
    assert (r (encode t f) = true).
    { apply Hr. exists f'. rewrite Eu. auto. }
    rewrite H0 in H. discriminate.
  - intro H. destruct (r (encode t f)) eqn:Er; auto.
    destruct (proj1 Hr eq_refl) as (f' & Hf' & Hag & Hn).
    rewrite (H f' Hf' Hag) in Hn. discriminate.
Qed.
