"""Labelled transition systems for C20: generators, the run of the REAL
`omega.symbolic.logicizer.graph_to_logic`, bit-level truth tables of its four
BDDs, Gallina literals of the same inputs, and a direct explicit-graph
oracle of the property statement (used by the search only).

A case is JSON-able:

    dict(vars={'x': 'bool', 'y': [0, 2]}, env_vars=['x'], owner='sys',
         nodes=[[u, label], ...], edges=[[u, v, label], ...],
         initial=[u, ...], backend='cudd'|'autoref',
         flags=[[ignore_initial, receptive, self_loops], ...])

A label is a dict in insertion order with keys among 'formula',
x y z w and their primed versions ('w' is never declared: a skipped key).
The formula strings come from the fixed alphabets below; their meaning is
written twice, independently: in Coq (GraphTables.esem_alpha/nsem_alpha, used
by the model) and in Python (EDGE_SEM/NODE_SEM, used by the search oracle).
"""
import itertools
import logging
import warnings

logging.disable(logging.CRITICAL)

from vlib import games  # noqa: E402  (bit encodings only)

NODEVAR = 'nd'
VAR_ID = {'nd': 'ND', 'x': 'VX', 'y': 'VY', 'z': 'VZ', 'w': 'VW'}
ORDER = ['nd', 'x', 'y', 'z', 'w']      # variable identifiers 0..4

# index = label number in GraphTables.esem_alpha
EDGE_FORMULAS = [
    "x /\\ (y' = y)",
    "y' < 2",
    "y = 1",
    "x' \\/ ~ x",
    "y' = y + 1",
    "x <=> x'",
    "(y' > y) => x'",
    "True",
    "False",
    "nd' >= nd",
]
NODE_FORMULAS = [
    "y > 0",
    "x",
    "~ x \\/ (y = 0)",
    "y < 2",
    "False",
    "True",
    "y != 1",
]
SPECIAL = ['', 'TRUE', 'FALSE']         # handled by the string code itself

EDGE_SEM = [
    lambda s, t: bool(s['x']) and t['y'] == s['y'],
    lambda s, t: t['y'] < 2,
    lambda s, t: s['y'] == 1,
    lambda s, t: bool(t['x']) or not s['x'],
    lambda s, t: t['y'] == s['y'] + 1,
    lambda s, t: bool(s['x']) == bool(t['x']),
    lambda s, t: (not t['y'] > s['y']) or bool(t['x']),
    lambda s, t: True,
    lambda s, t: False,
    lambda s, t: t['nd'] >= s['nd'],
]
NODE_SEM = [
    lambda s: s['y'] > 0,
    lambda s: bool(s['x']),
    lambda s: (not s['x']) or s['y'] == 0,
    lambda s: s['y'] < 2,
    lambda s: False,
    lambda s: True,
    lambda s: s['y'] != 1,
]


# ------------------------------------------------------------ real code
def build_ts(case):
    import omega.automata as automata
    g = automata.TransitionSystem()
    g.owner = case['owner']
    g.vars = {k: (v if v == 'bool' else tuple(v))
              for k, v in case['vars'].items()}
    g.env_vars = set(case['env_vars'])
    for u, d in case['nodes']:
        g.add_node(u, **d)
    for u, v, d in case['edges']:
        g.add_edge(u, v, **d)
    g.initial_nodes = set(case['initial'])
    return g


class Rejected(Exception):
    pass


def run_impl(case, flags):
    """Run the real graph_to_logic; return (aut, tables) where tables =
    dict(env_init=int, sys_init=int, env_action=[int], sys_action=[int])."""
    import omega.symbolic.logicizer as lgc
    import omega.symbolic.temporal as trl
    g = build_ts(case)
    aut = trl.Automaton()
    games.set_backend(aut, case.get('backend', 'cudd'))
    ign, rec, sl = flags
    if not ign and not case['initial']:
        # documented rejection: 'Transition system without initial states.'
        try:
            with warnings.catch_warnings():
                warnings.simplefilter('ignore')
                lgc.graph_to_logic(g, NODEVAR, ign, receptive=rec,
                                   self_loops=sl, aut=aut)
        except Exception as e:
            if 'without initial states' in str(e):
                raise Rejected(str(e))
            raise
        raise AssertionError('accepted a system without initial nodes')
    try:
        with warnings.catch_warnings():
            warnings.simplefilter('ignore')
            aut = lgc.graph_to_logic(g, NODEVAR, ign, receptive=rec,
                                     self_loops=sl, aut=aut)
    except ValueError as e:
        if case.get('int_bool') and e.args and e.args[0] in (0, 1) \
                and not isinstance(e.args[0], bool):
            # explicit `raise ValueError(v)` of logicizer._assign
            raise Rejected('Boolean value given as int')
        raise
    sp = Space(case, aut)
    tabs = dict(
        env_init=sp.table1(aut.init['env']),
        sys_init=sp.table1(aut.init['sys']),
        env_action=sp.table2(aut.action['env']),
        sys_action=sp.table2(aut.action['sys']))
    # what graph_to_logic says about who owns which variable
    tabs['varlist'] = dict(env=sorted(aut.varlist['env']),
                           sys=sorted(aut.varlist['sys']))
    tabs['nd_dom'] = [int(x) for x in aut.vars[NODEVAR]['dom']]
    return aut, sp, tabs


def declared_names(case):
    return [NODEVAR] + [k for k in ORDER[1:] if k in case['vars']]


def node_dom(case):
    us = [u for u, _ in case['nodes']]
    return (min(us), max(us))


def static_decl(case):
    """Declarations as omega computes them (bit widths), without a BDD."""
    import omega.logic.bitvector as bv
    out = {}
    doms = dict(case['vars'])
    doms[NODEVAR] = node_dom(case)
    for k, dom in doms.items():
        if dom == 'bool':
            out[k] = dict(type='bool')
        else:
            signed, width = bv.dom_to_width(tuple(dom))
            out[k] = dict(type='int', signed=signed, width=width,
                          dom=tuple(dom))
    return out


class Space:
    """All bit-range valuations of the declared variables, in the order of
    GraphTables.all_vals (first variable most significant)."""

    def __init__(self, case, aut=None):
        self.names = declared_names(case)
        decl = aut.vars if aut is not None else static_decl(case)
        self.decl = {n: decl[n] for n in self.names}
        self.values = {n: [int(v) for v in games.var_values(self.decl[n])]
                       for n in self.names}
        self.size = 1
        for n in self.names:
            self.size *= len(self.values[n])
        self.states = [dict(zip(self.names, c)) for c in
                       itertools.product(*[self.values[n]
                                           for n in self.names])]
        assert len(self.states) == self.size
        self.aut = aut
        # bit pattern -> index of value
        self.rev = {}
        self.bits = {False: [], True: []}
        for primed in (False, True):
            for n in self.names:
                m = {}
                names = None
                for i, v in enumerate(self.values[n]):
                    val = bool(v) if self.decl[n]['type'] == 'bool' else v
                    b = games.value_bits(n, self.decl[n], val, primed)
                    names = sorted(b)
                    m[tuple(b[k] for k in names)] = i
                self.rev[(n, primed)] = (names, m)
                self.bits[primed] += names

    def doms_literal(self):
        """[values of nd; x; y; z; w] for GraphTables.all_vals."""
        cols = []
        for k in ORDER:
            vs = self.values.get(k, [0])
            cols.append('[' + '; '.join(zlit(v) for v in vs) + ']')
        return '[' + '; '.join(cols) + ']'

    def _index(self, a, primed):
        idx = 0
        for n in self.names:
            names, m = self.rev[(n, primed)]
            idx = idx * len(self.values[n]) + m[tuple(bool(a[k])
                                                      for k in names)]
        return idx

    def table2(self, u):
        bdd = self.aut.bdd
        allbits = self.bits[False] + self.bits[True]
        assert set(bdd.support(u)) <= set(allbits), bdd.support(u)
        rows = [0] * self.size
        for a in bdd.pick_iter(u, care_vars=allbits):
            i = self._index(a, False)
            j = self._index(a, True)
            rows[i] |= 1 << (self.size - 1 - j)
        return rows

    def table1(self, u):
        bdd = self.aut.bdd
        sup = set(bdd.support(u))
        if not sup <= set(self.bits[False]):
            return ('depends-on', sorted(sup - set(self.bits[False])))
        t = 0
        for a in bdd.pick_iter(u, care_vars=self.bits[False]):
            i = self._index(a, False)
            t |= 1 << (self.size - 1 - i)
        return t


# ------------------------------------------------------------ Gallina
def zlit(n):
    n = int(n)
    return f'({n})' if n < 0 else f'{n}'


def _value(case, key, v):
    base = key[:-1] if key.endswith("'") else key
    if case['vars'].get(base) == 'bool':
        return 1 if v else 0
    return int(v)


def _fstr(s, alphabet):
    if s == '':
        return 'SEmpty'
    if s == 'TRUE':
        return 'STrue'
    if s == 'FALSE':
        return 'SFalse'
    return f'(SLab {alphabet.index(s)}%N)'


def elabel_lit(case, d):
    f = 'None'
    if 'formula' in d:
        f = f'(Some {_fstr(d["formula"], EDGE_FORMULAS)})'
    asg = []
    for k, v in d.items():
        if k == 'formula':
            continue
        primed = k.endswith("'")
        base = k[:-1] if primed else k
        asg.append(f'({"true" if primed else "false"}, {VAR_ID[base]}, '
                   f'{zlit(_value(case, k, v))})')
    return f'(Build_elabel {f} [{"; ".join(asg)}])'


def nlabel_lit(case, d):
    f = 'None'
    if 'formula' in d:
        f = f'(Some {_fstr(d["formula"], NODE_FORMULAS)})'
    asg = []
    for k, v in d.items():
        if k == 'formula':
            continue
        assert not k.endswith("'"), 'node labels are over unprimed variables'
        asg.append(f'({VAR_ID[k]}, {zlit(_value(case, k, v))})')
    return f'(Build_nlabel {f} [{"; ".join(asg)}])'


def tsys_lit(case, g=None):
    """Gallina literal of the transition system, read from the networkx
    object `g` that is handed to graph_to_logic (default: build it)."""
    if g is None:
        g = build_ts(case)
    nodes = '; '.join(f'({zlit(u)}, {nlabel_lit(case, d)})'
                      for u, d in g.nodes(data=True))
    edges = '; '.join(f'({zlit(u)}, {zlit(v)}, {elabel_lit(case, d)})'
                      for u, v, d in g.edges(data=True))
    init = '; '.join(zlit(u) for u in sorted(g.initial_nodes))
    vs = '; '.join(VAR_ID[k] for k in g.vars)
    ev = '; '.join(VAR_ID[k] for k in sorted(g.env_vars))
    owner = {'sys': 'true', 'env': 'false'}[g.owner]
    return (f'(Build_tsys [{nodes}]\n   [{edges}]\n   [{init}] {owner} '
            f'[{vs}] [{ev}] : tsysA)')


def blit(b):
    return 'true' if b else 'false'


def nlit(n):
    # hexadecimal: parsed about 3x faster than decimal by Coq 8.16
    return f'{hex(n)}%N'


def rle_lit(rows):
    """Run-length encoded rows for GraphTables.expand."""
    out = []
    for r in rows:
        if out and out[-1][1] == r:
            out[-1][0] += 1
        else:
            out.append([1, r])
    return '[' + '; '.join(f'({c}%N, {nlit(r)})' for c, r in out) + ']'


# ------------------------------------------------------------ oracle
def _label_holds(case, d, s, t, node):
    """The label as a predicate of (current, next), per the docstring of
    TransitionSystem: conjunction of the formula and the assignments to
    declared variables (open world)."""
    names = set(case['vars']) | {NODEVAR}
    for k, v in d.items():
        if k == 'formula':
            if v in ('', 'TRUE'):
                continue
            if v == 'FALSE':
                return False
            if node:
                if not NODE_SEM[NODE_FORMULAS.index(v)](s):
                    return False
            elif not EDGE_SEM[EDGE_FORMULAS.index(v)](s, t):
                return False
            continue
        primed = k.endswith("'")
        base = k[:-1] if primed else k
        if base not in names:
            continue
        val = (t if primed else s)[base]
        if case['vars'].get(base) == 'bool':
            if bool(val) != bool(v):
                return False
        elif val != v:
            return False
    return True


def oracle_tables(case, flags, sp):
    """Required truth tables, computed from the property statement on the
    explicit graph (independent of the Coq model)."""
    ign, rec, sl = flags
    nodes = dict((u, d) for u, d in case['nodes'])
    out_edges = {u: [(v, d) for (a, v, d) in case['edges'] if a == u]
                 for u in nodes}
    S = sp.states
    n = sp.size

    def node_ok(s):
        u = s['nd']
        return u not in nodes or _label_holds(case, nodes[u], s, s, True)

    def owner_step(s, t):
        u = s['nd']
        if u in nodes:
            step = any(t['nd'] == v and _label_holds(case, d, s, t, False)
                       for v, d in out_edges[u])
        else:
            step = True       # outside the graph: not covered by the property
        if sl and t['nd'] == s['nd']:
            step = True
        return step and node_ok(t)

    def owner_init(s):
        return (ign or s['nd'] in case['initial']) and node_ok(s)

    def receptive_step(s, t):
        u = s['nd']
        if u not in nodes or not out_edges[u]:
            return True
        env = set(case['env_vars'])
        for v, d in out_edges[u]:
            dd = {k: x for k, x in d.items()
                  if k == 'formula' or k in env}
            if _label_holds(case, dd, s, t, False):
                return True
        return False

    def tab2(f):
        rows = []
        for s in S:
            r = 0
            for t in S:
                r = (r << 1) | (1 if f(s, t) else 0)
            rows.append(r)
        return rows

    def tab1(f):
        r = 0
        for s in S:
            r = (r << 1) | (1 if f(s) else 0)
        return r
    full1 = (1 << n) - 1
    full2 = [full1] * n
    own = case['owner']
    oth = 'env' if own == 'sys' else 'sys'
    res = {own + '_init': tab1(owner_init),
           own + '_action': tab2(owner_step),
           oth + '_init': full1, oth + '_action': full2}
    if own == 'sys' and rec:
        res['env_action'] = tab2(receptive_step)
    return res


def describe_diff(sp, key, got, want):
    """First differing (state[, next]) of two tables, as dicts."""
    n = sp.size
    if key.endswith('_init'):
        if not isinstance(got, int):
            return dict(table=key, problem=str(got))
        for i in range(n):
            m = 1 << (n - 1 - i)
            if (got & m) != (want & m):
                return dict(table=key, state=sp.states[i],
                            implementation=bool(got & m),
                            required=bool(want & m))
    else:
        for i in range(n):
            if got[i] != want[i]:
                for j in range(n):
                    m = 1 << (n - 1 - j)
                    if (got[i] & m) != (want[i] & m):
                        return dict(table=key, state=sp.states[i],
                                    next=sp.states[j],
                                    implementation=bool(got[i] & m),
                                    required=bool(want[i] & m))
    return None


# ------------------------------------------------------------ generators
Y_DOMS = [[0, 1], [0, 2], [0, 3], [-1, 1]]


def rand_elabel(rng, case, rich=True):
    d = {}
    r = rng.random()
    if r < 0.45:
        pool = EDGE_FORMULAS + (SPECIAL if rich else [])
        d['formula'] = rng.choice(pool)
    keys = ['x', "x'", 'y', "y'"]
    if 'z' in case['vars']:
        keys += ['z', "z'"]
    if rich:
        # an undeclared key (skipped) and the node variable itself, unprimed
        # (it is in `dvars`; "nd'" is overwritten by the code, never used)
        keys += ['w', "w'", 'nd']
    k = rng.choice([0, 0, 1, 1, 1, 2, 3])
    picked = rng.sample(keys, min(k, len(keys)))
    if 'formula' in d and rng.random() < 0.5:
        # formula not always the first key of the dict
        f = d.pop('formula')
        for key in picked:
            d[key] = _rand_value(rng, case, key)
        d['formula'] = f
    else:
        for key in picked:
            d[key] = _rand_value(rng, case, key)
    return d


def _rand_value(rng, case, key):
    base = key[:-1] if key.endswith("'") else key
    dom = case['vars'].get(base)
    if dom == 'bool':
        return rng.random() < 0.5
    if dom is None:
        return rng.randint(0, 3)
    return rng.randint(dom[0], dom[1])


def rand_nlabel(rng, case, rich=True):
    d = {}
    r = rng.random()
    if r < 0.4:
        d['formula'] = rng.choice(NODE_FORMULAS + (SPECIAL if rich else []))
    keys = ['x', 'y'] + (['z'] if 'z' in case['vars'] else []) \
        + (['w'] if rich else [])
    k = rng.choice([0, 0, 0, 1, 1, 2])
    for key in rng.sample(keys, min(k, len(keys))):
        d[key] = _rand_value(rng, case, key)
    return d


def random_case(rng, max_nodes=5, max_bits=6):
    """Random labelled multigraph with <= max_nodes nodes."""
    while True:
        case = dict(vars={'x': 'bool', 'y': list(rng.choice(Y_DOMS))})
        if rng.random() < 0.25:
            case['vars']['z'] = 'bool'
        if rng.random() < 0.3:       # declaration order varies
            case['vars'] = dict(reversed(list(case['vars'].items())))
        names = list(case['vars'])
        r = rng.random()
        if r < 0.5:
            case['env_vars'] = ['x']
        elif r < 0.65:
            case['env_vars'] = []
        else:
            case['env_vars'] = sorted(rng.sample(names,
                                                 rng.randint(1, len(names))))
        case['owner'] = rng.choice(['sys', 'env'])
        n = min(rng.choice([1, 2, 3, 3, 4, 4, 5, 5]), max_nodes)
        r = rng.random()
        if r < 0.6:
            ids = list(range(n))
        elif r < 0.8:
            lo = rng.randint(-3, 2)
            ids = sorted(rng.sample(range(lo, lo + n + 2), n))
        else:
            ids = sorted(rng.sample(range(-4, 8), n))
        rng.shuffle(ids) if rng.random() < 0.3 else None
        case['nodes'] = [[u, rand_nlabel(rng, case)] for u in ids]
        ne = rng.choice([0, 1, 2, 3, 3, 4, 5, 6, 8])
        edges = []
        for _ in range(ne):
            if edges and rng.random() < 0.25:      # parallel edge
                u, v, _d = rng.choice(edges)
            else:
                u, v = rng.choice(ids), rng.choice(ids)
            edges.append([u, v, rand_elabel(rng, case)])
        case['edges'] = edges
        k = rng.choice([0, 1, 1, 1, 2, n])
        case['initial'] = sorted(rng.sample(ids, min(k, n)))
        case['backend'] = rng.choice(['cudd', 'autoref'])
        if rng.random() < 0.04:
            # a Boolean given as 0/1: accepted by assert_consistent,
            # refused by logicizer._assign with ValueError
            labs = [d for _, d in case['nodes']] + [e[2] for e in edges]
            labs = [d for d in labs if any(
                k.rstrip("'") in ('x', 'z') and k.rstrip("'") in case['vars']
                for k in d)]
            if labs:
                d = rng.choice(labs)
                k = rng.choice([k for k in d if k.rstrip("'") in ('x', 'z')
                                and k.rstrip("'") in case['vars']])
                d[k] = int(d[k])
                case['int_bool'] = True
        sp = Space(case)
        bits = (sp.size - 1).bit_length()
        if bits <= max_bits:
            return case


ALL_FLAGS = [[i, r, s] for i in (False, True) for r in (False, True)
             for s in (False, True)]

# labels of the exhaustive family: none; a partial assignment to a primed
# variable; a formula over a primed variable together with an assignment
EXH_ELABELS = [{}, {"x'": True}, {'formula': "y' < 2", 'x': False}]
EXH_NLABELS = [{}, {'y': 1}, {'formula': 'x'}]


def exhaustive_cases(max_nodes, max_edges, seed=0, stride=1, offset=0):
    """All multigraphs with nodes 0..n-1, n <= max_nodes, and at most
    max_edges edges (as multisets of (u, v, label)) labelled from
    EXH_ELABELS.  Owner, flags, node labels, initial set and back end are
    drawn per graph from a PRNG seeded by (seed, index); x Boolean (env),
    y in 0..1.  stride/offset select every stride-th graph."""
    import random
    idx = -1
    for n in range(1, max_nodes + 1):
        items = [(u, v, l) for u in range(n) for v in range(n)
                 for l in range(len(EXH_ELABELS))]
        for m in range(0, max_edges + 1):
            for comb in itertools.combinations_with_replacement(items, m):
                idx += 1
                if idx % stride != offset % stride:
                    continue
                r = random.Random(seed * 1000003 + idx)
                case = dict(vars={'x': 'bool', 'y': [0, 1]},
                            env_vars=['x'],
                            owner=r.choice(['sys', 'env']))
                case['nodes'] = [[u, dict(r.choice(EXH_NLABELS))]
                                 for u in range(n)]
                case['edges'] = [[u, v, dict(EXH_ELABELS[l])]
                                 for (u, v, l) in comb]
                case['initial'] = sorted(r.sample(range(n),
                                                  r.randint(1, n)))
                case['backend'] = r.choice(['cudd', 'autoref'])
                case['flags'] = [r.choice(ALL_FLAGS)]
                case['exh_index'] = idx
                yield case


def exhaustive_count(max_nodes, max_edges):
    import math
    tot = 0
    for n in range(1, max_nodes + 1):
        k = n * n * len(EXH_ELABELS)
        for m in range(0, max_edges + 1):
            tot += math.comb(k + m - 1, m) if k + m - 1 >= 0 else 0
    return tot
