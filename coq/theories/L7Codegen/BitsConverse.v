(* L7 / BitsConverse: the converse of int_bits_roundtrip.  Every list of
   nbits t bits decodes (bitfields_to_ints) to a representable value, decoding
   is injective on such lists, hence encoding the decoded value gives the bits
   back: the integers that step returns denote exactly the output bits that
   satisfy the relation. *)
From Coq Require Import List Bool ZArith Lia.
Import ListNotations.
From Omega Require Import L7Codegen.Bits L7Codegen.BitsProofs.
Local Open Scope Z_scope.

Lemma uval_range l : 0 <= uval l < 2 ^ Z.of_nat (length l).
Proof.
  induction l as [|b l IH]; [cbn; lia|].
  cbn [uval length]. rewrite Nat2Z.inj_succ, Z.pow_succ_r by lia.
  unfold b2z. destruct b; lia.
Qed.

Lemma uval_inj : forall l1 l2, length l1 = length l2 -> uval l1 = uval l2 -> l1 = l2.
Proof.
  induction l1 as [|a l1 IH]; intros [|b l2] Hl Hu; try discriminate; [reflexivity|].
  cbn [uval] in Hu. cbn [length] in Hl.
  assert (a = b /\ uval l1 = uval l2) as [-> Hu'].
  { unfold b2z in Hu. destruct a, b; split; try reflexivity; lia. }
  f_equal. apply IH; [lia|exact Hu'].
Qed.

Lemma split_last (l : list bool) : l <> [] -> exists bs s, l = bs ++ [s].
Proof. intros H. exists (removelast l), (last l false). apply app_removelast_last, H. Qed.

Lemma twos_snoc_inj b1 s1 b2 s2 :
  length b1 = length b2 ->
  twos_complement_to_int (b1 ++ [s1]) = twos_complement_to_int (b2 ++ [s2]) ->
  b1 = b2 /\ s1 = s2.
Proof.
  intros Hl H. rewrite !twos_snoc in H.
  pose proof (uval_range b1). pose proof (uval_range b2). rewrite Hl in *.
  assert (s1 = s2) as -> by (unfold b2z in H; destruct s1, s2; try reflexivity; lia).
  split; [|reflexivity]. apply uval_inj; [exact Hl|lia].
Qed.

Theorem decode_inj t b1 b2 :
  length b1 = nbits t -> length b2 = nbits t -> decode t b1 = decode t b2 -> b1 = b2.
Proof.
  destruct t as [|lo hi]; cbn [nbits decode]; intros H1 H2 E.
  - destruct b1 as [|x [|? ?]], b2 as [|y [|? ?]]; try discriminate.
    cbn in E. congruence.
  - injection E as E. unfold append_sign_bit in E.
    destruct (signed_of lo hi) eqn:Sg.
    + pose proof (width_of_signed lo hi Sg) as W.
      destruct (split_last b1) as [c1 [s1 ->]]; [destruct b1; [cbn in H1; lia|discriminate]|].
      destruct (split_last b2) as [c2 [s2 ->]]; [destruct b2; [cbn in H2; lia|discriminate]|].
      rewrite app_length in H1, H2. cbn [length] in H1, H2.
      destruct (twos_snoc_inj c1 s1 c2 s2) as [-> ->]; [lia|exact E|reflexivity].
    + destruct (twos_snoc_inj b1 _ b2 _ ltac:(lia) E) as [-> _]. reflexivity.
Qed.

Theorem decode_representable t bits :
  length bits = nbits t -> representable t (decode t bits).
Proof.
  destruct t as [|lo hi]; cbn [nbits decode representable]; [tauto|]. intros H.
  pose proof (width_of_pos lo hi) as W. set (w := width_of lo hi) in *.
  unfold append_sign_bit. destruct (signed_of lo hi) eqn:Sg.
  - pose proof (width_of_signed lo hi Sg) as W2. fold w in W2.
    destruct (split_last bits) as [c [s ->]]; [destruct bits; [cbn in H; lia|discriminate]|].
    rewrite app_length in H. cbn [length] in H. rewrite twos_snoc.
    pose proof (uval_range c) as R.
    replace (Z.of_nat (length c)) with (w - 1) in * by lia.
    unfold b2z. destruct s; lia.
  - rewrite twos_snoc. pose proof (uval_range bits) as R.
    replace (Z.of_nat (length bits)) with w in * by lia.
    destruct (0 <=? lo); cbn [negb b2z]; lia.
Qed.

(* the converse round trip *)
Theorem bits_int_roundtrip t bits :
  length bits = nbits t ->
  firstn (nbits t) (encode t (decode t bits)) = bits.
Proof.
  intros H. pose proof (decode_representable t bits H) as R.
  apply (decode_inj t); [|exact H|apply int_bits_roundtrip, R].
  apply firstn_length_le.
  destruct t as [|lo hi]; destruct (decode _ bits) eqn:E; cbn [representable] in R;
    try tauto; cbn [nbits encode].
  - cbn. lia.
  - unfold int_to_bits. cbv zeta. rewrite bits_of_length.
    generalize (bit_length (if 0 <=? z then z
                            else 2 ^ Z.max (Z.max (width_of lo hi) (bit_length z)) 1 + z)).
    generalize (bit_length z). intros. lia.
Qed.
