(* L4Enum / EnumArenaProofs: facts about the arena algebra of EnumArena.v:
   tables built by [mkv] are canonical (same meaning = equal), [bdd_eqb]
   decides equality, dictionaries, the networkx graph operations. *)
From Coq Require Import List Bool Arith Lia String.
Import ListNotations.
From Omega Require Import L4Enum.EnumArena.

(* ---- equality tests -------------------------------------------------------- *)
Lemma player_eqb_eq a b : player_eqb a b = true <-> a = b.
Proof. destruct a, b; cbn; split; congruence. Qed.

Lemma var_eqb_eq a b : var_eqb a b = true <-> a = b.
Proof.
  destruct a as [p|p], b as [q|q]; cbn; try (split; congruence);
    rewrite player_eqb_eq; split; congruence.
Qed.

Lemma var_eqb_refl a : var_eqb a a = true.
Proof. apply var_eqb_eq. reflexivity. Qed.

Lemma list_eqb_eq {A} (eqb : A -> A -> bool) :
  (forall a b, eqb a b = true <-> a = b) ->
  forall l m, list_eqb eqb l m = true <-> l = m.
Proof.
  intros He. induction l as [|a l IH]; destruct m as [|b m]; cbn;
    try (split; congruence).
  rewrite andb_true_iff, He, IH. split; [intros [-> ->]; reflexivity|].
  intros H. inversion H. auto.
Qed.

Lemma bool_eqb_eq a b : Bool.eqb a b = true <-> a = b.
Proof. destruct a, b; cbn; split; congruence. Qed.

Lemma bdd_eqb_eq u v : bdd_eqb u v = true <-> u = v.
Proof.
  unfold bdd_eqb.
  apply list_eqb_eq, list_eqb_eq, list_eqb_eq, list_eqb_eq, bool_eqb_eq.
Qed.

Lemma bdd_eqb_refl u : bdd_eqb u u = true.
Proof. apply bdd_eqb_eq. reflexivity. Qed.

Lemma key_eqb_eq a b : key_eqb a b = true <-> a = b.
Proof. apply list_eqb_eq. intros x y. apply Nat.eqb_eq. Qed.

Lemma edge_eqb_eq e f : edge_eqb e f = true <-> e = f.
Proof.
  unfold edge_eqb. destruct e, f. cbn. rewrite andb_true_iff, !Nat.eqb_eq.
  split; [intros [-> ->]; reflexivity|]. intros H. inversion H. auto.
Qed.

(* ---- the monad -------------------------------------------------------------- *)
Lemma m_bind_some {A B} (m : option A) (k : A -> option B) b :
  m_bind m k = Some b -> exists a, m = Some a /\ k a = Some b.
Proof. destruct m as [a|]; cbn; [|discriminate]. intros H. exists a. auto. Qed.

Lemma m_assert_some {A} c (k : option A) a :
  m_assert c k = Some a -> c = true /\ k = Some a.
Proof. destruct c; cbn; [auto|discriminate]. Qed.

(* ---- dictionaries ---------------------------------------------------------- *)
Section DictP.
Context {K V : Type}.
Variable eqb : K -> K -> bool.
Hypothesis eqb_eq : forall a b, eqb a b = true <-> a = b.

Lemma eqb_refl_ k : eqb k k = true.
Proof. apply eqb_eq. reflexivity. Qed.

Lemma eqb_neq k k' : k <> k' -> eqb k k' = false.
Proof.
  intros H. destruct (eqb k k') eqn:E; [|reflexivity].
  apply eqb_eq in E. contradiction.
Qed.

Lemma dict_get_notin k (d : list (K * V)) :
  ~ In k (map fst d) -> dict_get eqb k d = None.
Proof.
  induction d as [|[k' v] d IH]; cbn; [reflexivity|]. intros H.
  rewrite eqb_neq by (intros ->; apply H; left; reflexivity).
  apply IH. intros Hin. apply H. right. exact Hin.
Qed.

Lemma dict_get_in k (d : list (K * V)) v :
  dict_get eqb k d = Some v -> In (k, v) d.
Proof.
  induction d as [|[k' v'] d IH]; cbn; [discriminate|].
  destruct (eqb k k') eqn:E.
  - apply eqb_eq in E. subst. intros H. inversion H. left. reflexivity.
  - intros H. right. apply IH, H.
Qed.

Lemma dict_set_notin k v (d : list (K * V)) :
  ~ In k (map fst d) -> dict_set eqb k v d = d ++ [(k, v)].
Proof.
  induction d as [|[k' v'] d IH]; cbn; [reflexivity|]. intros H.
  rewrite eqb_neq by (intros ->; apply H; left; reflexivity).
  rewrite IH; [reflexivity|]. intros Hin. apply H. right. exact Hin.
Qed.

Lemma dict_get_set_eq k v (d : list (K * V)) :
  dict_get eqb k (dict_set eqb k v d) = Some v.
Proof.
  induction d as [|[k' v'] d IH]; cbn; [rewrite eqb_refl_; reflexivity|].
  destruct (eqb k k') eqn:E; cbn; [rewrite eqb_refl_; reflexivity|].
  rewrite E. exact IH.
Qed.

Lemma dict_get_set_neq k k' v (d : list (K * V)) :
  k <> k' -> dict_get eqb k' (dict_set eqb k v d) = dict_get eqb k' d.
Proof.
  intros Hn. induction d as [|[k2 v2] d IH]; cbn.
  - rewrite eqb_neq by congruence. reflexivity.
  - destruct (eqb k k2) eqn:E; cbn.
    + apply eqb_eq in E. subst k2. rewrite !eqb_neq by congruence. reflexivity.
    + destruct (eqb k' k2); [reflexivity|exact IH].
Qed.

Lemma dict_has_get k (d : list (K * V)) :
  dict_has eqb k d = true <-> exists v, dict_get eqb k d = Some v.
Proof.
  unfold dict_has. destruct (dict_get eqb k d) as [v|].
  - split; [exists v; reflexivity|reflexivity].
  - split; [discriminate|intros [v H]; discriminate].
Qed.

Lemma dict_has_false k (d : list (K * V)) :
  dict_has eqb k d = false <-> dict_get eqb k d = None.
Proof.
  unfold dict_has. destruct (dict_get eqb k d); split; congruence.
Qed.
End DictP.

(* node numbers = positions *)
Lemma ids_get {V} (l : list (nat * V)) i :
  map fst l = seq i (List.length l) ->
  forall u, dict_get Nat.eqb u l =
            if u <? i then None else option_map snd (nth_error l (u - i)).
Proof.
  revert i. induction l as [|[k v] l IH]; intros i H u; cbn [dict_get].
  - destruct (u <? i); [reflexivity|]. destruct (u - i); reflexivity.
  - cbn in H. inversion H as [[Hk Hl]]. subst k.
    destruct (Nat.eqb u i) eqn:E.
    + apply Nat.eqb_eq in E. subst u.
      rewrite (proj2 (Nat.ltb_ge i i)) by lia. rewrite Nat.sub_diag. reflexivity.
    + apply Nat.eqb_neq in E. rewrite (IH (Datatypes.S i) Hl u).
      destruct (u <? i) eqn:E1.
      * apply Nat.ltb_lt in E1. rewrite (proj2 (Nat.ltb_lt u (Datatypes.S i))) by lia.
        reflexivity.
      * apply Nat.ltb_ge in E1. rewrite (proj2 (Nat.ltb_ge u (Datatypes.S i))) by lia.
        replace (u - i) with (Datatypes.S (u - Datatypes.S i)) by lia. reflexivity.
Qed.

Lemma ids_notin {V} (l : list (nat * V)) :
  map fst l = seq 0 (List.length l) -> ~ In (List.length l) (map fst l).
Proof. intros H. rewrite H, in_seq. lia. Qed.

Lemma py_pop_snoc {A} (l : list A) a : py_pop (l ++ [a]) = Some (l, a).
Proof. unfold py_pop. rewrite rev_app_distr. cbn. rewrite rev_involutive. reflexivity. Qed.

Lemma is_nil_rev {A} (l : list A) : is_nil (rev l) = is_nil l.
Proof.
  destruct l as [|a l]; [reflexivity|]. cbn.
  destruct (rev l ++ [a]) eqn:E; [|reflexivity].
  apply app_eq_nil in E. destruct E. discriminate.
Qed.

(* ---- canonical tables ------------------------------------------------------- *)
Section ArenaP.
Variables nx ny : nat.

Definition inr (r : val) : Prop :=
  vx r < nx /\ vy r < ny /\ vxp r < nx /\ vyp r < ny.

Lemma nth_map_seq {A} (f : nat -> A) n i d :
  i < n -> nth i (map f (seq 0 n)) d = f i.
Proof.
  intros H. rewrite (nth_indep _ d (f 0)) by (rewrite map_length, seq_length; exact H).
  rewrite map_nth. rewrite seq_nth by exact H. reflexivity.
Qed.

Lemma ev_mk f x y x' y' :
  x < nx -> y < ny -> x' < nx -> y' < ny -> ev (mk nx ny f) x y x' y' = f x y x' y'.
Proof.
  intros Hx Hy Hx' Hy'. unfold ev, mk.
  rewrite (nth_map_seq _ nx x) by exact Hx.
  rewrite (nth_map_seq _ ny y) by exact Hy.
  rewrite (nth_map_seq _ nx x') by exact Hx'.
  rewrite (nth_map_seq _ ny y') by exact Hy'. reflexivity.
Qed.

Lemma evv_mkv f r : inr r -> evv (mkv nx ny f) r = f r.
Proof.
  destruct r as [x y x' y']. unfold inr, evv, mkv. cbn [vx vy vxp vyp].
  intros [Hx [Hy [Hx' Hy']]]. rewrite ev_mk by assumption. reflexivity.
Qed.

Lemma mkv_ext f g : (forall r, inr r -> f r = g r) -> mkv nx ny f = mkv nx ny g.
Proof.
  intros H. unfold mkv, mk.
  apply map_ext_in. intros x Hx. apply map_ext_in. intros y Hy.
  apply map_ext_in. intros x' Hx'. apply map_ext_in. intros y' Hy'.
  apply in_seq in Hx, Hy, Hx', Hy'. apply H. unfold inr. cbn. lia.
Qed.

Lemma mkv_inv f g : mkv nx ny f = mkv nx ny g -> forall r, inr r -> f r = g r.
Proof.
  intros H r Hr. rewrite <- (evv_mkv f r Hr), <- (evv_mkv g r Hr), H. reflexivity.
Qed.

Lemma mkv_false f :
  bdd_eqb (mkv nx ny f) (bfalse nx ny) = true <-> forall r, inr r -> f r = false.
Proof.
  rewrite bdd_eqb_eq. unfold bfalse. split.
  - intros H r Hr. apply (mkv_inv _ _ H r Hr).
  - intros H. apply mkv_ext. exact H.
Qed.

Lemma mkv_true f :
  bdd_eqb (mkv nx ny f) (btrue nx ny) = true <-> forall r, inr r -> f r = true.
Proof.
  rewrite bdd_eqb_eq. unfold btrue. split.
  - intros H r Hr. apply (mkv_inv _ _ H r Hr).
  - intros H. apply mkv_ext. exact H.
Qed.

Lemma mkv_not_false f :
  negb (bdd_eqb (mkv nx ny f) (bfalse nx ny)) = true -> exists r, inr r /\ f r = true.
Proof.
  intros H. apply negb_true_iff in H.
  (* search the finite arena *)
  destruct (existsb (fun x => existsb (fun y => existsb (fun x' => existsb (fun y' =>
              f (mkV x y x' y')) (seq 0 ny)) (seq 0 nx)) (seq 0 ny)) (seq 0 nx)) eqn:Ex.
  - apply existsb_exists in Ex. destruct Ex as [x [Hx Ex]].
    apply existsb_exists in Ex. destruct Ex as [y [Hy Ex]].
    apply existsb_exists in Ex. destruct Ex as [x' [Hx' Ex]].
    apply existsb_exists in Ex. destruct Ex as [y' [Hy' Ex]].
    apply in_seq in Hx, Hy, Hx', Hy'.
    exists (mkV x y x' y'). split; [unfold inr; cbn; lia|exact Ex].
  - exfalso. assert (Hall : forall r, inr r -> f r = false).
    { intros [x y x' y'] [Hx [Hy [Hx' Hy']]]. cbn in *.
      destruct (f (mkV x y x' y')) eqn:Ef; [|reflexivity].
      assert (Ht : existsb (fun x => existsb (fun y => existsb (fun x' => existsb (fun y' =>
              f (mkV x y x' y')) (seq 0 ny)) (seq 0 nx)) (seq 0 ny)) (seq 0 nx) = true).
      { apply existsb_exists. exists x. split; [apply in_seq; lia|].
        apply existsb_exists. exists y. split; [apply in_seq; lia|].
        apply existsb_exists. exists x'. split; [apply in_seq; lia|].
        apply existsb_exists. exists y'. split; [apply in_seq; lia|exact Ef]. }
      congruence. }
    apply mkv_false in Hall. congruence.
Qed.

Lemma inr_upd r w i : inr r -> i < rng nx ny w -> inr (upd r w i).
Proof.
  destruct r as [x y x' y']. unfold inr. destruct w as [[|]|[|]]; cbn; lia.
Qed.

Lemma get_upd_same r w i : get (upd r w i) w = i.
Proof. destruct w as [[|]|[|]]; reflexivity. Qed.

Lemma get_upd_other r w w' i : w <> w' -> get (upd r w i) w' = get r w'.
Proof. destruct w as [[|]|[|]], w' as [[|]|[|]]; cbn; congruence. Qed.

Lemma inr_get r w : inr r -> get r w < rng nx ny w.
Proof. destruct r. unfold inr. destruct w as [[|]|[|]]; cbn; lia. Qed.

End ArenaP.
