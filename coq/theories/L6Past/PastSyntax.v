(* L6Past / PastSyntax: past-LTL formulas (source of omega.logic.past.translate),
   action formulas (what the strings it returns denote), generated names,
   evaluators and the executable anchored past semantics.
   Model file: definitions only, no proofs. *)
From Coq Require Import String Ascii List Bool NArith DecimalString.
Import ListNotations.
Open Scope string_scope.

(* ------------------------------------------------------------------ names *)
(* f'{var}_prev{previous}' with previous = 1 (the only value the code ever
   passes: `_flatten_previous` starts from previous=0 and never forwards it
   through a non-terminal) *)
Definition prev_name (v : string) : string := v ++ "_prev1".
(* f'_aux{i}' : Python prints the decimal numeral without padding *)
Definition aux_name (i : N) : string :=
  "_aux" ++ NilEmpty.string_of_uint (N.to_uint i).

(* ---------------------------------------------------------------- formulas *)
Inductive binop : Type := OAnd | OOr | OImp | OIff | OXor.

(* Boolean past/future LTL: the input language of `translate` over Boolean
   variables, constants and opaque arithmetic comparisons.  The environment
   gives the truth value of a comparison under the key of its text. *)
Inductive form : Type :=
| FVar (v : string)
| FAtom (a : string)       (* a comparison of arithmetic terms, e.g. ( x < 2 ):
                              opaque to the translation, identified by its text *)
| FConst (b : bool)
| FNot (f : form)
| FBin (o : binop) (f g : form)
| FIte (c a b : form)
| FPrevW (f : form)        (* -X   weak previous: true in the first state *)
| FPrevS (f : form)        (* --X  strong previous: false in the first state *)
| FHist (f : form)         (* -[]  historically *)
| FOnce (f : form)         (* -<>  once *)
| FSince (f g : form)      (* f S g *)
| FAlways (f : form)       (* []   *)
| FEvent (f : form)        (* <>   *)
| FUntil (f g : form).     (* f U g *)

(* what the returned strings parse to: state/action formulas; the temporal
   operators appear only when `until=False` passes them through *)
Inductive tform : Type :=
| TVar (v : string)
| TAtom (a : string)
| TConst (b : bool)
| TNot (f : tform)
| TBin (o : binop) (f g : tform)
| TIte (c a b : tform)
| TNext (f : tform)        (* f'  (parsed as unary X) *)
| TAlways (f : tform)
| TEvent (f : tform)
| TUntil (f g : tform).

Definition Fprev (strong : bool) (f : form) : form :=
  if strong then FPrevS f else FPrevW f.

Fixpoint past_only (f : form) : bool :=
  match f with
  | FVar _ | FAtom _ | FConst _ => true
  | FNot f | FPrevW f | FPrevS f | FHist f | FOnce f => past_only f
  | FBin _ f g | FSince f g => past_only f && past_only g
  | FIte c a b => past_only c && past_only a && past_only b
  | FAlways _ | FEvent _ | FUntil _ _ => false
  end.

Fixpoint vars (f : form) : list string :=
  match f with
  | FVar v => [v]
  | FAtom a => [a]
  | FConst _ => []
  | FNot f | FPrevW f | FPrevS f | FHist f | FOnce f
  | FAlways f | FEvent f => vars f
  | FBin _ f g | FSince f g | FUntil f g => vars f ++ vars g
  | FIte c a b => vars c ++ vars a ++ vars b
  end.

(* no prime and no temporal operator: a state predicate *)
Fixpoint state_formula (f : tform) : bool :=
  match f with
  | TVar _ | TAtom _ | TConst _ => true
  | TNot f => state_formula f
  | TBin _ f g => state_formula f && state_formula g
  | TIte c a b => state_formula c && state_formula a && state_formula b
  | TNext _ | TAlways _ | TEvent _ | TUntil _ _ => false
  end.

(* -------------------------------------------------------------- evaluation *)
Definition env := string -> bool.

Definition bop (o : binop) (a b : bool) : bool :=
  match o with
  | OAnd => a && b
  | OOr => a || b
  | OImp => implb a b
  | OIff => eqb a b
  | OXor => xorb a b
  end.

(* action formula over a pair (current, next); a primed subformula is read in
   the next state.  Temporal operators have no meaning on a pair: false. *)
Fixpoint evalA (cur nxt : env) (f : tform) : bool :=
  match f with
  | TVar v => cur v
  | TAtom a => cur a
  | TConst b => b
  | TNot f => negb (evalA cur nxt f)
  | TBin o f g => bop o (evalA cur nxt f) (evalA cur nxt g)
  | TIte c a b => if evalA cur nxt c then evalA cur nxt a else evalA cur nxt b
  | TNext f => evalA nxt nxt f
  | TAlways _ | TEvent _ | TUntil _ _ => false
  end.

Definition eval (s : env) (f : tform) : bool := evalA s s f.

(* anchored past semantics by recursion on the position; sigma is the
   sequence of valuations, only positions <= i are read.  Future operators are
   outside this (Boolean-valued) semantics: false; see PastSpec.holds. *)
Fixpoint sem (f : form) (sigma : nat -> env) (i : nat) {struct f} : bool :=
  match f with
  | FVar v => sigma i v
  | FAtom a => sigma i a
  | FConst b => b
  | FNot f => negb (sem f sigma i)
  | FBin o f g => bop o (sem f sigma i) (sem g sigma i)
  | FIte c a b => if sem c sigma i then sem a sigma i else sem b sigma i
  | FPrevW f => match i with O => true | S j => sem f sigma j end
  | FPrevS f => match i with O => false | S j => sem f sigma j end
  | FHist f =>
      (fix h (i : nat) : bool :=
         match i with
         | O => sem f sigma O
         | S j => sem f sigma (S j) && h j
         end) i
  | FOnce f =>
      (fix o (i : nat) : bool :=
         match i with
         | O => sem f sigma O
         | S j => sem f sigma (S j) || o j
         end) i
  | FSince f g =>
      (fix s (i : nat) : bool :=
         match i with
         | O => sem g sigma O
         | S j => sem g sigma (S j) || (sem f sigma (S j) && s j)
         end) i
  | FAlways _ | FEvent _ | FUntil _ _ => false
  end.

(* ------------------------------------------------------- decidable equality *)
Definition binop_eqb (a b : binop) : bool :=
  match a, b with
  | OAnd, OAnd | OOr, OOr | OImp, OImp | OIff, OIff | OXor, OXor => true
  | _, _ => false
  end.

Fixpoint tform_eqb (a b : tform) : bool :=
  match a, b with
  | TVar x, TVar y => String.eqb x y
  | TAtom x, TAtom y => String.eqb x y
  | TConst x, TConst y => eqb x y
  | TNot x, TNot y => tform_eqb x y
  | TBin o x1 x2, TBin p y1 y2 =>
      binop_eqb o p && tform_eqb x1 y1 && tform_eqb x2 y2
  | TIte x1 x2 x3, TIte y1 y2 y3 =>
      tform_eqb x1 y1 && tform_eqb x2 y2 && tform_eqb x3 y3
  | TNext x, TNext y => tform_eqb x y
  | TAlways x, TAlways y => tform_eqb x y
  | TEvent x, TEvent y => tform_eqb x y
  | TUntil x1 x2, TUntil y1 y2 => tform_eqb x1 y1 && tform_eqb x2 y2
  | _, _ => false
  end.
