(* LIVENESS of the synthesized Streett implementation (model composed with the
   GENERATED solver): every infinite closed-loop behaviour in which the
   environment keeps its action, started with the goal counter in range,
   satisfies  (some persistence predicate holds from some point on)  or
   (every recurrence predicate holds infinitely often).

   Depends on Classical_Prop.classic (through L4/LiveLemma.v). *)
From Coq Require Import List Bool Arith Lia.
Import ListNotations.
From Omega Require Import L4.Arena L4.ArenaFacts L4.Kleene L4.GameSpec L4.LiveLemma.
From OmegaGen Require Import FixpointGen Gr1Gen.
From OmegaGP Require Import FixpointProofs StreettProofs TransducerModel
  StreettNB1 StreettNB2 StreettNB3 StreettIter1 StreettIter2 StreettClosure1
  StreettLive1 StreettLive2 StreettLive3.

Section Live4.
Variables nc nx ny : nat.
Variables E S : bdd.
Variables holds goals : list bdd.
Variables moore plus_one : bool.
Variable fuel : nat.
Hypothesis Hfuel : NV nc nx ny <= fuel.
Hypothesis Sh : Forall spred holds.
Hypothesis Sg : Forall spred goals.
Variable G : nat.
Hypothesis HG : 0 < G.

Local Notation L := (lift nc nx ny G).
Local Notation solve := (Gr1Gen.solve_streett_game nc nx ny E S holds goals moore plus_one).
Local Notation zf := (fst (fst (solve fuel))).
Local Notation yijf := (snd (fst (solve fuel))).
Local Notation xijkf := (snd (solve fuel)).
Local Notation A := (streett_action nc nx ny G (L E) (L S) (map L holds) (map L goals)
                       moore plus_one (L zf) (map (map L) yijf) (map (map (map L)) xijkf)).
Local Notation n := (length goals).
Local Notation inrE := (inr nc nx (ny * G)).
Local Notation flat := (flat holds).
Local Notation rank := (rank holds G).

(* an infinite closed-loop behaviour: sigma i is the i-th step (current and
   next values); the environment keeps its action at every step *)
Record behaviour (sigma : nat -> V) : Prop := {
  b_inr : forall i, inrE (sigma i);
  b_act : forall i, A (sigma i) = true;
  b_env : forall i, L E (sigma i) = true;
  b_link : forall i, vc (sigma (Datatypes.S i)) = vc (sigma i) /\
                     vx (sigma (Datatypes.S i)) = vxp (sigma i) /\
                     vy (sigma (Datatypes.S i)) = vyp (sigma i) }.

Variable sigma : nat -> V.
Hypothesis Hb : behaviour sigma.
Hypothesis Hc0 : cnt G (sigma 0) < n.

Local Notation c := (fun i => cnt G (sigma i)).
Local Notation st := (fun i => bv G (sigma i)).

Lemma c_next i : cnt G (sigma (Datatypes.S i)) = cntp G (sigma i).
Proof. unfold cnt, cntp. destruct (b_link sigma Hb i) as [_ [_ H]]. rewrite H. reflexivity. Qed.

Lemma c_lt : forall i, cnt G (sigma i) < n.
Proof.
  induction i as [|i IH]; [exact Hc0|]. rewrite c_next.
  destruct (step_facts nc nx ny E S holds goals moore plus_one fuel Hfuel Sh Sg G HG (sigma i)
              (b_inr sigma Hb i) (b_act sigma Hb i) (b_env sigma Hb i) IH)
    as [R _ H2 _|xjk _ H2 _|xjk l1 x h l2 _ H2 _ _ _ _].
  - rewrite H2. apply Nat.mod_upper_bound. lia.
  - rewrite H2. exact IH.
  - rewrite H2. exact IH.
Qed.

(* traps are state predicates: the rank at the next point is the rank of the
   next step *)
Lemma first_idx_same F v1 v2 :
  (forall p, In p F -> spred (fst p)) ->
  vc v1 = vc v2 -> vx v1 = vx v2 -> vy v1 = vy v2 ->
  first_idx F v1 = first_idx F v2.
Proof.
  intros HF H1 H2 H3. induction F as [|p F IH]; [reflexivity|]. cbn [first_idx].
  rewrite (HF p (or_introl eq_refl) v1), (HF p (or_introl eq_refl) v2), H1, H2, H3.
  rewrite IH; [reflexivity|]. intros q Hq. apply HF. right. exact Hq.
Qed.

Lemma flat_spred xjk p : Forall (Forall spred) xjk -> In p (flat xjk) -> spred (fst p).
Proof.
  intros Sx. unfold StreettNB3.flat. rewrite in_concat. intros [l [Hl Hp]].
  apply in_map_iff in Hl. destruct Hl as [xk [<- Hxk]]. destruct p as [a b].
  apply in_combine_l in Hp. rewrite Forall_forall in Sx. specialize (Sx xk Hxk).
  rewrite Forall_forall in Sx. apply Sx, Hp.
Qed.

Lemma rank_next j xjk i :
  j < n -> nth_error xijkf j = Some xjk ->
  rank xjk (nextpt (sigma i)) = rank xjk (sigma (Datatypes.S i)).
Proof.
  intros Hj Hx. unfold StreettLive3.rank.
  destruct (solver_onions nc nx ny E S holds goals moore plus_one fuel Hfuel Sh Sg G HG j Hj)
    as [yj [xjk' [gl [_ [Hx' [_ [_ Sx]]]]]]].
  rewrite Hx in Hx'. inversion Hx'. subst xjk'.
  destruct (b_link sigma Hb i) as [H1 [H2 H3]].
  apply first_idx_same; [intros p Hp; apply (flat_spred xjk p Sx Hp)| | |];
    unfold bv, nextpt; cbn [vc vx vy vxp vyp]; congruence.
Qed.

Definition mrank (j i : nat) : nat :=
  match nth_error xijkf j with Some xjk => rank xjk (sigma i) | None => 0 end.

(* the three kinds of steps, as they show in the behaviour *)
Definition Sw (i : nat) : Prop :=
  (exists R, nth_error goals (c i) = Some R /\ R (st i) = true) /\
  c (Datatypes.S i) = (c i + 1) mod n.
Definition Ds (i : nat) : Prop :=
  mrank (c i) (Datatypes.S i) < mrank (c i) i /\ c (Datatypes.S i) = c i.
Definition St (i : nat) : Prop :=
  (mrank (c i) (Datatypes.S i) <= mrank (c i) i /\
   exists xjk, nth_error xijkf (c i) = Some xjk /\
     mrank (c i) i < length (flat xjk) /\
     snd (nth (mrank (c i) i) (flat xjk) (bfalse, bfalse)) (st i) = true) /\
  c (Datatypes.S i) = c i.

Lemma kinds i : Sw i \/ Ds i \/ St i.
Proof.
  pose proof (c_lt i) as Hci.
  destruct (step_facts nc nx ny E S holds goals moore plus_one fuel Hfuel Sh Sg G HG (sigma i)
              (b_inr sigma Hb i) (b_act sigma Hb i) (b_env sigma Hb i) Hci)
    as [R H1 H2 H3|xjk H1 H2 H3|xjk l1 x h l2 H1 H2 H3 H4 H5 H6].
  - left. split; [exists R; auto|]. cbn beta. rewrite c_next. exact H2.
  - right. left. split; [|cbn beta; rewrite c_next; exact H2].
    unfold mrank. cbn beta. rewrite H1. rewrite <- (rank_next (c i) xjk i Hci H1). exact H3.
  - right. right. split; [|cbn beta; rewrite c_next; exact H2].
    unfold mrank. cbn beta. rewrite H1.
    rewrite <- (rank_next (c i) xjk i Hci H1). split; [lia|].
    exists xjk. split; [reflexivity|]. rewrite H4, H3. split.
    + rewrite app_length. cbn [length]. lia.
    + rewrite nth_middle. cbn [snd]. exact H6.
Qed.

Lemma stay_unfold i j r :
  St i -> cnt G (sigma i) = j -> mrank j i = r ->
  exists xjk, nth_error xijkf j = Some xjk /\ r < length (flat xjk) /\
    snd (nth r (flat xjk) (bfalse, bfalse)) (bv G (sigma i)) = true.
Proof.
  intros [[_ [xjk [H1 [H2 H3]]]] _] Hc Hr. cbn beta in *. rewrite Hc in *. rewrite Hr in *.
  exists xjk. auto.
Qed.

Theorem streett_impl_live :
  (exists P, In P holds /\ exists N, forall i, N <= i -> P (st i) = true) \/
  (forall j R, nth_error goals j = Some R -> forall N, exists i, N <= i /\ R (st i) = true).
Proof.
  assert (Hn : 0 < n) by (pose proof Hc0; lia).
  destruct (live_dichotomy n Hn c c_lt Sw Ds St kinds) with (m := mrank)
    as [[N [N1 [HN1 Hstay]]]|Hcover].
  - intros i [_ H]. exact H.
  - intros i [_ H]. exact H.
  - intros i [_ H]. exact H.
  - intros i [H _]. exact H.
  - intros i [[H _] _]. exact H.
  - (* eventually only stays at a constant rank: a persistence predicate holds *)
    left.
    destruct (Hstay N1 (le_n _)) as [HSt1 [Hc1 _]].
    destruct (stay_unfold N1 (cnt G (sigma N)) (mrank (cnt G (sigma N)) N1) HSt1 Hc1 eq_refl)
      as [xjk [Hx [Hlt Hh]]].
    exists (snd (nth (mrank (cnt G (sigma N)) N1) (flat xjk) (bfalse, bfalse))). split.
    + (* it is one of the persistence predicates *)
      assert (Hin : In (nth (mrank (cnt G (sigma N)) N1) (flat xjk) (bfalse, bfalse)) (flat xjk))
        by (apply nth_In; exact Hlt).
      unfold StreettNB3.flat in Hin. rewrite in_concat in Hin. destruct Hin as [l [Hl Hp]].
      apply in_map_iff in Hl. destruct Hl as [xk [<- _]].
      destruct (nth _ _ _) as [a b]. apply (in_combine_r _ _ _ _ Hp).
    + exists N1. intros i Hi. destruct (Hstay i Hi) as [HSti [Hci Hri]].
      destruct (stay_unfold i (cnt G (sigma N)) (mrank (cnt G (sigma N)) N1) HSti Hci Hri)
        as [xjk' [Hx' [_ Hh']]].
      rewrite Hx in Hx'. inversion Hx'. subst xjk'. exact Hh'.
  - (* every goal is switched from infinitely often *)
    right. intros j R Hj N. assert (Hjn : j < n) by (apply nth_error_Some; congruence).
    destruct (Hcover j Hjn N) as [i [Hi [[[R' [HR' Hst']] _] Hcj]]].
    exists i. split; [exact Hi|]. cbn beta in Hcj. rewrite Hcj in HR'. rewrite Hj in HR'.
    inversion HR'. subst R'. exact Hst'.
Qed.

End Live4.
