(* L1 / CircuitsProofs: every circuit of Circuits.v computes the integer
   function it stands for, for ALL operand widths and all bit values
   (induction on the bit lists; no bound on the width). *)
From Coq Require Import ZArith List Bool Lia.
From Omega Require Import L1Circuits.Circuits.
Import ListNotations.
Open Scope Z_scope.

Lemma pow2_pos : forall n : nat, 0 < 2 ^ Z.of_nat n.
Proof. intros. apply Z.pow_pos_nonneg; lia. Qed.

Lemma pow2_S : forall n : nat, 2 ^ Z.of_nat (S n) = 2 * 2 ^ Z.of_nat n.
Proof. intros. rewrite Nat2Z.inj_succ, Z.pow_succ_r by lia. reflexivity. Qed.

Lemma pow2_add : forall a b : nat, 2 ^ Z.of_nat (a + b) = 2 ^ Z.of_nat a * 2 ^ Z.of_nat b.
Proof. intros. rewrite Nat2Z.inj_add, Z.pow_add_r by lia. reflexivity. Qed.

Lemma b2z_range : forall b, 0 <= b2z b <= 1.
Proof. destruct b; cbn; lia. Qed.

Lemma uval_range : forall l, 0 <= uval l < 2 ^ Z.of_nat (length l).
Proof.
  induction l as [|b l IH]; cbn [uval length].
  - change (2 ^ Z.of_nat 0) with 1. lia.
  - rewrite pow2_S. pose proof (b2z_range b). lia.
Qed.

Lemma uval_app : forall a b, uval (a ++ b) = uval a + 2 ^ Z.of_nat (length a) * uval b.
Proof.
  induction a as [|x a IH]; intros; cbn [app uval length].
  - change (2 ^ Z.of_nat 0) with 1. lia.
  - rewrite IH, pow2_S. lia.
Qed.

Lemma sval_cons : forall b l, l <> [] -> sval (b :: l) = b2z b + 2 * sval l.
Proof. intros b l H. destruct l; [congruence|reflexivity]. Qed.

(* a non-empty vector is magnitude bits ++ [sign] *)
Lemma sval_snoc : forall m s, sval (m ++ [s]) = uval m - 2 ^ Z.of_nat (length m) * b2z s.
Proof.
  induction m as [|b m IH]; intros; cbn [app length uval].
  - destruct s; reflexivity.
  - rewrite sval_cons by (destruct m; discriminate). rewrite IH, pow2_S. lia.
Qed.

Lemma sign_snoc : forall m s, sign (m ++ [s]) = s.
Proof. intros. unfold sign. apply last_last. Qed.

Lemma snoc_cases : forall (l : list bool), l <> [] -> exists m s, l = m ++ [s].
Proof. intros l H. destruct (exists_last H) as [m [s E]]. eauto. Qed.

Lemma sval_uval : forall l, l <> [] ->
  sval l = uval l - 2 ^ Z.of_nat (length l) * b2z (sign l).
Proof.
  intros l H. destruct (snoc_cases l H) as [m [s ->]].
  rewrite sval_snoc, sign_snoc, uval_app, app_length. cbn [length uval].
  replace (length m + 1)%nat with (S (length m)) by lia. rewrite pow2_S. lia.
Qed.

Lemma sval_range : forall l, l <> [] ->
  - 2 ^ Z.of_nat (length l - 1) <= sval l < 2 ^ Z.of_nat (length l - 1).
Proof.
  intros l H. destruct (snoc_cases l H) as [m [s ->]].
  rewrite sval_snoc, app_length. cbn [length].
  replace (length m + 1 - 1)%nat with (length m) by lia.
  pose proof (uval_range m). destruct s; cbn [b2z]; lia.
Qed.

Lemma sval_sign : forall l, l <> [] -> sign l = (sval l <? 0).
Proof.
  intros l H. destruct (snoc_cases l H) as [m [s ->]].
  rewrite sval_snoc, sign_snoc. pose proof (uval_range m).
  destruct s; cbn [b2z]; symmetry; [apply Z.ltb_lt|apply Z.ltb_ge]; lia.
Qed.

Lemma length_nonempty : forall (l : list bool), (1 <= length l)%nat -> l <> [].
Proof. intros [|] H; cbn in *; [lia|discriminate]. Qed.

(* ---- sign extension *)
Lemma sign_extension_length : forall x n, (length x <= n)%nat ->
  length (sign_extension x n) = n.
Proof. intros. unfold sign_extension. rewrite app_length, repeat_length. lia. Qed.

Lemma sval_app_sign : forall x k, x <> [] -> sval (x ++ repeat (sign x) k) = sval x.
Proof.
  intros x k H. destruct (snoc_cases x H) as [m [s ->]]. rewrite sign_snoc.
  induction k as [|k IH].
  - cbn [repeat]. now rewrite app_nil_r.
  - replace (repeat s (S k)) with (repeat s k ++ [s]).
    2:{ clear. induction k; cbn; [reflexivity|]. now rewrite IHk. }
    rewrite app_assoc. rewrite sval_snoc.
    rewrite (sval_uval ((m ++ [s]) ++ repeat s k)) in IH by (destruct m; discriminate).
    replace (sign ((m ++ [s]) ++ repeat s k)) with s in IH.
    2:{ clear. destruct k.
        - cbn [repeat]. now rewrite app_nil_r, sign_snoc.
        - replace (repeat s (S k)) with (repeat s k ++ [s]).
          2:{ clear. induction k; cbn; [reflexivity|]. now rewrite IHk. }
          now rewrite app_assoc, sign_snoc. }
    lia.
Qed.

Lemma sign_extension_sval : forall x n, x <> [] -> sval (sign_extension x n) = sval x.
Proof. intros. unfold sign_extension. now apply sval_app_sign. Qed.

Lemma sign_extension_nonempty : forall x n, x <> [] -> sign_extension x n <> [].
Proof. intros x n H. unfold sign_extension. destruct x; [congruence|discriminate]. Qed.

Lemma sign_extension_sign : forall x n, x <> [] -> sign (sign_extension x n) = sign x.
Proof.
  intros x n H. rewrite (sval_sign _ (sign_extension_nonempty x n H)).
  rewrite sign_extension_sval by assumption. symmetry. now apply sval_sign.
Qed.

Lemma sign_extension_id : forall x, sign_extension x (length x) = x.
Proof. intros. unfold sign_extension. rewrite Nat.sub_diag. cbn. apply app_nil_r. Qed.
(* ---- ripple-carry chain *)
Lemma ripple_uval : forall p q c, length p = length q ->
  uval (fst (ripple p q c)) + 2 ^ Z.of_nat (length p) * b2z (snd (ripple p q c))
    = uval p + uval q + b2z c
  /\ length (fst (ripple p q c)) = length p.
Proof.
  induction p as [|a p IH]; intros q c Hlen; destruct q as [|b q];
    cbn [length] in Hlen; try discriminate.
  - cbn [ripple uval length fst snd]. change (2 ^ Z.of_nat 0) with 1. lia.
  - injection Hlen as Hlen. cbn [ripple].
    specialize (IH q ((a && b) || (xorb a b && c))%bool Hlen).
    destruct (ripple p q _) as [r cf]. cbn [fst snd] in *. destruct IH as [IH Hl].
    cbn [uval length]. rewrite pow2_S. split; [|lia].
    destruct a, b, c; cbn [xorb andb orb b2z] in *; lia.
Qed.

Lemma uval_map_negb : forall q, uval (map negb q) = 2 ^ Z.of_nat (length q) - 1 - uval q.
Proof.
  induction q as [|b q IH]; cbn [map uval length].
  - reflexivity.
  - rewrite IH, pow2_S. destruct b; cbn [negb b2z]; lia.
Qed.

Lemma equalize_width_spec : forall x y e, x <> [] -> y <> [] ->
  let n := (Nat.max (length x) (length y) + e)%nat in
  let '(p, q) := equalize_width x y e in
  length p = n /\ length q = n /\ sval p = sval x /\ sval q = sval y
  /\ sign p = sign x /\ sign q = sign y /\ p <> [] /\ q <> [].
Proof.
  intros x y e Hx Hy n. unfold equalize_width. fold n.
  repeat split; try (apply sign_extension_length; lia);
    try (now apply sign_extension_sval); try (now apply sign_extension_sign);
    now apply sign_extension_nonempty.
Qed.

(* two integers congruent modulo M that both lie in [-M/2, M/2) are equal *)
Lemma mod_unique : forall M a b k, 0 < M -> a = b + M * k ->
  - M <= 2 * a < M -> - M <= 2 * b < M -> a = b.
Proof. intros. assert (k = 0) by nia. subst. lia. Qed.

(* the value computed on equal-width operands, in terms of sign bits *)
Lemma addsub_raw : forall p q (add : bool), length p = length q -> p <> [] ->
  let r := if add then ripple p q false else ripple p (map negb q) true in
  let n := length p in
  length (fst r) = n /\
  exists k, uval (fst r) = (if add then uval p + uval q else uval p - uval q) + 2 ^ Z.of_nat n * k
       /\ (if add then k = - b2z (snd r) else k = 1 - b2z (snd r)).
Proof.
  intros p q add Hl Hp r n. subst r. destruct add.
  - destruct (ripple_uval p q false Hl) as [E L]. split; [exact L|].
    exists (- b2z (snd (ripple p q false))). cbn [b2z] in E. fold n in E. split; [lia|reflexivity].
  - assert (Hl' : length p = length (map negb q)) by (now rewrite map_length).
    destruct (ripple_uval p (map negb q) true Hl') as [E L]. split; [exact L|].
    rewrite uval_map_negb in E. cbn [b2z] in E. rewrite <- Hl in E. fold n in E.
    exists (1 - b2z (snd (ripple p (map negb q) true))). split; [lia|reflexivity].
Qed.

Lemma pow2_le : forall a b : nat, (a <= b)%nat -> 2 ^ Z.of_nat a <= 2 ^ Z.of_nat b.
Proof. intros. apply Z.pow_le_mono_r; lia. Qed.

(* adder_spec: with at least one extension bit the result is exact *)
Theorem adder_spec : forall x y (add : bool) e, x <> [] -> y <> [] -> (1 <= e)%nat ->
  let r := fst (adder_subtractor x y add e) in
  length r = (Nat.max (length x) (length y) + e)%nat /\
  sval r = if add then sval x + sval y else sval x - sval y.
Proof.
  intros x y add e Hx Hy He r. subst r. unfold adder_subtractor.
  assert (Lx1 : (1 <= length x)%nat) by (destruct x; [congruence|cbn; lia]).
  assert (Ly1 : (1 <= length y)%nat) by (destruct y; [congruence|cbn; lia]).
  pose proof (equalize_width_spec x y e Hx Hy) as H.
  destruct (equalize_width x y e) as [p q]. cbv zeta in H.
  destruct H as (Lp & Lq & Sp & Sq & _ & _ & Np & Nq).
  set (n := (Nat.max (length x) (length y) + e)%nat) in *.
  assert (Hl : length p = length q) by lia.
  pose proof (addsub_raw p q add Hl Np) as R. cbv zeta in R.
  replace (if add then ripple p q false else ripple p (map negb q) true)
    with (if add then ripple p q false else ripple p (map negb q) true) in R by reflexivity.
  assert (G : forall rr : list bool * bool,
     rr = (if add then ripple p q false else ripple p (map negb q) true) ->
     length (fst rr) = n /\ sval (fst rr) = if add then sval x + sval y else sval x - sval y).
  { intros rr ->. destruct R as [L [k [E _]]]. rewrite Lp in *. split; [exact L|].
    set (res := fst (if add then ripple p q false else ripple p (map negb q) true)) in *.
    assert (Nr : res <> []) by (apply length_nonempty; lia).
    rewrite (sval_uval res Nr), L, E.
    rewrite (sval_uval p Np), Lp in Sp. rewrite (sval_uval q Nq), Lq in Sq.
    pose proof (sval_range x Hx) as Rx. pose proof (sval_range y Hy) as Ry.
    pose proof (sval_range res Nr) as Rr. rewrite (sval_uval res Nr), L, E in Rr.
    pose proof (pow2_le (length x - 1) (n - 2) ltac:(lia)) as Bx.
    pose proof (pow2_le (length y - 1) (n - 2) ltac:(lia)) as By.
    assert (P1 : 2 ^ Z.of_nat (n - 1) = 2 * 2 ^ Z.of_nat (n - 2)).
    { replace (n - 1)%nat with (S (n - 2)) by lia. apply pow2_S. }
    assert (P2 : 2 ^ Z.of_nat n = 2 * 2 ^ Z.of_nat (n - 1)).
    { replace n with (S (n - 1)) at 1 by lia. apply pow2_S. }
    set (M := 2 ^ Z.of_nat (n - 2)) in *. pose proof (pow2_pos (n - 2)) as PM. fold M in PM.
    rewrite P2, P1 in *. clear P1 P2.
    set (sr := b2z (sign res)) in *. set (sp := b2z (sign p)) in *. set (sq := b2z (sign q)) in *.
    destruct add.
    - apply (mod_unique (4 * M) _ _ (k + sp + sq - sr)); lia.
    - apply (mod_unique (4 * M) _ _ (k + sp - sq - sr)); lia. }
  destruct add; apply G; reflexivity.
Qed.
(* ---- comparators *)
Lemma nonempty_len : forall (l : list bool), l <> [] -> (1 <= length l)%nat.
Proof. intros [|] H; cbn; [congruence|lia]. Qed.

Theorem less_than_spec : forall p q, length p = length q -> p <> [] ->
  less_than p q = (sval p <? sval q).
Proof.
  intros p q Hl Np. unfold less_than, adder_subtractor.
  assert (Nq : q <> []) by (apply length_nonempty; rewrite <- Hl; now apply nonempty_len).
  pose proof (nonempty_len p Np) as Lp1.
  pose proof (equalize_width_spec p q 1 Np Nq) as H.
  destruct (equalize_width p q 1) as [p' q']. cbv zeta in H.
  destruct H as (Lp & Lq & Sp & Sq & Gp & Gq & Np' & Nq').
  rewrite <- Hl, Nat.max_id in Lp, Lq.
  assert (Hl' : length p' = length (map negb q')) by (rewrite map_length; lia).
  destruct (ripple_uval p' (map negb q') true Hl') as [E L].
  set (rr := ripple p' (map negb q') true) in *.
  replace (let '(_, carry) := rr in xorb (negb (xorb (sign p) (sign q))) carry)
    with (xorb (negb (xorb (sign p) (sign q))) (snd rr)) by (destruct rr; reflexivity).
  rewrite uval_map_negb, Lp, Lq in E. cbn [b2z] in E.
  rewrite (sval_uval p' Np'), Lp, Gp in Sp. rewrite (sval_uval q' Nq'), Lq, Gq in Sq.
  pose proof (uval_range (fst rr)) as Rr. rewrite L, Lp in Rr.
  pose proof (sval_range p Np) as Rp. pose proof (sval_range q Nq) as Rq.
  rewrite <- Hl in Rq.
  pose proof (sval_sign p Np) as Gsp. pose proof (sval_sign q Nq) as Gsq.
  assert (P2 : 2 ^ Z.of_nat (length p + 1) = 4 * 2 ^ Z.of_nat (length p - 1)).
  { replace (length p + 1)%nat with (S (S (length p - 1))) by lia. rewrite !pow2_S. lia. }
  rewrite P2 in *. set (M := 2 ^ Z.of_nat (length p - 1)) in *.
  pose proof (pow2_pos (length p - 1)) as PM. fold M in PM.
  destruct (Z.ltb_spec (sval p) (sval q)); destruct (Z.ltb_spec (sval p) 0);
    destruct (Z.ltb_spec (sval q) 0); rewrite Gsp, Gsq in *; cbn [b2z] in *;
    destruct (snd rr); cbn [b2z xorb negb] in *; try reflexivity; exfalso; lia.
Qed.

Lemma inequality_uval : forall p q, length p = length q ->
  inequality p q = negb (uval p =? uval q).
Proof.
  induction p as [|a p IH]; intros [|b q] Hl; cbn [length] in Hl; try discriminate.
  - reflexivity.
  - injection Hl as Hl. cbn [inequality uval]. rewrite (IH q Hl).
    destruct (Z.eqb_spec (uval p) (uval q)) as [E|E];
      destruct (Z.eqb_spec (b2z a + 2 * uval p) (b2z b + 2 * uval q)) as [E'|E'];
      destruct a, b; cbn [xorb negb orb b2z] in *; try reflexivity; exfalso; lia.
Qed.

Lemma sval_eq_uval_eq : forall p q, length p = length q -> p <> [] ->
  (sval p =? sval q) = (uval p =? uval q).
Proof.
  intros p q Hl Np.
  assert (Nq : q <> []) by (apply length_nonempty; rewrite <- Hl; now apply nonempty_len).
  destruct (snoc_cases p Np) as [mp [sp ->]]. destruct (snoc_cases q Nq) as [mq [sq ->]].
  rewrite !app_length in Hl. cbn [length] in Hl.
  rewrite !sval_snoc, !uval_app. cbn [uval]. replace (length mq) with (length mp) by lia.
  pose proof (uval_range mp). pose proof (uval_range mq). replace (length mq) with (length mp) in * by lia.
  set (M := 2 ^ Z.of_nat (length mp)) in *.
  destruct (Z.eqb_spec (uval mp - M * b2z sp) (uval mq - M * b2z sq));
    destruct (Z.eqb_spec (uval mp + M * (b2z sp + 2 * 0)) (uval mq + M * (b2z sq + 2 * 0)));
    try reflexivity; exfalso; destruct sp, sq; cbn [b2z] in *; lia.
Qed.

Theorem inequality_spec : forall p q, length p = length q -> p <> [] ->
  inequality p q = negb (sval p =? sval q).
Proof. intros. rewrite inequality_uval, sval_eq_uval_eq by assumption. reflexivity. Qed.

(* all six comparators (both spellings of <= after the repair F11) *)
Theorem comparator_spec : forall o x y, x <> [] -> y <> [] ->
  comparator o x y =
  match o with
  | CLt => sval x <? sval y | CLe => sval x <=? sval y | CEq => sval x =? sval y
  | CNe => negb (sval x =? sval y) | CGe => sval x >=? sval y | CGt => sval x >? sval y
  end.
Proof.
  intros o x y Hx Hy. unfold comparator.
  pose proof (equalize_width_spec x y 0 Hx Hy) as H.
  destruct (equalize_width x y 0) as [p q]. cbv zeta in H.
  destruct H as (Lp & Lq & Sp & Sq & _ & _ & Np & Nq).
  assert (Hl : length p = length q) by lia.
  destruct o; rewrite ?inequality_spec, ?less_than_spec by (assumption || lia);
    rewrite ?Sp, ?Sq; rewrite ?negb_involutive; try reflexivity.
  - rewrite Z.leb_antisym. reflexivity.
  - rewrite Z.geb_leb, Z.leb_antisym. reflexivity.
  - rewrite Z.gtb_ltb. reflexivity.
Qed.

(* ---- if-then-else on vectors *)
Theorem ite_function_spec : forall a b c, length b = length c ->
  ite_function a b c = if a then b else c.
Proof.
  intros a. induction b as [|p b IH]; intros [|q c] Hl; cbn [length] in Hl; try discriminate.
  - destruct a; reflexivity.
  - injection Hl as Hl. cbn [ite_function]. rewrite (IH c Hl).
    destruct a, p, q; reflexivity.
Qed.

Theorem ite_connective_spec : forall a b c, ite_connective a b c = if a then b else c.
Proof. destruct a, b, c; reflexivity. Qed.

(* ---- conditional negation, absolute value *)
Lemma pad_zero_sval : forall n, (1 <= n)%nat -> sval (pad [false] n) = 0 /\ length (pad [false] n) = n.
Proof.
  intros n Hn. unfold pad. cbn [length]. split.
  - assert (G : forall k, sval (false :: repeat false k) = 0).
    { induction k; [reflexivity|]. cbn [repeat]. rewrite sval_cons by discriminate.
      rewrite IHk. reflexivity. }
    apply G.
  - cbn [app length]. rewrite repeat_length. lia.
Qed.

Theorem negate_if_spec : forall g x, x <> [] ->
  length (negate_if g x) = S (length x) /\
  sval (negate_if g x) = if g then - sval x else sval x.
Proof.
  intros g x Hx. unfold negate_if. pose proof (nonempty_len x Hx) as L1.
  destruct (pad_zero_sval (length x) L1) as [Z0 ZL].
  assert (NZ : pad [false] (length x) <> []) by (apply length_nonempty; lia).
  pose proof (adder_spec (pad [false] (length x)) x false 1 NZ Hx (le_n 1)) as [AL AS].
  cbv zeta in AL, AS. rewrite ZL, Nat.max_id in AL. rewrite Z0 in AS.
  destruct (adder_subtractor (pad [false] (length x)) x false 1) as [neg c]. cbn [fst] in *.
  assert (EL : length (sign_extension x (length x + 1)) = (length x + 1)%nat)
    by (apply sign_extension_length; lia).
  rewrite ite_function_spec by lia.
  destruct g.
  - split; [lia|]. rewrite AS. lia.
  - split; [lia|]. now apply sign_extension_sval.
Qed.

Theorem abs_spec : forall x, x <> [] ->
  length (abs_ x) = S (length x) /\ sval (abs_ x) = Z.abs (sval x).
Proof.
  intros x Hx. unfold abs_. destruct (negate_if_spec (sign x) x Hx) as [L S].
  split; [exact L|]. rewrite S, (sval_sign x Hx).
  destruct (Z.ltb_spec (sval x) 0); lia.
Qed.
(* ---- shift-add multiplier *)
Lemma uval_repeat_false : forall k, uval (repeat false k) = 0.
Proof. induction k; cbn [repeat uval b2z]; lia. Qed.

Lemma uval_firstn : forall k x, uval (firstn k x) = uval x mod 2 ^ Z.of_nat k.
Proof.
  induction k as [|k IH]; intros x.
  - cbn [firstn uval]. change (2 ^ Z.of_nat 0) with 1. now rewrite Z.mod_1_r.
  - destruct x as [|b x]; cbn [firstn uval].
    + now rewrite Z.mod_0_l by (pose proof (pow2_pos (S k)); lia).
    + rewrite IH, pow2_S. pose proof (pow2_pos k) as P.
      set (M := 2 ^ Z.of_nat k) in *.
      apply (Z.mod_unique _ _ (uval x / M)).
      * pose proof (Z.mod_pos_bound (uval x) M P). pose proof (b2z_range b). lia.
      * pose proof (Z.div_mod (uval x) M ltac:(lia)). lia.
Qed.

Lemma uval_small_mod : forall l n, (length l <= n)%nat -> uval l mod 2 ^ Z.of_nat n = uval l.
Proof.
  intros l n H. apply Z.mod_small. pose proof (uval_range l). pose proof (pow2_le _ _ H). lia.
Qed.

Lemma fixed_shift_left_spec : forall x k, (k <= length x)%nat ->
  length (fixed_shift_left x k) = length x /\
  uval (fixed_shift_left x k) = (2 ^ Z.of_nat k * uval x) mod 2 ^ Z.of_nat (length x).
Proof.
  intros x k Hk. unfold fixed_shift_left. split.
  - rewrite app_length, repeat_length, firstn_length. lia.
  - rewrite uval_app, uval_repeat_false, repeat_length, uval_firstn.
    replace (length x) with (k + (length x - k))%nat at 2 by lia.
    rewrite pow2_add, Z.mul_mod_distr_l; try (pose proof (pow2_pos k); pose proof (pow2_pos (length x - k)); lia).
Qed.

Lemma uval_map_and : forall b l, uval (map (fun a => a && b) l) = b2z b * uval l.
Proof.
  intros b. induction l as [|a l IH]; cbn [map uval]; [lia|].
  rewrite IH. destruct a, b; cbn [andb b2z]; lia.
Qed.

Lemma equalize_width_same : forall p q, length p = length q -> equalize_width p q 0 = (p, q).
Proof.
  intros p q H. unfold equalize_width. rewrite <- H, Nat.max_id, Nat.add_0_r.
  rewrite sign_extension_id. rewrite H, sign_extension_id. reflexivity.
Qed.

(* adder without extension on equal-width operands: modular *)
Lemma adder_mod : forall p q (add : bool), length p = length q -> p <> [] ->
  let r := fst (adder_subtractor p q add 0) in
  length r = length p /\
  uval r = (if add then uval p + uval q else uval p - uval q) mod 2 ^ Z.of_nat (length p).
Proof.
  intros p q add Hl Np r. subst r. unfold adder_subtractor.
  rewrite (equalize_width_same p q Hl).
  pose proof (addsub_raw p q add Hl Np) as R. cbv zeta in R.
  destruct R as [L [k [E _]]]. split; [exact L|].
  pose proof (uval_range (fst (if add then ripple p q false else ripple p (map negb q) true))) as Rr.
  rewrite L in Rr. pose proof (pow2_pos (length p)) as P.
  apply (Z.mod_unique _ _ (- k)); [lia|]. rewrite E. lia.
Qed.

Lemma uval_firstn_S : forall k y,
  uval (firstn (S k) y) = uval (firstn k y) + 2 ^ Z.of_nat k * b2z (nth k y false).
Proof.
  induction k as [|k IH]; intros [|b y].
  - cbn. lia.
  - cbn [firstn uval nth]. change (2 ^ Z.of_nat 0) with 1. lia.
  - cbn [firstn uval nth b2z]. lia.
  - change (firstn (S (S k)) (b :: y)) with (b :: firstn (S k) y).
    change (firstn (S k) (b :: y)) with (b :: firstn k y).
    cbn [uval nth]. rewrite IH, pow2_S. lia.
Qed.

Lemma mult_stages_spec : forall x y k, x <> [] -> (k <= length x)%nat ->
  length (mult_stages x y k) = length x /\
  uval (mult_stages x y k) = (uval x * uval (firstn k y)) mod 2 ^ Z.of_nat (length x).
Proof.
  intros x y k Nx. pose proof (pow2_pos (length x)) as P.
  induction k as [|k IH]; intros Hk.
  - cbn [mult_stages firstn uval]. rewrite repeat_length, uval_repeat_false.
    split; [reflexivity|]. now rewrite Z.mul_0_r, Z.mod_0_l by lia.
  - destruct (IH ltac:(lia)) as [L U]. cbn [mult_stages].
    destruct (fixed_shift_left_spec x k ltac:(lia)) as [SL SU].
    set (z := map (fun a => a && nth k y false) (fixed_shift_left x k)).
    assert (ZL : length z = length x) by (unfold z; now rewrite map_length).
    assert (NM : mult_stages x y k <> []) by (apply length_nonempty; rewrite L; now apply nonempty_len).
    destruct (adder_mod (mult_stages x y k) z true ltac:(lia) NM) as [AL AU].
    cbv zeta in AL, AU. rewrite L in AL, AU. split; [exact AL|].
    rewrite AU, U. unfold z. rewrite uval_map_and, SU, uval_firstn_S.
    set (M := 2 ^ Z.of_nat (length x)) in *.
    rewrite Z.mul_add_distr_l.
    rewrite (Z.add_mod (uval x * uval (firstn k y)) _ M) by lia.
    f_equal. f_equal.
    destruct (nth k y false); cbn [b2z].
    + rewrite Z.mul_1_l, Z.mul_1_r. f_equal. lia.
    + rewrite Z.mul_0_l, Z.mul_0_r, Z.mul_0_r. now rewrite Z.mod_0_l by lia.
Qed.

Lemma firstn_all2 : forall (l : list bool), firstn (length l) l = l.
Proof. intros. apply firstn_all. Qed.

Theorem multiplier_spec : forall x y, x <> [] -> y <> [] ->
  length (multiplier x y) = (length x + length y)%nat /\
  sval (multiplier x y) = sval x * sval y.
Proof.
  intros x y Hx Hy. unfold multiplier.
  pose proof (nonempty_len x Hx) as Lx1. pose proof (nonempty_len y Hy) as Ly1.
  pose proof (equalize_width_spec x y (Nat.min (length x) (length y)) Hx Hy) as H.
  destruct (equalize_width x y (Nat.min (length x) (length y))) as [p q]. cbv zeta in H.
  destruct H as (Lp & Lq & Sp & Sq & Gp & Gq & Np & Nq).
  replace (Nat.max (length x) (length y) + Nat.min (length x) (length y))%nat
    with (length x + length y)%nat in * by lia.
  set (n := (length x + length y)%nat) in *.
  destruct (mult_stages_spec p q (length q) Np ltac:(lia)) as [L U].
  rewrite firstn_all2 in U. rewrite Lp in L, U.
  split; [exact L|].
  set (r := mult_stages p q (length q)) in *.
  assert (Nr : r <> []) by (apply length_nonempty; lia).
  pose proof (pow2_pos n) as P.
  (* uval r = sval x * sval y + 2^n * k *)
  pose proof (Z.div_mod (uval p * uval q) (2 ^ Z.of_nat n) ltac:(lia)) as DM.
  rewrite <- U in DM.
  rewrite (sval_uval p Np), Lp in Sp. rewrite (sval_uval q Nq), Lq in Sq.
  pose proof (sval_range x Hx) as Rx. pose proof (sval_range y Hy) as Ry.
  pose proof (sval_range r Nr) as Rr. rewrite L in Rr.
  rewrite (sval_uval r Nr), L in *.
  (* |sval x * sval y| <= 2^(n-2) *)
  assert (B : - 2 ^ Z.of_nat (n - 2) <= sval x * sval y <= 2 ^ Z.of_nat (n - 2)).
  { replace (n - 2)%nat with ((length x - 1) + (length y - 1))%nat by lia.
    rewrite pow2_add.
    pose proof (pow2_pos (length x - 1)). pose proof (pow2_pos (length y - 1)).
    nia. }
  assert (P1 : 2 ^ Z.of_nat (n - 1) = 2 * 2 ^ Z.of_nat (n - 2)).
  { replace (n - 1)%nat with (S (n - 2)) by lia. apply pow2_S. }
  assert (P2 : 2 ^ Z.of_nat n = 2 * 2 ^ Z.of_nat (n - 1)).
  { replace n with (S (n - 1)) at 1 by lia. apply pow2_S. }
  pose proof (pow2_pos (n - 2)) as PM.
  set (M := 2 ^ Z.of_nat (n - 2)) in *. rewrite P2, P1 in *.
  set (sp := b2z (sign p)) in *. set (sq := b2z (sign q)) in *.
  set (sr := b2z (sign r)) in *. set (d := uval p * uval q / (2 * (2 * M))) in *.
  apply (mod_unique (4 * M) _ _
           (- d - sr + sp * uval q + sq * sval x)); try lia.
Qed.
(* ---- restoring divider *)
Lemma sign_uval : forall l, l <> [] ->
  sign l = (2 ^ Z.of_nat (length l - 1) <=? uval l).
Proof.
  intros l H. destruct (snoc_cases l H) as [m [s ->]].
  rewrite sign_snoc, uval_app, app_length. cbn [length uval].
  replace (length m + 1 - 1)%nat with (length m) by lia.
  pose proof (uval_range m). pose proof (pow2_pos (length m)).
  destruct s; cbn [b2z]; symmetry; [apply Z.leb_le|apply Z.leb_gt]; lia.
Qed.

Lemma sval_small : forall l, l <> [] -> uval l < 2 ^ Z.of_nat (length l - 1) -> sval l = uval l.
Proof.
  intros l H B. rewrite (sval_uval l H), (sign_uval l H).
  destruct (Z.leb_spec (2 ^ Z.of_nat (length l - 1)) (uval l)); cbn [b2z]; lia.
Qed.

Lemma uval_nonneg_sval : forall l, l <> [] -> 0 <= sval l ->
  uval l = sval l /\ uval l < 2 ^ Z.of_nat (length l - 1).
Proof.
  intros l H B. pose proof (sval_range l H). pose proof (sval_sign l H) as S.
  rewrite (sval_uval l H) in *.
  destruct (Z.ltb_spec (uval l - 2 ^ Z.of_nat (length l) * b2z (sign l)) 0); [lia|].
  rewrite S in *. cbn [b2z] in *. lia.
Qed.

Lemma pad_spec : forall x n, (length x <= n)%nat ->
  length (pad x n) = n /\ uval (pad x n) = uval x.
Proof.
  intros x n H. unfold pad. rewrite app_length, repeat_length, uval_app, uval_repeat_false.
  split; lia.
Qed.

Lemma uval_skipn : forall n l, uval l = uval (firstn n l) + 2 ^ Z.of_nat (Nat.min n (length l)) * uval (skipn n l).
Proof.
  intros n l. rewrite <- (firstn_skipn n l) at 1. rewrite uval_app, firstn_length. reflexivity.
Qed.

Section Divider.
Variables (x y2 : list bool) (n : nat).
Hypothesis Hn : (1 <= n)%nat.
Hypothesis Lx : length x = n.
Hypothesis Ly2 : length y2 = (2 * n)%nat.
Let Y := uval y2.
Hypothesis Ypos : 0 < Y.
Hypothesis Ysmall : 2 * Y <= 2 ^ Z.of_nat (2 * n).      (* top bit of the divisor is 0 *)
Hypothesis Xsmall : uval x < Y.

Lemma div_stages_inv : forall k, (k <= n)%nat ->
  let '(quo, p) := div_stages x y2 n k in
  length quo = k /\ length p = (2 * n)%nat /\
  uval p + Y * uval quo = 2 ^ Z.of_nat k * uval x /\ 0 <= uval p < Y.
Proof.
  induction k as [|k IH]; intros Hk.
  - cbn [div_stages]. destruct (pad_spec x (2 * n) ltac:(lia)) as [PL PU].
    rewrite PL, PU. cbn [length uval]. change (2 ^ Z.of_nat 0) with 1.
    pose proof (uval_range x). repeat split; lia.
  - specialize (IH ltac:(lia)). cbn [div_stages].
    destruct (div_stages x y2 n k) as [quo p]. destruct IH as (LQ & LP & E & R).
    destruct (fixed_shift_left_spec p 1 ltac:(lia)) as [SL SU].
    set (sp := fixed_shift_left p 1) in *.
    assert (Nsp : sp <> []) by (apply length_nonempty; lia).
    destruct (adder_mod sp y2 false ltac:(lia) Nsp) as [AL AU]. cbv zeta in AL, AU.
    destruct (adder_subtractor sp y2 false 0) as [r c]. cbn [fst] in AL, AU.
    rewrite SL, LP in AL, AU. rewrite LP in SU. change (2 ^ Z.of_nat 1) with 2 in SU.
    pose proof (pow2_pos (2 * n)) as PP.
    assert (P2 : 2 ^ Z.of_nat (2 * n) = 2 * 2 ^ Z.of_nat (2 * n - 1)).
    { replace (2 * n)%nat with (S (2 * n - 1)) at 1 by lia. apply pow2_S. }
    rewrite Z.mod_small in SU by lia.
    assert (Nr : r <> []) by (apply length_nonempty; lia).
    pose proof (sign_uval r Nr) as SR. rewrite AL in SR.
    assert (LI : forall g, length (ite_function g r sp) = (2 * n)%nat
                           /\ uval (ite_function g r sp) = if g then uval r else uval sp).
    { intros g. rewrite ite_function_spec by lia. destruct g; split; lia. }
    destruct (Z_lt_le_dec (2 * uval p) Y) as [Lt|Ge].
    + (* D < 0 *)
      assert (U : uval r = 2 * uval p - Y + 2 ^ Z.of_nat (2 * n)).
      { rewrite AU, SU. symmetry. apply (Z.mod_unique _ _ (-1)); lia. }
      rewrite SR. destruct (Z.leb_spec (2 ^ Z.of_nat (2 * n - 1)) (uval r)); [|lia].
      cbn [negb]. destruct (LI false) as [L1 U1]. rewrite L1, U1.
      cbn [length uval b2z]. rewrite pow2_S. repeat split; lia.
    + assert (U : uval r = 2 * uval p - Y).
      { rewrite AU, SU. apply Z.mod_small. lia. }
      rewrite SR. destruct (Z.leb_spec (2 ^ Z.of_nat (2 * n - 1)) (uval r)); [lia|].
      cbn [negb]. destruct (LI true) as [L1 U1]. rewrite L1, U1.
      cbn [length uval b2z]. rewrite pow2_S. repeat split; lia.
Qed.
End Divider.

Lemma mul_small_zero : forall N t, 0 < N -> 0 <= N * t < N -> t = 0.
Proof. intros. nia. Qed.

Lemma restoring_divider_pos_spec : forall x y, x <> [] -> length x = length y ->
  0 <= sval x -> 0 < sval y ->
  let '(quo, rem) := restoring_divider_pos x y in
  length quo = length x /\ length rem = length x /\
  sval quo = sval x / sval y /\ sval rem = sval x mod sval y.
Proof.
  intros x y Nx Hl Hx Hy. unfold restoring_divider_pos.
  set (n := length x) in *. pose proof (nonempty_len x Nx) as Ln. fold n in Ln.
  assert (Ny : y <> []) by (apply length_nonempty; lia).
  destruct (uval_nonneg_sval x Nx Hx) as [Ux Bx]. fold n in Bx.
  destruct (uval_nonneg_sval y Ny ltac:(lia)) as [Uy By]. rewrite <- Hl in By.
  destruct (pad_spec y (2 * n) ltac:(lia)) as [PL PU].
  destruct (fixed_shift_left_spec (pad y (2 * n)) n ltac:(lia)) as [SL SU].
  rewrite PL in SL, SU. rewrite PU in SU.
  set (y2 := fixed_shift_left (pad y (2 * n)) n) in *.
  pose proof (pow2_pos n) as Pn. pose proof (pow2_pos (n - 1)) as Pn1.
  assert (P1 : 2 ^ Z.of_nat n = 2 * 2 ^ Z.of_nat (n - 1)).
  { replace n with (S (n - 1)) at 1 by lia. apply pow2_S. }
  assert (P2 : 2 ^ Z.of_nat (2 * n) = 2 ^ Z.of_nat n * 2 ^ Z.of_nat n).
  { replace (2 * n)%nat with (n + n)%nat by lia. apply pow2_add. }
  assert (UY : uval y2 = 2 ^ Z.of_nat n * uval y).
  { rewrite SU. apply Z.mod_small. rewrite P2. nia. }
  assert (Ypos : 0 < uval y2) by (rewrite UY; apply Z.mul_pos_pos; lia).
  assert (Ysmall : 2 * uval y2 <= 2 ^ Z.of_nat (2 * n)).
  { rewrite UY, P2. replace (2 * (2 ^ Z.of_nat n * uval y)) with (2 ^ Z.of_nat n * (2 * uval y)) by lia.
    apply Z.mul_le_mono_nonneg_l; lia. }
  assert (Xsmall : uval x < uval y2).
  { rewrite UY. assert (2 ^ Z.of_nat n * 1 <= 2 ^ Z.of_nat n * uval y) by (apply Z.mul_le_mono_nonneg_l; lia). lia. }
  pose proof (div_stages_inv x y2 n Ln eq_refl SL Ypos Ysmall Xsmall n (le_n n)) as I.
  destruct (div_stages x y2 n n) as [quo p]. destruct I as (LQ & LP & E & R).
  rewrite UY in E, R.
  set (N := 2 ^ Z.of_nat n) in *.
  (* the partial remainder is a multiple of 2^n *)
  pose proof (uval_skipn n p) as SK. rewrite LP in SK.
  replace (Nat.min n (2 * n)) with n in SK by lia. fold N in SK.
  pose proof (uval_range (firstn n p)) as RF. rewrite firstn_length, LP in RF.
  replace (Nat.min n (2 * n)) with n in RF by lia. fold N in RF.
  assert (LR : length (skipn n p) = n) by (rewrite skipn_length; lia).
  set (rem := skipn n p) in *.
  assert (T0 : uval x - uval y * uval quo - uval rem = 0).
  { apply (mul_small_zero N); [lia|].
    replace (N * (uval x - uval y * uval quo - uval rem)) with (uval (firstn n p)) by lia. lia. }
  assert (ER : uval x = uval y * uval quo + uval rem) by lia.
  pose proof (uval_range rem) as RR.
  assert (BR : 0 <= uval rem < uval y).
  { split; [lia|]. destruct (Z_lt_le_dec (uval rem) (uval y)); [assumption|exfalso].
    assert (N * uval y <= N * uval rem) by (apply Z.mul_le_mono_nonneg_l; lia). lia. }
  pose proof (uval_range quo) as RQ.
  assert (Nq : quo <> []) by (apply length_nonempty; lia).
  assert (Nr : rem <> []) by (apply length_nonempty; lia).
  assert (BQ : uval quo <= uval x).
  { assert (1 * uval quo <= uval y * uval quo) by (apply Z.mul_le_mono_nonneg_r; lia). lia. }
  rewrite (sval_small quo Nq) by (rewrite LQ; lia).
  rewrite (sval_small rem Nr) by (rewrite LR; lia).
  rewrite <- Ux, <- Uy. repeat split; try lia.
  - apply (Z.div_unique_pos _ _ _ (uval rem)); lia.
  - apply (Z.mod_unique_pos _ _ (uval quo)); lia.
Qed.

(* divider_spec: C99 quotient and remainder whenever the divisor is not 0
   (with the width equalisation of repair F1) *)
Theorem divider_spec : forall x y, x <> [] -> y <> [] -> sval y <> 0 ->
  let '(quo, rem) := restoring_divider x y in
  sval quo = Z.quot (sval x) (sval y) /\ sval rem = Z.rem (sval x) (sval y) /\
  length quo = S (S (Nat.max (length x) (length y))) /\
  length rem = S (S (Nat.max (length x) (length y))).
Proof.
  intros x y Hx Hy Hy0. unfold restoring_divider.
  destruct (abs_spec x Hx) as [LA SA]. destruct (abs_spec y Hy) as [LB SB].
  assert (Na : abs_ x <> []) by (apply length_nonempty; lia).
  assert (Nb : abs_ y <> []) by (apply length_nonempty; lia).
  pose proof (equalize_width_spec (abs_ x) (abs_ y) 0 Na Nb) as H.
  destruct (equalize_width (abs_ x) (abs_ y) 0) as [a b]. cbv zeta in H.
  destruct H as (La & Lb & Sa & Sb & _ & _ & Na' & Nb').
  rewrite LA, LB, Nat.add_0_r in La, Lb.
  pose proof (restoring_divider_pos_spec a b Na' ltac:(lia) ltac:(lia) ltac:(lia)) as D.
  destruct (restoring_divider_pos a b) as [quo rem].
  destruct D as (LQ & LR & SQ & SR).
  assert (Nq : quo <> []) by (apply length_nonempty; lia).
  assert (Nr : rem <> []) by (apply length_nonempty; lia).
  destruct (negate_if_spec (xorb (sign x) (sign y)) quo Nq) as [L1 S1].
  destruct (negate_if_spec (sign x) rem Nr) as [L2 S2].
  rewrite S1, S2, SQ, SR, Sa, Sb, SA, SB, L1, L2, LQ, LR, La.
  rewrite (sval_sign x Hx), (sval_sign y Hy).
  rewrite (Z.quot_div (sval x) (sval y) Hy0), (Z.rem_mod (sval x) (sval y) Hy0).
  repeat split; try lia.
  - destruct (Z.ltb_spec (sval x) 0); destruct (Z.ltb_spec (sval y) 0); cbn [xorb];
      try (assert (sval x = 0 \/ 0 < sval x) as [->|?] by lia; [cbn; lia|]); nia.
  - destruct (Z.ltb_spec (sval x) 0);
      try (assert (sval x = 0 \/ 0 < sval x) as [->|?] by lia; [cbn; lia|]); nia.
Qed.
(* ---- constants *)
Lemma to_bits_length : forall n z, length (to_bits n z) = n.
Proof. induction n; intros; cbn [to_bits length]; [reflexivity|]. now rewrite IHn. Qed.

Lemma to_bits_sval : forall n z, - 2 ^ Z.of_nat n <= z < 2 ^ Z.of_nat n ->
  sval (to_bits n z ++ [z <? 0]) = z.
Proof.
  induction n as [|n IH]; intros z H.
  - change (2 ^ Z.of_nat 0) with 1 in H. cbn [to_bits app sval].
    destruct (Z.ltb_spec z 0); cbn [b2z]; lia.
  - rewrite pow2_S in H. cbn [to_bits app].
    rewrite sval_cons by (destruct (to_bits n (Z.div2 z)); discriminate).
    pose proof (Z.div2_odd z) as D.
    assert (E : (z <? 0) = (Z.div2 z <? 0)).
    { destruct (Z.ltb_spec z 0); destruct (Z.ltb_spec (Z.div2 z) 0); try reflexivity;
        destruct (Z.odd z); cbn [Z.b2z] in D; lia. }
    rewrite E, IH.
    + destruct (Z.odd z); cbn [Z.b2z b2z] in *; lia.
    + destruct (Z.odd z); cbn [Z.b2z] in D; lia.
Qed.

Lemma bit_length_bound : forall z, Z.abs z < 2 ^ Z.of_nat (bit_length z).
Proof.
  intros z. unfold bit_length. destruct (Z.abs z) eqn:E.
  - change (2 ^ Z.of_nat 0) with 1. lia.
  - pose proof (Z.log2_spec (Z.pos p) ltac:(lia)) as [_ H].
    rewrite Z2Nat.id by (pose proof (Z.log2_nonneg (Z.pos p)); lia).
    replace (Z.log2 (Z.pos p) + 1) with (Z.succ (Z.log2 (Z.pos p))) by lia. exact H.
  - pose proof (Z.abs_nonneg z). lia.
Qed.

Theorem int_to_twos_complement_spec : forall z,
  sval (int_to_twos_complement z) = z /\ (2 <= length (int_to_twos_complement z))%nat.
Proof.
  intros z. unfold int_to_twos_complement. split.
  - apply to_bits_sval. pose proof (bit_length_bound z) as B.
    pose proof (pow2_le (bit_length z) (Nat.max (bit_length z) 1) ltac:(lia)). lia.
  - rewrite app_length, to_bits_length. cbn [length]. lia.
Qed.

(* ---- regression examples against the unrepaired functions *)
(* F1: dividend hint 0..1 (bits [x0; 0]), divisor hint 0..6 (bits [y0;y1;y2;0]):
   0 / 5 = -2 and 0 % 5 = 2 in the old circuit *)
Example refuted_old_divider :
  let x := [false; false] in let y := [true; false; true; false] in
  sval x = 0 /\ sval y = 5 /\
  sval (fst (restoring_divider_old x y)) = -2 /\
  sval (snd (restoring_divider_old x y)) = 2 /\
  sval (fst (restoring_divider x y)) = 0 /\ sval (snd (restoring_divider x y)) = 0.
Proof. vm_compute. repeat split. Qed.

(* F11: x =< y compiled like x >= y: 0 =< 1 was false *)
Example refuted_old_eqless :
  let x := [false; false] in let y := [true; false] in
  sval x = 0 /\ sval y = 1 /\ comparator_old_eqless x y = false /\ comparator CLe x y = true.
Proof. vm_compute. repeat split. Qed.
