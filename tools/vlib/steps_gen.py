"""Regenerate coq/gen/StepsGen.v from omega/steps.py
(tie T for C19; translator tools/py2coq_steps.py)."""
import os
import sys

sys.path.insert(0, os.path.join(os.path.dirname(__file__), '..'))
import py2coq  # noqa: E402
import py2coq_steps  # noqa: E402
from vlib.core import Broken, REPO  # noqa: E402

SRC = py2coq_steps.SRC
GEN = 'gen/StepsGen.v'


def steps_text():
    """(text of gen/StepsGen.v, translator notes, translated functions)."""
    path = os.path.join(REPO, SRC)
    return py2coq_steps.file_text(path, SRC)


def ensure_steps(ctx):
    """Translate the current steps.py; write and compile gen/StepsGen.v.

    Returns (notes, names of the translated functions).  A refusal of the
    translator (the source left the supported subset) is a broken tie."""
    try:
        text, notes, names = steps_text()
    except py2coq.Refuse as e:
        raise Broken('translator', f'{SRC}: {e}')
    except (SyntaxError, OSError) as e:
        raise Broken('translator', f'{SRC}: {e}')
    ctx.write_gen(GEN, text)
    return notes, names


if __name__ == '__main__':
    print(steps_text()[0])
