(* L6 Syntax — model of the `flatten` methods of omega.logic.ast.Nodes and
   astutils (the printer that `print then re-parse` uses), at token level
   and at character level.  Model file: no proofs. *)
From Coq Require Import List String Ascii NArith Bool.
From Omega Require Import L6Syntax.Tokens.
Import ListNotations.
Local Open Scope string_scope.

(* ---- character level, exactly the strings the Python methods build ----
   Terminal.flatten            = value
   astutils.Operator.flatten   = "( op a, b )"        (used by Nodes.Unary)
   Nodes.Binary.flatten        = "( l op r )"
   Nodes.Operator.flatten      =
     "( \E y, z: body )"               operator \A or \E, operands (params, body):
                                       the operands of params joined by ", "
     "( LET a == e1 b == e2 IN body )"  operator LET, operands (defs, body): defs
                                       is a Python list, each definition printed
                                       as its operands joined by " == ", the
                                       definitions joined by a blank
     "op(a, b, c)"                      every other operator (ite, @)
   The parser builds `\A`/`\E` nodes only as Opr op [Opr "params" vs; body] and
   LET nodes only as Opr "LET" [Lst defs; body]; on an operator named \A, \E or
   LET whose operands have another shape the Python code raises, the model
   keeps the generic equation. *)
Fixpoint join (sep : string) (l : list string) : string :=
  match l with
  | [] => ""
  | [x] => x
  | x :: r => x ++ sep ++ join sep r
  end.

Definition is_quant_op (op : string) : bool :=
  String.eqb op "\A" || String.eqb op "\E".
Definition is_let_op (op : string) : bool := String.eqb op "LET".

Fixpoint flatten_str (t : tree) : string :=
  match t with
  | Term _ v => v
  | Un op x => "( " ++ op ++ " " ++ flatten_str x ++ " )"
  | Bin _ op l r => "( " ++ flatten_str l ++ " " ++ op ++ " " ++ flatten_str r ++ " )"
  | Opr op args =>
      let generic := op ++ "(" ++ join ", " (map flatten_str args) ++ ")" in
      match args with
      | [p; body] =>
          match p with
          | Opr _ vs =>
              if is_quant_op op
              then "( " ++ op ++ " " ++ join ", " (map flatten_str vs) ++ ": "
                   ++ flatten_str body ++ " )"
              else generic
          | Lst ds =>
              if is_let_op op
              then "( LET "
                   ++ join " "
                        (map (fun d =>
                                (* ' == '.join(x.flatten() for x in opdef.operands) *)
                                match d with
                                | Bin _ _ n e => flatten_str n ++ " == " ++ flatten_str e
                                | Un _ x => flatten_str x
                                | Opr _ xs => join " == " (map flatten_str xs)
                                | _ => ""          (* no operands: Python raises *)
                                end) ds)
                   ++ " IN " ++ flatten_str body ++ " )"
              else generic
          | _ => generic
          end
      | _ => generic
      end
  | Lst xs => "[" ++ join ", " (map flatten_str xs) ++ "]"   (* never printed by omega *)
  end.

(* the printed form of one definition of LET *)
Definition def_str (d : tree) : string :=
  match d with
  | Bin _ _ n e => flatten_str n ++ " == " ++ flatten_str e
  | Un _ x => flatten_str x
  | Opr _ xs => join " == " (map flatten_str xs)
  | _ => ""
  end.

(* ---- token level ---- *)
Local Open Scope list_scope.
Section Flat.
(* the token the lexer produces for an operator spelling *)
Variable optok : string -> token.

Definition LP := Tok "LPAREN" "(".
Definition RP := Tok "RPAREN" ")".
Definition CM := Tok "COMMA" ",".
Definition CL := Tok "COLON" ":".
Definition DF := Tok "DEF" "==".
Definition INx := Tok "IN_EXPR" "IN".

Definition is_neg (v : string) : bool :=
  match v with
  | String c _ => Ascii.eqb c "-"%char
  | EmptyString => false
  end.
Definition tail_str (v : string) : string :=
  match v with String _ r => r | EmptyString => EmptyString end.

Definition term_toks (k : tkind) (v : string) : list token :=
  match k with
  | KVar => [Tok "NAME" v]
  | KOpname => [Tok "NAME" v]
  | KBool => [optok v]
  | KNum => if is_neg v then [Tok "MINUS" "-"; Tok "NUMBER" (tail_str v)]
            else [Tok "NUMBER" v]
  | KStr => (* value is "name" with the quotes *)
      [Tok "DQUOTES" """";
       Tok "NAME" (substring 1 (String.length v - 2) v);
       Tok "DQUOTES" """"]
  end.

(* x1 , x2 , ... , xn *)
Definition sep_toks (f : tree -> list token) : list tree -> list token :=
  fix go (l : list tree) : list token :=
    match l with
    | [] => []
    | [x] => f x
    | x :: r => f x ++ CM :: go r
    end.
(* name == body *)
Definition def_toks (f : tree -> list token) (d : tree) : list token :=
  match d with
  | Bin _ _ n e => f n ++ DF :: f e
  | _ => []
  end.

Fixpoint flatten (t : tree) : list token :=
  match t with
  | Term k v => term_toks k v
  | Un op x => LP :: optok op :: flatten x ++ [RP]
  | Bin _ op l r => LP :: flatten l ++ optok op :: flatten r ++ [RP]
  | Opr op args =>
      let generic := optok op :: LP :: sep_toks flatten args ++ [RP] in
      match args with
      | [p; body] =>
          match p with
          | Opr _ vs =>
              if is_quant_op op
              then LP :: optok op :: sep_toks flatten vs ++ CL :: flatten body ++ [RP]
              else generic
          | Lst ds =>
              if is_let_op op
              then LP :: optok op :: flat_map (def_toks flatten) ds
                   ++ INx :: flatten body ++ [RP]
              else generic
          | _ => generic
          end
      | _ => generic
      end
  | Lst xs => []
  end.

End Flat.
