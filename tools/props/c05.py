"""C05 — synthesized Rabin(1) implementation in closed loop."""
from vlib import implcheck

ID = 'C05'
LEVEL = 'proof'
THEORIES = implcheck.THEORIES


class Rabin(implcheck.ImplCheck):
    def classify(self, g, r, lp, res):
        """Known-finding classes of Rabin blocking states (DESIGN §7):
        F3  plus_one, environment dead end (state in cpre(empty)), _hold=none
        F12 stale persistence index: _hold = i although the state is outside
            y_{k,i} of its own basin level
        Anything else is not a known finding."""
        what, path, detail = res
        if what != 'blocking':
            return None
        ar, ear = g['ar'], r['ear']
        s = path[-1]
        c, x, yE = lp.state(s)
        st = ear.state_dict(c, x, yE)
        M = ear.ny // ar.ny
        base = ar.sidx(c, x, yE // M)
        n_holds = len(g['P'])
        h = st.get('_hold')
        if h == n_holds:
            if lp.plus_one and self._in_cpre_empty(lp, s):
                return 'rabin_blocks_env_deadend_plus_one'
            return None
        if h is None or h > n_holds:
            return None
        levels = [k for k, z in enumerate(r['zk']) if z[base]]
        if not levels:
            return None
        k = levels[0]
        if not r['yki'][k][h][base]:
            return 'rabin_blocks_stale_hold'
        return None

    @staticmethod
    def _in_cpre_empty(lp, s):
        """s in cpre(false): the component can make the environment's action
        false (per the mode's quantifier order) while keeping its own."""
        def phi(xp, yp):
            j = xp * lp.ny + yp
            return lp.S[s][j] and not lp.E[s][j]
        if lp.moore:
            return any(all(phi(xp, yp) for xp in range(lp.nx))
                       for yp in range(lp.ny))
        return all(any(phi(xp, yp) for yp in range(lp.ny))
                   for xp in range(lp.nx))


_c = Rabin(
    ID, 'rabin',
    ['GenProofs/FixpointProofs.v', 'GenProofs/RabinProofs.v',
     'GenProofs/InitProofs.v', 'GenProofs/TransducerModel.v',
     'GenProofs/RabinTProofs.v', 'Properties/C05.v'],
    'hand-written model GenProofs/TransducerModel.v of '
    'make_rabin_transducer (tie H: full truth tables of action[impl] and '
    'init[impl] compared on every run), built on the translated '
    '_controllable_action, step, _make_init and solver (tie T)')
prove, correspond, search, replay = (_c.prove, _c.correspond, _c.search,
                                     _c.replay)
