(* L3 / CtxFacts: facts about the model of fol.Context (Ctx.v).

   Conventions.  [agree l a a'] : two bit assignments coincide on the bits of
   l.  [uses_only l p] : the predicate p reads only bits of l (a BDD of a
   manager whose variables are l).  All semantic statements about a BDD u of a
   context with table t assume [uses_only (all_bits t) u]; [of_tt_uses_only]
   shows every BDD handed to the model by the correspondence satisfies it, and
   the operations preserve it. *)
From Coq Require Import ZArith List Bool String Lia Permutation.
From Omega Require Import L0Bits.Bits L0Bits.BitsFacts L3Context.Ctx.
Import ListNotations.
Open Scope Z_scope.

(* ---- equalities -------------------------------------------------------------- *)
Lemma bit_eqb_spec (a b : bit) : reflect (a = b) (bit_eqb a b).
Proof.
  destruct a as [x i], b as [y j]. unfold bit_eqb. cbn [fst snd].
  destruct (Nat.eqb_spec i j); [destruct (String.eqb_spec x y)|]; constructor;
    congruence.
Qed.

Lemma bit_eqb_refl b : bit_eqb b b = true.
Proof. destruct (bit_eqb_spec b b); congruence. Qed.

Lemma upd_same a b v : upd a b v b = v.
Proof. unfold upd. rewrite bit_eqb_refl. reflexivity. Qed.

Lemma upd_other a b v b' : b' <> b -> upd a b v b' = a b'.
Proof. intro H. unfold upd. destruct (bit_eqb_spec b' b); congruence. Qed.

(* ---- generic dictionaries ------------------------------------------------------ *)
Section Dict.
Context {K V : Type} (keq : K -> K -> bool).
Hypothesis keq_spec : forall a b, reflect (a = b) (keq a b).

Lemma dict_get_set k k' (v : V) d :
  dict_get keq k (dict_set keq k' v d) =
  if keq k k' then Some v else dict_get keq k d.
Proof.
  induction d as [|[k0 v0] r IH]; cbn [dict_set dict_get].
  - reflexivity.
  - destruct (keq_spec k' k0).
    + subst. cbn [dict_get]. destruct (keq_spec k k0); reflexivity.
    + cbn [dict_get]. rewrite IH.
      destruct (keq_spec k k0), (keq_spec k k'); subst; congruence.
Qed.

Lemma dict_set_keys k (v : V) d :
  forall x, In x (map fst (dict_set keq k v d)) <-> x = k \/ In x (map fst d).
Proof.
  induction d as [|[k0 v0] r IH]; intro x; cbn [dict_set map fst In].
  - intuition.
  - destruct (keq_spec k k0).
    + subst. cbn [map fst In]. intuition.
    + cbn [map fst In]. rewrite IH. intuition.
Qed.

Lemma dict_set_nodup k (v : V) d :
  NoDup (map fst d) -> NoDup (map fst (dict_set keq k v d)).
Proof.
  induction d as [|[k0 v0] r IH]; intro H; cbn [dict_set map fst].
  - constructor; [intros []|constructor].
  - inversion H; subst. destruct (keq_spec k k0).
    + subst. cbn [map fst]. constructor; auto.
    + cbn [map fst]. constructor; auto.
      rewrite dict_set_keys. intros [E|E]; [congruence|auto].
Qed.

Lemma dict_get_update k (d e : list (K * V)) :
  dict_get keq k (dict_update keq d e) =
  match dict_get keq k (rev e) with
  | Some v => Some v
  | None => dict_get keq k d
  end.
Proof.
  unfold dict_update. revert d; induction e as [|[k0 v0] e IH]; intro d.
  - reflexivity.
  - cbn [fold_left fst snd rev]. rewrite IH, dict_get_set.
    assert (G : forall l, dict_get keq k (l ++ [(k0, v0)]) =
              match dict_get keq k l with
              | Some v => Some v
              | None => if keq k k0 then Some v0 else None
              end).
    { induction l as [|[k1 v1] l IHl]; cbn [app dict_get]; [reflexivity|].
      destruct (keq k k1); auto. }
    rewrite G. destruct (dict_get keq k (rev e)); auto.
    destruct (keq k k0); auto.
Qed.

Lemma dict_update_nodup (d e : list (K * V)) :
  NoDup (map fst d) -> NoDup (map fst (dict_update keq d e)).
Proof.
  unfold dict_update. revert d; induction e as [|[k0 v0] e IH]; intros d H; auto.
  cbn [fold_left]. apply IH. apply dict_set_nodup; auto.
Qed.

Lemma dict_update_keys (d e : list (K * V)) x :
  In x (map fst (dict_update keq d e)) <-> In x (map fst d) \/ In x (map fst e).
Proof.
  unfold dict_update. revert d; induction e as [|[k0 v0] e IH]; intro d.
  - cbn. intuition.
  - cbn [fold_left fst snd map In]. rewrite IH, dict_set_keys. intuition.
Qed.

Lemma dict_get_in k (v : V) d : dict_get keq k d = Some v -> In (k, v) d.
Proof.
  induction d as [|[k0 v0] r IH]; cbn [dict_get]; [discriminate|].
  destruct (keq_spec k k0).
  - intro E; inversion E; subst. left; reflexivity.
  - intro E. right. auto.
Qed.

Lemma dict_get_nodup_in k (v : V) d :
  NoDup (map fst d) -> In (k, v) d -> dict_get keq k d = Some v.
Proof.
  induction d as [|[k0 v0] r IH]; intros ND Hin; [destruct Hin|].
  inversion ND; subst. cbn [dict_get]. destruct Hin as [E|Hin].
  - inversion E; subst. destruct (keq_spec k k); congruence.
  - destruct (keq_spec k k0).
    + subst. exfalso. apply H1. apply in_map_iff. exists (k0, v). auto.
    + auto.
Qed.

Lemma dict_get_none k (d : list (K * V)) :
  dict_get keq k d = None <-> ~ In k (map fst d).
Proof.
  induction d as [|[k0 v0] r IH]; cbn [dict_get map fst In].
  - intuition.
  - destruct (keq_spec k k0).
    + subst. split; [discriminate|]. intro H. exfalso. apply H. auto.
    + rewrite IH. intuition.
Qed.

Lemma mem_spec k (l : list K) : mem keq k l = true <-> In k l.
Proof.
  induction l as [|x r IH]; cbn [mem In].
  - split; [discriminate|tauto].
  - rewrite orb_true_iff, IH. destruct (keq_spec k x); intuition; try congruence.
Qed.

Lemma set_add_in k (l : list K) x : In x (set_add keq k l) <-> x = k \/ In x l.
Proof.
  unfold set_add. destruct (mem keq k l) eqn:E.
  - apply mem_spec in E. intuition. subst; auto.
  - rewrite in_app_iff. cbn. intuition.
Qed.


Lemma set_union_in (a b : list K) x :
  In x (set_union keq a b) <-> In x a \/ In x b.
Proof.
  unfold set_union. revert a; induction b as [|k b IH]; intro a.
  - cbn. intuition.
  - cbn [fold_left In]. rewrite IH, set_add_in. intuition.
Qed.

Lemma subset_spec (a b : list K) :
  subset keq a b = true <-> (forall x, In x a -> In x b).
Proof.
  unfold subset. rewrite forallb_forall.
  split; intros H x Hx; specialize (H x Hx); apply mem_spec; auto.
Qed.
End Dict.

Lemma string_eqb_spec' (a b : string) : reflect (a = b) (String.eqb a b).
Proof. apply String.eqb_spec. Qed.

Lemma nodup_snoc {A} (l : list A) x : NoDup l -> ~ In x l -> NoDup (l ++ [x]).
Proof.
  induction l; intros ND Hx; cbn.
  - constructor; [intros []|constructor].
  - inversion ND; subst. constructor.
    + rewrite in_app_iff. cbn. intros [H|[H|[]]]; [auto|].
      subst. apply Hx. left; auto.
    + apply IHl; auto. intro; apply Hx; right; auto.
Qed.

Lemma set_add_nodup {K} (keq : K -> K -> bool)
    (keq_spec : forall a b, reflect (a = b) (keq a b)) k (l : list K) :
  NoDup l -> NoDup (set_add keq k l).
Proof.
  intro H. unfold set_add. destruct (mem keq k l) eqn:E; auto.
  apply nodup_snoc; auto. rewrite <- (mem_spec keq keq_spec). congruence.
Qed.

Lemma set_union_nodup {K} (keq : K -> K -> bool)
    (keq_spec : forall a b, reflect (a = b) (keq a b)) (a b : list K) :
  NoDup a -> NoDup (set_union keq a b).
Proof.
  unfold set_union. revert a; induction b as [|k b IH]; intros a H; auto.
  cbn [fold_left]. apply IH. apply set_add_nodup; auto.
Qed.

(* ---- assignments that coincide on a set of bits -------------------------------- *)
Definition agree (l : list bit) (a a' : bitasg) : Prop :=
  forall b, In b l -> a b = a' b.
Definition uses_only (l : list bit) (p : pred) : Prop :=
  forall a a', agree l a a' -> p a = p a'.
Definition exteq (a a' : bitasg) : Prop := forall b, a b = a' b.

Lemma uses_only_exteq l p a a' : uses_only l p -> exteq a a' -> p a = p a'.
Proof. intros H E. apply H. intros b _. apply E. Qed.

Lemma uses_only_incl l l' p :
  (forall b, In b l -> In b l') -> uses_only l p -> uses_only l' p.
Proof. intros Hi H a a' Ha. apply H. intros b Hb. apply Ha. auto. Qed.

Lemma asgs_from_spec bits : forall base a0,
  In a0 (asgs_from base bits) -> forall b, ~ In b bits -> a0 b = base b.
Proof.
  induction bits as [|c r IH]; intros base a0 Hin b Hb.
  - destruct Hin as [<-|[]]. reflexivity.
  - cbn [asgs_from] in Hin. apply in_app_iff in Hin.
    assert (b <> c) by (intro; subst; apply Hb; left; auto).
    destruct Hin as [Hin|Hin]; apply IH with (b := b) in Hin;
      try (intro; apply Hb; right; auto); rewrite Hin; apply upd_other; auto.
Qed.

Lemma asgs_from_complete bits : forall base (a : bitasg),
  exists a0, In a0 (asgs_from base bits) /\
    (forall b, In b bits -> a0 b = a b) /\
    (forall b, ~ In b bits -> a0 b = base b).
Proof.
  induction bits as [|c r IH]; intros base a.
  - exists base. cbn. intuition.
  - destruct (IH (upd base c (a c)) a) as (a0 & Hin & Hon & Hoff).
    exists a0. split; [|split].
    + cbn [asgs_from]. apply in_app_iff. destruct (a c); auto.
    + intros b [<-|Hb]; [|auto].
      destruct (in_dec (fun x y => reflect_dec _ _ (bit_eqb_spec x y)) c r) as [Hc|Hc].
      * auto.
      * rewrite Hoff by auto. apply upd_same.
    + intros b Hb.
      assert (b <> c) by (intro; subst; apply Hb; left; auto).
      rewrite Hoff by (intro; apply Hb; right; auto). apply upd_other; auto.
Qed.

Lemma all_asgs_complete bits (a : bitasg) :
  exists a0, In a0 (all_asgs bits) /\ agree bits a0 a.
Proof.
  destruct (asgs_from_complete bits zero_asg a) as (a0 & H1 & H2 & _).
  exists a0. split; auto.
Qed.

(* quantification over the tabulated assignments = over all assignments *)
Lemma forallb_all_asgs univ (q : bitasg -> bool) :
  (forall a a', agree univ a a' -> q a = q a') ->
  (forallb q (all_asgs univ) = true <-> forall a, q a = true).
Proof.
  intro Hq. rewrite forallb_forall. split.
  - intros H a. destruct (all_asgs_complete univ a) as (a0 & Hin & Hag).
    rewrite <- (Hq a0 a Hag). auto.
  - intros H a _. auto.
Qed.

Lemma existsb_all_asgs univ (q : bitasg -> bool) :
  (forall a a', agree univ a a' -> q a = q a') ->
  (existsb q (all_asgs univ) = true <-> exists a, q a = true).
Proof.
  intro Hq. rewrite existsb_exists. split.
  - intros (a & _ & H). eauto.
  - intros (a & H). destruct (all_asgs_complete univ a) as (a0 & Hin & Hag).
    exists a0. split; auto. rewrite (Hq a0 a Hag). auto.
Qed.

Lemma agree_upd l a a' b v : agree l a a' -> agree l (upd a b v) (upd a' b v).
Proof.
  intros H c Hc. unfold upd. destruct (bit_eqb c b); auto.
Qed.

(* ---- support --------------------------------------------------------------------- *)
Definition depends_on (p : pred) (b : bit) : Prop :=
  exists a, p (upd a b true) <> p (upd a b false).

Lemma depends_b_spec univ p b : uses_only univ p ->
  (depends_b univ p b = true <-> depends_on p b).
Proof.
  intro Hu. unfold depends_b, depends_on.
  rewrite existsb_all_asgs.
  - split; intros (a & H); exists a.
    + destruct (p (upd a b true)), (p (upd a b false)); cbn in H; congruence.
    + destruct (p (upd a b true)), (p (upd a b false)); cbn; congruence.
  - intros a a' Ha. f_equal; apply Hu; apply agree_upd; auto.
Qed.

Theorem bsupport_spec univ p b : uses_only univ p ->
  (In b (bsupport univ p) <-> In b univ /\ depends_on p b).
Proof.
  intro Hu. unfold bsupport. rewrite filter_In, depends_b_spec by auto. reflexivity.
Qed.

Definition indep (p : pred) (b : bit) : Prop := forall a v, p (upd a b v) = p a.

Lemma not_depends_indep univ p b : uses_only univ p ->
  ~ depends_on p b -> indep p b.
Proof.
  intros Hu Hn a v.
  assert (E : p (upd a b true) = p (upd a b false)).
  { destruct (bool_dec (p (upd a b true)) (p (upd a b false))); auto.
    exfalso. apply Hn. exists a. auto. }
  assert (X : p (upd a b (a b)) = p a).
  { apply uses_only_exteq with (l := univ); auto.
    intro c. unfold upd. destruct (bit_eqb_spec c b); subst; auto. }
  destruct v, (a b) eqn:Eab; congruence.
Qed.

Lemma outside_indep univ p b : uses_only univ p -> ~ In b univ -> indep p b.
Proof.
  intros Hu Hn a v. apply Hu. intros c Hc. apply upd_other. intro; subst; auto.
Qed.

Lemma indep_not_in_support univ p b : uses_only univ p ->
  ~ In b (bsupport univ p) -> indep p b.
Proof.
  intros Hu Hn.
  destruct (in_dec (fun x y => reflect_dec _ _ (bit_eqb_spec x y)) b univ) as [Hi|Hi].
  - apply (not_depends_indep univ); auto. intro Hd. apply Hn.
    apply bsupport_spec; auto.
  - apply (outside_indep univ); auto.
Qed.

(* overwrite the bits of l that satisfy [sel] with the values of a' *)
Fixpoint overwrite (sel : bit -> bool) (l : list bit) (a a' : bitasg) : bitasg :=
  match l with
  | [] => a
  | b :: r => if sel b then upd (overwrite sel r a a') b (a' b)
              else overwrite sel r a a'
  end.

Lemma overwrite_val sel l a a' b :
  overwrite sel l a a' b = if sel b && existsb (bit_eqb b) l then a' b else a b.
Proof.
  induction l as [|c r IH]; cbn [overwrite existsb].
  - rewrite andb_false_r. reflexivity.
  - destruct (sel c) eqn:Ec.
    + unfold upd. destruct (bit_eqb_spec b c).
      * subst. rewrite Ec. reflexivity.
      * rewrite IH. reflexivity.
    + rewrite IH. destruct (bit_eqb_spec b c); [subst; rewrite Ec|]; reflexivity.
Qed.

Lemma overwrite_pres sel l p a a' :
  (forall b, sel b = true -> indep p b) -> p (overwrite sel l a a') = p a.
Proof.
  intro H. induction l as [|c r IH]; cbn [overwrite]; auto.
  destruct (sel c) eqn:Ec; auto. rewrite H by auto. auto.
Qed.

(* a predicate reads only the bits of its support *)
Theorem uses_only_support univ p : uses_only univ p ->
  uses_only (bsupport univ p) p.
Proof.
  intros Hu a a' Ha.
  set (sel := fun b => negb (mem bit_eqb b (bsupport univ p))).
  rewrite <- (overwrite_pres sel univ p a a').
  2:{ intros b Hb. apply (indep_not_in_support univ); auto.
      unfold sel in Hb. rewrite <- (mem_spec bit_eqb bit_eqb_spec).
      destruct (mem bit_eqb b (bsupport univ p)); cbn in Hb; congruence. }
  apply Hu. intros b Hb. rewrite overwrite_val.
  assert (existsb (bit_eqb b) univ = true).
  { apply existsb_exists. exists b. split; auto. apply bit_eqb_refl. }
  rewrite H, andb_true_r. unfold sel.
  destruct (mem bit_eqb b (bsupport univ p)) eqn:E; cbn; auto.
  apply Ha. apply (mem_spec bit_eqb bit_eqb_spec). auto.
Qed.

Lemma bsupport_incl univ p b : In b (bsupport univ p) -> In b univ.
Proof. unfold bsupport. rewrite filter_In. tauto. Qed.

(* ---- the truth tables of the correspondence satisfy uses_only ------------------- *)
Lemma of_tt_uses_only bits t : uses_only bits (of_tt bits t).
Proof.
  unfold of_tt. revert bits; induction t as [b|lo IHlo hi IHhi|t' IH];
    intros bits a a' Ha; cbn [eval_tt]; [reflexivity| |].
  - destruct bits as [|c r]; [reflexivity|].
    rewrite (Ha c) by (left; auto).
    destruct (a' c); [apply IHhi|apply IHlo]; intros x Hx; apply Ha; right; auto.
  - destruct bits as [|c r]; [reflexivity|].
    apply IH. intros x Hx; apply Ha; right; auto.
Qed.

(* ---- Boolean operations ----------------------------------------------------------- *)
Lemma uses_only_bnot l p : uses_only l p -> uses_only l (bnot p).
Proof. intros H a a' Ha. unfold bnot. f_equal. auto. Qed.

Lemma uses_only_bin l (f : bool -> bool -> bool) p q :
  uses_only l p -> uses_only l q -> uses_only l (fun a => f (p a) (q a)).
Proof. intros Hp Hq a a' Ha. rewrite (Hp a a' Ha), (Hq a a' Ha). reflexivity. Qed.

(* ---- quantification at the bit level ----------------------------------------------- *)
Lemma bexist_spec univ bs p : uses_only univ p -> forall a,
  bexist bs p a = true <->
  exists a', (forall b, ~ In b bs -> a' b = a b) /\ p a' = true.
Proof.
  intro Hu. induction bs as [|c r IH]; intro a; cbn [bexist fold_right].
  - split.
    + intro H. exists a. auto.
    + intros (a' & Hag & H). rewrite <- H. apply (uses_only_exteq univ); auto.
      intro b. symmetry. apply Hag. intros [].
  - fold (bexist r p). unfold bexist1. rewrite orb_true_iff, !IH. split.
    + intros [(a' & Hag & H)|(a' & Hag & H)]; exists a'; split; auto;
        intros b Hb; rewrite Hag by (intro; apply Hb; right; auto);
        apply upd_other; intro; subst; apply Hb; left; auto.
    + intros (a' & Hag & H).
      assert (G : forall b, ~ In b r -> a' b = upd a c (a' c) b).
      { intros b Hb. destruct (bit_eqb_spec b c) as [->|Hn].
        - rewrite upd_same. reflexivity.
        - rewrite upd_other by auto. apply Hag. intros [E|E]; [congruence|auto]. }
      destruct (a' c); [right|left]; exists a'; auto.
Qed.

Lemma uses_only_bexist univ bs p : uses_only univ p -> uses_only univ (bexist bs p).
Proof.
  intro Hu. induction bs as [|c r IH]; cbn [bexist fold_right]; auto.
  fold (bexist r p). intros a a' Ha. unfold bexist1.
  f_equal; apply IH; apply agree_upd; auto.
Qed.

(* ---- tables ------------------------------------------------------------------------- *)
Definition wf_tbl (t : tbl) : Prop :=
  NoDup (map fst t) /\ forall x h, In (x, DInt h) t -> wf_hint h.

Definition in_range (t : tbl) (f : fasg) : Prop :=
  forall x d, In (x, d) t -> val_in_range d (f x) = true.

Lemma tlookup_in t x d : tlookup x t = Some d -> In (x, d) t.
Proof. apply (dict_get_in String.eqb string_eqb_spec'). Qed.

Lemma in_tlookup t x d : NoDup (map fst t) -> In (x, d) t -> tlookup x t = Some d.
Proof. apply (dict_get_nodup_in String.eqb string_eqb_spec'). Qed.

Lemma in_bitnames x d b :
  In b (bitnames x d) <->
  fst b = x /\ match d with
               | DBool => snd b = 0%nat
               | DInt h => (snd b < wnat h)%nat
               end.
Proof.
  destruct b as [y i]. destruct d as [|h]; cbn [bitnames fst snd].
  - cbn. split; [intros [E|[]]; inversion E; auto | intros [-> ->]; auto].
  - rewrite in_map_iff. split.
    + intros (j & E & Hj). inversion E; subst. apply in_seq in Hj. split; auto; lia.
    + intros [-> Hi]. exists i. split; auto. apply in_seq. lia.
Qed.

Lemma in_all_bits t b :
  In b (all_bits t) <-> exists x d, In (x, d) t /\ In b (bitnames x d).
Proof.
  unfold all_bits. rewrite in_flat_map. split.
  - intros ([x d] & Hin & Hb). exists x, d. auto.
  - intros (x & d & Hin & Hb). exists (x, d). auto.
Qed.

Lemma zbits_map n z :
  zbits n z = map (fun i => Z.testbit z (Z.of_nat i)) (seq 0 n).
Proof.
  induction n.
  - reflexivity.
  - rewrite zbits_snoc, seq_S, map_app, IHn. reflexivity.
Qed.

Lemma nth_map_seq {A} (f : nat -> A) n i d : (i < n)%nat ->
  nth i (map f (seq 0 n)) d = f i.
Proof.
  intro Hi. rewrite (nth_indep _ d (f 0%nat)) by (rewrite map_length, seq_length; auto).
  rewrite map_nth, seq_nth by auto. reflexivity.
Qed.

Lemma encode_bitnames t f x h z :
  tlookup x t = Some (DInt h) -> f x = VZ z ->
  map (encode t f) (bitnames x (DInt h)) = encode_val h z.
Proof.
  intros Hl Hf. unfold encode_val. rewrite zbits_map. cbn [bitnames].
  rewrite map_map. apply map_ext. intro i. unfold encode. cbn [fst snd].
  rewrite Hl, Hf. reflexivity.
Qed.

(* decode after encode gives back the assignment (on declared variables) *)
Theorem decode_encode_f t f x d : wf_tbl t -> in_range t f -> In (x, d) t ->
  decode t (encode t f) x = f x.
Proof.
  intros [ND Hwf] Hr Hin. pose proof (in_tlookup t x d ND Hin) as Hl.
  specialize (Hr x d Hin). unfold decode. rewrite Hl.
  destruct d as [|h].
  - unfold encode. cbn [fst]. rewrite Hl.
    destruct (f x); cbn in Hr; [reflexivity|discriminate].
  - destruct (f x) as [|z] eqn:Hf; cbn in Hr; [discriminate|].
    rewrite (encode_bitnames t f x h z) by auto.
    rewrite decode_encode; auto. eapply Hwf; eauto.
Qed.

(* encode after decode gives back the bits (on declared bits) *)
Theorem encode_decode_b t a b : wf_tbl t -> In b (all_bits t) ->
  encode t (decode t a) b = a b.
Proof.
  intros [ND Hwf] Hb. apply in_all_bits in Hb. destruct Hb as (x & d & Hin & Hb).
  pose proof (in_tlookup t x d ND Hin) as Hl.
  apply in_bitnames in Hb. destruct Hb as [Hx Hi]. destruct b as [y i].
  cbn [fst snd] in *. subst y.
  unfold encode, decode. cbn [fst snd]. rewrite Hl.
  destruct d as [|h].
  - subst i. reflexivity.
  - assert (Hw : wf_hint h) by (eapply Hwf; eauto).
    destruct (decode_in_limits h (map a (bitnames x (DInt h))) Hw) as (z & D & _ & E).
    { cbn [bitnames]. rewrite !map_length, seq_length. reflexivity. }
    rewrite D. unfold encode_val in E.
    rewrite <- (zbits_nth (wnat h) z i Hi), E. cbn [bitnames].
    rewrite map_map. apply (nth_map_seq (fun j => a (x, j))). auto.
Qed.

Theorem decode_in_range t a : wf_tbl t -> in_range t (decode t a).
Proof.
  intros [ND Hwf] x d Hin. pose proof (in_tlookup t x d ND Hin) as Hl.
  unfold decode. rewrite Hl. destruct d as [|h]; [reflexivity|].
  assert (Hw : wf_hint h) by (eapply Hwf; eauto).
  destruct (decode_in_limits h (map a (bitnames x (DInt h))) Hw) as (z & D & I & _).
  { cbn [bitnames]. rewrite !map_length, seq_length. reflexivity. }
  rewrite D. exact I.
Qed.

(* every bit assignment is, on the declared bits, the refinement of an
   assignment of representable values *)
Corollary encode_decode_agree t a : wf_tbl t ->
  agree (all_bits t) (encode t (decode t a)) a.
Proof. intros H b Hb. apply encode_decode_b; auto. Qed.

Lemma sem_decode t u a : wf_tbl t -> uses_only (all_bits t) u ->
  sem t u (decode t a) = u a.
Proof. intros Hwf Hu. unfold sem. apply Hu. apply encode_decode_agree; auto. Qed.

(* encode reads f only at the variable of the bit *)
Lemma encode_local t f g b : f (fst b) = g (fst b) -> encode t f b = encode t g b.
Proof. intro H. unfold encode. rewrite H. reflexivity. Qed.

(* ---- bit_table / refine_vars ---------------------------------------------------------- *)
Lemma bit_table_spec vars t : (forall x, In x vars -> exists d, tlookup x t = Some d) ->
  exists bs, bit_table vars t = Some bs /\ NoDup bs /\
    forall b, In b bs <->
      exists x d, In x vars /\ tlookup x t = Some d /\ In b (bitnames x d).
Proof.
  induction vars as [|x r IH]; intro Hd.
  - exists []. split; [reflexivity|]. split; [constructor|].
    intro b. split; [intros []|intros (x & d & [] & _)].
  - destruct (Hd x (or_introl eq_refl)) as (d & Hl).
    destruct IH as (rest & E & ND & Hin); [intros; apply Hd; right; auto|].
    cbn [bit_table]. rewrite Hl, E.
    eexists. split; [reflexivity|]. split.
    + apply (set_union_nodup bit_eqb bit_eqb_spec).
      destruct d; cbn [bitnames].
      * constructor; [intros []|constructor].
      * apply FinFun.Injective_map_NoDup; [|apply seq_NoDup].
        intros i j Eij. inversion Eij; auto.
    + intro b. rewrite (set_union_in bit_eqb bit_eqb_spec), Hin. split.
      * intros [Hb|(y & d' & Hy & Hl' & Hb)].
        -- exists x, d. cbn; auto.
        -- exists y, d'. cbn; auto.
      * intros (y & d' & [<-|Hy] & Hl' & Hb).
        -- left. congruence.
        -- right. eauto.
Qed.

Lemma bitnames_declared t x d b : wf_tbl t -> tlookup x t = Some d ->
  In b (bitnames x d) -> In b (all_bits t) /\ fst b = x.
Proof.
  intros _ Hl Hb. split.
  - apply in_all_bits. exists x, d. split; auto. apply tlookup_in; auto.
  - apply in_bitnames in Hb. tauto.
Qed.

Lemma declared_bit_lookup t b : wf_tbl t -> In b (all_bits t) ->
  exists d, tlookup (fst b) t = Some d /\ In b (bitnames (fst b) d).
Proof.
  intros [ND _] Hb. apply in_all_bits in Hb. destruct Hb as (x & d & Hin & Hb).
  pose proof Hb as Hb'. apply in_bitnames in Hb'. destruct Hb' as [<- _].
  exists d. split; auto. apply in_tlookup; auto.
Qed.

(* ---- Context.exist / forall --------------------------------------------------------- *)
Definition agree_off (qvars : list ident) (f f' : fasg) : Prop :=
  forall x, ~ In x qvars -> f' x = f x.

Lemma sem_ext t u f g : uses_only (all_bits t) u ->
  (forall x, f x = g x) -> sem t u f = sem t u g.
Proof.
  intros Hu E. unfold sem. apply Hu. intros b _. apply encode_local. apply E.
Qed.

Theorem exist_spec t qvars u : wf_tbl t -> uses_only (all_bits t) u ->
  (forall x, In x qvars -> exists d, tlookup x t = Some d) ->
  exists r, ctx_exist t qvars u = Some r /\ uses_only (all_bits t) r /\
    forall f, in_range t f ->
      (sem t r f = true <->
       exists f', in_range t f' /\ agree_off qvars f f' /\ sem t u f' = true).
Proof.
  intros Hwf Hu Hd. destruct qvars as [|q0 qr].
  - exists u. split; [reflexivity|]. split; auto. intros f Hf. split.
    + intro H. exists f. split; auto. split; auto. intros x _. reflexivity.
    + intros (f' & _ & Hag & H). rewrite <- H. apply sem_ext; auto.
      intro x. symmetry. apply Hag. intros [].
  - set (qvars := q0 :: qr) in *.
    destruct (bit_table_spec qvars t Hd) as (qbits & E & ND & Hq).
    exists (bexist qbits u). split; [unfold ctx_exist; fold qvars; rewrite E; reflexivity|].
    split; [apply uses_only_bexist; auto|].
    assert (Hqv : forall b, In b (all_bits t) -> (In b qbits <-> In (fst b) qvars)).
    { intros b Hb. rewrite Hq. split.
      - intros (x & d & Hx & Hl & Hbn). apply in_bitnames in Hbn.
        destruct Hbn as [-> _]. auto.
      - intro Hx. destruct (declared_bit_lookup t b Hwf Hb) as (d & Hl & Hbn).
        exists (fst b), d. auto. }
    intros f Hf. unfold sem at 1. rewrite (bexist_spec (all_bits t)) by auto. split.
    + intros (a' & Hag & H).
      exists (fun x => if mem String.eqb x qvars then decode t a' x else f x).
      split; [|split].
      * intros x d Hin. destruct (mem String.eqb x qvars).
        -- apply decode_in_range; auto.
        -- apply Hf; auto.
      * intros x Hx. destruct (mem String.eqb x qvars) eqn:Em; auto.
        apply (mem_spec String.eqb string_eqb_spec') in Em. tauto.
      * rewrite <- H. unfold sem. apply Hu. intros b Hb.
        destruct (mem String.eqb (fst b) qvars) eqn:Em.
        -- rewrite (encode_local t _ (decode t a') b) by (rewrite Em; reflexivity).
           apply encode_decode_b; auto.
        -- rewrite (encode_local t _ f b) by (rewrite Em; reflexivity).
           symmetry. apply Hag. rewrite Hqv by auto.
           rewrite <- (mem_spec String.eqb string_eqb_spec'). congruence.
    + intros (f' & Hf' & Hag & H).
      exists (fun b => if mem bit_eqb b qbits then encode t f' b else encode t f b).
      split.
      * intros b Hb. destruct (mem bit_eqb b qbits) eqn:Em; auto.
        apply (mem_spec bit_eqb bit_eqb_spec) in Em. tauto.
      * rewrite <- H. unfold sem. apply Hu. intros b Hb.
        destruct (mem bit_eqb b qbits) eqn:Em; auto.
        apply encode_local. symmetry. apply Hag.
        rewrite <- Hqv by auto.
        rewrite <- (mem_spec bit_eqb bit_eqb_spec). congruence.
Qed.

Theorem forall_spec t qvars u : wf_tbl t -> uses_only (all_bits t) u ->
  (forall x, In x qvars -> exists d, tlookup x t = Some d) ->
  exists r, ctx_forall t qvars u = Some r /\ uses_only (all_bits t) r /\
    forall f, in_range t f ->
      (sem t r f = true <->
       forall f', in_range t f' -> agree_off qvars f f' -> sem t u f' = true).
Proof.
  intros Hwf Hu Hd.
  destruct (exist_spec t qvars (bnot u) Hwf (uses_only_bnot _ _ Hu) Hd)
    as (r & E & Hur & Hr).
  exists (bnot r). unfold ctx_forall. rewrite E. split; [reflexivity|].
  split; [apply uses_only_bnot; auto|].
  intros f Hf. specialize (Hr f Hf). unfold sem, bnot in *. split.
  - intros H f' Hf' Hag.
    destruct (u (encode t f')) eqn:Eu; auto.
    assert (r (encode t f) = true).
    { apply Hr. exists f'. rewrite Eu. auto. }
    rewrite H0 in H. discriminate.
  - intro H. destruct (r (encode t f)) eqn:Er; auto.
    destruct (proj1 Hr eq_refl) as (f' & Hf' & Hag & Hn).
    rewrite (H f' Hf' Hag) in Hn. discriminate.
Qed.

(* ---- fol._refine_assignment ------------------------------------------------------------ *)
Definition bit_of_val (d : vdecl) (v : val) (i : nat) : option bool :=
  match d, v with
  | DBool, VB b => if Nat.eqb i 0 then Some b else None
  | DInt h, VZ z => if (i <? wnat h)%nat then Some (Z.testbit z (Z.of_nat i)) else None
  | _, _ => None
  end.

(* the bit-level meaning of a dictionary of values *)
Definition asg_bits (t : tbl) (m : fasgn) (b : bit) : option bool :=
  match dict_get String.eqb (fst b) m, tlookup (fst b) t with
  | Some v, Some d => bit_of_val d v (snd b)
  | _, _ => None
  end.

Definition vals_ok (t : tbl) (m : fasgn) : Prop :=
  NoDup (map fst m) /\
  forall x v, In (x, v) m -> exists d, tlookup x t = Some d /\ val_in_range d v = true.

Lemma combine_map_r {A B} (f : A -> B) l :
  combine l (map f l) = map (fun i => (i, f i)) l.
Proof. induction l; cbn; congruence. Qed.

Lemma int_bits_dict {V} x (g : nat -> V) w b :
  dict_get bit_eqb b (rev (map (fun i => ((x, i), g i)) (seq 0 w))) =
  if String.eqb (fst b) x && (snd b <? w)%nat then Some (g (snd b)) else None.
Proof.
  set (e := map (fun i => ((x, i), g i)) (seq 0 w)).
  assert (ND : NoDup (map fst (rev e))).
  { rewrite map_rev. apply NoDup_rev. unfold e. rewrite map_map. cbn [fst].
    apply FinFun.Injective_map_NoDup; [|apply seq_NoDup].
    intros i j E. inversion E; auto. }
  destruct b as [y i]. cbn [fst snd].
  destruct (String.eqb_spec y x) as [->|Hn]; cbn [andb].
  - destruct (Nat.ltb_spec i w).
    + apply (dict_get_nodup_in bit_eqb bit_eqb_spec); auto.
      rewrite <- in_rev. unfold e. apply in_map_iff. exists i. split; auto.
      apply in_seq. lia.
    + apply (dict_get_none bit_eqb bit_eqb_spec).
      rewrite map_rev, <- in_rev. unfold e. rewrite map_map. cbn [fst].
      rewrite in_map_iff. intros (j & E & Hj). inversion E; subst.
      apply in_seq in Hj. lia.
  - apply (dict_get_none bit_eqb bit_eqb_spec).
    rewrite map_rev, <- in_rev. unfold e. rewrite map_map. cbn [fst].
    rewrite in_map_iff. intros (j & E & Hj). inversion E; subst. congruence.
Qed.

Lemma refine_assignment_from_spec t : wf_tbl t -> forall m, vals_ok t m ->
  forall acc, exists r, refine_assignment_from t m acc = Some r /\
    (NoDup (map fst acc) -> NoDup (map fst r)) /\
    forall b, dict_get bit_eqb b r =
              match asg_bits t m b with
              | Some v => Some v
              | None => dict_get bit_eqb b acc
              end.
Proof.
  intros Hwf. induction m as [|[x v] m IH]; intros [ND Hok] acc.
  - exists acc. split; [reflexivity|]. split; auto.
  - inversion ND as [|? ? Hx ND']; subst.
    assert (Hok' : vals_ok t m) by (split; auto; intros; apply Hok; right; auto).
    destruct (Hok x v (or_introl eq_refl)) as (d & Hl & Hr).
    assert (Hxm : dict_get String.eqb x m = None)
      by (apply (dict_get_none String.eqb string_eqb_spec'); auto).
    cbn [refine_assignment_from]. rewrite Hl.
    destruct d as [|h], v as [bv|z]; cbn in Hr; try discriminate.
    + destruct (IH Hok' (dict_set bit_eqb (x, 0%nat) bv acc)) as (r & E & NDr & Hg).
      exists r. split; auto. split.
      * intro Ha. apply NDr. apply (dict_set_nodup bit_eqb bit_eqb_spec); auto.
      * intro b. rewrite Hg, (dict_get_set bit_eqb bit_eqb_spec).
        unfold asg_bits. cbn [dict_get].
        destruct (String.eqb_spec (fst b) x) as [Ex|Ex].
        -- rewrite Ex, Hxm, Hl. cbn [bit_of_val].
           destruct b as [y i]. cbn [fst snd] in *. subst y.
           destruct (Nat.eqb_spec i 0).
           ++ subst. rewrite bit_eqb_refl. reflexivity.
           ++ destruct (bit_eqb_spec (x, i) (x, 0%nat)) as [E0|E0]; [inversion E0; lia|].
              reflexivity.
        -- destruct (bit_eqb_spec b (x, 0%nat)) as [E0|E0];
             [subst b; cbn in Ex; congruence|].
           reflexivity.
    + assert (Hw : wf_hint h) by (destruct Hwf as [_ H]; eapply H; apply tlookup_in; eauto).
      rewrite int_to_bit_assignment_spec by auto.
      unfold encode_val. rewrite zbits_map, combine_map_r, map_map. cbn [fst snd].
      set (e := map (fun i => ((x, i), Z.testbit z (Z.of_nat i))) (seq 0 (wnat h))).
      destruct (IH Hok' (dict_update bit_eqb acc e)) as (r & E & NDr & Hg).
      exists r. split; auto. split.
      * intro Ha. apply NDr. apply (dict_update_nodup bit_eqb bit_eqb_spec); auto.
      * intro b. rewrite Hg, (dict_get_update bit_eqb bit_eqb_spec).
        unfold e. rewrite (int_bits_dict x (fun i => Z.testbit z (Z.of_nat i))).
        unfold asg_bits. cbn [dict_get].
        destruct (String.eqb_spec (fst b) x) as [Ex|Ex]; cbn [andb].
        -- rewrite Ex, Hxm, Hl. cbn [bit_of_val].
           destruct (snd b <? wnat h)%nat; reflexivity.
        -- reflexivity.
Qed.

Definition foverride (f : fasg) (m : fasgn) : fasg :=
  fun x => match dict_get String.eqb x m with Some v => v | None => f x end.

Lemma asg_bits_encode t m f b d v : wf_tbl t ->
  tlookup (fst b) t = Some d -> In b (bitnames (fst b) d) ->
  dict_get String.eqb (fst b) m = Some v -> val_in_range d v = true ->
  asg_bits t m b = Some (encode t (foverride f m) b).
Proof.
  intros Hwf Hl Hb Hm Hr. unfold asg_bits, encode, foverride. rewrite Hm, Hl.
  apply in_bitnames in Hb. destruct Hb as [_ Hi].
  destruct d as [|h], v as [bv|z]; cbn in Hr; try discriminate; cbn [bit_of_val].
  - rewrite Hi. reflexivity.
  - destruct (Nat.ltb_spec (snd b) (wnat h)); [reflexivity|lia].
Qed.

(* substitution of representable values = substitution in the set of assignments *)
Theorem let_values_spec t defs u : wf_tbl t -> uses_only (all_bits t) u ->
  vals_ok t defs ->
  exists r, ctx_let_vals t defs u = Some r /\ uses_only (all_bits t) r /\
    forall f, sem t r f = sem t u (foverride f defs).
Proof.
  intros Hwf Hu Hok.
  destruct (refine_assignment_from_spec t Hwf defs Hok []) as (d & E & _ & Hg).
  assert (Hsem : forall a b, In b (all_bits t) ->
     (match dict_get bit_eqb b d with Some v => v | None => a b end) =
     match asg_bits t defs b with Some v => v | None => a b end).
  { intros a b _. rewrite Hg. destruct (asg_bits t defs b); reflexivity. }
  exists (match defs with [] => u | _ => blet_vals d u end).
  split; [|split].
  - unfold ctx_let_vals, refine_assignment. rewrite E. destruct defs; reflexivity.
  - destruct defs; auto. intros a a' Ha. unfold blet_vals. apply Hu.
    intros b Hb. destruct (dict_get bit_eqb b d); auto.
  - intro f.
    assert (G : sem t (blet_vals d u) f = sem t u (foverride f defs)).
    { unfold sem, blet_vals. apply Hu. intros b Hb. rewrite Hsem by auto.
      destruct (declared_bit_lookup t b Hwf Hb) as (dx & Hl & Hbn).
      destruct (dict_get String.eqb (fst b) defs) as [v|] eqn:Em.
      - destruct Hok as [ND Hok].
        destruct (Hok (fst b) v) as (d' & Hl' & Hr);
          [apply (dict_get_in String.eqb string_eqb_spec'); auto|].
        assert (d' = dx) by congruence. subst d'.
        rewrite (asg_bits_encode t defs f b dx v); auto.
      - unfold asg_bits. rewrite Em. apply encode_local.
        unfold foverride. rewrite Em. reflexivity. }
    destruct defs; auto.
Qed.

(* ---- Context.assign_from ----------------------------------------------------------------- *)
Lemma forallb_ext_in' {A} (f g : A -> bool) l :
  (forall x, In x l -> f x = g x) -> forallb f l = forallb g l.
Proof.
  induction l; cbn; intros H; auto. rewrite H by auto. f_equal. auto.
Qed.

Lemma val_eqb_spec a b : reflect (a = b) (val_eqb a b).
Proof.
  destruct a as [x|x], b as [y|y]; cbn [val_eqb]; try (constructor; congruence).
  - destruct (Bool.eqb_spec x y); constructor; congruence.
  - destruct (Z.eqb_spec x y); constructor; congruence.
Qed.

Definition extends (f : fasg) (m : fasgn) : Prop :=
  forall x v, In (x, v) m -> f x = v.

Theorem assign_from_spec t m : wf_tbl t -> vals_ok t m ->
  exists r, ctx_assign_from t m = Some r /\ uses_only (all_bits t) r /\
    forall f, in_range t f -> (sem t r f = true <-> extends f m).
Proof.
  intros Hwf Hok.
  destruct (refine_assignment_from_spec t Hwf m Hok []) as (d & E & NDd & Hg).
  specialize (NDd (NoDup_nil _)).
  exists (bcube d). unfold ctx_assign_from, refine_assignment. rewrite E.
  split; [reflexivity|].
  assert (Hkeys : forall b v, In (b, v) d -> In b (all_bits t)).
  { intros b v Hin.
    apply (dict_get_nodup_in bit_eqb bit_eqb_spec) in Hin; auto.
    rewrite Hg in Hin. cbn [dict_get] in Hin. unfold asg_bits in Hin.
    destruct (dict_get String.eqb (fst b) m) as [w|]; [|discriminate].
    destruct (tlookup (fst b) t) as [dx|] eqn:Hl; [|discriminate].
    apply in_all_bits. exists (fst b), dx. split; [apply tlookup_in; auto|].
    apply in_bitnames. split; auto.
    destruct dx as [|h], w as [bv|z]; cbn [bit_of_val] in Hin; try discriminate.
    - destruct (Nat.eqb_spec (snd b) 0); [auto|discriminate].
    - destruct (Nat.ltb_spec (snd b) (wnat h)); [auto|discriminate]. }
  split.
  - intros a a' Ha. unfold bcube. apply forallb_ext_in'.
    intros [b v] Hin. cbn [fst snd]. rewrite (Ha b); eauto.
  - intros f Hf. unfold sem, bcube. rewrite forallb_forall.
    destruct Hok as [NDm Hok]. split.
    + intros H x v Hin.
      destruct (Hok x v Hin) as (dx & Hl & Hr).
      pose proof (dict_get_nodup_in String.eqb string_eqb_spec' x v m NDm Hin) as Hm.
      assert (Hb : forall i, In (x, i) (bitnames x dx) ->
                 encode t f (x, i) = encode t (foverride f m) (x, i)).
      { intros i Hi.
        pose proof (asg_bits_encode t m f (x, i) dx v Hwf Hl Hi Hm Hr) as Ha.
        assert (Hd : dict_get bit_eqb (x, i) d = Some (encode t (foverride f m) (x, i))).
        { rewrite Hg, Ha. reflexivity. }
        apply (dict_get_in bit_eqb bit_eqb_spec) in Hd.
        specialize (H _ Hd). cbn [fst snd] in H. apply eqb_prop in H. exact H. }
      pose proof (Hf x dx (tlookup_in _ _ _ Hl)) as Hfx.
      assert (Hov : foverride f m x = v) by (unfold foverride; rewrite Hm; reflexivity).
      destruct dx as [|h].
      * specialize (Hb 0%nat (or_introl eq_refl)).
        unfold encode in Hb. cbn [fst snd] in Hb. rewrite Hl, Hov in Hb.
        destruct (f x), v; cbn in Hfx, Hr; try discriminate. congruence.
      * destruct (f x) as [|zf] eqn:Efx, v as [|z]; cbn in Hfx, Hr; try discriminate.
        f_equal. destruct Hwf as [_ Hwfh].
        apply (encode_val_inj h); auto; [eapply Hwfh; apply tlookup_in; eauto|].
        rewrite <- (encode_bitnames t f x h zf) by auto.
        rewrite <- (encode_bitnames t (foverride f m) x h z) by auto.
        apply map_ext_in. intros [y i] Hi.
        pose proof Hi as Hi'. apply in_bitnames in Hi'. destruct Hi' as [Ey _].
        cbn [fst] in Ey. subst y. apply Hb. auto.
    + intros Hext [b v] Hin. cbn [fst snd].
      apply (dict_get_nodup_in bit_eqb bit_eqb_spec) in Hin; auto.
      rewrite Hg in Hin. cbn [dict_get] in Hin.
      destruct (asg_bits t m b) as [v'|] eqn:Ea; [|discriminate].
      inversion Hin; subst v'. clear Hin.
      unfold asg_bits in Ea.
      destruct (dict_get String.eqb (fst b) m) as [w|] eqn:Em; [|discriminate].
      destruct (tlookup (fst b) t) as [dx|] eqn:Hl; [|discriminate].
      apply (dict_get_in String.eqb string_eqb_spec') in Em.
      pose proof (Hext _ _ Em) as Hfx.
      unfold encode. rewrite Hl, Hfx.
      destruct dx as [|h], w as [bv|z]; cbn [bit_of_val] in Ea; try discriminate.
      * destruct (Nat.eqb (snd b) 0); inversion Ea. apply eqb_reflx.
      * destruct (snd b <? wnat h)%nat; inversion Ea. apply eqb_reflx.
Qed.

(* ---- fol._refine_renaming / Context.let with variables ------------------------------------ *)
Definition declared_idx (d : vdecl) (i : nat) : bool :=
  match d with DBool => Nat.eqb i 0 | DInt h => (i <? wnat h)%nat end.

Lemma declared_idx_spec x d i : declared_idx d i = true <-> In (x, i) (bitnames x d).
Proof.
  rewrite in_bitnames. cbn [fst snd]. destruct d; cbn [declared_idx].
  - rewrite Nat.eqb_eq. tauto.
  - rewrite Nat.ltb_lt. tauto.
Qed.

(* the bit-level meaning of a renaming of variables *)
Definition ren_bits (t : tbl) (ren : list (ident * ident)) (b : bit) : option bit :=
  match dict_get String.eqb (fst b) ren, tlookup (fst b) t with
  | Some y, Some d => if declared_idx d (snd b) then Some (y, snd b) else None
  | _, _ => None
  end.

(* keys distinct (a dict); old and new have the same declaration; an integer
   is not renamed to itself (the code's "no overlap" assertion) *)
Definition ren_ok (t : tbl) (ren : list (ident * ident)) : Prop :=
  NoDup (map fst ren) /\
  forall x y, In (x, y) ren ->
    exists d, tlookup x t = Some d /\ tlookup y t = Some d /\
              match d with DInt _ => x <> y | DBool => True end.

Lemma combine_map_map {A B C} (f : A -> B) (g : A -> C) l :
  combine (map f l) (map g l) = map (fun i => (f i, g i)) l.
Proof. induction l; cbn; congruence. Qed.

Lemma refine_renaming_from_spec t : forall ren, ren_ok t ren ->
  forall acc, exists r, refine_renaming_from t ren acc = Some r /\
    forall b, dict_get bit_eqb b r =
              match ren_bits t ren b with
              | Some b' => Some b'
              | None => dict_get bit_eqb b acc
              end.
Proof.
  induction ren as [|[x y] ren IH]; intros [ND Hok] acc.
  - exists acc. split; [reflexivity|]. auto.
  - inversion ND as [|? ? Hx ND']; subst.
    assert (Hok' : ren_ok t ren) by (split; auto; intros; apply Hok; right; auto).
    destruct (Hok x y (or_introl eq_refl)) as (d & Hlx & Hly & Hne).
    assert (Hxm : dict_get String.eqb x ren = None)
      by (apply (dict_get_none String.eqb string_eqb_spec'); auto).
    cbn [refine_renaming_from]. rewrite Hlx, Hly. destruct d as [|h].
    + destruct (IH Hok' (dict_set bit_eqb (x, 0%nat) (y, 0%nat) acc)) as (r & E & Hg).
      exists r. split; auto.
      intro b. rewrite Hg, (dict_get_set bit_eqb bit_eqb_spec).
      unfold ren_bits. cbn [dict_get].
      destruct (String.eqb_spec (fst b) x) as [Ex|Ex].
      * rewrite Ex, Hxm, Hlx. cbn [declared_idx].
        destruct b as [z i]. cbn [fst snd] in *. subst z.
        destruct (Nat.eqb_spec i 0).
        -- subst. rewrite bit_eqb_refl. reflexivity.
        -- destruct (bit_eqb_spec (x, i) (x, 0%nat)) as [E0|E0]; [inversion E0; lia|].
           reflexivity.
      * destruct (bit_eqb_spec b (x, 0%nat)) as [E0|E0];
          [subst b; cbn in Ex; congruence|].
        reflexivity.
    + unfold dom_eqb. rewrite !Z.eqb_refl. cbn [andb negb].
      cbn [bitnames]. rewrite !map_length, !seq_length, Nat.eqb_refl. cbn [negb].
      assert (Hex : existsb (fun b => mem bit_eqb b (map (fun i => (y, i)) (seq 0 (wnat h))))
                      (map (fun i => (x, i)) (seq 0 (wnat h))) = false).
      { apply not_true_is_false. intro Ht. apply existsb_exists in Ht.
        destruct Ht as (b & Hb1 & Hb2). apply (mem_spec bit_eqb bit_eqb_spec) in Hb2.
        apply in_map_iff in Hb1. destruct Hb1 as (i & <- & _).
        apply in_map_iff in Hb2. destruct Hb2 as (j & Ej & _). inversion Ej. congruence. }
      rewrite Hex. rewrite combine_map_map.
      set (e := map (fun i => ((x, i), (y, i))) (seq 0 (wnat h))).
      destruct (IH Hok' (dict_update bit_eqb acc e)) as (r & E & Hg).
      exists r. split; auto.
      intro b. rewrite Hg, (dict_get_update bit_eqb bit_eqb_spec).
      unfold e. rewrite (int_bits_dict x (fun i => (y, i))).
      unfold ren_bits. cbn [dict_get].
      destruct (String.eqb_spec (fst b) x) as [Ex|Ex]; cbn [andb].
      * rewrite Ex, Hxm, Hlx. cbn [declared_idx].
        destruct (snd b <? wnat h)%nat; reflexivity.
      * reflexivity.
Qed.

Definition frename (f : fasg) (ren : list (ident * ident)) : fasg :=
  fun x => match dict_get String.eqb x ren with Some y => f y | None => f x end.

Lemma encode_same_decl t f g x y i d :
  tlookup x t = Some d -> tlookup y t = Some d -> g x = f y ->
  encode t g (x, i) = encode t f (y, i).
Proof.
  intros Hx Hy E. unfold encode. cbn [fst snd]. rewrite Hx, Hy, E. reflexivity.
Qed.

(* bit-level statement: the renamed BDD at a equals u at the renamed assignment *)
Theorem let_vars_bits t ren u : wf_tbl t -> uses_only (all_bits t) u -> ren_ok t ren ->
  exists r, ctx_let_vars t ren u = Some r /\ uses_only (all_bits t) r /\
    forall a, r a = u (fun b => match ren_bits t ren b with
                                | Some b' => a b'
                                | None => a b
                                end).
Proof.
  intros Hwf Hu Hok.
  destruct (refine_renaming_from_spec t ren Hok []) as (d & E & Hg).
  assert (Himg : forall b b', ren_bits t ren b = Some b' -> In b' (all_bits t)).
  { intros b b' Hb. unfold ren_bits in Hb.
    destruct (dict_get String.eqb (fst b) ren) as [y|] eqn:Em; [|discriminate].
    destruct (tlookup (fst b) t) as [dx|] eqn:Hl; [|discriminate].
    destruct (declared_idx dx (snd b)) eqn:Ed; [|discriminate]. inversion Hb; subst.
    destruct Hok as [_ Hok].
    destruct (Hok (fst b) y) as (d' & Hl1 & Hl2 & _);
      [apply (dict_get_in String.eqb string_eqb_spec'); auto|].
    assert (d' = dx) by congruence. subst d'.
    apply in_all_bits. exists y, dx. split; [apply tlookup_in; auto|].
    apply declared_idx_spec. auto. }
  exists (match ren with [] => u | _ => blet_ren d u end).
  split; [|split].
  - unfold ctx_let_vars, refine_renaming. rewrite E. destruct ren; reflexivity.
  - destruct ren; auto. intros a a' Ha. unfold blet_ren. apply Hu.
    intros b Hb. rewrite Hg. cbn [dict_get].
    destruct (ren_bits t (p :: ren) b) eqn:Er; auto. apply Ha. eapply Himg; eauto.
  - intro a.
    assert (G : blet_ren d u a = u (fun b => match ren_bits t ren b with
                                            | Some b' => a b'
                                            | None => a b
                                            end)).
    { unfold blet_ren. apply Hu. intros b _. rewrite Hg. cbn [dict_get].
      destruct (ren_bits t ren b); reflexivity. }
    destruct ren; auto.
Qed.

(* substitution of same-typed variables = renaming in the set of assignments *)
Theorem rename_spec t ren u : wf_tbl t -> uses_only (all_bits t) u -> ren_ok t ren ->
  exists r, ctx_let_vars t ren u = Some r /\ uses_only (all_bits t) r /\
    forall f, sem t r f = sem t u (frename f ren).
Proof.
  intros Hwf Hu Hok.
  destruct (let_vars_bits t ren u Hwf Hu Hok) as (r & E & Hur & Hr).
  exists r. split; auto. split; auto.
  intro f. unfold sem. rewrite Hr. apply Hu. intros b Hb.
  destruct (declared_bit_lookup t b Hwf Hb) as (dx & Hl & Hbn).
  unfold ren_bits. rewrite Hl.
  destruct (dict_get String.eqb (fst b) ren) as [y|] eqn:Em.
  - destruct b as [x i]. cbn [fst snd] in *.
    rewrite (proj2 (declared_idx_spec x dx i) Hbn).
    destruct Hok as [_ Hok].
    destruct (Hok x y) as (d' & Hl1 & Hl2 & _);
      [apply (dict_get_in String.eqb string_eqb_spec'); auto|].
    symmetry. apply (encode_same_decl t f (frename f ren) x y i d'); auto.
    unfold frename. rewrite Em. reflexivity.
  - apply encode_local. unfold frename. rewrite Em. reflexivity.
Qed.

(* ---- bitvector.map_bits_to_integers / Context.support --------------------------------------- *)
Lemma map_bits_to_integers_inv t : forall acc,
  (forall b x, dict_get bit_eqb b acc = Some x -> x = fst b) ->
  let res := fold_left (fun acc xd =>
      dict_update bit_eqb acc
        (map (fun b => (b, fst xd)) (bitnames (fst xd) (snd xd)))) t acc in
  (forall b x, dict_get bit_eqb b res = Some x -> x = fst b) /\
  (forall b, In b (map fst res) <-> In b (map fst acc) \/ In b (all_bits t)).
Proof.
  induction t as [|[y d] t IH]; intros acc Hacc; cbn [fold_left].
  - split; auto. intro b. cbn. tauto.
  - cbn [fst snd].
    set (e := map (fun b => (b, y)) (bitnames y d)).
    assert (Hacc' : forall b x, dict_get bit_eqb b (dict_update bit_eqb acc e) = Some x ->
                      x = fst b).
    { intros b x. rewrite (dict_get_update bit_eqb bit_eqb_spec).
      destruct (dict_get bit_eqb b (rev e)) as [x'|] eqn:Er; [|apply Hacc].
      intro E. inversion E; subst x'.
      apply (dict_get_in bit_eqb bit_eqb_spec) in Er. apply in_rev in Er.
      unfold e in Er. apply in_map_iff in Er. destruct Er as (b' & Eb & Hb').
      inversion Eb; subst. apply in_bitnames in Hb'. symmetry. tauto. }
    destruct (IH _ Hacc') as [H1 H2]. split; auto.
    intro b. rewrite H2, (dict_update_keys bit_eqb bit_eqb_spec).
    unfold e. rewrite map_map. cbn [fst]. rewrite map_id.
    cbn [all_bits flat_map fst snd]. rewrite in_app_iff. fold (all_bits t). tauto.
Qed.

Lemma map_bits_to_integers_spec t b : In b (all_bits t) ->
  dict_get bit_eqb b (map_bits_to_integers t) = Some (fst b).
Proof.
  intro Hb. unfold map_bits_to_integers.
  destruct (map_bits_to_integers_inv t []) as [H1 H2]; [intros ? ? E; discriminate|].
  cbv zeta in H1, H2.
  destruct (dict_get bit_eqb b _) as [x|] eqn:E.
  - f_equal. auto.
  - apply (dict_get_none bit_eqb bit_eqb_spec) in E. exfalso. apply E.
    apply H2. auto.
Qed.

Lemma map_opt_some {A B} (f : A -> option B) (g : A -> B) l :
  (forall x, In x l -> f x = Some (g x)) -> map_opt f l = Some (map g l).
Proof.
  induction l; intro H; cbn [map_opt map]; auto.
  rewrite H by (left; auto). rewrite IHl by (intros; apply H; right; auto).
  reflexivity.
Qed.

Lemma ctx_support_bits t u :
  exists s, ctx_support t u = Some s /\ NoDup s /\
    forall x, In x s <-> exists b, In b (bsupport (all_bits t) u) /\ fst b = x.
Proof.
  unfold ctx_support. cbv zeta.
  assert (Em : map_opt (fun b => dict_get bit_eqb b (map_bits_to_integers t))
                 (bsupport (all_bits t) u) = Some (map fst (bsupport (all_bits t) u))).
  { apply map_opt_some.
    intros b Hb. apply map_bits_to_integers_spec. eapply bsupport_incl; eauto. }
  rewrite Em.
  eexists. split; [reflexivity|]. split.
  - apply (set_union_nodup String.eqb string_eqb_spec'). constructor.
  - intro x. rewrite (set_union_in String.eqb string_eqb_spec'), in_map_iff.
    cbn [In]. split.
    + intros [[]|(b & E & Hb)]. eauto.
    + intros (b & Hb & E). right. eauto.
Qed.

(* a variable is in the reported support iff the set of assignments denoted by
   the BDD depends on that variable (over the representable values) *)
Theorem support_spec t u : wf_tbl t -> uses_only (all_bits t) u ->
  exists s, ctx_support t u = Some s /\ NoDup s /\
    forall x, In x s <->
      exists d f v, In (x, d) t /\ in_range t f /\ val_in_range d v = true /\
                    sem t u f <> sem t u (fupd f x v).
Proof.
  intros Hwf Hu. destruct (ctx_support_bits t u) as (s & E & ND & Hs).
  exists s. split; auto. split; auto. intro x. rewrite Hs. split.
  - intros (b & Hb & Ex). apply bsupport_spec in Hb; auto. destruct Hb as [Hdecl [a Ha]].
    destruct (declared_bit_lookup t b Hwf Hdecl) as (d & Hl & Hbn). rewrite Ex in Hl.
    exists d, (decode t (upd a b true)), (decode t (upd a b false) x).
    split; [apply tlookup_in; auto|]. split; [apply decode_in_range; auto|].
    split; [apply decode_in_range; auto; apply tlookup_in; auto|].
    rewrite sem_decode by auto.
    assert (G : sem t u (fupd (decode t (upd a b true)) x (decode t (upd a b false) x))
                = u (upd a b false)).
    { unfold sem. apply Hu. intros c Hc.
      destruct (String.eqb_spec (fst c) x) as [Ec|Ec].
      - rewrite (encode_local t _ (decode t (upd a b false)) c).
        + apply encode_decode_b; auto.
        + unfold fupd. rewrite Ec, String.eqb_refl. reflexivity.
      - rewrite (encode_local t _ (decode t (upd a b true)) c).
        + rewrite encode_decode_b by auto.
          assert (c <> b) by (intro; subst; auto).
          rewrite !upd_other by auto. reflexivity.
        + unfold fupd. destruct (String.eqb_spec (fst c) x); [contradiction|reflexivity]. }
    rewrite G. exact Ha.
  - intros (d & f & v & Hin & Hf & Hv & Hne).
    destruct (existsb (fun b => String.eqb (fst b) x) (bsupport (all_bits t) u)) eqn:Ex.
    + apply existsb_exists in Ex. destruct Ex as (b & Hb & Eb).
      apply String.eqb_eq in Eb. eauto.
    + exfalso. apply Hne. unfold sem.
      apply (uses_only_support (all_bits t)); auto.
      intros b Hb. apply encode_local. unfold fupd.
      destruct (String.eqb_spec (fst b) x) as [Eb|Eb]; auto.
      assert (existsb (fun b => String.eqb (fst b) x) (bsupport (all_bits t) u) = true).
      { apply existsb_exists. exists b. split; auto. apply String.eqb_eq. auto. }
      congruence.
Qed.

(* ---- Context.apply ----------------------------------------------------------------------- *)
Theorem apply_spec t op u v w r : bapply op u v w = Some r ->
  forall f, sem t r f =
    match op, v, w with
    | OpNot, _, _ => negb (sem t u f)
    | OpAnd, Some v, _ => sem t u f && sem t v f
    | OpOr, Some v, _ => sem t u f || sem t v f
    | OpXor, Some v, _ => xorb (sem t u f) (sem t v f)
    | OpImplies, Some v, _ => implb (sem t u f) (sem t v f)
    | OpEquiv, Some v, _ => Bool.eqb (sem t u f) (sem t v f)
    | OpDiff, Some v, _ => sem t u f && negb (sem t v f)
    | OpIte, Some v, Some w => if sem t u f then sem t v f else sem t w f
    | _, _, _ => false
    end.
Proof.
  intros E f. destruct op, v as [v|], w as [w|]; cbn in E; inversion E; reflexivity.
Qed.

(* ==== enumeration._bitfields_to_int_iter / Context.pick_iter ================================ *)

Lemma nodup_app {A} (l1 l2 : list A) :
  NoDup l1 -> NoDup l2 -> (forall x, In x l1 -> ~ In x l2) -> NoDup (l1 ++ l2).
Proof.
  induction l1 as [|a l1 IH]; intros N1 N2 Hd; cbn; auto.
  inversion N1; subst. constructor.
  - rewrite in_app_iff. intros [H|H]; [auto|]. apply (Hd a); [left; auto|auto].
  - apply IH; auto. intros x Hx. apply Hd. right; auto.
Qed.

(* ---- _take_product_iter ------------------------------------------------------------------- *)
Inductive prod_rel (model : fasgn) : list (ident * list Z) -> fasgn -> Prop :=
| PR_nil : prod_rel model [] model
| PR_cons x vals r m v : prod_rel model r m -> In v vals ->
    prod_rel model ((x, vals) :: r) (m ++ [(x, VZ v)]).

Lemma take_product_rel sets model d :
  In d (take_product sets model) <-> prod_rel model sets d.
Proof.
  revert d; induction sets as [|[x vals] r IH]; intro d; cbn [take_product].
  - split.
    + intros [<-|[]]. constructor.
    + intro H. inversion H. left; auto.
  - rewrite in_flat_map. split.
    + intros (m & Hm & Hd). apply in_map_iff in Hd. destruct Hd as (v & <- & Hv).
      constructor; auto. apply IH; auto.
    + intro H. inversion H; subst. exists m. split; [apply IH; auto|].
      apply in_map_iff. eauto.
Qed.

Lemma prod_rel_extends model sets f :
  (exists d, prod_rel model sets d /\ extends f d) <->
  extends f model /\ forall x vals, In (x, vals) sets -> exists v, In v vals /\ f x = VZ v.
Proof.
  induction sets as [|[x vals] r IH].
  - split.
    + intros (d & H & He). inversion H; subst. split; auto. intros ? ? [].
    + intros [He _]. exists model. split; auto. constructor.
  - split.
    + intros (d & H & He). inversion H as [|? ? ? m v Hrel Hv]; subst.
      assert (He' : extends f m).
      { intros y w Hin. apply He. apply in_app_iff. auto. }
      destruct (proj1 IH (ex_intro _ m (conj Hrel He'))) as [Hm Hr].
      split; auto. intros y vals' [E|Hin].
      * inversion E; subst. exists v. split; auto. apply He.
        apply in_app_iff. right. left. auto.
      * apply Hr; auto.
    + intros [Hm Hs].
      destruct (proj2 IH) as (m & Hrel & Hext).
      { split; auto. intros; apply Hs; right; auto. }
      destruct (Hs x vals (or_introl eq_refl)) as (v & Hv & Hfx).
      exists (m ++ [(x, VZ v)]). split; [constructor; auto|].
      intros y w Hin. apply in_app_iff in Hin. destruct Hin as [Hin|[E|[]]].
      * apply Hext; auto.
      * inversion E; subst. auto.
Qed.

Lemma prod_rel_unique model sets f d1 d2 :
  prod_rel model sets d1 -> prod_rel model sets d2 ->
  extends f d1 -> extends f d2 -> d1 = d2.
Proof.
  intro H1. revert d2. induction H1 as [|x vals r m v Hr IH Hv]; intros d2 H2 E1 E2.
  - inversion H2. reflexivity.
  - inversion H2 as [|? ? ? m0 v0 Hrel0 Hv0]; subst.
    assert (f x = VZ v) by (apply E1; apply in_app_iff; right; left; auto).
    assert (f x = VZ v0) by (apply E2; apply in_app_iff; right; left; auto).
    assert (v = v0) by congruence. subst v0. f_equal.
    apply IH; auto.
    + intros y w Hin. apply E1. apply in_app_iff. auto.
    + intros y w Hin. apply E2. apply in_app_iff. auto.
Qed.

Lemma take_product_nodup sets model :
  (forall x vals, In (x, vals) sets -> NoDup vals) -> NoDup (take_product sets model).
Proof.
  induction sets as [|[x vals] r IH]; intro H; cbn [take_product].
  - constructor; [intros []|constructor].
  - assert (Nv : NoDup vals) by (apply (H x); left; auto).
    assert (Nr : NoDup (take_product r model)) by (apply IH; intros; eapply H; right; eauto).
    revert Nr. generalize (take_product r model) as L.
    induction L as [|m L IHL]; intro Nr; cbn [flat_map]; [constructor|].
    inversion Nr; subst. apply nodup_app.
    + apply FinFun.Injective_map_NoDup; auto.
      intros v v' E. apply app_inj_tail in E. destruct E as [_ E]. congruence.
    + auto.
    + intros d Hd Hd'. apply in_map_iff in Hd. destruct Hd as (v & <- & _).
      apply in_flat_map in Hd'. destruct Hd' as (m' & Hm' & Hd').
      apply in_map_iff in Hd'. destruct Hd' as (v' & E & _).
      apply app_inj_tail in E. destruct E as [E _]. subst. auto.
Qed.

Lemma prod_rel_keys model sets d : prod_rel model sets d ->
  forall y, In y (map fst d) <-> In y (map fst model) \/ In y (map fst sets).
Proof.
  induction 1 as [|x vals r m v Hr IH Hv]; intro y.
  - cbn. tauto.
  - rewrite map_app, in_app_iff, IH. cbn. tauto.
Qed.

Lemma prod_rel_vals model sets d : prod_rel model sets d ->
  forall y w, In (y, w) d ->
    In (y, w) model \/ exists vals v, In (y, vals) sets /\ w = VZ v /\ In v vals.
Proof.
  induction 1 as [|x vals r m v Hr IH Hv]; intros y w Hin.
  - auto.
  - apply in_app_iff in Hin. destruct Hin as [Hin|[E|[]]].
    + destruct (IH y w Hin) as [H|(vals' & v' & H1 & H2 & H3)]; auto.
      right. exists vals', v'. cbn. auto.
    + inversion E; subst. right. exists vals, v. cbn. auto.
Qed.

(* ---- the integer sets of one cube ------------------------------------------------------------ *)
Definition sign_tail (h : hint) : list bool :=
  if h_signed h then [] else [if fst (h_dom h) >=? 0 then false else true].

Lemma append_sign_tail {A} (g : bool -> A) bits h : wf_hint h ->
  List.length bits = wnat h ->
  append_sign_bit (g false) (g true) bits h = Some (bits ++ map g (sign_tail h)).
Proof.
  intros Hwf Hlen. unfold sign_tail. destruct (h_signed h) eqn:Hs.
  - rewrite append_sign_bit_signed; auto.
    + cbn. rewrite app_nil_r. reflexivity.
    + destruct Hwf as (_ & H2 & _). specialize (H2 Hs). unfold wnat in Hlen. lia.
  - rewrite append_sign_bit_unsigned by auto. cbn [map].
    destruct (fst (h_dom h) >=? 0); reflexivity.
Qed.

Definition pbits (c : cube) (x : ident) (h : hint) : list (option bool) :=
  map (fun b => dict_get bit_eqb b c) (bitnames x (DInt h)).

Definition touched (c : cube) (x : ident) (h : hint) : bool :=
  existsb (fun b => mem bit_eqb b (map fst c)) (bitnames x (DInt h)).

Definition int_sets_spec (t' : tbl) (c : cube) : list (ident * list Z) :=
  flat_map (fun xd =>
    match snd xd with
    | DInt h =>
      if touched c (fst xd) h
      then [(fst xd, enumerate_int (pbits c (fst xd) h ++ map Some (sign_tail h)))]
      else []
    | DBool => []
    end) t'.

Lemma int_sets_eq t' c : (forall x h, In (x, DInt h) t' -> wf_hint h) ->
  int_sets t' c = Some (int_sets_spec t' c).
Proof.
  induction t' as [|[x d] r IH]; intro Hwf; [reflexivity|].
  assert (IH' : int_sets r c = Some (int_sets_spec r c))
    by (apply IH; intros; eapply Hwf; right; eauto).
  cbn [int_sets int_sets_spec flat_map fst snd]. destruct d as [|h]; auto.
  fold (touched c x h). destruct (touched c x h); cbn [negb app]; auto.
  fold (pbits c x h).
  rewrite (append_sign_tail Some); [| eapply Hwf; left; eauto |].
  - rewrite IH'. reflexivity.
  - unfold pbits. cbn [bitnames]. rewrite !map_length, seq_length. reflexivity.
Qed.

Lemma int_sets_spec_in t' c x vals :
  In (x, vals) (int_sets_spec t' c) <->
  exists h, In (x, DInt h) t' /\ touched c x h = true /\
            vals = enumerate_int (pbits c x h ++ map Some (sign_tail h)).
Proof.
  unfold int_sets_spec. rewrite in_flat_map. split.
  - intros ([y d] & Hin & H). cbn [fst snd] in H. destruct d as [|h]; [destruct H|].
    destruct (touched c y h) eqn:Et; [|destruct H].
    destruct H as [E|[]]. inversion E; subst. eauto.
  - intros (h & Hin & Et & ->). exists (x, DInt h). split; auto.
    cbn [fst snd]. rewrite Et. left; auto.
Qed.

Definition cube_agrees_int (c : cube) (x : ident) (h : hint) (z : Z) : Prop :=
  forall i bv, (i < wnat h)%nat -> dict_get bit_eqb (x, i) c = Some bv ->
               Z.testbit z (Z.of_nat i) = bv.

Lemma Forall2_nth_iff {A B} (R : A -> B -> Prop) l l' da db :
  Forall2 R l l' <->
  List.length l = List.length l' /\
  forall i, (i < List.length l)%nat -> R (nth i l da) (nth i l' db).
Proof.
  split.
  - induction 1; cbn; [split; auto; intros; lia|].
    destruct IHForall2 as [El Hn]. split; [lia|].
    intros [|i] Hi; auto. apply Hn. lia.
  - revert l'; induction l as [|a l IH]; intros [|b l'] [El Hn]; cbn in El; try lia.
    + constructor.
    + constructor; [apply (Hn 0%nat); cbn; lia|].
      apply IH. split; [lia|]. intros i Hi. apply (Hn (S i)). cbn; lia.
Qed.

Lemma enumerate_cube c x h z : wf_hint h -> in_limits h z = true ->
  (In z (enumerate_int (pbits c x h ++ map Some (sign_tail h))) <->
   cube_agrees_int c x h z).
Proof.
  intros Hwf Hin.
  set (spb := pbits c x h ++ map Some (sign_tail h)).
  set (l0 := encode_val h z ++ sign_tail h).
  assert (Hlp : List.length (pbits c x h) = wnat h)
    by (unfold pbits; cbn [bitnames]; rewrite !map_length, seq_length; reflexivity).
  assert (Hw1 : (1 <= wnat h)%nat) by (destruct Hwf as [H1 _]; unfold wnat; lia).
  assert (Hne : spb <> []).
  { unfold spb. destruct (pbits c x h); cbn in *; [lia|discriminate]. }
  assert (Hl0 : sval l0 = z).
  { pose proof (decode_encode h z Hwf Hin) as D. unfold decode_val in D.
    rewrite (append_sign_tail (fun b => b)) in D by (auto; apply encode_val_length).
    rewrite map_id in D. inversion D. reflexivity. }
  assert (Hlen0 : List.length l0 = List.length spb).
  { unfold l0, spb. rewrite !app_length, map_length, encode_val_length, Hlp. reflexivity. }
  assert (Hnth : forall i, (i < wnat h)%nat ->
            nth i spb None = dict_get bit_eqb (x, i) c /\
            nth i l0 false = Z.testbit z (Z.of_nat i)).
  { intros i Hi. split.
    - unfold spb. rewrite app_nth1 by lia. unfold pbits. cbn [bitnames].
      rewrite map_map. apply (nth_map_seq (fun j => dict_get bit_eqb (x, j) c)). auto.
    - unfold l0. rewrite app_nth1 by (rewrite encode_val_length; auto).
      apply zbits_nth. auto. }
  destruct (enumerate_int_spec spb Hne) as [Hspec _]. rewrite Hspec. split.
  - intros (l & Hag & Hv) i bv Hi Hd.
    assert (l = l0).
    { apply sval_inj.
      - apply agrees_length in Hag. destruct l, spb; cbn in *; congruence.
      - apply agrees_length in Hag. congruence.
      - congruence. }
    subst l. unfold agrees in Hag.
    apply (Forall2_nth_iff _ _ _ None false) in Hag. destruct Hag as [_ Hag].
    specialize (Hag i). destruct (Hnth i Hi) as [E1 E2]. rewrite E1, E2 in Hag.
    destruct Hag as [Hn|Hs].
    + unfold spb. rewrite app_length, Hlp. lia.
    + congruence.
    + congruence.
  - intro Hag. exists l0. split; auto. unfold agrees.
    apply (Forall2_nth_iff _ _ _ None false). split; [congruence|].
    intros i Hi. destruct (Nat.lt_ge_cases i (wnat h)) as [Hlt|Hge].
    + destruct (Hnth i Hlt) as [E1 E2]. rewrite E1, E2.
      destruct (dict_get bit_eqb (x, i) c) as [bv|] eqn:Ed; auto.
      right. f_equal. symmetry. apply (Hag i bv); auto.
    + unfold spb, l0. rewrite !app_nth2 by (rewrite ?Hlp, ?encode_val_length; lia).
      rewrite Hlp, encode_val_length.
      unfold spb in Hi. rewrite app_length, Hlp, map_length in Hi.
      rewrite (nth_indep _ None (Some false)) by (rewrite map_length; lia).
      rewrite map_nth. right. reflexivity.
Qed.

(* ---- when does the refinement of f satisfy a cube ---------------------------------------------- *)
Definition cube_ok (univ : list bit) (c : cube) : Prop :=
  NoDup (map fst c) /\ forall b, In b (map fst c) -> In b univ.

Lemma cube_holds_iff c a :
  cube_holds c a = true <-> forall b bv, In (b, bv) c -> a b = bv.
Proof.
  unfold cube_holds. rewrite forallb_forall. split.
  - intros H b bv Hin. specialize (H _ Hin). cbn [fst snd] in H. apply eqb_prop; auto.
  - intros H [b bv] Hin. cbn [fst snd]. rewrite (H b bv Hin). apply eqb_reflx.
Qed.

Lemma cube_holds_spec t c f : wf_tbl t -> cube_ok (all_bits t) c -> in_range t f ->
  (cube_holds c (encode t f) = true <->
   (forall x bv, In (x, DBool) t -> dict_get bit_eqb (x, 0%nat) c = Some bv -> f x = VB bv) /\
   (forall x h z, In (x, DInt h) t -> f x = VZ z -> cube_agrees_int c x h z)).
Proof.
  intros Hwf [NDc Hkeys] Hf. pose proof Hwf as [ND _]. rewrite cube_holds_iff. split.
  - intro H. split.
    + intros x bv Hin Hd. apply (dict_get_in bit_eqb bit_eqb_spec) in Hd.
      specialize (H _ _ Hd). unfold encode in H. cbn [fst snd] in H.
      rewrite (in_tlookup t x DBool ND Hin) in H.
      pose proof (Hf x DBool Hin) as Hr. destruct (f x); cbn in Hr; [congruence|discriminate].
    + intros x h z Hin Hfx i bv Hi Hd. apply (dict_get_in bit_eqb bit_eqb_spec) in Hd.
      specialize (H _ _ Hd). unfold encode in H. cbn [fst snd] in H.
      rewrite (in_tlookup t x (DInt h) ND Hin), Hfx in H. exact H.
  - intros [Hb Hi] b bv Hin.
    assert (Hd : dict_get bit_eqb b c = Some bv)
      by (apply (dict_get_nodup_in bit_eqb bit_eqb_spec); auto).
    assert (Hdecl : In b (all_bits t)).
    { apply Hkeys. apply in_map_iff. exists (b, bv). auto. }
    destruct (declared_bit_lookup t b Hwf Hdecl) as (d & Hl & Hbn).
    apply in_bitnames in Hbn. destruct Hbn as [_ Hidx]. destruct b as [x i].
    cbn [fst snd] in *. unfold encode. cbn [fst snd]. rewrite Hl.
    pose proof (Hf x d (tlookup_in _ _ _ Hl)) as Hr. destruct d as [|h].
    + subst i. rewrite (Hb x bv (tlookup_in _ _ _ Hl) Hd). reflexivity.
    + destruct (f x) as [|z] eqn:Efx; cbn in Hr; [discriminate|].
      apply (Hi x h z (tlookup_in _ _ _ Hl) Efx i bv Hidx Hd).
Qed.

Lemma bool_model_in t c y w :
  In (y, w) (bool_model t c) <->
  exists bv, In (y, DBool) t /\ dict_get bit_eqb (y, 0%nat) c = Some bv /\ w = VB bv.
Proof.
  unfold bool_model. rewrite in_flat_map. split.
  - intros ([x d] & Hin & H). cbn [fst snd] in H. destruct d; [|destruct H].
    destruct (dict_get bit_eqb (x, 0%nat) c) as [bv|] eqn:Ed; [|destruct H].
    destruct H as [E|[]]. inversion E; subst. eauto.
  - intros (bv & Hin & Hd & ->). exists (y, DBool). split; auto.
    cbn [fst snd]. rewrite Hd. left; auto.
Qed.

Lemma and_iff_both (A A' B B' : Prop) :
  (A <-> A') -> (B <-> B') -> (A /\ B <-> A' /\ B').
Proof. tauto. Qed.

(* what one cube yields *)
Theorem bitfields_spec t c : wf_tbl t -> cube_ok (all_bits t) c ->
  exists L, bitfields_to_int_iter t c = Some L /\ NoDup L /\
    (forall f, in_range t f ->
       ((exists d, In d L /\ extends f d) <-> cube_holds c (encode t f) = true)) /\
    (forall f d1 d2, In d1 L -> In d2 L -> extends f d1 -> extends f d2 -> d1 = d2).
Proof.
  intros Hwf Hc. pose proof Hwf as [ND Hwfh]. pose proof Hc as [NDc Hkeys].
  exists (take_product (int_sets_spec t c) (bool_model t c)).
  split; [|split; [|split]].
  - unfold bitfields_to_int_iter.
    assert (Hs : subset bit_eqb (map fst c) (all_bits t) = true)
      by (apply (subset_spec bit_eqb bit_eqb_spec); auto).
    rewrite Hs. cbn [negb]. rewrite int_sets_eq by auto. reflexivity.
  - apply take_product_nodup. intros x vals Hin.
    apply int_sets_spec_in in Hin. destruct Hin as (h & Hin & _ & ->).
    apply enumerate_int_spec.
    destruct (pbits c x h) eqn:Ep; [|discriminate].
    assert (Hl : List.length (pbits c x h) = wnat h)
      by (unfold pbits; cbn [bitnames]; rewrite !map_length, seq_length; reflexivity).
    rewrite Ep in Hl. cbn in Hl. destruct (Hwfh x h Hin) as [H1 _]. unfold wnat in Hl. lia.
  - intros f Hf.
    rewrite (cube_holds_spec t c f Hwf Hc Hf).
    transitivity (exists d, prod_rel (bool_model t c) (int_sets_spec t c) d /\ extends f d).
    { split; intros (d & H1 & H2); exists d; split; auto; apply take_product_rel; auto. }
    rewrite prod_rel_extends. apply and_iff_both.
    + split.
      * intros He x bv Hin Hd. apply He. apply bool_model_in. eauto.
      * intros H y w Hin. apply bool_model_in in Hin. destruct Hin as (bv & H1 & H2 & ->).
        eauto.
    + split.
      * intros H x h z Hin Hfx.
        pose proof (Hf x (DInt h) Hin) as Hr. rewrite Hfx in Hr. cbn in Hr.
        destruct (touched c x h) eqn:Et.
        -- destruct (H x _ (proj2 (int_sets_spec_in t c x _)
                               (ex_intro _ h (conj Hin (conj Et eq_refl)))))
             as (v & Hv & Hfv).
           assert (v = z) by congruence. subst v.
           apply (enumerate_cube c x h z); auto. eapply Hwfh; eauto.
        -- intros i bv Hi Hd. exfalso.
           assert (touched c x h = true); [|congruence].
           unfold touched. apply existsb_exists. exists (x, i). split.
           ++ apply in_bitnames. cbn. auto.
           ++ apply (mem_spec bit_eqb bit_eqb_spec).
              apply (dict_get_in bit_eqb bit_eqb_spec) in Hd.
              apply in_map_iff. exists ((x, i), bv). auto.
      * intros H x vals Hin. apply int_sets_spec_in in Hin.
        destruct Hin as (h & Hin & Et & ->).
        pose proof (Hf x (DInt h) Hin) as Hr.
        destruct (f x) as [|z] eqn:Efx; cbn in Hr; [discriminate|].
        exists z. split; auto.
        apply (enumerate_cube c x h z); auto. eapply Hwfh; eauto.
  - intros f d1 d2 H1 H2. apply take_product_rel in H1. apply take_product_rel in H2.
    eapply prod_rel_unique; eauto.
Qed.

(* ---- the yielded dictionaries are functional and hold representable values ------------------ *)
Lemma flat_map_keys_nodup {B} (g : ident * vdecl -> list (ident * B)) (t : tbl) :
  NoDup (map fst t) ->
  (forall xd, g xd = [] \/ exists w, g xd = [(fst xd, w)]) ->
  NoDup (map fst (flat_map g t)) /\
  forall y, In y (map fst (flat_map g t)) -> In y (map fst t).
Proof.
  intros ND Hg. induction t as [|xd r IH]; cbn [flat_map map].
  - split; [constructor|auto].
  - inversion ND; subst. destruct (IH H2) as [IH1 IH2].
    destruct (Hg xd) as [E|[w E]]; rewrite E; cbn [app map fst].
    + split; auto. intros y Hy. right. auto.
    + split.
      * constructor; auto.
      * intros y [<-|Hy]; [left; auto|right; auto].
Qed.

Lemma sets_values_in_limits c x h v : wf_hint h ->
  In v (enumerate_int (pbits c x h ++ map Some (sign_tail h))) -> in_limits h v = true.
Proof.
  intros Hwf Hin.
  assert (Hlp : List.length (pbits c x h) = wnat h)
    by (unfold pbits; cbn [bitnames]; rewrite !map_length, seq_length; reflexivity).
  assert (Hne : pbits c x h ++ map Some (sign_tail h) <> []).
  { destruct (pbits c x h); cbn in *; [|discriminate].
    destruct Hwf as [H1 _]. unfold wnat in Hlp. lia. }
  destruct (enumerate_int_spec _ Hne) as [Hspec _]. apply Hspec in Hin.
  destruct Hin as (l & Hag & Hv). unfold agrees in Hag.
  apply Forall2_app_inv_l in Hag. destruct Hag as (l1 & l2 & H1 & H2 & ->).
  assert (l2 = sign_tail h).
  { clear - H2. revert l2 H2. induction (sign_tail h) as [|b tl IH]; intros l2 H2;
      inversion H2; subst; auto.
    f_equal; auto. destruct H1 as [?|E]; [discriminate|]. inversion E; auto. }
  subst l2.
  assert (Hl1 : List.length l1 = wnat h).
  { rewrite <- Hlp. symmetry. clear - H1. induction H1; cbn; auto. }
  destruct (decode_in_limits h l1 Hwf Hl1) as (z & D & I & _).
  unfold decode_val in D.
  rewrite (append_sign_tail (fun b => b)) in D by auto. rewrite map_id in D.
  inversion D. congruence.
Qed.

Lemma yielded_dict_ok t c d : wf_tbl t ->
  In d (take_product (int_sets_spec t c) (bool_model t c)) ->
  NoDup (map fst d) /\
  (forall y w, In (y, w) d -> exists dy, In (y, dy) t /\ val_in_range dy w = true) /\
  (forall y, In y (map fst d) -> exists b, In b (map fst c) /\ fst b = y).
Proof.
  intros [ND Hwfh] Hin. apply take_product_rel in Hin.
  assert (Hm : NoDup (map fst (bool_model t c)) /\
               forall y, In y (map fst (bool_model t c)) -> In y (map fst t)).
  { apply flat_map_keys_nodup; auto. intros [x dx]. cbn [fst snd].
    destruct dx; auto. destruct (dict_get bit_eqb (x, 0%nat) c); eauto. }
  assert (Hs : NoDup (map fst (int_sets_spec t c)) /\
               forall y, In y (map fst (int_sets_spec t c)) -> In y (map fst t)).
  { apply flat_map_keys_nodup; auto. intros [x dx]. cbn [fst snd].
    destruct dx as [|h]; auto. destruct (touched c x h); eauto. }
  assert (Hdisj : forall y, In y (map fst (bool_model t c)) ->
                            ~ In y (map fst (int_sets_spec t c))).
  { intros y H1 H2. apply in_map_iff in H1. destruct H1 as ([y1 w1] & <- & H1).
    apply in_map_iff in H2. destruct H2 as ([y2 w2] & E & H2). cbn [fst] in *. subst y2.
    apply bool_model_in in H1. destruct H1 as (bv & Hb & _).
    apply int_sets_spec_in in H2. destruct H2 as (h & Hi & _).
    pose proof (in_tlookup t y1 _ ND Hb). pose proof (in_tlookup t y1 _ ND Hi). congruence. }
  split; [|split].
  - destruct Hm as [Hm _]. destruct Hs as [Hs _].
    revert Hs Hdisj. induction Hin as [|x vals r m v Hr IH Hv]; intros Hs Hdisj; auto.
    cbn [map fst] in Hs. inversion Hs; subst.
    rewrite map_app. cbn [map fst]. apply nodup_snoc.
    + apply IH; auto. intros y Hy Hy'. apply (Hdisj y Hy). right. auto.
    + rewrite (prod_rel_keys _ _ _ Hr). intros [Hx|Hx]; auto.
      apply (Hdisj x Hx). left. auto.
  - intros y w Hyw. destruct (prod_rel_vals _ _ _ Hin y w Hyw)
      as [H|(vals & v & H1 & -> & H3)].
    + apply bool_model_in in H. destruct H as (bv & Hb & _ & ->). exists DBool. auto.
    + apply int_sets_spec_in in H1. destruct H1 as (h & Hi & _ & ->).
      exists (DInt h). split; auto. cbn.
      eapply sets_values_in_limits; eauto.
  - intros y Hy. apply (prod_rel_keys _ _ _ Hin) in Hy. destruct Hy as [Hy|Hy].
    + apply in_map_iff in Hy. destruct Hy as ([y1 w1] & <- & H1).
      apply bool_model_in in H1. destruct H1 as (bv & _ & Hd & _).
      apply (dict_get_in bit_eqb bit_eqb_spec) in Hd.
      exists (y1, 0%nat). split; auto. apply in_map_iff. exists ((y1, 0%nat), bv). auto.
    + apply in_map_iff in Hy. destruct Hy as ([y1 w1] & <- & H1).
      apply int_sets_spec_in in H1. destruct H1 as (h & _ & Et & _).
      unfold touched in Et. apply existsb_exists in Et. destruct Et as (b & Hb & Hm').
      apply (mem_spec bit_eqb bit_eqb_spec) in Hm'. apply in_bitnames in Hb.
      exists b. cbn [fst]. tauto.
Qed.

Lemma extension_exists t d : wf_tbl t -> NoDup (map fst d) ->
  (forall y w, In (y, w) d -> exists dy, In (y, dy) t /\ val_in_range dy w = true) ->
  exists f, in_range t f /\ extends f d.
Proof.
  intros Hwf NDd Hv.
  exists (fun x => match dict_get String.eqb x d with
                   | Some v => v
                   | None => decode t zero_asg x
                   end).
  split.
  - intros x dx Hin. destruct (dict_get String.eqb x d) as [v|] eqn:E.
    + apply (dict_get_in String.eqb string_eqb_spec') in E.
      destruct (Hv x v E) as (dy & Hy & Hr). destruct Hwf as [ND _].
      pose proof (in_tlookup t x _ ND Hin). pose proof (in_tlookup t x _ ND Hy).
      congruence.
    + apply decode_in_range; auto.
  - intros x v Hin.
    rewrite (dict_get_nodup_in String.eqb string_eqb_spec' x v d NDd Hin). reflexivity.
Qed.

(* ---- the contract of dd.pick_iter, as propositions ---------------------------------------------- *)
Lemma nodup_keys_spec {V} (d : list (bit * V)) :
  nodup_keys bit_eqb d = true <-> NoDup (map fst d).
Proof.
  induction d as [|[k v] r IH]; cbn [nodup_keys map fst].
  - split; [constructor|auto].
  - rewrite andb_true_iff, negb_true_iff, IH. split.
    + intros [H1 H2]. constructor; auto.
      rewrite <- (mem_spec bit_eqb bit_eqb_spec). congruence.
    + intro H. inversion H; subst. split; auto.
      apply not_true_is_false. rewrite (mem_spec bit_eqb bit_eqb_spec). auto.
Qed.

Lemma cubes_conflict_spec c1 c2 a :
  cubes_conflict c1 c2 = true -> cube_holds c1 a = true -> cube_holds c2 a = true -> False.
Proof.
  unfold cubes_conflict. intros H H1 H2. apply existsb_exists in H.
  destruct H as ([b bv] & Hin & H). cbn [fst snd] in H.
  destruct (dict_get bit_eqb b c2) as [v|] eqn:E; [|discriminate].
  apply (dict_get_in bit_eqb bit_eqb_spec) in E.
  rewrite cube_holds_iff in H1, H2.
  rewrite <- (H1 _ _ Hin), <- (H2 _ _ E) in H. rewrite eqb_reflx in H. discriminate.
Qed.

Lemma cube_holds_agree univ c a a' :
  (forall b, In b (map fst c) -> In b univ) -> agree univ a a' ->
  cube_holds c a = cube_holds c a'.
Proof.
  intros Hk Ha. unfold cube_holds. apply forallb_ext_in'.
  intros [b bv] Hin. cbn [fst snd]. rewrite (Ha b); auto.
  apply Hk. apply in_map_iff. exists (b, bv). auto.
Qed.

Record contract (univ : list bit) (u : pred) (care : option (list bit))
    (cubes : list cube) : Prop := {
  ct_disjoint : ForallOrdPairs (fun c1 c2 => cubes_conflict c1 c2 = true) cubes;
  ct_cover : forall a, u a = existsb (fun c => cube_holds c a) cubes;
  ct_ok : forall c, In c cubes -> cube_ok univ c;
  ct_care : forall c b, In c cubes ->
      In b (match care with Some l => l | None => bsupport univ u end) ->
      In b (map fst c);
  ct_keys : forall c b, In c cubes -> In b (map fst c) ->
      In b (bsupport univ u) \/
      In b (match care with Some l => l | None => bsupport univ u end)
}.

Lemma pairwise_spec {A} (r : A -> A -> bool) l :
  pairwise r l = true <-> ForallOrdPairs (fun x y => r x y = true) l.
Proof.
  induction l as [|x l IH]; cbn [pairwise].
  - split; [constructor|auto].
  - rewrite andb_true_iff, forallb_forall, IH. split.
    + intros [H1 H2]. constructor; auto. apply Forall_forall. auto.
    + intro H. inversion H; subst. split; auto. apply Forall_forall. auto.
Qed.

Theorem contract_of_bool univ u care cubes : uses_only univ u ->
  cube_contract_b univ u care cubes = true -> contract univ u care cubes.
Proof.
  intros Hu H. unfold cube_contract_b in H.
  set (cb := match care with Some l => l | None => bsupport univ u end) in *.
  apply andb_true_iff in H. destruct H as [H H3].
  apply andb_true_iff in H. destruct H as [H1 H2].
  rewrite forallb_forall in H3.
  assert (Hc : forall c, In c cubes ->
     NoDup (map fst c) /\ (forall b, In b cb -> In b (map fst c)) /\
     (forall b, In b (map fst c) -> In b univ) /\
     (forall b, In b (map fst c) -> In b (bsupport univ u) \/ In b cb)).
  { intros c Hin. specialize (H3 c Hin).
    repeat (apply andb_true_iff in H3; destruct H3 as [H3 ?]).
    apply nodup_keys_spec in H3.
    rewrite (subset_spec bit_eqb bit_eqb_spec) in H, H0, H4.
    repeat split; auto. intros b Hb. specialize (H b Hb).
    apply (set_union_in bit_eqb bit_eqb_spec) in H. auto. }
  constructor.
  - apply pairwise_spec; auto.
  - assert (Hq : forall a a', agree univ a a' ->
        Bool.eqb (u a) (existsb (fun c => cube_holds c a) cubes) =
        Bool.eqb (u a') (existsb (fun c => cube_holds c a') cubes)).
    { intros a a' Ha. f_equal; [apply Hu; auto|].
      clear - Hc Ha. induction cubes as [|c r IH]; cbn [existsb]; auto.
      f_equal.
      * apply (cube_holds_agree univ); auto. apply (Hc c); left; auto.
      * apply IH. intros; apply Hc; right; auto. }
    pose proof (proj1 (forallb_all_asgs univ _ Hq) H2) as H2'.
    intro a. specialize (H2' a). apply eqb_prop in H2'. auto.
  - intros c Hin. destruct (Hc c Hin) as (A & _ & B & _). split; auto.
  - intros c b Hin Hb. destruct (Hc c Hin) as (_ & A & _). auto.
  - intros c b Hin Hb. destruct (Hc c Hin) as (_ & _ & _ & A). auto.
Qed.

Lemma concat_opt_some {A} (l : list (option (list A))) (ls : list (list A)) :
  l = map Some ls -> concat_opt l = Some (List.concat ls).
Proof.
  intros ->. induction ls; cbn [map concat_opt List.concat]; auto. rewrite IHls. reflexivity.
Qed.

Lemma bitfields_value t c : wf_tbl t -> cube_ok (all_bits t) c ->
  bitfields_to_int_iter t c =
  Some (take_product (int_sets_spec t c) (bool_model t c)).
Proof.
  intros [ND Hwfh] [NDc Hkeys]. unfold bitfields_to_int_iter.
  assert (Hs : subset bit_eqb (map fst c) (all_bits t) = true)
    by (apply (subset_spec bit_eqb bit_eqb_spec); auto).
  rewrite Hs. cbn [negb]. rewrite int_sets_eq by auto. reflexivity.
Qed.

Lemma bit_table_in vars t bs b : bit_table vars t = Some bs -> In b bs ->
  exists x d, In x vars /\ tlookup x t = Some d /\ In b (bitnames x d).
Proof.
  revert bs; induction vars as [|x r IH]; intros bs E Hb; cbn [bit_table] in E.
  - inversion E; subst. destruct Hb.
  - destruct (tlookup x t) as [d|] eqn:Hl; [|discriminate].
    destruct (bit_table r t) as [rest|] eqn:Er; [|discriminate].
    inversion E; subst. apply (set_union_in bit_eqb bit_eqb_spec) in Hb.
    destruct Hb as [Hb|Hb].
    + exists x, d. cbn; auto.
    + destruct (IH rest eq_refl Hb) as (y & d' & Hy & H1 & H2). exists y, d'. cbn; auto.
Qed.

(* ==== Context.pick_iter ========================================================================
   dd.pick_iter enters as the list [cubes] it returned for (u, care bits); its
   contract is the hypothesis [Hct].  It is discharged by a concrete instance
   below ([canonical_cubes_contract]) and is evaluated on the real cubes of both
   back ends on every run (cube_contract_b). *)
Section PickIter.
Variables (t : tbl) (u : pred) (care_vars : option (list ident))
          (cb : option (list bit)) (cubes : list cube).
Hypothesis Hwf : wf_tbl t.
Hypothesis Hu : uses_only (all_bits t) u.
Hypothesis Hcare : care_bits_of t care_vars = Some cb.
Hypothesis Hct : contract (all_bits t) u cb cubes.

Let L (c : cube) := take_product (int_sets_spec t c) (bool_model t c).

Lemma pick_iter_value :
  ctx_pick_iter t u care_vars cubes = Some (List.concat (map L cubes)).
Proof.
  destruct (ctx_support_bits t u) as (s & Es & NDs & Hs).
  unfold ctx_pick_iter. rewrite Es.
  rewrite (concat_opt_some _ (map L cubes)).
  2:{ rewrite map_map. apply map_ext_in. intros c Hc. apply bitfields_value; auto.
      apply (ct_ok _ _ _ _ Hct); auto. }
  set (vrs := set_union String.eqb s match care_vars with Some c => c | None => [] end).
  assert (Hall : forallb (fun d => subset String.eqb (map fst d) vrs)
                   (List.concat (map L cubes)) = true).
  { apply forallb_forall. intros d Hd. apply in_concat in Hd.
    destruct Hd as (Lc & HLc & Hd). apply in_map_iff in HLc. destruct HLc as (c & <- & Hc).
    apply (subset_spec String.eqb string_eqb_spec'). intros y Hy.
    destruct (yielded_dict_ok t c d Hwf Hd) as (_ & _ & Hk).
    destruct (Hk y Hy) as (b & Hb & Eb).
    unfold vrs. apply (set_union_in String.eqb string_eqb_spec').
    destruct (ct_keys _ _ _ _ Hct c b Hc Hb) as [Hsup|Hcb].
    - left. apply Hs. eauto.
    - unfold care_bits_of in Hcare. destruct care_vars as [[|c0 cr]|].
      + inversion Hcare; subst. destruct Hcb.
      + destruct (bit_table (c0 :: cr) t) as [bits|] eqn:Eb'; [|discriminate].
        inversion Hcare; subst.
        destruct (bit_table_in _ _ _ _ Eb' Hcb) as (x & dx & Hx & _ & Hbn).
        apply in_bitnames in Hbn. right. destruct Hbn as [Hbx _]. rewrite Hbx. exact Hx.
      + inversion Hcare; subst. left. apply Hs. eauto. }
  rewrite Hall. reflexivity.
Qed.

Lemma in_yield d :
  In d (List.concat (map L cubes)) <-> exists c, In c cubes /\ In d (L c).
Proof.
  rewrite in_concat. split.
  - intros (Lc & H1 & H2). apply in_map_iff in H1. destruct H1 as (c & <- & Hc). eauto.
  - intros (c & Hc & Hd). exists (L c). split; auto. apply in_map_iff. eauto.
Qed.

Lemma cube_of_yield c d f : In c cubes -> In d (L c) -> in_range t f -> extends f d ->
  cube_holds c (encode t f) = true.
Proof.
  intros Hc Hd Hf He.
  destruct (bitfields_spec t c Hwf (ct_ok _ _ _ _ Hct c Hc)) as (L' & E & _ & HA & _).
  rewrite bitfields_value in E by (auto; apply (ct_ok _ _ _ _ Hct); auto).
  inversion E; subst L'. apply HA; eauto.
Qed.

(* every total extension of a yielded dictionary satisfies the predicate *)
Theorem pick_iter_sound d f : In d (List.concat (map L cubes)) ->
  in_range t f -> extends f d -> sem t u f = true.
Proof.
  intros Hd Hf He. apply in_yield in Hd. destruct Hd as (c & Hc & Hd).
  unfold sem. rewrite (ct_cover _ _ _ _ Hct). apply existsb_exists.
  exists c. split; auto. eapply cube_of_yield; eauto.
Qed.

(* every satisfying assignment extends a yielded dictionary *)
Theorem pick_iter_complete f : in_range t f -> sem t u f = true ->
  exists d, In d (List.concat (map L cubes)) /\ extends f d.
Proof.
  intros Hf Hs. unfold sem in Hs. rewrite (ct_cover _ _ _ _ Hct) in Hs.
  apply existsb_exists in Hs. destruct Hs as (c & Hc & Hh).
  destruct (bitfields_spec t c Hwf (ct_ok _ _ _ _ Hct c Hc)) as (L' & E & _ & HA & _).
  rewrite bitfields_value in E by (auto; apply (ct_ok _ _ _ _ Hct); auto).
  inversion E; subst L'. destruct (proj2 (HA f Hf) Hh) as (d & Hd & He).
  exists d. split; auto. apply in_yield. eauto.
Qed.

(* ... exactly one: two yielded dictionaries with a common extension are equal *)
Theorem pick_iter_unique f d1 d2 : in_range t f ->
  In d1 (List.concat (map L cubes)) -> In d2 (List.concat (map L cubes)) ->
  extends f d1 -> extends f d2 -> d1 = d2.
Proof.
  intros Hf H1 H2 E1 E2. apply in_yield in H1. apply in_yield in H2.
  destruct H1 as (c1 & Hc1 & Hd1). destruct H2 as (c2 & Hc2 & Hd2).
  pose proof (cube_of_yield c1 d1 f Hc1 Hd1 Hf E1) as Hh1.
  pose proof (cube_of_yield c2 d2 f Hc2 Hd2 Hf E2) as Hh2.
  destruct (ForallOrdPairs_In (ct_disjoint _ _ _ _ Hct) c1 c2 Hc1 Hc2) as [Ec|[Hx|Hx]].
  - subst c2.
    destruct (bitfields_spec t c1 Hwf (ct_ok _ _ _ _ Hct c1 Hc1)) as (L' & E & _ & _ & HB).
    rewrite bitfields_value in E by (auto; apply (ct_ok _ _ _ _ Hct); auto).
    inversion E; subst L'. eapply HB; eauto.
  - exfalso. eapply cubes_conflict_spec; eauto.
  - exfalso. eapply cubes_conflict_spec; eauto.
Qed.

(* the yielded dictionaries are pairwise distinct *)
Theorem pick_iter_nodup : NoDup (List.concat (map L cubes)).
Proof.
  pose proof (ct_disjoint _ _ _ _ Hct) as Hd. pose proof (ct_ok _ _ _ _ Hct) as Hok.
  clear Hct Hcare. induction cubes as [|c r IH]; cbn [map List.concat]; [constructor|].
  inversion Hd as [|? ? Hc Hr]; subst. apply nodup_app.
  - destruct (bitfields_spec t c Hwf (Hok c (or_introl eq_refl))) as (L' & E & ND & _).
    rewrite bitfields_value in E by (auto; apply Hok; left; auto).
    inversion E; subst L'. exact ND.
  - apply IH; auto. intros; apply Hok; right; auto.
  - intros d Hd1 Hd2. apply in_concat in Hd2. destruct Hd2 as (Lc & HLc & Hd2).
    apply in_map_iff in HLc. destruct HLc as (c' & <- & Hc').
    destruct (yielded_dict_ok t c d Hwf Hd1) as (NDd & Hv & _).
    destruct (extension_exists t d Hwf NDd Hv) as (f & Hf & He).
    rewrite Forall_forall in Hc. specialize (Hc c' Hc').
    assert (H1 : cube_holds c (encode t f) = true).
    { destruct (bitfields_spec t c Hwf (Hok c (or_introl eq_refl))) as (L' & E & _ & HA & _).
      rewrite bitfields_value in E by (auto; apply Hok; left; auto).
      inversion E; subst L'. apply HA; eauto. }
    assert (H2 : cube_holds c' (encode t f) = true).
    { destruct (bitfields_spec t c' Hwf (Hok c' (or_intror Hc'))) as (L' & E & _ & HA & _).
      rewrite bitfields_value in E by (auto; apply Hok; right; auto).
      inversion E; subst L'. apply HA; eauto. }
    eapply cubes_conflict_spec; eauto.
Qed.

(* dictionaries hold representable values of declared variables, once each *)
Theorem pick_iter_values d : In d (List.concat (map L cubes)) ->
  NoDup (map fst d) /\
  forall y w, In (y, w) d -> exists dy, In (y, dy) t /\ val_in_range dy w = true.
Proof.
  intro Hd. apply in_yield in Hd. destruct Hd as (c & Hc & Hd).
  destruct (yielded_dict_ok t c d Hwf Hd) as (A & B & _). auto.
Qed.

End PickIter.

(* ---- totality of the yielded dictionaries when care_vars covers the support --------------------- *)
Lemma yielded_keys_complete t c d b : wf_tbl t -> cube_ok (all_bits t) c ->
  In d (take_product (int_sets_spec t c) (bool_model t c)) ->
  In b (map fst c) -> In (fst b) (map fst d).
Proof.
  intros Hwf [NDc Hkeys] Hd Hb. apply take_product_rel in Hd.
  apply (prod_rel_keys _ _ _ Hd).
  destruct (declared_bit_lookup t b Hwf (Hkeys b Hb)) as (dx & Hl & Hbn).
  destruct dx as [|h].
  - left. apply in_bitnames in Hbn. destruct Hbn as [_ Hi]. destruct b as [x i].
    cbn [fst snd] in *. subst i.
    destruct (dict_get bit_eqb (x, 0%nat) c) as [bv|] eqn:Ed.
    + apply in_map_iff. exists (x, VB bv). split; auto.
      apply bool_model_in. exists bv. split; auto. apply tlookup_in; auto.
    + apply (dict_get_none bit_eqb bit_eqb_spec) in Ed. contradiction.
  - right. apply in_map_iff. eexists (fst b, _). split; [reflexivity|].
    apply int_sets_spec_in. exists h. split; [apply tlookup_in; auto|]. split; auto.
    unfold touched. apply existsb_exists. exists b. split; auto.
    apply (mem_spec bit_eqb bit_eqb_spec). auto.
Qed.

Lemma bit_table_declared vars t bs : bit_table vars t = Some bs ->
  forall x, In x vars -> exists d, tlookup x t = Some d.
Proof.
  revert bs; induction vars as [|x r IH]; intros bs E y Hy; [destruct Hy|].
  cbn [bit_table] in E.
  destruct (tlookup x t) as [d|] eqn:Hl; [|discriminate].
  destruct (bit_table r t) as [rest|] eqn:Er; [|discriminate].
  destruct Hy as [<-|Hy]; eauto.
Qed.

Section PickIterTotal.
Variables (t : tbl) (u : pred) (care_vars : option (list ident))
          (cb : option (list bit)) (cubes : list cube) (s : list ident).
Hypothesis Hwf : wf_tbl t.
Hypothesis Hu : uses_only (all_bits t) u.
Hypothesis Hcare : care_bits_of t care_vars = Some cb.
Hypothesis Hct : contract (all_bits t) u cb cubes.
Hypothesis Hs : ctx_support t u = Some s.
(* care_vars is None or covers the support *)
Hypothesis Hcover : match care_vars with
                    | None => True
                    | Some cv => forall x, In x s -> In x cv
                    end.

(* with care_vars None or a superset of the support, every yielded dictionary
   assigns exactly the variables of support \/ care_vars *)
Theorem pick_iter_total d :
  In d (List.concat (map (fun c => take_product (int_sets_spec t c) (bool_model t c)) cubes)) ->
  forall y, In y (map fst d) <->
            In y s \/ In y (match care_vars with Some cv => cv | None => [] end).
Proof.
  intros Hd y.
  destruct (ctx_support_bits t u) as (s' & Es & _ & Hs'). rewrite Hs in Es.
  inversion Es; subst s'. clear Es.
  apply in_concat in Hd. destruct Hd as (Lc & HLc & Hd).
  apply in_map_iff in HLc. destruct HLc as (c & <- & Hc).
  pose proof (ct_ok _ _ _ _ Hct c Hc) as Hok.
  split.
  - intro Hy. destruct (yielded_dict_ok t c d Hwf Hd) as (_ & _ & Hk).
    destruct (Hk y Hy) as (b & Hb & Eb).
    destruct (ct_keys _ _ _ _ Hct c b Hc Hb) as [Hsup|Hcb].
    + left. apply Hs'. eauto.
    + unfold care_bits_of in Hcare. destruct care_vars as [[|c0 cr]|].
      * inversion Hcare; subst. destruct Hcb.
      * destruct (bit_table (c0 :: cr) t) as [bits|] eqn:Eb'; [|discriminate].
        inversion Hcare; subst.
        destruct (bit_table_in _ _ _ _ Eb' Hcb) as (x & dx & Hx & _ & Hbn).
        apply in_bitnames in Hbn. right. destruct Hbn as [Hbx _]. rewrite Hbx. exact Hx.
      * inversion Hcare; subst. left. apply Hs'. eauto.
  - intro Hy.
    assert (Hbit : exists b, fst b = y /\
       In b (match cb with Some l => l | None => bsupport (all_bits t) u end)).
    { unfold care_bits_of in Hcare. destruct care_vars as [[|c0 cr]|].
      - inversion Hcare; subst. destruct Hy as [Hy|[]]. destruct (Hcover y Hy).
      - destruct (bit_table (c0 :: cr) t) as [bits|] eqn:Eb'; [|discriminate].
        inversion Hcare; subst.
        assert (Hyc : In y (c0 :: cr)) by (destruct Hy; auto).
        pose proof (bit_table_declared _ _ _ Eb') as Hdecl.
        destruct (bit_table_spec (c0 :: cr) t Hdecl) as (bs & E & _ & Hin).
        rewrite Eb' in E. inversion E; subst bs.
        destruct (Hdecl y Hyc) as (dy & Hl).
        exists (y, 0%nat). split; auto. apply Hin. exists y, dy. split; auto. split; auto.
        apply in_bitnames. cbn [fst snd]. split; auto. destruct dy as [|h]; auto.
        destruct Hwf as [_ Hwfh]. destruct (Hwfh y h (tlookup_in _ _ _ Hl)) as [H1 _].
        unfold wnat. lia.
      - inversion Hcare; subst. destruct Hy as [Hy|[]].
        apply Hs' in Hy. destruct Hy as (b & Hb & Eb). eauto. }
    destruct Hbit as (b & Eb & Hb). rewrite <- Eb.
    apply (yielded_keys_complete t c d b); auto.
    apply (ct_care _ _ _ _ Hct c b Hc Hb).
Qed.
End PickIterTotal.

(* ---- the contract is satisfiable: the list of all models over the declared bits,
        as total cubes, is a valid answer of dd.pick_iter for every predicate --------------------- *)
Definition cube_of (bits : list bit) (a : bitasg) : cube := map (fun b => (b, a b)) bits.

Definition canonical_cubes (univ : list bit) (u : pred) : list cube :=
  map (cube_of univ) (filter u (all_asgs univ)).

Example canonical_cubes_contract :
  let t : tbl := [("x"%string, DInt (mkHint 2 false (0, 2))); ("b"%string, DBool)] in
  let u : pred := fun a => a ("x"%string, 0%nat) || a ("b"%string, 0%nat) in
  uses_only (all_bits t) u /\ wf_tbl t /\
  contract (all_bits t) u (Some (all_bits t)) (canonical_cubes (all_bits t) u) /\
  care_bits_of t (Some ["x"%string; "b"%string]) = Some (Some (all_bits t)).
Proof.
  cbv zeta.
  set (t := [("x"%string, DInt (mkHint 2 false (0, 2))); ("b"%string, DBool)]).
  set (u := fun a : bitasg => a ("x"%string, 0%nat) || a ("b"%string, 0%nat)).
  assert (Hu : uses_only (all_bits t) u).
  { intros a a' Ha. unfold u.
    rewrite (Ha ("x"%string, 0%nat)), (Ha ("b"%string, 0%nat));
      [reflexivity| |]; vm_compute; auto 6. }
  split; auto. split; [|split].
  - split.
    + cbn. repeat constructor; cbn; intuition; try discriminate.
    + intros x h [E|[E|[]]]; inversion E; subst. repeat split; cbn; try lia; auto.
  - apply contract_of_bool; [exact Hu|]. vm_compute. reflexivity.
  - vm_compute. reflexivity.
Qed.

(* ==== Context.count ============================================================================== *)
Lemma upd_exteq a a' b v : exteq a a' -> exteq (upd a b v) (upd a' b v).
Proof. intros H c. unfold upd. destruct (bit_eqb c b); auto. Qed.

Lemma asgs_from_proper l : forall base base', exteq base base' ->
  Forall2 exteq (asgs_from base l) (asgs_from base' l).
Proof.
  induction l as [|b r IH]; intros base base' H; cbn [asgs_from].
  - constructor; auto.
  - apply Forall2_app; apply IH; apply upd_exteq; auto.
Qed.

Definition proper (p : pred) : Prop := forall a a', exteq a a' -> p a = p a'.

Lemma uses_only_proper univ p : uses_only univ p -> proper p.
Proof. intros H a a' E. eapply uses_only_exteq; eauto. Qed.

Lemma countZ_acc (p : pred) (l : list bitasg) : forall acc : Z,
  fold_left (fun acc a => if p a then acc + 1 else acc) l acc = acc + countZ p l.
Proof.
  unfold countZ. induction l as [|a l IH]; intro acc; cbn [fold_left]; [lia|].
  rewrite IH, (IH (if p a then 0 + 1 else 0)). destruct (p a); lia.
Qed.

Lemma countZ_cons p a l : countZ p (a :: l) = (if p a then 1 else 0) + countZ p l.
Proof. unfold countZ at 1. cbn [fold_left]. rewrite countZ_acc. destruct (p a); lia. Qed.

Lemma countZ_app p l1 l2 : countZ p (l1 ++ l2) = countZ p l1 + countZ p l2.
Proof.
  induction l1 as [|a l1 IH]; cbn [app]; [unfold countZ at 2; cbn; lia|].
  rewrite !countZ_cons, IH. lia.
Qed.

Lemma countZ_Forall2 p l1 l2 : proper p -> Forall2 exteq l1 l2 ->
  countZ p l1 = countZ p l2.
Proof.
  intros Hp H. induction H; auto. rewrite !countZ_cons, IHForall2, (Hp x y); auto.
Qed.

Lemma countZ_ext_in p q l : (forall a, In a l -> p a = q a) -> countZ p l = countZ q l.
Proof.
  induction l as [|a l IH]; intro H; auto.
  rewrite !countZ_cons, IH by (intros; apply H; right; auto).
  rewrite (H a) by (left; auto). reflexivity.
Qed.

Lemma countZ_nonneg p l : 0 <= countZ p l.
Proof. induction l; [unfold countZ; cbn; lia|]. rewrite countZ_cons. destruct (p a); lia. Qed.

Lemma upd_upd_same a b v v' : exteq (upd (upd a b v) b v') (upd a b v').
Proof. intro c. unfold upd. destruct (bit_eqb c b); auto. Qed.

Lemma upd_upd_comm a b c v w : b <> c ->
  exteq (upd (upd a b v) c w) (upd (upd a c w) b v).
Proof.
  intros Hn x. unfold upd.
  destruct (bit_eqb_spec x c), (bit_eqb_spec x b); subst; congruence.
Qed.

(* a bit the predicate does not read can be set in the base without changing
   the number of models *)
Lemma count_indep_bit p b v l : proper p -> indep p b -> forall base,
  countZ p (asgs_from (upd base b v) l) = countZ p (asgs_from base l).
Proof.
  intros Hp Hi. induction l as [|c r IH]; intro base; cbn [asgs_from].
  - rewrite !countZ_cons. rewrite Hi. reflexivity.
  - rewrite !countZ_app. destruct (bit_eqb_spec b c) as [->|Hn].
    + f_equal; apply countZ_Forall2; auto; apply asgs_from_proper; apply upd_upd_same.
    + rewrite <- (IH (upd base c false)), <- (IH (upd base c true)).
      f_equal; apply countZ_Forall2; auto; apply asgs_from_proper;
        apply upd_upd_comm; auto.
Qed.

Lemma count_extra_bit p b l base : proper p -> indep p b ->
  countZ p (asgs_from base (b :: l)) = 2 * countZ p (asgs_from base l).
Proof.
  intros Hp Hi. cbn [asgs_from]. rewrite countZ_app, !count_indep_bit by auto. lia.
Qed.

Lemma count_extra_bits p extra l base : proper p ->
  (forall b, In b extra -> indep p b) ->
  countZ p (asgs_from base (extra ++ l)) =
  2 ^ Z.of_nat (List.length extra) * countZ p (asgs_from base l).
Proof.
  intros Hp Hi. induction extra as [|b r IH]; cbn [app List.length].
  - change (2 ^ Z.of_nat 0) with 1. lia.
  - rewrite count_extra_bit by (auto; apply Hi; left; auto).
    rewrite IH by (intros; apply Hi; right; auto).
    rewrite Nat2Z.inj_succ, Z.pow_succ_r by lia. lia.
Qed.

(* the number of models does not depend on the order of the bits *)
Lemma count_perm p l l' : proper p -> Permutation l l' -> forall base,
  countZ p (asgs_from base l) = countZ p (asgs_from base l').
Proof.
  intros Hp H. induction H; intro base; auto.
  - cbn [asgs_from]. rewrite !countZ_app, !IHPermutation. reflexivity.
  - cbn [asgs_from]. rewrite !countZ_app.
    destruct (bit_eqb_spec x y) as [->|Hn]; [reflexivity|].
    assert (G : forall v w, countZ p (asgs_from (upd (upd base y v) x w) l) =
                            countZ p (asgs_from (upd (upd base x w) y v) l)).
    { intros v w. apply countZ_Forall2; auto. apply asgs_from_proper.
      apply upd_upd_comm. auto. }
    rewrite !G. lia.
  - rewrite IHPermutation1. auto.
Qed.

Lemma partition_perm {A} (f : A -> bool) l :
  Permutation l (filter (fun x => negb (f x)) l ++ filter f l).
Proof.
  induction l as [|a l IH]; cbn [filter]; auto.
  destruct (f a); cbn [negb app].
  - apply Permutation_cons_app. auto.
  - constructor. auto.
Qed.

(* slack: over any duplicate-free list of bits containing the support, the
   number of models is the number over the support times 2^(extra bits) —
   this is what dd's count(u, n) assumes of its argument n *)
Theorem count_slack univ p l : uses_only univ p -> NoDup l ->
  (forall b, In b (bsupport univ p) -> In b l) ->
  NoDup (bsupport univ p) ->
  countZ p (all_asgs l) =
  countZ p (all_asgs (bsupport univ p)) *
  2 ^ (Z.of_nat (List.length l) - Z.of_nat (List.length (bsupport univ p))).
Proof.
  intros Hu NDl Hincl NDs. set (s := bsupport univ p) in *.
  pose proof (uses_only_proper univ p Hu) as Hp.
  set (f := fun b => mem bit_eqb b s).
  assert (P1 : Permutation l (filter (fun x => negb (f x)) l ++ filter f l))
    by apply partition_perm.
  assert (P2 : Permutation (filter f l) s).
  { apply NoDup_Permutation; auto; [apply NoDup_filter; auto|].
    intro b. rewrite filter_In. unfold f. rewrite (mem_spec bit_eqb bit_eqb_spec).
    split; [tauto|]. intro Hb. split; auto. }
  assert (P : Permutation l (filter (fun x => negb (f x)) l ++ s))
    by (rewrite P1 at 1; apply Permutation_app_head; auto).
  unfold all_asgs. rewrite (count_perm p _ _ Hp P).
  rewrite count_extra_bits; auto.
  - apply Permutation_length in P. rewrite app_length in P.
    replace (Z.of_nat (List.length l) - Z.of_nat (List.length s))
      with (Z.of_nat (List.length (filter (fun x => negb (f x)) l))) by lia.
    lia.
  - intros b Hb. apply filter_In in Hb. destruct Hb as [_ Hb].
    apply (indep_not_in_support univ); auto. fold s.
    unfold f in Hb. rewrite <- (mem_spec bit_eqb bit_eqb_spec).
    destruct (mem bit_eqb b s); cbn in Hb; congruence.
Qed.

(* ---- counting the models of a disjoint cube cover ----------------------------------------------- *)
Definition sumZ (l : list Z) : Z := fold_right Z.add 0 l.

Definition cube_weight (n : nat) (c : cube) : Z :=
  2 ^ (Z.of_nat n - Z.of_nat (List.length c)).

Definition remove_key (b : bit) (c : cube) : cube :=
  filter (fun bv => negb (bit_eqb (fst bv) b)) c.

(* cubes compatible with  b = v  (those that do not mention b included) *)
Definition compat (b : bit) (v : bool) (c : cube) : bool :=
  match dict_get bit_eqb b c with Some x => Bool.eqb x v | None => true end.

Definition restrict (b : bit) (v : bool) (cubes : list cube) : list cube :=
  map (remove_key b) (filter (compat b v) cubes).

Lemma remove_key_keys b c x :
  In x (map fst (remove_key b c)) <-> In x (map fst c) /\ x <> b.
Proof.
  unfold remove_key. rewrite !in_map_iff. split.
  - intros ([k v] & <- & Hin). apply filter_In in Hin. destruct Hin as [Hin Hn].
    cbn [fst] in *. split; [exists (k, v); auto|].
    destruct (bit_eqb_spec k b); cbn in Hn; congruence.
  - intros [([k v] & <- & Hin) Hn]. exists (k, v). split; auto.
    apply filter_In. split; auto. cbn [fst] in *.
    destruct (bit_eqb_spec k b); cbn; congruence.
Qed.

Lemma remove_key_nodup b c : NoDup (map fst c) -> NoDup (map fst (remove_key b c)).
Proof.
  unfold remove_key. induction c as [|[k v] c IH]; intro H; cbn [filter map fst]; auto.
  inversion H; subst. cbn [fst]. destruct (bit_eqb k b); cbn [negb map fst]; auto.
  constructor; auto. intro Hin. apply H2.
  apply in_map_iff in Hin. destruct Hin as ([k' v'] & E & Hin). apply filter_In in Hin.
  apply in_map_iff. exists (k', v'). tauto.
Qed.

Lemma remove_key_get b c x : x <> b ->
  dict_get bit_eqb x (remove_key b c) = dict_get bit_eqb x c.
Proof.
  intro Hn. unfold remove_key. induction c as [|[k v] c IH]; cbn [filter dict_get fst]; auto.
  destruct (bit_eqb_spec k b) as [->|Hk]; cbn [negb dict_get].
  - destruct (bit_eqb_spec x b); [contradiction|auto].
  - rewrite IH. reflexivity.
Qed.

Lemma remove_key_length b c : NoDup (map fst c) ->
  List.length (remove_key b c) =
  (List.length c - (if mem bit_eqb b (map fst c) then 1 else 0))%nat.
Proof.
  unfold remove_key. induction c as [|[k v] c IH]; intro H; cbn [filter map fst mem]; auto.
  inversion H; subst. specialize (IH H3). cbn [fst].
  destruct (bit_eqb_spec k b) as [->|Hk]; cbn [negb List.length].
  - destruct (bit_eqb_spec b b); [|congruence]. cbn [orb].
    assert (E : mem bit_eqb b (map fst c) = false).
    { apply not_true_is_false. rewrite (mem_spec bit_eqb bit_eqb_spec). auto. }
    rewrite E in IH. lia.
  - destruct (bit_eqb_spec b k); [congruence|]. cbn [orb]. rewrite IH.
    destruct (mem bit_eqb b (map fst c)) eqn:E; [|lia].
    apply (mem_spec bit_eqb bit_eqb_spec) in E.
    destruct c; [destruct E|cbn [List.length]; lia].
Qed.

Lemma cube_holds_restrict b v c a : NoDup (map fst c) ->
  cube_holds c (upd a b v) = compat b v c && cube_holds (remove_key b c) a.
Proof.
  intro ND. unfold compat.
  induction c as [|[k x] c IH]; [reflexivity|].
  inversion ND; subst. specialize (IH H2).
  unfold cube_holds in *. cbn [forallb fst snd dict_get remove_key filter].
  destruct (bit_eqb_spec b k) as [<-|Hk].
  - rewrite upd_same. destruct (bit_eqb_spec b b); [|congruence]. cbn [negb].
    assert (En : dict_get bit_eqb b c = None)
      by (apply (dict_get_none bit_eqb bit_eqb_spec); auto).
    rewrite En in IH. cbn [andb] in IH. fold (remove_key b c). rewrite IH.
    destruct v, x; reflexivity.
  - destruct (bit_eqb_spec k b); [congruence|]. cbn [negb forallb fst snd].
    fold (remove_key b c). rewrite upd_other by auto. rewrite IH.
    destruct (dict_get bit_eqb b c); [destruct (Bool.eqb b0 v)|]; cbn [andb];
      try reflexivity; rewrite ?andb_false_r; reflexivity.
Qed.

Lemma existsb_restrict b v cubes a :
  (forall c, In c cubes -> NoDup (map fst c)) ->
  existsb (fun c => cube_holds c (upd a b v)) cubes =
  existsb (fun c => cube_holds c a) (restrict b v cubes).
Proof.
  unfold restrict. induction cubes as [|c r IH]; intro H; [reflexivity|].
  cbn [existsb filter]. rewrite cube_holds_restrict by (apply H; left; auto).
  rewrite IH by (intros; apply H; right; auto).
  destruct (compat b v c); cbn [andb map existsb]; reflexivity.
Qed.

Lemma conflict_restrict b v c1 c2 : NoDup (map fst c1) ->
  compat b v c1 = true -> compat b v c2 = true ->
  cubes_conflict c1 c2 = true ->
  cubes_conflict (remove_key b c1) (remove_key b c2) = true.
Proof.
  unfold cubes_conflict, compat. intros ND H1 H2 H. apply existsb_exists in H.
  destruct H as ([k x] & Hin & Hc). cbn [fst snd] in Hc.
  destruct (dict_get bit_eqb k c2) as [y|] eqn:Ek; [|discriminate].
  assert (Hk : k <> b).
  { intro; subst k. rewrite Ek in H2.
    rewrite (dict_get_nodup_in bit_eqb bit_eqb_spec b x c1 ND Hin) in H1.
    apply eqb_prop in H1. apply eqb_prop in H2. subst.
    rewrite eqb_reflx in Hc. discriminate. }
  apply existsb_exists. exists (k, x). split.
  - unfold remove_key. apply filter_In. split; auto. cbn [fst].
    destruct (bit_eqb_spec k b); cbn; congruence.
  - cbn [fst snd]. rewrite remove_key_get by auto. rewrite Ek. exact Hc.
Qed.

Lemma ordpairs_restrict b v cubes :
  (forall c, In c cubes -> NoDup (map fst c)) ->
  ForallOrdPairs (fun c1 c2 => cubes_conflict c1 c2 = true) cubes ->
  ForallOrdPairs (fun c1 c2 => cubes_conflict c1 c2 = true) (restrict b v cubes).
Proof.
  unfold restrict. intros Hnd H. induction H as [|c l Hc Hl IH]; cbn [filter map].
  - constructor.
  - assert (IH' : ForallOrdPairs (fun c1 c2 => cubes_conflict c1 c2 = true)
                    (map (remove_key b) (filter (compat b v) l)))
      by (apply IH; intros; apply Hnd; right; auto).
    destruct (compat b v c) eqn:Ec; auto. cbn [map]. constructor; auto.
    apply Forall_forall. intros c' Hc'. apply in_map_iff in Hc'.
    destruct Hc' as (c2 & <- & Hc2). apply filter_In in Hc2. destruct Hc2 as [Hc2 E2].
    apply (conflict_restrict b v); auto.
    + apply Hnd. left; auto.
    + rewrite Forall_forall in Hc. auto.
Qed.

Lemma pow2_split n k : (k <= n)%nat -> (1 <= k)%nat ->
  2 ^ (Z.of_nat n - Z.of_nat (k - 1)) = 2 * 2 ^ (Z.of_nat n - Z.of_nat k).
Proof.
  intros H1 H2. replace (Z.of_nat n - Z.of_nat (k - 1)) with (Z.succ (Z.of_nat n - Z.of_nat k)) by lia.
  rewrite Z.pow_succ_r by lia. reflexivity.
Qed.

(* the weights of the two restrictions add up to the weights of the cubes *)
Lemma sumZ_cons x l : sumZ (x :: l) = x + sumZ l.
Proof. reflexivity. Qed.

Lemma weight_restrict b n cubes :
  (forall c, In c cubes -> NoDup (map fst c) /\ (List.length c <= S n)%nat /\
      (mem bit_eqb b (map fst c) = false -> (List.length c <= n)%nat)) ->
  sumZ (map (cube_weight n) (restrict b false cubes)) +
  sumZ (map (cube_weight n) (restrict b true cubes)) =
  sumZ (map (cube_weight (S n)) cubes).
Proof.
  unfold restrict. induction cubes as [|c r IH]; intro H; [reflexivity|].
  assert (IH' := IH (fun c' Hc' => H c' (or_intror Hc'))). clear IH.
  destruct (H c (or_introl eq_refl)) as (ND & Hlen & Hlen').
  cbn [filter map]. rewrite sumZ_cons, <- IH'. clear IH'.
  set (A := sumZ (map (cube_weight n) (map (remove_key b) (filter (compat b false) r)))).
  set (B := sumZ (map (cube_weight n) (map (remove_key b) (filter (compat b true) r)))).
  pose proof (remove_key_length b c ND) as Hrl.
  destruct (dict_get bit_eqb b c) as [x|] eqn:Eb.
  - assert (Hm : mem bit_eqb b (map fst c) = true).
    { apply (mem_spec bit_eqb bit_eqb_spec).
      apply (dict_get_in bit_eqb bit_eqb_spec) in Eb. apply in_map_iff. exists (b, x). auto. }
    rewrite Hm in Hrl.
    assert (1 <= List.length c)%nat.
    { apply (dict_get_in bit_eqb bit_eqb_spec) in Eb. destruct c; [destruct Eb|cbn; lia]. }
    assert (Ew : cube_weight n (remove_key b c) = cube_weight (S n) c).
    { unfold cube_weight. rewrite Hrl. f_equal. lia. }
    assert (Cf : compat b false c = negb x) by (unfold compat; rewrite Eb; destruct x; reflexivity).
    assert (Ct : compat b true c = x) by (unfold compat; rewrite Eb; destruct x; reflexivity).
    rewrite Cf, Ct. destruct x; cbn [negb map]; rewrite ?sumZ_cons, ?Ew; fold A; fold B; lia.
  - assert (Hm : mem bit_eqb b (map fst c) = false).
    { apply not_true_is_false. rewrite (mem_spec bit_eqb bit_eqb_spec).
      apply (dict_get_none bit_eqb bit_eqb_spec). auto. }
    rewrite Hm in Hrl. specialize (Hlen' Hm).
    assert (Ew : 2 * cube_weight n (remove_key b c) = cube_weight (S n) c).
    { unfold cube_weight. rewrite Hrl, Nat.sub_0_r.
      replace (Z.of_nat (S n) - Z.of_nat (List.length c))
        with (Z.succ (Z.of_nat n - Z.of_nat (List.length c))) by lia.
      rewrite Z.pow_succ_r by lia. reflexivity. }
    assert (Cf : compat b false c = true) by (unfold compat; rewrite Eb; reflexivity).
    assert (Ct : compat b true c = true) by (unfold compat; rewrite Eb; reflexivity).
    rewrite Cf, Ct. cbn [map]. rewrite !sumZ_cons. fold A. fold B. lia.
Qed.

(* the models of a predicate covered by pairwise disjoint cubes over the bits l
   are counted by the cubes' weights *)
Theorem cubes_count l : NoDup l -> forall cubes p base, proper p ->
  (forall c, In c cubes -> NoDup (map fst c) /\ forall b, In b (map fst c) -> In b l) ->
  ForallOrdPairs (fun c1 c2 => cubes_conflict c1 c2 = true) cubes ->
  (forall a, p a = existsb (fun c => cube_holds c a) cubes) ->
  countZ p (asgs_from base l) = sumZ (map (cube_weight (List.length l)) cubes).
Proof.
  induction l as [|b r IH]; intros NDl cubes p base Hp Hc Hd Hcov.
  - cbn [asgs_from List.length]. rewrite countZ_cons.
    replace (countZ p []) with 0 by reflexivity. rewrite Hcov.
    assert (Hnil : forall c, In c cubes -> c = []).
    { intros c Hin. destruct (Hc c Hin) as [_ Hk]. destruct c as [|[k v] c]; auto.
      destruct (Hk k (or_introl eq_refl)). }
    destruct cubes as [|c1 [|c2 rest]].
    + reflexivity.
    + rewrite (Hnil c1 (or_introl eq_refl)). reflexivity.
    + exfalso. inversion Hd as [|? ? Hf _]; subst. inversion Hf; subst.
      rewrite (Hnil c1 (or_introl eq_refl)) in H1. discriminate.
  - inversion NDl as [|? ? Hb NDr]; subst.
    cbn [asgs_from]. rewrite countZ_app.
    assert (Hnd : forall c, In c cubes -> NoDup (map fst c)) by (intros; apply Hc; auto).
    assert (G : forall v, countZ p (asgs_from (upd base b v) r) =
                          sumZ (map (cube_weight (List.length r)) (restrict b v cubes))).
    { intro v.
      rewrite (countZ_ext_in p (fun a => p (upd a b v))).
      2:{ intros a Ha. apply Hp. intro c. unfold upd.
          destruct (bit_eqb_spec c b) as [->|]; auto.
          rewrite (asgs_from_spec r _ a Ha b Hb). apply upd_same. }
      apply IH; auto.
      - intros a a' E. apply Hp. apply upd_exteq. auto.
      - intros c' Hc'. unfold restrict in Hc'. apply in_map_iff in Hc'.
        destruct Hc' as (c & <- & Hin). apply filter_In in Hin. destruct Hin as [Hin _].
        destruct (Hc c Hin) as [ND Hk]. split; [apply remove_key_nodup; auto|].
        intros x Hx. apply remove_key_keys in Hx. destruct Hx as [Hx Hn].
        destruct (Hk x Hx) as [E|]; [congruence|auto].
      - apply ordpairs_restrict; auto.
      - intro a. rewrite Hcov. apply existsb_restrict. auto. }
    rewrite !G. cbn [List.length]. apply weight_restrict.
    intros c Hin. destruct (Hc c Hin) as [ND Hk]. split; auto.
    assert (Hl : (List.length (map fst c) <= List.length (b :: r))%nat)
      by (apply NoDup_incl_length; auto).
    rewrite map_length in Hl. cbn [List.length] in Hl. split; auto.
    intro Hm.
    assert (Hl' : (List.length (map fst c) <= List.length r)%nat).
    { apply NoDup_incl_length; auto. intros x Hx. destruct (Hk x Hx) as [<-|]; auto.
      exfalso. apply (mem_spec bit_eqb bit_eqb_spec) in Hx. congruence. }
    rewrite map_length in Hl'. exact Hl'.
Qed.

(* ---- Context.count ---------------------------------------------------------------------------------- *)
Lemma bitnames_nodup x d : NoDup (bitnames x d).
Proof.
  destruct d; cbn [bitnames].
  - constructor; [intros []|constructor].
  - apply FinFun.Injective_map_NoDup; [|apply seq_NoDup].
    intros i j E. inversion E; auto.
Qed.

Lemma all_bits_nodup t : NoDup (map fst t) -> NoDup (all_bits t).
Proof.
  unfold all_bits. induction t as [|[x d] r IH]; intro H; cbn [flat_map map fst snd].
  - constructor.
  - inversion H; subst. apply nodup_app; auto; [apply bitnames_nodup|].
    intros b Hb Hb'. apply in_bitnames in Hb. destruct Hb as [Hx _].
    apply in_flat_map in Hb'. destruct Hb' as ([y dy] & Hin & Hb'). cbn [fst snd] in Hb'.
    apply in_bitnames in Hb'. destruct Hb' as [Hy _].
    apply H2. apply in_map_iff. exists (y, dy). split; auto. cbn. congruence.
Qed.

Lemma refine_vars_spec cv t : (forall x, In x cv -> exists d, tlookup x t = Some d) ->
  exists bits, refine_vars cv t = Some bits /\ NoDup bits /\
    care_bits_of t (Some cv) = Some (Some bits) /\
    forall b, In b bits <->
      exists x d, In x cv /\ tlookup x t = Some d /\ In b (bitnames x d).
Proof.
  intro Hd. destruct cv as [|c0 cr].
  - exists []. split; [reflexivity|]. split; [constructor|]. split; [reflexivity|].
    intro b. split; [intros []|intros (x & d & [] & _)].
  - destruct (bit_table_spec (c0 :: cr) t Hd) as (bs & E & ND & Hin).
    exists bs. unfold refine_vars, care_bits_of. rewrite E. auto.
Qed.

(* Context.count = the number of assignments to the bits of the care variables
   that satisfy u *)
Theorem count_spec t u care_vars s : wf_tbl t -> uses_only (all_bits t) u ->
  ctx_support t u = Some s ->
  let cv := match care_vars with Some c => c | None => s end in
  (forall x, In x s -> In x cv) ->
  (forall x, In x cv -> exists d, tlookup x t = Some d) ->
  exists bits, refine_vars cv t = Some bits /\ NoDup bits /\
    ctx_count t u care_vars = Some (countZ u (all_asgs bits)).
Proof.
  intros Hwf Hu Es cv Hcov Hd. pose proof Hwf as [ND _].
  destruct (refine_vars_spec cv t Hd) as (bits & Er & NDb & _ & Hin).
  exists bits. split; auto. split; auto.
  destruct (ctx_support_bits t u) as (s' & Es' & _ & Hs). rewrite Es in Es'.
  inversion Es'; subst s'. clear Es'.
  assert (Hsub : forall b, In b (bsupport (all_bits t) u) -> In b bits).
  { intros b Hb. apply Hin.
    destruct (declared_bit_lookup t b Hwf (bsupport_incl _ _ _ Hb)) as (d & Hl & Hbn).
    exists (fst b), d. split; auto. apply Hcov. apply Hs. eauto. }
  assert (NDs : NoDup (bsupport (all_bits t) u))
    by (apply NoDup_filter; apply all_bits_nodup; auto).
  unfold ctx_count. rewrite Es. fold cv.
  replace (match care_vars with Some c => c | None => s end) with cv by reflexivity.
  assert (Hss : subset String.eqb s cv = true)
    by (apply (subset_spec String.eqb string_eqb_spec'); auto).
  rewrite Hss. cbn [negb]. rewrite Er. unfold bcount.
  assert (Hlen : (List.length (bsupport (all_bits t) u) <= List.length bits)%nat)
    by (apply NoDup_incl_length; auto).
  destruct (Z.ltb_spec (Z.of_nat (List.length bits))
              (Z.of_nat (List.length (bsupport (all_bits t) u)))); [lia|].
  f_equal. symmetry. apply (count_slack (all_bits t)); auto.
Qed.

Lemma take_product_length sets model :
  (forall x vals, In (x, vals) sets -> List.length vals = 1%nat) ->
  List.length (take_product sets model) = 1%nat.
Proof.
  induction sets as [|[x vals] r IH]; intro H; [reflexivity|].
  cbn [take_product].
  assert (Hr : List.length (take_product r model) = 1%nat)
    by (apply IH; intros; eapply H; right; eauto).
  assert (Hv : List.length vals = 1%nat) by (apply (H x); left; auto).
  destruct (take_product r model) as [|m [|? ?]]; cbn in Hr; try lia.
  destruct vals as [|v [|? ?]]; cbn in Hv; try lia. reflexivity.
Qed.

Lemma enumerate_int_total_length bs : bs <> [] ->
  (forall ob, In ob bs -> ob <> None) -> List.length (enumerate_int bs) = 1%nat.
Proof.
  intros Hne Hall. unfold enumerate_int. rewrite enumerate_expand by lia.
  rewrite map_length. pose proof (expand_count bs Hne) as Hc.
  assert (E : filter (fun b : option bool => match b with None => true | _ => false end) bs = []).
  { clear - Hall. induction bs as [|ob bs IH]; auto. cbn [filter].
    destruct ob; [apply IH; intros; apply Hall; right; auto|].
    exfalso. apply (Hall None); [left; auto|reflexivity]. }
  rewrite E in Hc. cbn in Hc. lia.
Qed.

Lemma length_concat_ones {A} (ls : list (list A)) :
  (forall l, In l ls -> List.length l = 1%nat) ->
  List.length (List.concat ls) = List.length ls.
Proof.
  induction ls as [|l ls IH]; intro H; [reflexivity|].
  cbn [List.concat List.length]. rewrite app_length, (H l) by (left; auto).
  rewrite IH by (intros; apply H; right; auto). reflexivity.
Qed.

Lemma sumZ_ones {A} (f : A -> Z) l : (forall x, In x l -> f x = 1) ->
  sumZ (map f l) = Z.of_nat (List.length l).
Proof.
  induction l as [|a l IH]; intro H; [reflexivity|].
  cbn [map List.length]. rewrite sumZ_cons, (H a) by (left; auto).
  rewrite IH by (intros; apply H; right; auto). lia.
Qed.

(* count = number of dictionaries yielded, for an explicit care set that covers
   the support and any cubes meeting the contract of dd.pick_iter *)
Theorem count_eq_yield t u cv cb cubes s : wf_tbl t -> uses_only (all_bits t) u ->
  ctx_support t u = Some s ->
  (forall x, In x s -> In x cv) ->
  (forall x, In x cv -> exists d, tlookup x t = Some d) ->
  care_bits_of t (Some cv) = Some cb ->
  contract (all_bits t) u cb cubes ->
  exists n ds, ctx_count t u (Some cv) = Some n /\
    ctx_pick_iter t u (Some cv) cubes = Some ds /\
    n = Z.of_nat (List.length ds) /\ n = Z.of_nat (List.length cubes).
Proof.
  intros Hwf Hu Es Hcov Hd Hcare Hct. pose proof Hwf as [ND Hwfh].
  destruct (count_spec t u (Some cv) s Hwf Hu Es Hcov Hd) as (bits & Er & NDb & Ec).
  destruct (refine_vars_spec cv t Hd) as (bits' & Er' & _ & Ecb & Hin).
  rewrite Er in Er'. inversion Er'; subst bits'. clear Er'.
  rewrite Ecb in Hcare. inversion Hcare; subst cb. clear Hcare.
  destruct (ctx_support_bits t u) as (s' & Es' & _ & Hs). rewrite Es in Es'.
  inversion Es'; subst s'. clear Es'.
  assert (Hsub : forall b, In b (bsupport (all_bits t) u) -> In b bits).
  { intros b Hb. apply Hin.
    destruct (declared_bit_lookup t b Hwf (bsupport_incl _ _ _ Hb)) as (d & Hl & Hbn).
    exists (fst b), d. split; auto. apply Hcov. apply Hs. eauto. }
  (* every cube assigns exactly the care bits *)
  assert (Hkeys : forall c, In c cubes ->
            NoDup (map fst c) /\ (forall b, In b (map fst c) <-> In b bits)).
  { intros c Hc. destruct (ct_ok _ _ _ _ Hct c Hc) as [NDc _]. split; auto.
    intro b. split.
    - intro Hb. destruct (ct_keys _ _ _ _ Hct c b Hc Hb); auto.
    - intro Hb. apply (ct_care _ _ _ _ Hct c b Hc Hb). }
  eexists _, _. split; [exact Ec|].
  split; [apply (pick_iter_value t u (Some cv) (Some bits) cubes); auto|].
  assert (Hn : countZ u (all_asgs bits) = Z.of_nat (List.length cubes)).
  { unfold all_asgs.
    rewrite (cubes_count bits NDb cubes u zero_asg (uses_only_proper _ _ Hu)).
    - apply sumZ_ones. intros c Hc. destruct (Hkeys c Hc) as [NDc Hk].
      unfold cube_weight.
      assert (List.length (map fst c) = List.length bits).
      { apply Nat.le_antisymm; apply NoDup_incl_length; auto; intros b Hb; apply Hk; auto. }
      rewrite map_length in H. rewrite H, Z.sub_diag. reflexivity.
    - intros c Hc. destruct (Hkeys c Hc) as [NDc Hk]. split; auto. intros b Hb. apply Hk; auto.
    - apply (ct_disjoint _ _ _ _ Hct).
    - apply (ct_cover _ _ _ _ Hct). }
  split; [|exact Hn]. rewrite Hn. f_equal. symmetry.
  rewrite length_concat_ones; [apply map_length|].
  intros Lc HLc. apply in_map_iff in HLc. destruct HLc as (c & <- & Hc).
  destruct (Hkeys c Hc) as [NDc Hk].
  apply take_product_length. intros x vals Hx. apply int_sets_spec_in in Hx.
  destruct Hx as (h & Hxin & Et & ->).
  assert (Hlp : List.length (pbits c x h) = wnat h)
    by (unfold pbits; cbn [bitnames]; rewrite !map_length, seq_length; reflexivity).
  apply enumerate_int_total_length.
  - destruct (pbits c x h) eqn:Ep; [|discriminate]. cbn in Hlp.
    destruct (Hwfh x h Hxin) as [H1 _]. unfold wnat in Hlp. lia.
  - (* x is a care variable, so all its bits are in the cube *)
    unfold touched in Et. apply existsb_exists in Et. destruct Et as (b0 & Hb0 & Hm0).
    apply (mem_spec bit_eqb bit_eqb_spec) in Hm0. apply Hk in Hm0. apply Hin in Hm0.
    destruct Hm0 as (x' & d' & Hx' & Hl' & Hbn').
    apply in_bitnames in Hb0. apply in_bitnames in Hbn'.
    assert (x' = x) by (destruct Hb0, Hbn'; congruence). subst x'.
    assert (d' = DInt h) by (pose proof (in_tlookup t x _ ND Hxin); congruence). subst d'.
    intros ob Hob. apply in_app_iff in Hob. destruct Hob as [Hob|Hob].
    + unfold pbits in Hob. apply in_map_iff in Hob. destruct Hob as (b & <- & Hb).
      intro En. apply (dict_get_none bit_eqb bit_eqb_spec) in En. apply En.
      apply Hk. apply Hin. exists x, (DInt h). auto.
    + apply in_map_iff in Hob. destruct Hob as (sb & <- & _). discriminate.
Qed.

(* with care_vars = None the count is the count for care_vars = support *)
Lemma count_default t u s : ctx_support t u = Some s ->
  ctx_count t u None = ctx_count t u (Some s).
Proof. intro Es. unfold ctx_count. rewrite Es. reflexivity. Qed.

(* ---- count = number yielded, default care set (cubes total over the support BITS only) ------------ *)
Definition none_count (bs : list (option bool)) : nat :=
  List.length (filter (fun b : option bool => match b with None => true | _ => false end) bs).

Lemma enumerate_length bs : bs <> [] ->
  Z.of_nat (List.length (enumerate_int bs)) = 2 ^ Z.of_nat (none_count bs).
Proof.
  intro Hne. unfold enumerate_int. rewrite enumerate_expand by lia.
  rewrite map_length. apply expand_count. auto.
Qed.

Lemma take_product_length_mul x vals r model :
  List.length (take_product ((x, vals) :: r) model) =
  (List.length vals * List.length (take_product r model))%nat.
Proof.
  cbn [take_product]. apply length_flat_map_const. intro m. apply map_length.
Qed.

Definition missing_of (c : cube) (x : ident) (d : vdecl) : list bit :=
  filter (fun b => negb (mem bit_eqb b (map fst c))) (bitnames x d).

Definition int_missing (t' : tbl) (c : cube) : list bit :=
  flat_map (fun xd =>
    match snd xd with
    | DInt h => if touched c (fst xd) h then missing_of c (fst xd) (DInt h) else []
    | DBool => []
    end) t'.

Lemma none_count_pbits c x h :
  none_count (pbits c x h ++ map Some (sign_tail h)) =
  List.length (missing_of c x (DInt h)).
Proof.
  unfold none_count, pbits, missing_of. rewrite filter_app, app_length.
  assert (E : filter (fun b : option bool => match b with None => true | _ => false end)
                (map Some (sign_tail h)) = []).
  { induction (sign_tail h); cbn; auto. }
  rewrite E, Nat.add_0_r. clear E.
  induction (bitnames x (DInt h)) as [|b l IH]; [reflexivity|].
  cbn [map filter].
  destruct (dict_get bit_eqb b c) eqn:Ed.
  - assert (Hm : mem bit_eqb b (map fst c) = true).
    { apply (mem_spec bit_eqb bit_eqb_spec).
      apply (dict_get_in bit_eqb bit_eqb_spec) in Ed. apply in_map_iff. eexists (b, _). eauto. }
    rewrite Hm. cbn [negb]. exact IH.
  - assert (Hm : mem bit_eqb b (map fst c) = false).
    { apply not_true_is_false. rewrite (mem_spec bit_eqb bit_eqb_spec).
      apply (dict_get_none bit_eqb bit_eqb_spec). auto. }
    rewrite Hm. cbn [negb List.length]. f_equal. exact IH.
Qed.

Lemma yield_length t' c model : (forall x h, In (x, DInt h) t' -> wf_hint h) ->
  Z.of_nat (List.length (take_product (int_sets_spec t' c) model)) =
  2 ^ Z.of_nat (List.length (int_missing t' c)).
Proof.
  induction t' as [|[x d] r IH]; intro Hwf; [reflexivity|].
  assert (IH' := IH (fun y h Hy => Hwf y h (or_intror Hy))). clear IH.
  cbn [int_sets_spec int_missing flat_map fst snd].
  fold (int_sets_spec r c). fold (int_missing r c).
  destruct d as [|h]; [exact IH'|].
  destruct (touched c x h); [|exact IH']. cbn [app].
  rewrite take_product_length_mul, Nat2Z.inj_mul, IH', app_length, Nat2Z.inj_add.
  rewrite Z.pow_add_r by lia. f_equal.
  rewrite enumerate_length, none_count_pbits; [reflexivity|].
  assert (Hlp : List.length (pbits c x h) = wnat h)
    by (unfold pbits; cbn [bitnames]; rewrite !map_length, seq_length; reflexivity).
  destruct (pbits c x h) eqn:Ep; [|discriminate]. cbn in Hlp.
  destruct (Hwf x h (or_introl eq_refl)) as [H1 _]. unfold wnat in Hlp. lia.
Qed.

Lemma filter_notin_length (l k : list bit) : NoDup l -> NoDup k ->
  (forall b, In b k -> In b l) ->
  (List.length (filter (fun b => negb (mem bit_eqb b k)) l) + List.length k)%nat =
  List.length l.
Proof.
  intros NDl NDk Hincl.
  pose proof (partition_perm (fun b => mem bit_eqb b k) l) as P.
  apply Permutation_length in P. rewrite app_length in P.
  assert (P2 : Permutation (filter (fun b => mem bit_eqb b k) l) k).
  { apply NoDup_Permutation; auto; [apply NoDup_filter; auto|].
    intro b. rewrite filter_In, (mem_spec bit_eqb bit_eqb_spec). split; [tauto|].
    intro Hb. split; auto. }
  apply Permutation_length in P2. lia.
Qed.

Lemma sub_flat_map_nodup (g : ident * vdecl -> list bit) (t : tbl) :
  NoDup (map fst t) ->
  (forall xd, NoDup (g xd) /\ forall b, In b (g xd) -> In b (bitnames (fst xd) (snd xd))) ->
  NoDup (flat_map g t).
Proof.
  intros ND Hg. induction t as [|[x d] r IH]; cbn [flat_map]; [constructor|].
  inversion ND; subst. apply nodup_app; auto.
  - apply Hg.
  - intros b Hb Hb'. apply (Hg (x, d)) in Hb. apply in_bitnames in Hb. destruct Hb as [Hx _].
    apply in_flat_map in Hb'. destruct Hb' as ([y dy] & Hin & Hb').
    apply (Hg (y, dy)) in Hb'. apply in_bitnames in Hb'. destruct Hb' as [Hy _].
    cbn [fst] in *. apply H1. apply in_map_iff. exists (y, dy). split; auto. cbn. congruence.
Qed.

Lemma length_concat_sum {A} (ls : list (list A)) :
  Z.of_nat (List.length (List.concat ls)) =
  sumZ (map (fun l => Z.of_nat (List.length l)) ls).
Proof.
  induction ls as [|l ls IH]; [reflexivity|].
  cbn [List.concat map]. rewrite app_length, Nat2Z.inj_add, sumZ_cons, IH. reflexivity.
Qed.

Lemma sumZ_map_ext {A} (f g : A -> Z) l : (forall x, In x l -> f x = g x) ->
  sumZ (map f l) = sumZ (map g l).
Proof.
  induction l as [|a l IH]; intro H; [reflexivity|].
  cbn [map]. rewrite !sumZ_cons, IH by (intros; apply H; right; auto).
  rewrite (H a) by (left; auto). reflexivity.
Qed.

Theorem count_eq_yield_default t u cubes s : wf_tbl t -> uses_only (all_bits t) u ->
  ctx_support t u = Some s ->
  contract (all_bits t) u None cubes ->
  exists n ds, ctx_count t u None = Some n /\
    ctx_pick_iter t u None cubes = Some ds /\ n = Z.of_nat (List.length ds).
Proof.
  intros Hwf Hu Es Hct. pose proof Hwf as [ND Hwfh].
  destruct (ctx_support_bits t u) as (s' & Es' & _ & Hs). rewrite Es in Es'.
  inversion Es'; subst s'. clear Es'.
  assert (Hdecl : forall x, In x s -> exists d, tlookup x t = Some d).
  { intros x Hx. apply Hs in Hx. destruct Hx as (b & Hb & <-).
    destruct (declared_bit_lookup t b Hwf (bsupport_incl _ _ _ Hb)) as (d & Hl & _). eauto. }
  destruct (count_spec t u None s Hwf Hu Es (fun x H => H) Hdecl) as (bits & Er & NDb & Ec).
  destruct (refine_vars_spec s t Hdecl) as (bits' & Er' & _ & _ & Hin).
  cbv zeta in Er. rewrite Er in Er'. inversion Er'; subst bits'. clear Er'.
  set (supp := bsupport (all_bits t) u) in *.
  assert (Hsub : forall b, In b supp -> In b bits).
  { intros b Hb. apply Hin.
    destruct (declared_bit_lookup t b Hwf (bsupport_incl _ _ _ Hb)) as (d & Hl & Hbn).
    exists (fst b), d. split; auto. apply Hs. eauto. }
  assert (Hkeys : forall c, In c cubes ->
            NoDup (map fst c) /\ (forall b, In b (map fst c) <-> In b supp)).
  { intros c Hc. destruct (ct_ok _ _ _ _ Hct c Hc) as [NDc _]. split; auto.
    intro b. split.
    - intro Hb. destruct (ct_keys _ _ _ _ Hct c b Hc Hb); auto.
    - intro Hb. apply (ct_care _ _ _ _ Hct c b Hc Hb). }
  eexists _, _. split; [exact Ec|].
  split; [apply (pick_iter_value t u None None cubes); auto|].
  unfold all_asgs.
  rewrite (cubes_count bits NDb cubes u zero_asg (uses_only_proper _ _ Hu)).
  2:{ intros c Hc. destruct (Hkeys c Hc) as [NDc Hk]. split; auto.
      intros b Hb. apply Hsub. apply Hk. auto. }
  2:{ apply (ct_disjoint _ _ _ _ Hct). }
  2:{ apply (ct_cover _ _ _ _ Hct). }
  rewrite length_concat_sum, map_map. apply sumZ_map_ext.
  intros c Hc. destruct (Hkeys c Hc) as [NDc Hk].
  rewrite yield_length by auto. unfold cube_weight. f_equal.
  (* the unassigned bits of the touched integers are the bits of the support
     variables that the cube does not assign *)
  assert (Hperm : Permutation (int_missing t c)
                    (filter (fun b => negb (mem bit_eqb b (map fst c))) bits)).
  { apply NoDup_Permutation.
    - apply sub_flat_map_nodup; auto. intros [x d]. cbn [fst snd].
      destruct d as [|h]; [split; [constructor|intros ? []]|].
      destruct (touched c x h); [|split; [constructor|intros ? []]].
      unfold missing_of. split; [apply NoDup_filter; apply bitnames_nodup|].
      intros b Hb. apply filter_In in Hb. tauto.
    - apply NoDup_filter. auto.
    - intro b. unfold int_missing. rewrite in_flat_map, filter_In. split.
      + intros ([x d] & Hxd & Hb). cbn [fst snd] in Hb.
        destruct d as [|h]; [destruct Hb|].
        destruct (touched c x h) eqn:Et; [|destruct Hb].
        unfold missing_of in Hb. apply filter_In in Hb. destruct Hb as [Hb Hn].
        split; auto. apply Hin. exists x, (DInt h). split; [|split; auto].
        * unfold touched in Et. apply existsb_exists in Et. destruct Et as (b0 & Hb0 & Hm0).
          apply (mem_spec bit_eqb bit_eqb_spec) in Hm0. apply Hk in Hm0.
          apply Hs. exists b0. split; auto. apply in_bitnames in Hb0. tauto.
        * apply in_tlookup; auto.
      + intros [Hb Hn]. apply Hin in Hb. destruct Hb as (x & d & Hx & Hl & Hbn).
        exists (x, d). split; [apply tlookup_in; auto|]. cbn [fst snd].
        apply Hs in Hx. destruct Hx as (b0 & Hb0 & Ex).
        assert (Hb0k : In b0 (map fst c)) by (apply Hk; auto).
        destruct (declared_bit_lookup t b0 Hwf (bsupport_incl _ _ _ Hb0)) as (d0 & Hl0 & Hbn0).
        rewrite Ex in Hl0, Hbn0. assert (d0 = d) by congruence. subst d0.
        destruct d as [|h].
        * exfalso. apply in_bitnames in Hbn. apply in_bitnames in Hbn0.
          assert (b = b0) by (destruct b, b0, Hbn, Hbn0; cbn in *; congruence). subst b0.
          apply negb_true_iff in Hn.
          apply (mem_spec bit_eqb bit_eqb_spec) in Hb0k. congruence.
        * assert (Et : touched c x h = true).
          { unfold touched. apply existsb_exists. exists b0. split; auto.
            apply (mem_spec bit_eqb bit_eqb_spec). auto. }
          rewrite Et. unfold missing_of. apply filter_In. auto. }
  apply Permutation_length in Hperm. rewrite Hperm.
  pose proof (filter_notin_length bits (map fst c) NDb NDc) as Hl.
  rewrite map_length in Hl. specialize (Hl (fun b Hb => Hsub b (proj1 (Hk b) Hb))). lia.
Qed.

(* ---- Context.pick ------------------------------------------------------------------------------------- *)
Theorem pick_spec t u care_vars cb cubes : wf_tbl t -> uses_only (all_bits t) u ->
  care_bits_of t care_vars = Some cb -> contract (all_bits t) u cb cubes ->
  exists r, ctx_pick t u care_vars cubes = Some r /\
    match r with
    | None => forall f, in_range t f -> sem t u f = false
    | Some d => forall f, in_range t f -> extends f d -> sem t u f = true
    end.
Proof.
  intros Hwf Hu Hcare Hct. unfold ctx_pick.
  rewrite (pick_iter_value t u care_vars cb cubes) by auto.
  set (ds := List.concat _).
  assert (Hs : forall d f, In d ds -> in_range t f -> extends f d -> sem t u f = true)
    by (intros d f; apply (pick_iter_sound t u cb cubes); auto).
  assert (Hc : forall f, in_range t f -> sem t u f = true -> exists d, In d ds /\ extends f d)
    by (intro f; apply (pick_iter_complete t u cb cubes); auto).
  destruct ds as [|d rest].
  - exists None. split; auto. intros f Hf. destruct (sem t u f) eqn:E; auto.
    destruct (Hc f Hf E) as (d & [] & _).
  - exists (Some d). split; auto. intros f Hf He. apply (Hs d f); auto. left; auto.
Qed.

(* ---- Context.replace_with_bdd --------------------------------------------------------------------------- *)
Theorem replace_with_bdd_spec t subs u : wf_tbl t -> uses_only (all_bits t) u ->
  (forall x q, In (x, q) subs -> tlookup x t = Some DBool) ->
  forall f, sem t (ctx_replace_with_bdd subs u) f =
    sem t u (fun x => match dict_get String.eqb x subs with
                      | Some q => VB (sem t q f)
                      | None => f x
                      end).
Proof.
  intros Hwf Hu Hb f. unfold sem, ctx_replace_with_bdd, bcompose. apply Hu. intros b Hb'.
  assert (G : forall l, dict_get bit_eqb b (map (fun xq : ident * pred => ((fst xq, 0%nat), snd xq)) l) =
            if Nat.eqb (snd b) 0 then dict_get String.eqb (fst b) l else None).
  { induction l as [|[x q] l IH]; cbn [map dict_get fst snd].
    - destruct (Nat.eqb (snd b) 0); reflexivity.
    - rewrite IH. destruct b as [y i]. cbn [fst snd]. unfold bit_eqb. cbn [fst snd].
      destruct (Nat.eqb_spec i 0); [|reflexivity]. subst.
      destruct (String.eqb_spec y x); reflexivity. }
  rewrite G. destruct (declared_bit_lookup t b Hwf Hb') as (d & Hl & Hbn).
  destruct (dict_get String.eqb (fst b) subs) as [q|] eqn:Eq.
  - assert (Hl' : tlookup (fst b) t = Some DBool).
    { apply (Hb (fst b) q). apply (dict_get_in String.eqb string_eqb_spec'). auto. }
    rewrite Hl' in Hl. inversion Hl; subst d.
    apply in_bitnames in Hbn. destruct Hbn as [_ Hi]. rewrite Hi. cbn [Nat.eqb].
    unfold encode. rewrite Hl', Eq. reflexivity.
  - destruct (Nat.eqb (snd b) 0); apply encode_local; rewrite Eq; reflexivity.
Qed.
