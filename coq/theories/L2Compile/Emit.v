(* L2e / Emit: the two dispatchers of omega/logic/bitvector.py that choose a
   circuit by the operator's spelling -- flatten_arithmetic and
   flatten_comparator -- and ite_connective, as emitters over Deep.bx (the
   circuits themselves are the d_ functions of Deep.v).  The generated code
   (coq/gen/BitvectorGen.v) is proved equal to these in
   coq/GenProofs/BitvectorBridge.v.  No proofs here (see EmitProofs.v). *)
From Coq Require Import String ZArith List Bool.
From Omega Require Import L1Circuits.Circuits L1Circuits.Deep L1Circuits.PyBits L2Compile.Expr.
Import ListNotations.

(* the spellings dispatched by flatten_arithmetic *)
Definition aop_of_string (s : string) : option aop :=
  if String.eqb s "+"%string then Some AAdd
  else if String.eqb s "-"%string then Some ASub
  else if String.eqb s "*"%string then Some AMul
  else if String.eqb s "/"%string then Some ADiv
  else if String.eqb s "%"%string then Some AMod
  else None.

(* the spellings dispatched by flatten_comparator (after repair F11 "=<" is
   "<=") *)
Definition cmp_of_string (s : string) : option cmp :=
  if String.eqb s "<"%string then Some CLt
  else if String.eqb s "<="%string then Some CLe
  else if String.eqb s "=<"%string then Some CLe
  else if String.eqb s "="%string then Some CEq
  else if String.eqb s "#"%string then Some CNe
  else if String.eqb s "/="%string then Some CNe
  else if String.eqb s "!="%string then Some CNe
  else if String.eqb s ">="%string then Some CGe
  else if String.eqb s ">"%string then Some CGt
  else None.

(* flatten_arithmetic(operator, p, q, mem) with start = len(mem):
   (result bits, cells appended to mem) *)
Definition d_flatten_arithmetic (o : aop) (p q : list bx) (start : nat)
  : list bx * list bx :=
  match o with
  | AAdd => let '(r, m, _) := d_adder_subtractor p q true start 1 in (r, m)
  | ASub => let '(r, m, _) := d_adder_subtractor p q false start 1 in (r, m)
  | AMul => d_multiplier p q start
  | ADiv => let '(quo, _, m) := d_restoring_divider p q start in (quo, m)
  | AMod => let '(_, rem, m) := d_restoring_divider p q start in (rem, m)
  end.

(* flatten_comparator(operator, x, y, mem): mem after the call; the returned
   text is the buffer "$ len(mem) mem" *)
Definition d_comparator_mem (o : cmp) (x y mem : list bx) : list bx :=
  mem ++ d_flatten_comparator o x y (length mem).

(* ite_connective(a, b, c) = "$ 2 a | & b ? 0 & c ! ? 0" *)
Definition d_ite_connective (a b c : bx) : fbuf :=
  FBuf 2 [a; XOr (XAnd b (XR 0)) (XAnd c (XNot (XR 0)))].

(* symbolic/bdd.py Nodes.Buffer.flatten: the cells are evaluated in order
   from an EMPTY memory; the value is the last cell *)
Definition buf_value (vars : nat -> bool) (b : fbuf) : option bool :=
  match fbuf_cells b with
  | Some cells => Some (last (run vars [] cells) false)
  | None => None
  end.
