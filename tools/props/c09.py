"""C09 — the computed cover is a minimum-cardinality cover by prime boxes."""
import concurrent.futures
import itertools
import json
import os

from vlib import core, cover_inst as ci, cover_coq as cq, cover_bbgen
from vlib import cover_ccgen
from vlib.core import Broken, Mismatch, Failing
from oracles import cover_brute as brute

ID = 'C09'
LEVEL = 'proof'
THEORIES = ['theories/L5Cover/BoxesProofs.vo',
            'theories/L5Cover/MinCoverProofs.vo',
            'theories/L5Cover/MinCoverBounded.vo',
            'theories/L5Cover/MinCoverBounded3L.vo',
            'theories/L5Cover/MinCoverBounded4.vo',
            'theories/L5Cover/BoundsProofs.vo',
            'theories/L5Cover/FloorLitProofs.vo',
            'theories/L5Cover/MinCoverRefuted.vo',
            'theories/L5Cover/CyclicCoreOpt.vo',
            'theories/L5Cover/MinCoverFull.vo',
            'theories/L5Cover/CyclicCoreTotal.vo',
            'theories/L5Cover/MinCoverTotal.vo']

HEADER = cq.HEADER + 'From Omega Require Import L5Cover.MinCover.\n'

CORES3 = [126, 189, 219, 231]   # the 3-variable functions with a cyclic core


def prove(ctx):
    with ctx.coq_lock():
        cover_bbgen.ensure(ctx)
        cover_ccgen.ensure(ctx)
        ctx.prove('Properties/C09.v', timeout=1200)
    ctx.trusted.append(cover_bbgen.TRUSTED)
    ctx.trusted.append(cover_ccgen.TRUSTED)
    ctx.trusted.append(
        'tie H: what remains modelled by hand in L5Cover/MinCover.v / Boxes.v '
        'below the translated functions of omega/symbolic/cover.py: the '
        'lattice formulas _floor / _maxima / _contains_covered (pinned source '
        'text -> ceil, floor, maxima), orthotopes.embed_as_implicants / '
        'prime_implicants (embed, primes) and the meaning of the dd '
        'operations; on every run the real cover is validated by the '
        'verified checker is_min_prime_cover_b evaluated in Coq, cyclic_core '
        'results are compared exactly with the model, and cardinalities of '
        'the model and the real minimize are compared')


# ------------------------------------------------------------------ instances
def gen_instances(ctx):
    rng = ctx.rng
    out = []
    bk = lambda: rng.choice(['autoref', 'cudd'])
    # minimised failures of earlier runs first
    cdir = os.path.join(core.VERIF, 'corpus', ID)
    if os.path.isdir(cdir):
        for fn in sorted(os.listdir(cdir)):
            if fn.endswith('.json'):
                d = json.load(open(os.path.join(cdir, fn)))
                out.append((d.get('kind', 'corpus'), d['instance']))
    # all non-constant functions of 3 two-valued variables (= all subsets of
    # the 2x2x2 grid), care = TRUE, plus sampled care sets
    ncare = 6 if ctx.thorough else 2
    for m in range(1, 255):
        out.append(('bool3', ci.boolean_instance(3, m, None, bk())))
        for _ in range(ncare):
            cm = rng.randrange(1, 256)
            fm = m & cm if rng.random() < 0.8 else m
            if fm == 0 or (fm == 255 and cm == 255):
                continue
            out.append(('bool3care', ci.boolean_instance(3, fm, cm, bk())))
    # 4 two-valued variables, care = TRUE
    if ctx.thorough:
        # exhaustive; only the verified checker on the real cover (the model
        # is proved minimum on this whole domain by C09_bounded_4, so the
        # cardinalities agree whenever the checker accepts)
        for m in range(1, 65535):
            out.append(('bool4all', ci.boolean_instance(
                4, m, None, 'cudd' if m % 2 else 'autoref')))
        for _ in range(1500):
            out.append(('bool4', ci.boolean_instance(
                4, rng.randrange(1, 65535), None, bk())))
    else:
        for _ in range(150):
            out.append(('bool4', ci.boolean_instance(
                4, rng.randrange(1, 65535), None, bk())))
    # the 3-variable cyclic cores embedded in 4-variable functions
    for _ in range(400 if ctx.thorough else 40):
        c = rng.choice(CORES3)
        g = rng.randrange(0, 256)
        cm = None if rng.random() < 0.6 else (rng.randrange(1, 65536) | c)
        out.append(('core4', ci.boolean_instance(4, c | (g << 8), cm, bk())))
    # dense functions of 5 two-valued variables: the 5-cube minus k points,
    # care = TRUE (greedy cover often not minimum, branches pruned at the
    # root: exercises the bounds returned by _traverse)
    decl5 = {n: (0, 1) for n in ['x', 'y', 'z', 'w', 'v']}
    pts5 = list(itertools.product([0, 1], repeat=5))
    for _ in range(200 if ctx.thorough else 12):
        k = rng.randrange(4, 9)
        drop = set(rng.sample(range(32), k))
        f = [p for i, p in enumerate(pts5) if i not in drop]
        out.append(('cube5minus', ci.instance(decl5, f, None, bk())))
    # subsets of the 3x3 integer grid (care = type hints; bit-field is 4x4)
    decl = dict(x=(0, 2), y=(0, 2))
    hints = [(a, b) for a in range(3) for b in range(3)]
    masks = (range(1, 512) if ctx.thorough
             else [rng.randrange(1, 512) for _ in range(60)])
    for m in masks:
        f = [p for i, p in enumerate(hints) if m >> i & 1]
        out.append(('grid3x3', ci.instance(decl, f, hints, bk())))
    # random integer instances in the three hint shapes
    for _ in range(500 if ctx.thorough else 50):
        out.append(('random', ci.random_instance(rng, 64, backend=bk())))
    return out


def work(job):
    kind, inst = job
    res = dict(kind=kind)
    try:
        cover, xs, pb = ci.run_minimize(inst)
        res['cover'] = cover
        res['xs'] = xs
        res['limits'] = pb.limits
        res['names'] = pb.names
        res['support'] = pb.support_names()
    except ci.LimitsDiffer as e:
        res['infra'] = str(e)
        return res
    except Exception as e:   # the property says a cover is returned
        res['error'] = ci.describe_exception(e)
        return res
    if kind == 'bool4all':
        return res
    try:
        core3, xs2, _ = ci.run_cyclic_core(inst)
        res['core'] = core3
    except Exception as e:
        res['core_error'] = ci.describe_exception(e)
    return res


def run_all(jobs):
    n = min(core.NPROC, max(1, len(jobs)))
    with concurrent.futures.ProcessPoolExecutor(n) as ex:
        return list(ex.map(work, jobs, chunksize=max(1, len(jobs) // (n * 8))))


def coq_group(i, inst, res):
    names = res['names']
    idx = [names.index(x) for x in res['xs']]
    p = f'i{i}_'
    defs = cq.instance_defs(p, inst, res['limits'], idx)
    args = f'{p}rs {p}f {p}care'
    proj = lambda bs: [[b[j] for j in idx] for b in bs]
    terms = [f'is_min_prime_cover_b {args} {cq.boxes(proj(res["cover"]))}']
    keys = ['checker']
    n = len(res['cover'])
    for pk in (() if res['kind'] == 'bool4all'
               else ('pick_first', 'pick_last')):
        terms.append(
            f'match minimize {p}rs {pk} {p}f {p}care with '
            f'Some K => Nat.eqb (length K) {n}%nat && '
            f'is_min_prime_cover_b {args} K | None => false end')
        keys.append('model_' + pk)
    if 'core' in res:
        xc, yc, ec = [cq.boxes(proj(s)) for s in res['core']]
        terms.append(
            f'match cyclic_core_fc {args} with Some (x, y, e) => '
            f'same_setb x {xc} && same_setb y {yc} && same_setb e {ec} '
            '| None => false end')
        keys.append('cyclic_core')
    return (defs, terms), keys


def precondition_probe():
    """The inputs the library refuses by assertion (orthotopes.setup_aux_vars,
    first call of cover.minimize and cover_enum.minimize): f = FALSE,
    care = FALSE, f = care = TRUE.  The model has no counterpart of these
    guards, so C09_total / C10_total speak about the code only inside this
    precondition.  Observed on every run and recorded in the evidence (what
    the code does on them is not part of the property)."""
    import omega.symbolic.fol as _fol
    import omega.symbolic.cover as cov
    import omega.symbolic.cover_enum as cov_enum
    out = {}
    for fname, f_s, c_s in (('f_false', 'FALSE', 'x < 2'),
                            ('care_false', 'x < 2', 'FALSE'),
                            ('f_and_care_true', 'TRUE', 'TRUE')):
        for mod, m in (('cover', cov), ('cover_enum', cov_enum)):
            fol = _fol.Context()
            fol.declare(x=(0, 3), y=(0, 3))
            f, care = fol.add_expr(f_s), fol.add_expr(c_s)
            try:
                m.minimize(f, care, fol)
                out[f'{mod}:{fname}'] = 'returned'
            except AssertionError:
                out[f'{mod}:{fname}'] = 'refused (AssertionError)'
            except Exception as e:
                out[f'{mod}:{fname}'] = f'raised {type(e).__name__}'
    return out


def correspond(ctx):
    jobs = gen_instances(ctx)
    try:
        ctx.extra['library_precondition'] = precondition_probe()
    except Exception as e:
        ctx.extra['library_precondition'] = dict(error=repr(e))
    ctx.log(f'{len(jobs)} instances; running the implementation')
    results = run_all(jobs)
    ctx.log('implementation done; evaluating in Coq')
    mism = []
    groups, allkeys = [], []
    kinds = {}
    nontrivial = 0
    cores = 0
    for i, ((kind, inst), res) in enumerate(zip(jobs, results)):
        kinds[kind] = kinds.get(kind, 0) + 1
        if 'infra' in res:
            raise Broken('infra', res['infra'])
        if 'error' in res:
            mism.append(Mismatch(
                'cover.minimize raised ' + res['error']['type'] + ' in '
                + res['error']['frames'][-1][0], inst, impl=res['error'],
                property_fails=True))
            continue
        if sorted(res['xs']) != sorted(res['support']):
            mism.append(Mismatch(
                'lattice variables differ from the joint support of f, care',
                inst, impl=res['xs'], model=res['support']))
            continue
        if 'core_error' in res and kind != 'bool4all':
            mism.append(Mismatch(
                'cover.cyclic_core raised ' + res['core_error']['type'],
                inst, impl=res['core_error'], property_fails=True))
            continue
        if len(res['cover']) > 1:
            nontrivial += 1
        if res.get('core') and res['core'][0]:
            cores += 1
        g, keys = coq_group(i, inst, res)
        groups.append(g)
        allkeys += [(i, k) for k in keys]
    shard = 1200 if ctx.thorough else 160
    vals = ctx.eval_groups('corr', HEADER, groups, shard=shard, timeout=2400)
    for (i, k), ok in zip(allkeys, vals):
        if ok:
            continue
        kind, inst = jobs[i]
        res = results[i]
        if k == 'checker':
            mism.append(Mismatch(
                'the returned cover is rejected by the verified checker '
                'is_min_prime_cover_b', inst, impl=res['cover'],
                property_fails=True))
        elif k == 'cyclic_core':
            mism.append(Mismatch(
                'cyclic_core (xcore, ycore, essential) differs from the model',
                inst, impl=res['core']))
        else:
            mism.append(Mismatch(
                f'the model ({k}) returns no cover or a cover of another '
                'cardinality than cover.minimize', inst, impl=res['cover']))
    ctx.cov['evaluations'] += len(vals)
    ctx.cov['distinct_nontrivial'] += nontrivial
    ctx.cov['rule'] = (
        'cover.minimize and cover.cyclic_core on: all 254 non-constant '
        'functions of 3 two-valued variables with care=TRUE and sampled care '
        'sets; functions of 4 two-valued variables with care=TRUE (thorough: '
        'all 65534); the four 3-variable cyclic cores embedded in 4-variable '
        'functions; the 5-cube minus 4..8 random points (5 two-valued '
        'variables, care=TRUE); subsets of the 3x3 integer grid with care = type hints '
        '(thorough: all 511); random 1-4 variable integer instances in the '
        'three hint shapes with f/care random subsets of the bit-range grid. '
        'Per instance, evaluated by vm_compute: verified checker on the real '
        'cover; model (two pick functions) returns a minimum cover of the '
        'same cardinality; cyclic_core triple equals the model as sets. '
        'non-trivial = cover with more than one box')
    ctx.cov['samples'] = [
        dict(kind=jobs[i][0], instance=jobs[i][1], cover=results[i].get('cover'))
        for i in (0, len(jobs) // 2, len(jobs) - 1)]
    ctx.cov['exhaustive'] = (
        'all functions of 3 two-valued variables (care=TRUE)'
        + ('; all functions of 4 two-valued variables (care=TRUE); all '
           'subsets of the 3x3 grid' if ctx.thorough else ''))
    ctx.extra['correspondence'] = dict(
        instances=len(jobs), by_kind=kinds, comparisons=len(vals),
        mismatches=len(mism), nonempty_cyclic_cores=cores,
        backends=['autoref', 'cudd'])
    # exercise the search oracle on a few instances
    orc = 0
    for (kind, inst), res in list(zip(jobs, results))[:: max(1, len(jobs) // 12)]:
        if 'cover' not in res:
            continue
        why = oracle_check(inst, res)
        orc += 1
        if why:
            mism.append(Mismatch('brute-force oracle: ' + why, inst,
                                 impl=res['cover'], property_fails=True))
    ctx.extra['oracle_crosschecked_instances'] = orc
    return mism


# ---------------------------------------------------------------- search
def oracle_check(inst, res):
    f = set(map(tuple, inst['f']))
    care = None if inst['care'] is None else set(map(tuple, inst['care']))
    return brute.check_cover(res['limits'], f, care, res['cover'])


def failing_of(inst):
    res = work(('replay', inst))
    if 'error' in res:
        return Failing('cover.minimize raised ' + res['error']['type']
                       + ' in ' + res['error']['frames'][-1][0], inst,
                       expected='a minimum cover by maximal boxes',
                       got=res['error'],
                       replay_cmd='./check C09 --replay <this file>')
    if 'cover' not in res:
        return None
    why = oracle_check(inst, res)
    if why:
        return Failing('cover.minimize: ' + why, inst,
                       expected='a minimum cover by maximal boxes',
                       got=res['cover'],
                       replay_cmd='./check C09 --replay <this file>')
    return None


def shrink(inst):
    """Greedy: drop points of f / care while the failure persists."""
    cur = inst
    for key in ('f', 'care'):
        if cur[key] is None:
            continue
        i = 0
        while i < len(cur[key]) and len(cur[key]) > 1:
            cand = dict(cur)
            cand[key] = cur[key][:i] + cur[key][i + 1:]
            lims, grid = ci.grid_of_decl(cand['decl'])
            try:
                bad = ci.valid(cand, grid) and failing_of(cand)
            except Exception:
                bad = None
            if bad:
                cur = cand
            else:
                i += 1
    return cur


def search(ctx, broken, mismatches):
    for m in mismatches:
        if m.case is None:
            continue
        f = failing_of(m.case)
        if f:
            small = shrink(m.case)
            return [failing_of(small) or f]
    budget = 1500 if ctx.thorough else 200
    jobs = []
    for i in range(budget):
        r = ctx.rng.random()
        if r < 0.5:
            jobs.append(('s', ci.boolean_instance(
                4, ctx.rng.randrange(1, 65535), None)))
        elif r < 0.7:
            c = ctx.rng.choice(CORES3)
            jobs.append(('s', ci.boolean_instance(
                4, c | (ctx.rng.randrange(256) << 8), None)))
        else:
            jobs.append(('s', ci.random_instance(ctx.rng, 64)))
    results = run_all(jobs)
    for (k, inst), res in zip(jobs, results):
        bad = 'error' in res or ('cover' in res and oracle_check(inst, res))
        if bad:
            small = shrink(inst)
            f = failing_of(small) or failing_of(inst)
            if f:
                return [f]
    return []


def replay(path):
    d = json.load(open(path))
    inst = d.get('input') or d.get('case')
    if inst is None:
        print('no input in replay file (broken obligation):',
              json.dumps(d.get('broken'))[:500])
        return 1
    f = failing_of(inst)
    if f:
        print('still fails:', f.what)
        return 1
    print('passes')
    return 0
