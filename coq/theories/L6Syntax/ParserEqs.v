(* L6 Syntax — one-step unfolding equations of the parser's mutual fixpoint
   (each by conversion).  The right-hand sides are the bodies of Parser.v,
   copied by tools/vlib/syntax_eqs.py, so that proofs never unfold the
   fixpoint itself. *)
From Coq Require Import List String NArith Bool.
From Omega Require Import L6Syntax.Tokens L6Syntax.Parser.
Import ListNotations.
Local Open Scope string_scope.
Local Open Scope N_scope.

Section Eqs.
Variable T : ptable.
Local Notation p_expr := (p_expr T).
Local Notation p_nud := (p_nud T).
Local Notation p_led := (p_led T).
Local Notation p_junc := (p_junc T).
Local Notation p_defs := (p_defs T).
Local Notation p_list := (p_list T).
Local Notation rule_bind := (rule_bind T).
Local Notation p_units := (p_units T).

Lemma p_expr_eq : forall (f : nat) (m : N) (ts : list token),
  p_expr (S f) m ts =

      match p_nud f ts with
      | Some (l, r) => p_led f m l r
      | None => None
      end.
Proof. reflexivity. Qed.

Lemma p_nud_eq : forall (f : nat) (ts : list token),
  p_nud (S f) ts =

      match ts with
      | [] => None
      | t :: r =>
          if is_ty t "NAME" then Some (Term KVar (tval t), r)
          else if is_ty t "TRUE" || is_ty t "FALSE" then Some (Term KBool (tval t), r)
          else if is_ty t "NUMBER" then p_number_tail (Term KNum (tval t)) r
          else if is_ty t "LPAREN" then
            match p_expr f 0 r with
            | Some (e, r1) =>
                match expect "RPAREN" r1 with
                | Some r2 => Some (e, r2)
                | None => None
                end
            | None => None
            end
          else if is_ty t "DQUOTES" then
            match r with
            | n :: q :: r' =>
                if is_ty n "NAME" && is_ty q "DQUOTES"
                then Some (Term KStr ("""" ++ tval n ++ """"), r') else None
            | _ => None
            end
          else if is_ty t "ITE" then
            match expect "LPAREN" r with
            | Some r1 =>
              match p_expr f 0 r1 with
              | Some (a, r2) =>
                match expect "COMMA" r2 with
                | Some r3 =>
                  match p_expr f 0 r3 with
                  | Some (b, r4) =>
                    match expect "COMMA" r4 with
                    | Some r5 =>
                      match p_expr f 0 r5 with
                      | Some (c, r6) =>
                        match expect "RPAREN" r6 with
                        | Some r7 => Some (Opr (tval t) [a; b; c], r7)
                        | None => None
                        end
                      | None => None
                      end
                    | None => None
                    end
                  | None => None
                  end
                | None => None
                end
              | None => None
              end
            | None => None
            end
          else if is_ty t "IF" then
            match p_expr f 0 r with
            | Some (a, r1) =>
              match expect "THEN" r1 with
              | Some r2 =>
                match p_expr f 0 r2 with
                | Some (b, r3) =>
                  match expect "ELSE" r3 with
                  | Some r4 =>
                    match p_expr f (rule_bind "IF_THEN_ELSE") r4 with
                    | Some (c, r5) => Some (Opr "ite" [a; b; c], r5)
                    | None => None
                    end
                  | None => None
                  end
                | None => None
                end
              | None => None
              end
            | None => None
            end
          else if is_ty t "LET" then
            match p_defs f r with
            | Some (ds, r1) =>
              match expect "IN_EXPR" r1 with
              | Some r2 =>
                match p_expr f (rule_bind "LET_IN") r2 with
                | Some (b, r3) => Some (Opr (tval t) [Lst ds; b], r3)
                | None => None
                end
              | None => None
              end
            | None => None
            end
          else if is_ty t "FORALL" || is_ty t "EXISTS" then
            match p_list f r with
            | Some (vs, r1) =>
              match expect "COLON" r1 with
              | Some r2 =>
                match p_expr f (rule_bind "COLON") r2 with
                | Some (b, r3) => Some (Opr (tval t) [Opr "params" vs; b], r3)
                | None => None
                end
              | None => None
              end
            | None => None
            end
          else if is_ty t "AT" then
            match p_number r with
            | Some (n, r1) => Some (Opr (tval t) [n], r1)
            | None => None
            end
          else
          match pt_pre T (tty t) with
          | Some al =>
              match p_expr f (bind_of al) r with
              | Some (x, r1) => Some (Un (tval t) x, r1)
              | None => None
              end
          | None =>
              if is_ty t "MINUS" then
                match p_number ts with
                | Some (n, r1) => p_number_tail n r1
                | None => None
                end
              else if is_ty t "AND" then
                (* junc_list : AND expr   (rule precedence: AND) *)
                match p_expr f (rule_bind "AND") r with
                | Some (x, r1) => p_junc f x r1
                | None => None
                end
              else if is_ty t "OR" then
                (* junc_list : OR expr %prec CONJ_LIST *)
                match p_expr f (rule_bind "CONJ_LIST") r with
                | Some (x, r1) => p_junc f x r1
                | None => None
                end
              else None
          end
      end.
Proof. reflexivity. Qed.

Lemma p_led_eq : forall (f : nat) (m : N) (l : tree) (ts : list token),
  p_led (S f) m l ts =

      match ts with
      | [] => Some (l, ts)
      | t :: r =>
          match pt_bin T (tty t) with
          | Some (c, a, lv) =>
              if can_shift m lv then
                match p_expr f (bind_of (a, lv)) r with
                | Some (x, r1) => p_led f m (Bin c (tval t) l x) r1
                | None => None
                end
              else Some (l, ts)
          | None =>
              match pt_post T (tty t) with
              | Some (a, lv, name) =>
                  if can_shift m lv then p_led f m (Un name l) r
                  else Some (l, ts)
              | None =>
                  if is_ty t "TRUNCATE" then
                    (* expr : expr TRUNCATE number *)
                    if can_shift m (snd (pt_rule T "TRUNCATE")) then
                      match p_number r with
                      | Some (n, r1) => p_led f m (Bin CArithmetic (tval t) l n) r1
                      | None => None
                      end
                    else Some (l, ts)
                  else Some (l, ts)
              end
          end
      end.
Proof. reflexivity. Qed.

Lemma p_junc_eq : forall (f : nat) (j : tree) (ts : list token),
  p_junc (S f) j ts =

      match ts with
      | t :: r =>
          if is_ty t "AND" || is_ty t "OR" then
            match p_expr f (rule_bind (tty t)) r with
            | Some (x, r1) => p_junc f (Bin CBinary (tval t) j x) r1
            | None => None
            end
          else Some (j, ts)
      | [] => Some (j, ts)
      end.
Proof. reflexivity. Qed.

Lemma p_defs_eq : forall (f : nat) (ts : list token),
  p_defs (S f) ts =

      match ts with
      | n :: d :: r =>
          if is_ty n "NAME" && is_ty d "DEF" then
            match p_expr f (rule_bind "DEF") r with
            | Some (e, r1) =>
                let def := Bin CBinary "==" (Term KOpname (tval n)) e in
                match r1 with
                | n' :: _ =>
                    if is_ty n' "NAME" then
                      match p_defs f r1 with
                      | Some (ds, r2) => Some (def :: ds, r2)
                      | None => None
                      end
                    else Some ([def], r1)
                | [] => Some ([def], r1)
                end
            | None => None
            end
          else None
      | _ => None
      end.
Proof. reflexivity. Qed.

Lemma p_list_eq : forall (f : nat) (ts : list token),
  p_list (S f) ts =

      match p_expr f 0 ts with
      | Some (e, r1) =>
          match r1 with
          | c :: r2 =>
              if is_ty c "COMMA" then
                match p_list f r2 with
                | Some (es, r3) => Some (e :: es, r3)
                | None => None
                end
              else Some ([e], r1)
          | [] => Some ([e], r1)
          end
      | None => None
      end.
Proof. reflexivity. Qed.

Lemma p_units_eq : forall (f : nat) (ts : list token),
  p_units (S f) ts =

      match ts with
      | [] => None
      | t :: r =>
          match
            (if is_decl t then
               match p_list f r with
               | Some (vs, r1) => Some (Opr (tval t) [Lst vs], r1)
               | None => None
               end
             else
               match r with
               | d :: r' =>
                   if is_ty t "NAME" && is_ty d "DEF" then
                     match p_expr f (rule_bind "DEF") r' with
                     | Some (e, r1) =>
                         Some (Bin CBinary "==" (Term KOpname (tval t)) e, r1)
                     | None => None
                     end
                   else None
               | [] => None
               end)
          with
          | Some (u, r1) =>
              match r1 with
              | [] => Some ([u], r1)
              | _ :: _ =>
                  match p_units f r1 with
                  | Some (us, r2) => Some (u :: us, r2)
                  | None => None
                  end
              end
          | None => None
          end
      end.
Proof. reflexivity. Qed.

End Eqs.
