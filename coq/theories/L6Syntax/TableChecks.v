(* L6 Syntax — executable checks relating the documentation's precedence
   list and BNF (doc/doc.md) to the lexer and the precedence tuple of
   lexyacc.py (tie G).  The checks are Boolean functions of the generated
   tables; TableChecksProofs.v lifts `check = true` to the logical
   statement.  Model file: no proofs. *)
From Coq Require Import List String NArith Bool.
From Omega Require Import L6Syntax.Tokens L6Syntax.Lexer L6Syntax.Parser.
Import ListNotations.
Local Open Scope string_scope.
Local Open Scope N_scope.

Section Checks.
Variable rules : list lexrule.
Variable reserved values : list (string * string).
Variable ignore : list N.
Variable code_prec doc_prec : list (assoc * list string).
Variable prods : list production.

(* the token type under which the lexer delivers a documented operator or
   keyword: the spelling must lex to exactly one token that is not an
   identifier or a number *)
Definition doc_tok_type (d : string) : option string :=
  match lex rules reserved values ignore d with
  | Some [t] =>
      if String.eqb (tty t) "NAME" || String.eqb (tty t) "NUMBER"
      then None else Some (tty t)
  | _ => None
  end.

Definition is_some {A} (o : option A) : bool :=
  match o with Some _ => true | None => false end.

(* documented tokens with their documented level (1 = lowest) and assoc *)
Fixpoint flat_levels (tbl : list (assoc * list string)) (i : N)
  : list (N * assoc * string) :=
  match tbl with
  | [] => []
  | (a, names) :: r => map (fun n => (i, a, n)) names ++ flat_levels r (i + 1)
  end.
Definition doc_flat := flat_levels doc_prec 1.

(* (assoc, level) of a documented token in the code's tuple; level 0 = the
   token has no precedence there *)
Definition code_entry (d : string) : option (assoc * N) :=
  match doc_tok_type d with
  | Some ty => Some (prec_of code_prec ty)
  | None => None
  end.

(* 1. every documented token has a lexer spelling *)
Definition check_spelling (doc_tokens : list string) : bool :=
  forallb (fun d => is_some (doc_tok_type d)) doc_tokens.

(* 2. relative order of every documented pair agrees with the tuple *)
Definition pair_ok (x y : N * assoc * string) : bool :=
  match code_entry (snd x), code_entry (snd y) with
  | Some (_, c1), Some (_, c2) =>
      negb (c1 =? 0) && negb (c2 =? 0)
      && match fst (fst x) ?= fst (fst y), c1 ?= c2 with
         | Lt, Lt | Eq, Eq | Gt, Gt => true
         | _, _ => false
         end
  | _, _ => false
  end.
Definition check_order : bool :=
  forallb (fun x => forallb (pair_ok x) doc_flat) doc_flat.

(* 3. documented associativity agrees with the tuple *)
Definition assoc_ok (x : N * assoc * string) : bool :=
  match code_entry (snd x) with
  | Some (a, _) => assoc_eqb a (snd (fst x))
  | None => false
  end.
Definition check_assoc : bool := forallb assoc_ok doc_flat.

(* 4. every documented infix / prefix / postfix operator is one in the
   grammar of the parser *)
Definition in_keys {A} (ty : string) (l : list (string * A)) : bool :=
  is_some (assoc_str ty l).
Definition shape_ok {A} (l : list (string * A)) (d : string) : bool :=
  match doc_tok_type d with
  | Some ty => in_keys ty l
  | None => false
  end.
Definition check_shapes (dbin dpre dpost : list string) : bool :=
  forallb (shape_ok (bin_list prods code_prec)) dbin
  && forallb (shape_ok (pre_list prods code_prec)) dpre
  && forallb (shape_ok (post_list prods code_prec)) dpost.

(* 5. the spellings of one token that the lexer does NOT normalise are
   identified downstream: bitvector.Nodes.opmap sends them to one operator *)
Definition same_image (opmap : list (string * string)) (alts : list string) : bool :=
  match alts with
  | [] => true
  | a :: r =>
      match assoc_str a opmap with
      | Some v => forallb (fun b => match assoc_str b opmap with
                                    | Some w => String.eqb v w
                                    | None => false end) r
      | None => false
      end
  end.
Definition unnormalised (r : lexrule) : bool :=
  match lr_kind r, lr_norm r, lr_alts r with
  | RLit, None, _ :: _ :: _ => lr_emit r
  | _, _, _ => false
  end.
Definition check_synonyms (opmap : list (string * string)) : bool :=
  forallb (fun r => negb (unnormalised r) || same_image opmap (lr_alts r)) rules.

(* 5b. every spelling of an emitted literal rule, lexed on its own, yields
   exactly one token: of the rule's type, with the normalised value if the
   rule normalises and the spelling itself otherwise (no spelling is
   shadowed by an earlier rule of the master regex) *)
Definition tokens_eqb (a b : list token) : bool :=
  match a, b with
  | [x], [y] => token_eqb x y
  | _, _ => false
  end.
Definition check_alts_lex : bool :=
  forallb (fun r =>
    match lr_kind r with
    | RLit =>
        negb (lr_emit r) ||
        forallb (fun a =>
          match lex rules reserved values ignore a with
          | Some ts => tokens_eqb ts [Tok (lr_type r)
                          (match lr_norm r with Some v => v | None => a end)]
          | None => false
          end) (lr_alts r)
    | _ => true
    end) rules.

(* 6. no token type is both a prefix and an infix/postfix level mate:
   levels used by prefix operators are disjoint from levels used by infix
   and postfix operators (so "equal level" never arises between them) *)
Definition check_level_disjoint : bool :=
  let bl := bin_list prods code_prec in
  let pl := pre_list prods code_prec in
  let ql := post_list prods code_prec in
  forallb (fun p => forallb (fun b => negb (snd (snd p) =? snd (snd b))) bl
                    && forallb (fun q => negb (snd (snd p) =? snd (fst (snd q)))) ql) pl.

End Checks.
