"""C15 -- past-to-future translation: testers track the past operators.

prove:      tie T: the CURRENT omega/logic/past.py (Nodes.*.flatten,
            _flatten_previous, _make_tester_for_previous, _flatten_since,
            _flatten_until, translate; with the flatten methods of
            omega/logic/ast.py and astutils it inherits) is translated into
            Gallina (tools/py2coq_past.py -> coq/gen/PastGen.v) and
            coq/GenProofs/PastBridge.v re-proves that the generated translate
            equals the model; then coq/Properties/C15.v (theorems about the
            Gallina model theories/L6Past/PastModel.v of omega/logic/past.py
            as repaired by fixes/F5_F10.patch, restated for the generated
            function).
correspond: tie H.  Generated formulas (Boolean variables, constants,
            arithmetic comparisons as opaque atoms) are printed, translated by
            the REAL past.translate, the returned strings are parsed by the
            REAL parser (omega.logic.lexyacc); then
            (a) in Python the testers are solved along every sequence of
                valuations up to the length bound (exactly one solution?) and
                the translated formula is compared with the direct anchored
                past semantics at every position (property oracle);
            (b) inside Coq the model's solution (every auxiliary variable =
                truth value of the formula it tracks, proved to be the unique
                solution of the model's testers) is checked to satisfy the
                implementation's parsed initial condition and transition
                relation on every sequence of the maximal length, and the
                implementation's translated formula, the model's and the
                semantics are compared at every position
                (PastFast.check_all_fast, proved equal to the plain
                PastCheck.check_all and exhaustive);
            (c) solutions computed in Python on sampled sequences are compared
                bit by bit with the model's inside Coq;
            (d) for formulas with future operators (prophecy testers when
                until=True, pass-through when until=False) the two
                translations are compared as truth tables over current/next
                values; with until=True the real testers are also solved in
                Python on all ultimately periodic sequences u v^omega up to a
                length bound (exactly one FAIR solution?  translated formula
                equivalent to the LTL semantics at every position?).
            A difference that disappears under a renaming of the auxiliary
            variables (a refactoring that numbers `_aux` differently) is
            accepted and recorded as a note.
search:     the oracles of (a)/(d) on the differing cases, the corpus, the
            systematic small formulas and fresh random formulas; shrinks to a
            smallest failing subformula and shortest sequence; one replay per
            class (F5, F10, other).
"""
import json
import multiprocessing
import os

from vlib import core, past_gen as G, past_eval as E, past_tr_gen
from vlib.core import Broken, Mismatch, Failing

ID = 'C15'
LEVEL = 'proof'
THEORIES = ['theories/L6Past/PastFast.vo', 'theories/L6Past/PastProofs.vo',
            'theories/L6Past/PastFastProofs.vo',
            'theories/L6Past/PastUntilProofs.vo',
            'theories/L6Past/PastUntilClassical.vo']
THEORIES = [t for t in THEORIES
            if os.path.exists(os.path.join(core.COQ, t[:-1]))]

HEADER = '''From Coq Require Import String List Bool NArith.
Import ListNotations.
From Omega Require Import L6Past.PastSyntax L6Past.PastModel L6Past.PastCheck L6Past.PastFast.
Open Scope string_scope.
'''

NAME_SETS = [('p', 'q', 'r'), ('a', 'b', 'c'), ('x0', 'y_1', 'z'),
             ('req', 'gnt', 'busy'), ('prev', 'aux', 'p_prev')]

# arithmetic comparisons used as opaque atoms (source text)
ATOM_TEXTS = ['(x < 2)', '(x = y)', '((x + 1) >= y)', '(y != 0)',
              '((2 * x) <= (y - 1))', '(x # y)', '((x % 2) = 0)']
# proposition symbols of a case: names of Boolean variables or indices into
# ATOM_TEXTS
ATOM_SETS = [('p', 'q', 0), ('p', 1, 2), (3, 4, 'r'), ('a', 5, 6)]

V = lambda n: ('v', n)
TT, FF = ('c', True), ('c', False)


def corpus(names):
    p, q, r = (V(n) for n in names)
    wp, sp = ('-X', p), ('--X', p)
    return [
        ('/\\', wp, sp), ('/\\', sp, wp), ('\\/', wp, sp), ('\\/', sp, wp),
        ('--X', TT), ('-X', FF), ('-X', TT), ('--X', FF),
        ('-X', wp), ('--X', sp), ('-X', sp), ('--X', wp),
        ('/\\', wp, wp), ('/\\', sp, sp), ('S', wp, sp), ('S', sp, wp),
        ('-[]', ('--X', TT)), ('-<>', ('-X', FF)),
        ('/\\', sp, ('/\\', wp, sp)), ('/\\', wp, ('/\\', sp, ('/\\', wp, sp))),
        ('<=>', ('-X', ('-X', q)), ('--X', ('/\\', wp, ('--X', q)))),
        ('S', ('S', p, q), ('S', q, r)), ('-[]', ('-<>', ('-[]', p))),
        ('ite', sp, ('-X', q), ('--X', q)),
        ('S', TT, p), ('S', FF, p), ('S', p, TT), ('S', p, FF),
        ('-[]', TT), ('-<>', FF), ('^', ('-[]', p), ('-<>', ('~', p))),
        ('=>', ('-<>', ('/\\', p, ('-X', ('-[]', ('~', q))))), ('S', r, q)),
    ]


# ------------------------------------------------------------ one formula
def totuple(x):
    if isinstance(x, list):
        return tuple(totuple(y) for y in x)
    return x


def run_case(case, maxlen):
    """Real code + Python oracle on one case; picklable result."""
    f = totuple(case['formula'])
    res = dict(case=case, out=None, failure=None, stats=None, error=None)
    try:
        out = E.run_translate(case['source'], until=case['until'])
    except Exception as e:  # the property says translation must succeed
        res['error'] = 'translate/parse raised ' + repr(e)
        return res
    res['out'] = out
    if case['kind'] != 'past':
        if case['until']:
            # prophecy testers: fair solutions on all words u v^omega
            try:
                prob = E.Problem(out, case['uservars'])
                nw = 0
                for (u, v) in lasso_words(case['uservars'], case['maxw']):
                    nw += 1
                    fl = E.lasso_check(prob, f, u, v)
                    if fl:
                        res['failure'] = fl
                        break
                res['lassos'] = nw
            except (E.Unsupported, AssertionError) as e:
                res['error'] = ('returned formulas are not Boolean actions: '
                                + repr(e))
        return res
    try:
        prob = E.Problem(out, case['uservars'])
        fail, stats = E.explore(prob, f, maxlen)
    except (E.Unsupported, AssertionError) as e:
        res['error'] = 'returned formulas are not Boolean actions: ' + repr(e)
        return res
    res['failure'], res['stats'] = fail, stats
    if fail is None:
        # sampled solutions for the bitwise comparison in Coq
        samples = []
        for tr in case['sample_traces']:
            sol, got, want = E.solve_one(prob, f, tr)
            samples.append(dict(trace=tr, sol=[list(a) for a in sol],
                                truth=list(got)))
        res['samples'] = samples
    return res


_WORDS = {}


def lasso_words(names, maxw):
    """All (u, v) with |u| + |v| <= maxw, |v| >= 1, over valuations of names."""
    key = (tuple(names), maxw)
    if key not in _WORDS:
        import itertools
        vals = [dict(zip(names, b))
                for b in itertools.product((False, True), repeat=len(names))]
        ws = []
        for a in range(0, maxw):
            for b in range(1, maxw + 1 - a):
                for w in itertools.product(vals, repeat=a + b):
                    ws.append((list(w[:a]), list(w[a:])))
        _WORDS[key] = ws
    return _WORDS[key]


def _work(args):
    return run_case(*args)


def atom_symbols(symbols):
    """symbols (names / indices into ATOM_TEXTS) -> (names-or-keys, key->text)"""
    names, text = [], {}
    for x in symbols:
        if isinstance(x, int):
            t = ATOM_TEXTS[x]
            k = E.atom_key(E.parser().parse(t))
            text[k] = t
            names.append(k)
        else:
            names.append(x)
    return names, text


def make_case(rng, f, names, until, maxlen, kind='past', atoms=None):
    if atoms:
        f = G.atomize(f, set(atoms))
    s = G.show(f, rng, atoms)
    traces = [[{v: rng.random() < 0.5 for v in names} for _ in range(maxlen)]
              for _ in range(2)]
    return dict(formula=f, source=s, until=until, uservars=list(names),
                kind=kind, sample_traces=traces,
                maxw=maxlen - 1, atoms=atoms or {})


def generate(ctx):
    rng = ctx.rng
    maxlen = 5 if ctx.thorough else 4
    cases = []
    flag = lambda: rng.random() < 0.5
    for names in NAME_SETS[:2]:
        for f in corpus(names):
            cases.append(make_case(rng, f, names, flag(), maxlen))
    small = G.small_formulas(NAME_SETS[0][:2] + ('r',))
    small = rng.sample(small, 700 if ctx.thorough else 220)
    for f in small:
        cases.append(make_case(rng, f, NAME_SETS[0], flag(), maxlen))
    n_rand = 360 if ctx.thorough else 110
    for i in range(n_rand):
        names = NAME_SETS[i % len(NAME_SETS)]
        d = (2, 3, 4, 4)[i % 4]
        f = G.gen(rng, d, names)
        cases.append(make_case(rng, f, names, flag(), maxlen))
    # formulas over arithmetic comparisons (opaque atoms)
    n_atom = 80 if ctx.thorough else 36
    for i in range(n_atom):
        names, text = atom_symbols(ATOM_SETS[i % len(ATOM_SETS)])
        if i < 2 * len(ATOM_SETS):
            a = ('v', [k for k in names if k in text][i % 2 - 1])
            f = ((('--X', '-X')[i % 2], a) if i < len(ATOM_SETS) else
                 ('S', ('-X', a), ('--X', a)))
        else:
            f = G.gen(rng, (2, 3, 4)[i % 3], names)
        cases.append(make_case(rng, f, names, flag(), maxlen, atoms=text))
    # formulas with future operators
    n_mixed = 120 if ctx.thorough else 40
    tries = 0
    while n_mixed and tries < 5000:
        tries += 1
        names = NAME_SETS[tries % len(NAME_SETS)]
        f = G.gen(rng, rng.choice((1, 2, 2, 3)), names[:2], future=True)
        ops = G.operators(f)
        if not ops & {'[]', '<>', 'U'}:
            continue
        if sum(1 for g in G.subformulas(f)
               if g[0] in G.PAST_UN + G.FUT_UN + ('S', 'U')) > 4:
            continue
        until = flag()
        if not until and G.future_under_past(f):
            # the testers would contain temporal operators: not actions
            until = True
        cases.append(make_case(rng, f, names[:2], until, maxlen,
                               kind='mixed'))
        n_mixed -= 1
    return cases, maxlen


def run_cases(ctx, cases, maxlen):
    args = [(c, maxlen) for c in cases]
    if len(cases) > 64:
        n = 12 if ctx.thorough else 4
        with multiprocessing.get_context('fork').Pool(n) as pool:
            return pool.map(_work, args, chunksize=8)
    return [_work(a) for a in args]


# ---------------------------------------------------------------- Coq side
def strs(xs):
    return '[' + '; '.join(f'"{x}"' for x in xs) + ']'


def bl(xs):
    return '[' + '; '.join('true' if x else 'false' for x in xs) + ']'


def coq_group(i, res, maxlen):
    case, out = res['case'], res['out']
    f = totuple(case['formula'])
    u = 'true' if case['until'] else 'false'
    vs = strs(case['uservars'])
    defs = (
        f'Definition f{i} : form := {G.coq_form(f)}.\n'
        f'Definition I{i} : impl := mkImpl {strs(out["names"])}\n'
        f'  {G.coq_tform(out["formula"])}\n  {G.coq_tform(out["init"])}\n'
        f'  {G.coq_tform(out["trans"])}\n'
        f'  [{"; ".join(G.coq_tform(w) for w in out["win"])}].')
    terms = [('names', f'check_names true {u} f{i} I{i}')]
    if case['kind'] == 'past':
        terms.append(('all', f'check_all_fast true {u} f{i} I{i} {vs} '
                             f'{maxlen}'))
        for s in res.get('samples', []):
            tr = '[' + '; '.join(bl([d[v] for v in case['uservars']])
                                 for d in s['trace']) + ']'
            sol = '[' + '; '.join(bl(a) for a in s['sol']) + ']'
            terms.append(('sample', f'check_solution true {u} f{i} I{i} {vs} '
                                    f'{tr} {sol} {bl(s["truth"])}'))
    else:
        terms.append(('tables', f'check_tables true {u} f{i} I{i} {vs}'))
    terms.append(('trees', f'same_trees true {u} f{i} I{i}'))
    return (defs, [t for _, t in terms]), [k for k, _ in terms]


def parse_coq_value(text):
    """Parse a printed Gallina value made of lists, pairs, strings, bools."""
    pos = [0]

    def ws():
        while pos[0] < len(text) and text[pos[0]].isspace():
            pos[0] += 1

    def val():
        ws()
        c = text[pos[0]]
        if c == '[':
            pos[0] += 1
            out = []
            ws()
            if text[pos[0]] == ']':
                pos[0] += 1
                return out
            while True:
                out.append(val())
                ws()
                if text[pos[0]] == ';':
                    pos[0] += 1
                    continue
                assert text[pos[0]] == ']', text[pos[0]:pos[0] + 20]
                pos[0] += 1
                return out
        if c == '(':
            pos[0] += 1
            a = val()
            ws()
            assert text[pos[0]] == ',', text[pos[0]:pos[0] + 20]
            pos[0] += 1
            b = val()
            ws()
            assert text[pos[0]] == ')', text[pos[0]:pos[0] + 20]
            pos[0] += 1
            return (a, b)
        if c == '"':
            j = text.index('"', pos[0] + 1)
            v = text[pos[0] + 1:j]
            pos[0] = j + 1
            return v
        for w, v in (('true', True), ('false', False)):
            if text.startswith(w, pos[0]):
                pos[0] += len(w)
                return v
        raise ValueError(text[pos[0]:pos[0] + 30])
    return val()


def retry_renamed(ctx, i, res, maxlen):
    """Second chance for formula i: match the implementation's auxiliary
    variables with the model's by their solution columns on sampled
    sequences, rename, and evaluate the comparison again inside Coq."""
    case, out = res['case'], res['out']
    f = totuple(case['formula'])
    names = case['uservars']
    u = 'true' if case['until'] else 'false'
    rng = ctx.rng
    traces = [[{v: rng.random() < 0.5 for v in names} for _ in range(maxlen)]
              for _ in range(24)]
    prob = E.Problem(out, names)
    impl_cols = {a: [] for a in out['names']}
    for tr in traces:
        sol, _, _ = E.solve_one(prob, f, tr)
        for k, a in enumerate(out['names']):
            impl_cols[a].append([row[k] for row in sol])
    trs = '[' + '; '.join(
        '[' + '; '.join(bl([d[v] for v in names]) for d in tr) + ']'
        for tr in traces) + ']'
    printed = ctx.eval_terms(
        f'ren{i}', HEADER,
        [f'model_columns true {u} {G.coq_form(f)} {strs(names)} {trs}'])
    model_cols = dict(parse_coq_value(printed[0]))
    if len(model_cols) != len(impl_cols):
        return False
    # bijection by equal columns (backtracking; a handful of variables)
    impl_names = list(impl_cols)

    def match(k, used, acc):
        if k == len(impl_names):
            return acc
        a = impl_names[k]
        # prefer the same name
        cands = sorted(model_cols, key=lambda m: m != a)
        for m in cands:
            if m in used or model_cols[m] != impl_cols[a]:
                continue
            r = match(k + 1, used | {m}, acc + [(a, m)])
            if r is not None:
                return r
        return None
    ren = match(0, frozenset(), [])
    if ren is None or all(a == m for a, m in ren):
        return False
    rl = '[' + '; '.join(f'("{a}", "{m}")' for a, m in ren) + ']'
    (defs, terms), keys = coq_group(i, res, maxlen)
    defs = defs.replace(f'Definition I{i} : impl := mkImpl',
                        f'Definition I{i} : impl := rename_impl {rl} (mkImpl')
    assert defs.endswith('].')
    defs = defs[:-1] + ').'
    terms = [t for t, k in zip(terms, keys) if k in ('names', 'all')]
    vals = ctx.eval_groups(f'ren{i}', HEADER, [(defs, terms)])
    return all(vals)


def retry_renamed_tables(ctx, i, res, maxlen):
    """Same for a formula with future operators (no finite-sequence
    solutions to match by): try the permutations of the `_aux` names."""
    import itertools
    case, out = res['case'], res['out']
    f = totuple(case['formula'])
    u = 'true' if case['until'] else 'false'
    printed = ctx.eval_terms(
        f'ren{i}', HEADER, [f'x_names (translate true {u} {G.coq_form(f)})'])
    model = parse_coq_value(printed[0])
    impl = out['names']
    if len(model) != len(impl):
        return False
    fixed = [a for a in impl if a in model and not a.startswith('_aux')]
    src = [a for a in impl if a not in fixed]
    dst = [m for m in model if m not in fixed]
    if len(src) > 5:
        return False
    (defs, terms), keys = coq_group(i, res, maxlen)
    assert defs.endswith('].')
    groups = []
    for perm in itertools.permutations(dst):
        ren = list(zip(src, perm))
        if all(a == m for a, m in ren):
            continue
        rl = '[' + '; '.join(f'("{a}", "{m}")' for a, m in ren) + ']'
        d = defs.replace(f'Definition I{i} : impl := mkImpl',
                         f'Definition I{i} : impl := rename_impl {rl} (mkImpl')
        d = d[:-1] + ').'
        groups.append((d, [t for t, k in zip(terms, keys)
                           if k in ('names', 'tables')]))
    # one file per candidate: the definitions have the same names
    for g in groups:
        if all(ctx.eval_groups(f'ren{i}', HEADER, [g])):
            return True
    return False


def public_case(case):
    return {k: case[k] for k in ('formula', 'source', 'until', 'uservars',
                                 'kind', 'maxw', 'atoms') if k in case}


def classify(f):
    """Recognise the two defects repaired by fixes/F5_F10.patch."""
    prevs = {}
    for g in G.subformulas(f):
        if g[0] in ('-X', '--X'):
            if g[1][0] == 'c':
                return 'F10'
            if g[1][0] == 'v':
                prevs.setdefault(g[1][1], set()).add(g[0])
    if any(len(s) == 2 for s in prevs.values()):
        return 'F5'
    return None


def correspond(ctx):
    cases, maxlen = generate(ctx)
    ctx.log(f'{len(cases)} formulas, sequences up to length {maxlen}')
    results = run_cases(ctx, cases, maxlen)
    ctx.log('implementation + oracle done')
    mism = []
    nseq = 0
    nlasso = 0
    nontrivial = set()
    ops_seen = {}
    aux_hist = {}
    for res in results:
        case = res['case']
        f = totuple(case['formula'])
        if res['error']:
            mism.append(Mismatch(res['error'], public_case(case),
                                 property_fails=True))
            continue
        if res['failure']:
            fl = res['failure']
            where = ({'trace': fl['trace']} if 'trace' in fl
                     else {'u': fl['u'], 'v': fl['v']})
            mism.append(Mismatch(
                'real testers/translated formula disagree with the '
                f'semantics: {fl["kind"]} at position {fl["position"]}',
                dict(public_case(case), **where),
                impl=fl, property_fails=True))
            continue
        for o in G.operators(f):
            ops_seen[o] = ops_seen.get(o, 0) + 1
        k = len(res['out']['names'])
        aux_hist[k] = aux_hist.get(k, 0) + 1
        nlasso += res.get('lassos', 0)
        if res['stats']:
            st = res['stats']
            nseq += st['sequences']
            if st['true'] and st['false'] and k:
                nontrivial.add(case['source'])
    # model side, inside Coq
    ok = [r for r in results if not r['error'] and not r['failure']]
    groups, keys = [], []
    for i, res in enumerate(ok):
        g, ks = coq_group(i, res, maxlen)
        groups.append(g)
        keys += [(i, k) for k in ks]
    vals = ctx.eval_groups('corr', HEADER, groups,
                           shard=40 if ctx.thorough else 60)
    same_tree = 0
    bad = {}
    for (i, k), v in zip(keys, vals):
        if k == 'trees':
            same_tree += v
        elif not v:
            bad.setdefault(i, []).append(k)
    # A refactoring of the code may renumber the `_aux` variables without
    # changing any meaning.  Before reporting a difference, look for a
    # renaming of the implementation's auxiliary variables onto the model's
    # (by their values along sampled sequences) under which everything agrees.
    renamed = 0
    for i in sorted(bad):
        res = ok[i]
        try:
            if (retry_renamed(ctx, i, res, maxlen)
                    if res['case']['kind'] == 'past'
                    else retry_renamed_tables(ctx, i, res, maxlen)):
                del bad[i]
                renamed += 1
        except Broken as b:
            ctx.log('renaming fallback failed:', b)
    ctx.extra['accepted_up_to_renaming_of_aux'] = renamed
    if renamed:
        ctx.notes.append(
            f'{renamed} formulas agree with the model only after renaming the '
            'auxiliary variables (the code numbers them differently from the '
            'model)')
    for i, ks in bad.items():
        res = ok[i]
        what = {
            'names': 'auxiliary variable names differ from the model',
            'all': "the model's solution does not satisfy the implementation's "
                   'testers, or truth values differ, on some sequence',
            'sample': "implementation's solution on a sampled sequence differs "
                      "from the model's",
            'tables': 'translation differs from the model as a truth table',
        }[ks[0]]
        mism.append(Mismatch(what, public_case(res['case']),
                             impl=res['out']['strings'],
                             model='translate true (see coq term)'))
    n_past = sum(1 for r in ok if r['case']['kind'] == 'past')
    n_mixed = len(ok) - n_past
    nu = 3
    ctx.cov['evaluations'] += nseq + n_past * (2 ** nu) ** maxlen
    ctx.cov['distinct_nontrivial'] += len(nontrivial)
    ctx.cov['rule'] = (
        'formulas over 3 proposition symbols (Boolean variables, 5 name sets, '
        'or arithmetic comparisons such as ((x + 1) >= y) treated as opaque '
        'atoms) and TRUE/FALSE with '
        '~ /\\ \\/ => <=> ^ ite -X --X -[] -<> S: a fixed corpus (sharing and '
        'collision cases of previous), all/sampled formulas of depth <= 1 and '
        'past operators over them, random formulas of nesting depth 2..4; '
        'random synonym spellings, both values of `until`; for each formula '
        f'ALL sequences of valuations of length 1..{maxlen}: the real testers '
        '(strings parsed by the real parser) are solved by exhaustive search '
        '(exactly one solution required) and the translated formula is '
        'compared with the direct semantics at every position (Python), and '
        'inside Coq the model solution is checked against the parsed real '
        f'testers on all sequences of length {maxlen}; plus formulas with '
        '[] <> U compared with the model as truth tables. non-trivial = at '
        'least one tester and the formula takes both truth values')
    ctx.cov['samples'] = [
        dict(source=r['case']['source'], until=r['case']['until'],
             returned=r['out']['strings'], names=r['out']['names'])
        for r in ok[::max(1, len(ok) // 6)]][:8]
    ctx.extra['correspondence'] = dict(
        formulas=len(cases), past_only=n_past, with_future_operators=n_mixed,
        max_sequence_length=maxlen,
        sequences_checked_python=nseq,
        lasso_words_checked_python=nlasso,
        sequences_checked_coq=n_past * (2 ** nu) ** maxlen,
        coq_terms=len(vals), mismatches=len(mism),
        operator_histogram=ops_seen, auxiliary_variables_histogram=aux_hist,
        identical_translated_tree=same_tree,
        exhaustive='all sequences up to the length bound for every generated '
                   'formula; formulas are a sample')
    return mism


# ------------------------------------------------------------------ prove
def prove(ctx):
    with ctx.coq_lock():
        # tie T: regenerate gen/PastGen.v from the current past.py / ast.py,
        # then re-prove GenProofs/PastBridge.v (generated code = model) and
        # the statements built on it
        notes, templates = past_tr_gen.ensure_past(ctx)
        ctx.checker_cmds.append(
            'PYTHONPATH=tools python3 tools/vlib/past_tr_gen.py > '
            'coq/gen/PastGen.v (translator tools/py2coq_past.py)')
        ctx.prove_with_deps('Properties/C15.v')
    ctx.extra['translation'] = dict(
        sources=past_tr_gen.SOURCES, functions=past_tr_gen.FUNCTIONS,
        generated='coq/gen/PastGen.v',
        bridge='coq/GenProofs/PastBridge.v',
        string_templates=[dict(where=w, text=' '.join(t.split()), read_as=r)
                          for w, t, r in dict.fromkeys(templates)],
        notes=notes)
    ctx.trusted.append(
        'translator tie T: tools/py2coq_past.py (omega/logic/past.py flatten '
        'methods, _flatten_previous/_since/_until, '
        '_make_tester_for_previous, translate -> Gallina; the call protocol '
        '(keywords, defaults, **kw) literally; `testers` threaded as state; '
        'assert/raise -> None; formula strings read into trees by the fixed '
        'template grammar listed in coq/gen/PastGen.v: parentheses group, ~ '
        'and the postfix prime bind tighter than binary operators, pasted '
        'formula strings are closed, == on formula strings is equality of '
        'trees); everything not translated is a note in coq/gen/PastGen.v '
        'and in the evidence')
    ctx.trusted.append(
        'tie H for what the translator does not cover: the parser (string -> '
        'tree; PLY and astutils.Terminal), the reading of strings as trees '
        '(checked here by parsing every returned string with the real '
        'parser), omega.logic.syntax.conj (by meaning), '
        'Nodes.Comparator/Arithmetic.flatten (arithmetic comparisons are '
        'opaque atoms); translate(debug=True) (sorted conjuncts) and '
        'map_translate are not modelled')
    ctx.trusted.append(
        'tools/vlib/past_eval.py (exhaustive solver of the real testers and '
        'direct past/future LTL semantics on finite and ultimately periodic '
        'sequences): search/property oracle, not evidence of correctness')


# ----------------------------------------------------------------- search
def oracle_case(case, maxlen=5):
    """Property oracle on the real code: first failing sequence, shortest
    length first.  Returns a Failing or None."""
    f = totuple(case['formula'])
    try:
        out = E.run_translate(case['source'], until=case['until'])
        prob = E.Problem(out, case['uservars'])
    except Exception as e:
        return Failing('translate raised / returned a non-Boolean action: '
                       + repr(e), public_case(case), key=classify(f))
    if case.get('kind', 'past') != 'past':
        if not case['until']:
            return None
        for (u, v) in lasso_words(case['uservars'], maxlen - 1):
            fail = E.lasso_check(prob, f, u, v)
            if fail:
                return Failing(
                    f'{case["source"]} (until=True): {fail["kind"]} at '
                    f'position {fail["position"]} of u v^omega',
                    dict(public_case(case), u=u, v=v,
                         returned=out['strings']),
                    expected=fail.get('expected', 'exactly one fair solution'),
                    got=fail.get('got', fail.get('candidates')),
                    key=classify(f),
                    replay_cmd='./check C15 --replay <this file>')
        return None
    for n in range(1, maxlen + 1):
        fail, _ = E.explore(prob, f, n)
        if fail:
            return Failing(
                f'{case["source"]}: {fail["kind"]} at position '
                f'{fail["position"]} of the sequence',
                dict(public_case(case), trace=fail['trace'],
                     returned=out['strings']),
                expected=fail.get('expected', 'exactly one solution'),
                got=fail.get('got', fail.get('candidates')),
                key=classify(f),
                replay_cmd='./check C15 --replay <this file>')
    return None


def shrink(ctx, case, maxlen):
    """Smallest failing subformula (greedy)."""
    best = oracle_case(case, maxlen)
    f = totuple(case['formula'])
    subs = sorted(set(G.subformulas(f)), key=G.size)
    for g in subs:
        if G.size(g) >= G.size(f):
            break
        c = dict(case, formula=g, source=G.show(g, None, case.get('atoms')))
        r = oracle_case(c, maxlen)
        if r:
            return r
    return best


def search(ctx, broken, mismatches):
    maxlen = 5 if ctx.thorough else 4
    found = {}      # one replay per class of failure (F5, F10, other)
    for m in mismatches:
        if not m.case or 'formula' not in m.case:
            continue
        case = dict(m.case)
        k = classify(totuple(case['formula']))
        if k in found:
            continue
        r = oracle_case(case, maxlen)
        if r:
            r = shrink(ctx, case, maxlen)
            found.setdefault(r.key, r)
    if found:
        return list(found.values())
    rng = ctx.rng
    names = NAME_SETS[0]
    cands = [(f, 'past') for f in corpus(names)]
    cands += [(f, 'past') for f in G.small_formulas(names)]
    for i in range(600 if ctx.thorough else 200):
        if i % 4 == 3:
            f = G.gen(rng, (1, 2, 2)[i % 3], names[:2], future=True)
            if G.operators(f) & {'[]', '<>', 'U'}:
                cands.append((f, 'mixed'))
                continue
        cands.append((G.gen(rng, (2, 3, 4)[i % 3], names), 'past'))
    for f, kind in cands:
        vs = names if kind == 'past' else names[:2]
        case = make_case(rng, f, vs, kind == 'mixed', maxlen, kind=kind)
        case['source'] = G.show(f)
        r = oracle_case(case, maxlen)
        if r:
            return [shrink(ctx, case, maxlen)]
    return []


def replay(path):
    d = json.load(open(path))
    case = d.get('input') or d.get('case')
    if not case or 'formula' not in case:
        print('nothing to replay in', path)
        return 2
    case = dict(case, kind=case.get('kind', 'past'))
    n = len(case.get('trace', [])) or (
        len(case.get('u', [])) + len(case.get('v', [])) + 1)
    r = oracle_case(case, max(5, n))
    if r:
        print('still fails:', r.what)
        print(' required:', r.expected, ' implementation:', r.got)
        return 1
    print('passes')
    return 0
