(* "Whenever the verdict is true and the winning region is non-empty,
   constructing the implementation succeeds" (C03), for the TRANSLATED
   Rabin(1) construction.  A winning state lies in some trap y_{k,i} of its
   own level k; with the memory `_hold` = i it is not in the blocking class
   (stale persistence index, F12), so the synthesized action allows a step
   there (RabinNB3.rabin_impl_blocks_only_stale_hold): the action is not
   FALSE. *)
From Coq Require Import List Bool Arith Lia.
Import ListNotations.
From Omega Require Import L4.Arena L4.ArenaFacts L4.Kleene.
From OmegaGen Require Import FixpointGen Gr1Gen TransducerGen.
From OmegaGP Require Import TransducerModel TransducerBridge InitProofs StreettNB2
  RabinIter1 RabinClosure1 RabinNB2 RabinNB3.

Section Succeeds.
Variables nc nx ny : nat.
Variables E S EI SI : bdd.
Variables holds goals : list bdd.
Variables moore plus_one : bool.
Variable qinit : qinit_t.
Variables fuel H G : nat.
Hypothesis Hf : NV nc nx ny <= fuel.
Hypothesis Sh : Forall spred holds.
Hypothesis Sg : Forall spred goals.
Hypothesis HnG : length goals <= G.
Hypothesis HnH : length holds < H.
Hypothesis Hgoals : 0 < length goals.
Hypothesis Hholds : 0 < length holds.

Local Notation M := (H * G).
Local Notation L := (lift nc nx ny M).
Local Notation sol := (Gr1Gen.solve_rabin_game nc nx ny E S holds goals moore plus_one fuel).
Local Notation zk := (fst (fst sol)).
Local Notation yki := (snd (fst sol)).
Local Notation A := (rabin_action nc nx ny H G (L E) (L S) (map L holds) (map L goals)
                       moore plus_one (map L zk) (map (map L) yki)
                       (map (map (map (map L))) (snd sol))).

(* a winning state is in a trap of its own level *)
Lemma winning_has_trap c x yb :
  last zk bfalse (sv c x yb) = true ->
  exists h, h < length holds /\
    nth h (nth (fidx zk (sv c x yb)) yki []) bfalse (sv c x yb) = true.
Proof.
  intros Hw.
  pose proof (solve_rounds_ok nc nx ny E S holds goals moore plus_one fuel Hf Sh Sg) as Hro.
  pose proof (solve_rounds_nb nc nx ny E S holds goals moore plus_one fuel Hf Sh Sg) as Hrn.
  destruct (find_round nc nx ny E S holds goals moore plus_one c x yb bfalse zk yki (snd sol)
              Hro Hrn) as (T1 & z & yi & xijr & T2 & _ & Hz & Hprev & _ & Hok & Hnb & Hk & Hyi & _).
  - intros v. reflexivity.
  - reflexivity.
  - exact Hw.
  - destruct Hnb as [Hcov _]. destruct (Hcov _ Hz) as [Hp|[i [y [Hi Hy]]]]; [congruence|].
    destruct Hok as [_ [_ [Hlen _]]].
    exists i. split.
    + rewrite <- Hlen. apply nth_error_Some. congruence.
    + rewrite Hk, Hyi. rewrite (nth_error_nth yi i bfalse Hi). exact Hy.
Qed.

Lemma ev_inr c x yb m x' yb' m' :
  c < nc -> x < nx -> yb < ny -> m < M -> x' < nx -> yb' < ny -> m' < M ->
  inr nc nx (ny * M) (ev M c x yb m x' yb' m').
Proof.
  intros. unfold Kleene.inr, in_range, ev. cbn [vc vx vy vxp vyp].
  repeat rewrite andb_true_iff. repeat rewrite Nat.ltb_lt.
  assert (yb * M + m < ny * M) by nia. assert (yb' * M + m' < ny * M) by nia. lia.
Qed.

Lemma rabin_action_nonempty :
  (exists c x yb, c < nc /\ x < nx /\ yb < ny /\ last zk bfalse (sv c x yb) = true) ->
  beq nc nx (ny * M) A bfalse = false.
Proof.
  intros [c [x [yb [Hc [Hx [Hyb Hw]]]]]].
  destruct (winning_has_trap c x yb Hw) as [h [Hh Htrap]].
  pose proof (rabin_impl_blocks_only_stale_hold nc nx ny E S holds goals moore plus_one H G fuel
                Hf Sh Sg HnG HnH c x yb h 0 Hc Hx Hyb Hgoals ltac:(lia) Hw) as Hnb.
  destruct Hnb as [h' [j' [Hh' [Hj' Hstep]]]].
  - intros [_ Hf12]. congruence.
  - destruct (beq nc nx (ny * M) A bfalse) eqn:Eb; [|reflexivity]. exfalso.
    rewrite beq_true_iff in Eb.
    assert (Hm : h * G + 0 < M) by nia.
    assert (Hm' : h' * G + j' < M) by nia.
    unfold NBm, mem in Hstep. destruct moore.
    + destruct Hstep as [yb' [Hyb' Hall]]. specialize (Hall x Hx).
      rewrite (Eb _ (ev_inr c x yb _ x yb' _ Hc Hx Hyb Hm Hx Hyb' Hm')) in Hall. discriminate.
    + destruct (Hstep x Hx) as [yb' [Hyb' Hs]].
      rewrite (Eb _ (ev_inr c x yb _ x yb' _ Hc Hx Hyb Hm Hx Hyb' Hm')) in Hs. discriminate.
Qed.

Theorem rabin_construction_succeeds :
  Gr1Gen.is_realizable nc nx (ny * M) (L EI) (L SI) plus_one qinit fuel
    (last (map L zk) bfalse) = Some true ->
  (exists c x yb, c < nc /\ x < nx /\ yb < ny /\ last zk bfalse (sv c x yb) = true) ->
  RabinGen.make_rabin_transducer nc nx ny H G (L E) (L S) (L EI) (L SI)
    (map L holds) (map L goals) moore plus_one qinit fuel
    (map L zk) (map (map L) yki) (map (map (map (map L))) (snd sol)) <> None.
Proof.
  intros Hreal Hne.
  rewrite rabin_generated_is_model. unfold rabin_construction. cbv zeta.
  rewrite Hreal. rewrite !map_length.
  assert (Hl1 : Nat.leb 1 (length holds) = true) by (apply Nat.leb_le; lia).
  assert (Hl2 : Nat.leb 1 (length goals) = true) by (apply Nat.leb_le; lia).
  rewrite Hl1, Hl2. rewrite (rabin_action_nonempty Hne). cbn [negb].
  destruct Hne as [c [x [yb [Hc [Hx [Hyb _]]]]]].
  assert (HM : 0 < M) by nia.
  pose proof (make_init_succeeds nc nx (ny * M) (L EI) (L SI) plus_one qinit fuel
                (rabin_init_count nc nx ny H G (map L holds)) (last (map L zk) bfalse)
                ltac:(lia) ltac:(lia) ltac:(nia) Hreal) as Hi.
  destruct (Gr1Gen.make_init _ _ _ _ _ _ _ _ _ _) as [i|]; [discriminate|].
  exfalso. apply Hi. reflexivity.
Qed.

End Succeeds.
