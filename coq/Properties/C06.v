(* C06 — formula-to-BDD translation agrees with integer and Boolean
   semantics.  Statements only; proofs in theories/L1Circuits/CircuitsProofs.v
   and theories/L2Compile/CompileProofs.v.  Model: Circuits.v (the circuits of
   omega/logic/bitvector.py on concrete bit vectors, AFTER the repairs F1 and
   F11) and Expr.v (grammar, integer semantics [sem], translation [ceval] /
   [compile] following bitvector.Nodes.*.flatten, AFTER the repair F6).
   OmegaGen.C06_Opmap is regenerated from /repo on every run. *)
From Coq Require Import ZArith List Bool Lia.
From Omega Require Import L1Circuits.Circuits L1Circuits.CircuitsProofs
  L1Circuits.Deep L1Circuits.DeepProofs
  L2Compile.Expr L2Compile.CompileProofs L2Compile.Accept L2Compile.AcceptProofs.
Import ListNotations.
Open Scope Z_scope.

(* ===================================================== L1: the circuits == *)
(* All widths, all bit values.  [sval] = two's complement value (last bit =
   sign), the code's twos_complement_to_int. *)

(* ripple-carry adder/subtractor with >= 1 extension bit: exact, no overflow *)
Theorem C06_adder_exact : forall x y (add : bool) e,
  x <> [] -> y <> [] -> (1 <= e)%nat ->
  let r := fst (adder_subtractor x y add e) in
  length r = (Nat.max (length x) (length y) + e)%nat /\
  sval r = if add then sval x + sval y else sval x - sval y.
Proof. exact adder_spec. Qed.

(* without extension (inside multiplier and divider): modulo 2^n *)
Theorem C06_adder_modular : forall p q (add : bool),
  length p = length q -> p <> [] ->
  let r := fst (adder_subtractor p q add 0) in
  length r = length p /\
  uval r = (if add then uval p + uval q else uval p - uval q)
             mod 2 ^ Z.of_nat (length p).
Proof. exact adder_mod. Qed.

Theorem C06_less_than_exact : forall p q, length p = length q -> p <> [] ->
  less_than p q = (sval p <? sval q).
Proof. exact less_than_spec. Qed.

Theorem C06_inequality_exact : forall p q, length p = length q -> p <> [] ->
  inequality p q = negb (sval p =? sval q).
Proof. exact inequality_spec. Qed.

(* flatten_comparator for operands of any two widths *)
Theorem C06_comparator_exact : forall o x y, x <> [] -> y <> [] ->
  comparator o x y =
  match o with
  | CLt => sval x <? sval y | CLe => sval x <=? sval y | CEq => sval x =? sval y
  | CNe => negb (sval x =? sval y) | CGe => sval x >=? sval y
  | CGt => sval x >? sval y
  end.
Proof. exact comparator_spec. Qed.

Theorem C06_sign_extension_exact : forall x n, x <> [] ->
  sval (sign_extension x n) = sval x.
Proof. exact sign_extension_sval. Qed.

Theorem C06_ite_function_exact : forall a b c, length b = length c ->
  ite_function a b c = if a then b else c.
Proof. exact ite_function_spec. Qed.

Theorem C06_negate_if_exact : forall g x, x <> [] ->
  length (negate_if g x) = S (length x) /\
  sval (negate_if g x) = if g then - sval x else sval x.
Proof. exact negate_if_spec. Qed.

(* one extra bit, so |min| is exact *)
Theorem C06_abs_exact : forall x, x <> [] ->
  length (abs_ x) = S (length x) /\ sval (abs_ x) = Z.abs (sval x).
Proof. exact abs_spec. Qed.

Theorem C06_multiplier_exact : forall x y, x <> [] -> y <> [] ->
  length (multiplier x y) = (length x + length y)%nat /\
  sval (multiplier x y) = sval x * sval y.
Proof. exact multiplier_spec. Qed.

(* C99 truncating division whenever the divisor is not zero (repair F1) *)
Theorem C06_divider_exact : forall x y, x <> [] -> y <> [] -> sval y <> 0 ->
  let '(quo, rem) := restoring_divider x y in
  sval quo = Z.quot (sval x) (sval y) /\ sval rem = Z.rem (sval x) (sval y) /\
  length quo = S (S (Nat.max (length x) (length y))) /\
  length rem = S (S (Nat.max (length x) (length y))).
Proof. exact divider_spec. Qed.

Theorem C06_constant_exact : forall z,
  sval (int_to_twos_complement z) = z /\
  (2 <= length (int_to_twos_complement z))%nat.
Proof. exact int_to_twos_complement_spec. Qed.

(* non-vacuity of the hypotheses above *)
Example C06_circuits_nonvacuous :
  let x := [true; false; true] in let y := [true; true] in
  x <> [] /\ y <> [] /\ sval x = -3 /\ sval y = -1 /\
  sval (fst (adder_subtractor x y false 1)) = -2 /\
  sval (multiplier x y) = 3 /\
  sval (fst (restoring_divider x [false; true; false])) = -1 /\
  sval (snd (restoring_divider x [false; true; false])) = -1.
Proof. vm_compute. repeat split; discriminate. Qed.

(* regression: the unrepaired circuits are wrong (findings F1, F11) *)
Example C06_refuted_div :
  let x := [false; false] in let y := [true; false; true; false] in
  sval x = 0 /\ sval y = 5 /\
  sval (fst (restoring_divider_old x y)) = -2 /\
  sval (snd (restoring_divider_old x y)) = 2 /\
  sval (fst (restoring_divider x y)) = 0 /\ sval (snd (restoring_divider x y)) = 0.
Proof. exact refuted_old_divider. Qed.

Example C06_refuted_eqless :
  let x := [false; false] in let y := [true; false] in
  sval x = 0 /\ sval y = 1 /\
  comparator_old_eqless x y = false /\ comparator CLe x y = true.
Proof. exact refuted_old_eqless. Qed.

(* ============================ L1d: the emitted formulas and their buffers == *)
(* Deep.d_* build the same formulas as bitvector.py (result bits, memory
   cells with "? i" registers, carry), compared token by token with the real
   strings on every run.  Soundness: if the operand formulas have values
   vx, vy in memory m (and in all its extensions), then after running the
   appended cells from m as symbolic/bdd.py does, the result formulas have the
   values computed by the shallow circuit -- for all widths and all start
   addresses [length m].  [stable vars m e v]: e evaluates to v in every
   extension of m. *)
Theorem C06_emit_adder_sound : forall vars x vx y vy add e m,
  Forall2 (stable vars m) x vx -> Forall2 (stable vars m) y vy ->
  let '(res, mem, cf) := d_adder_subtractor x y add (length m) e in
  let m1 := run vars m mem in
  extends m m1 (length mem) /\
  Forall2 (stable vars m1) res (fst (adder_subtractor vx vy add e)) /\
  stable vars m1 cf (snd (adder_subtractor vx vy add e)).
Proof. exact adder_sound. Qed.

(* the value of the buffer "$ n ..." emitted by flatten_comparator *)
Theorem C06_emit_comparator_sound : forall vars o x vx y vy m,
  Forall2 (stable vars m) x vx -> Forall2 (stable vars m) y vy ->
  last (run vars m (d_flatten_comparator o x y (length m))) false
  = comparator o vx vy.
Proof. exact comparator_sound. Qed.

Theorem C06_emit_ite_sound : forall vars a va b vb c vc m,
  stable vars m a va -> Forall2 (stable vars m) b vb -> Forall2 (stable vars m) c vc ->
  length vb = length vc ->
  let '(r, mem) := d_ite_function a b c (length m) in
  let m1 := run vars m mem in
  extends m m1 (length mem) /\
  Forall2 (stable vars m1) r (ite_function va vb vc).
Proof. exact ite_sound. Qed.

Theorem C06_emit_negate_if_sound : forall vars g vg x vx m,
  stable vars m g vg -> Forall2 (stable vars m) x vx -> (1 <= length vx)%nat ->
  let '(r, mem) := d_negate_if g x (length m) in
  let m1 := run vars m mem in
  extends m m1 (length mem) /\ Forall2 (stable vars m1) r (negate_if vg vx).
Proof. exact negate_if_sound. Qed.

Theorem C06_emit_multiplier_sound : forall vars x vx y vy m,
  Forall2 (stable vars m) x vx -> Forall2 (stable vars m) y vy ->
  let '(res, mem) := d_multiplier x y (length m) in
  let m1 := run vars m mem in
  extends m m1 (length mem) /\ Forall2 (stable vars m1) res (multiplier vx vy).
Proof. exact multiplier_sound. Qed.

Theorem C06_emit_divider_sound : forall vars x vx y vy m,
  Forall2 (stable vars m) x vx -> Forall2 (stable vars m) y vy ->
  (1 <= length vx)%nat -> (1 <= length vy)%nat ->
  let '(quo, rem, mem) := d_restoring_divider x y (length m) in
  let m1 := run vars m mem in
  extends m m1 (length mem) /\
  Forall2 (stable vars m1) quo (fst (restoring_divider vx vy)) /\
  Forall2 (stable vars m1) rem (snd (restoring_divider vx vy)).
Proof. exact divider_sound. Qed.

(* non-vacuity: operands that are bit variables are stable in any memory *)
Example C06_emit_nonvacuous :
  let vars := fun v => Nat.eqb v 0 || Nat.eqb v 101 in
  Forall2 (stable vars [true; false]) [XV 0; XV 1] [true; false] /\
  Forall2 (stable vars [true; false]) [XV 100; XV 101; XR 0] [false; true; true] /\
  let '(quo, rem, mem) := d_restoring_divider [XV 0; XV 1] [XV 100; XV 101; XR 0] 2 in
  map (evalx vars (run vars [true; false] mem)) quo = fst (restoring_divider [true; false] [false; true; true]).
Proof.
  split; [|split].
  - repeat constructor; intros m'; reflexivity.
  - repeat constructor; intros m'; reflexivity.
  - vm_compute. reflexivity.
Qed.

(* ================================================= L0/L2: the refinement == *)
(* The bits of a declared integer decode exactly onto the interval of
   representable values; quantifiers range over exactly this interval. *)
Theorem C06_var_bits_into_limits : forall lo hi bs,
  length bs = snd (dom_to_width lo hi) ->
  let '(l, h) := limits lo hi in l <= sval (var_bits lo hi bs) <= h.
Proof. exact var_bits_limits. Qed.

Theorem C06_var_bits_onto_limits : forall lo hi z,
  (let '(l, h) := limits lo hi in l <= z <= h) ->
  exists bs, length bs = snd (dom_to_width lo hi) /\
             sval (var_bits lo hi bs) = z.
Proof. exact var_bits_onto. Qed.

Theorem C06_quantifier_domain : forall lo hi z,
  In (VZ z) (values_of (TInt lo hi)) <->
  (let '(l, h) := limits lo hi in l <= z <= h).
Proof.
  intros lo hi z. cbn [values_of]. destruct (limits lo hi) as [l h].
  rewrite in_map_iff. split.
  - intros [x [E H]]. injection E as <-. now apply zrange_In.
  - intros H. exists z. split; [reflexivity|now apply zrange_In].
Qed.

(* ===================================================== L2: the translator == *)
(* For every formula of the grammar, declaration table, assignment of the
   bits, definitions in scope (related closure by closure), priming flag and
   scope: if the translator accepts ([ceval] = Some c) then the formula is
   well-typed ([sem] <> Ill) and, unless a divisor evaluates to zero, the
   translated value is the value under unbounded integer arithmetic at the
   integer assignment [alpha_of t be] that the bits encode.  Quantifiers:
   [ceval] enumerates the bit vectors of the variable, [sem] the interval of
   representable integers.  Primed identifiers read the primed copy. *)
Theorem C06_translation_correct : forall t e be ce se prime arith,
  env_rel t ce se ->
  agrees (ceval t be ce prime arith e) (sem t (alpha_of t be) se prime e).
Proof. exact ceval_agrees. Qed.

(* Context.add_expr *)
Theorem C06_compile_correct : forall t e be b,
  compile t e be = Some b ->
  match sem t (alpha_of t be) [] false e with
  | Ok v => v = VB b
  | DivZero => True
  | Ill => False
  end.
Proof. exact compile_correct. Qed.

(* arithmetic expressions (Arithmetic.flatten): all result bits *)
Theorem C06_compile_bits_correct : forall t e be l,
  compile_bits t e be = Some l ->
  match sem t (alpha_of t be) [] false e with
  | Ok v => v = VZ (sval l)
  | DivZero => True
  | Ill => False
  end.
Proof. exact compile_bits_correct. Qed.

(* non-vacuity: x in -4..3 (var 0), y in 0..6 (var 1), a Boolean (var 2);
   \A y: LET p == x' * (y + 1)
          IN (p / (y + 1) = x') /\ (ite(a, x, 1) <= 3) /\ (x \in -4..3)
   is accepted, no divisor is zero, and both sides evaluate *)
Definition ex_table : table := [TInt (-4) 3; TInt 0 6; TBool].
Definition ex_formula : expr :=
  EQuant true 1 false
    (ELet 0 (EArith AMul (EPrime (EVar 0)) (EArith AAdd (EVar 1) (ENum 1)))
       (EBin BAnd
          (ECmp CEq (EArith ADiv (EOp 0) (EArith AAdd (EVar 1) (ENum 1)))
                    (EPrime (EVar 0)))
          (EBin BAnd (ECmp CLe (EIte (EVar 2) (EVar 0) (ENum 1)) (ENum 3))
                     (EIn (EVar 0) (-4) 3)))).
Definition ex_benv : benv :=
  [([true; false; true; true], [false; true; true; false]); ([false; false; false], [false; false; false]);
   ([true], [false])].
Example C06_compile_nonvacuous :
  compile ex_table ex_formula ex_benv = Some true /\
  sem ex_table (alpha_of ex_table ex_benv) [] false ex_formula = Ok (VB true) /\
  env_rel ex_table [] [].
Proof. split; [vm_compute; reflexivity|split; [vm_compute; reflexivity|constructor]]. Qed.

(* the guard IS the 32-bit limit of sign_extension: a product whose width
   reaches 32 is rejected *)
Example C06_width_guard :
  compile [TInt 0 1] (ECmp CEq (EArith AMul (ENum 268435456) (EVar 0)) (ENum 0))
          [([true], [true])] = None /\
  compile [TInt 0 1] (ECmp CEq (EArith AMul (ENum 134217728) (EVar 0)) (ENum 0))
          [([true], [true])] = Some false.
Proof. vm_compute. split; reflexivity. Qed.

(* ------------------------------------------------ acceptance is static -- *)
(* Whether the translator accepts depends only on the declarations (types and
   widths, the 32-bit limit), never on the bit values: [cshape] predicts
   success and the width of the result of [ceval] for every well-formed
   assignment. *)
Theorem C06_acceptance_static : forall t e be ce se prime arith,
  wf_benv t be -> env_sh t ce se ->
  option_map shape_of (ceval t be ce prime arith e) = cshape t se arith e.
Proof. exact ceval_shape. Qed.

Theorem C06_accepts_iff : forall t e be, wf_benv t be ->
  (exists b, compile t e be = Some b) <-> accepts t e = true.
Proof. exact compile_accepts_iff. Qed.

(* every operator of the grammar is accepted on well-typed operands: one
   formula per operator over x in -4..3, y in 0..6, a Boolean *)
Definition X := EVar 0. Definition Y := EVar 1. Definition A := EVar 2.
Definition one_per_operator : list expr :=
  [ETrue; EFalse; ENot A;
   EBin BAnd A A; EBin BOr A A; EBin BImp A A; EBin BIff A A; EBin BXor A A;
   ECmp CLt X Y; ECmp CLe X Y; ECmp CEq X Y; ECmp CNe X Y; ECmp CGe X Y; ECmp CGt X Y;
   ECmp CEq A A; ECmp CNe A A;
   ECmp CEq (EArith AAdd X Y) (ENum 1); ECmp CEq (EArith ASub X Y) (ENum (-1));
   ECmp CEq (EArith AMul X Y) (ENum 2); ECmp CEq (EArith ADiv X Y) (ENum 2);
   ECmp CEq (EArith AMod X Y) (ENum 0);
   EIn X (-1) 2; EIte A A A; ECmp CEq (EIte A X Y) (ENum 0);
   ELet 0 (EArith AAdd X (ENum 1)) (ECmp CGt (EOp 0) Y); ELet 0 A (EOp 0);
   EPrime A; ECmp CEq (EPrime X) X;
   EQuant true 0 false (ECmp CGe X Y); EQuant false 1 true (ECmp CGe X (EPrime Y))].

Example C06_every_operator_accepted_bounded :
  forallb (accepts ex_table) one_per_operator = true /\
  wf_benv ex_table ex_benv /\ env_sh ex_table [] [].
Proof. split; [vm_compute; reflexivity|split; [vm_compute; tauto|constructor]]. Qed.

(* ================================ tie G: the translator's operator tables == *)
From Coq Require Import String Ascii.
From OmegaGen Require Import C06_Opmap.
Open Scope string_scope.

Definition mem_str (s : string) (l : list string) : bool :=
  existsb (String.eqb s) l.

Fixpoint assoc (s : string) (l : list (string * string)) : option string :=
  match l with
  | [] => None
  | (k, v) :: r => if String.eqb s k then Some v else assoc s r
  end.

(* how each documented token (after the lexer) is translated *)
Inductive kind :=
| KOpmap          (* flatten consults Nodes.opmap[operator] *)
| KConst          (* TRUE/FALSE: Nodes.opmap[value.lower()] *)
| KCmp            (* dispatched by flatten_comparator *)
| KArith          (* dispatched by flatten_arithmetic *)
| KStruct         (* grammar punctuation / node built by the parser, no table *)
| KTemporal.      (* temporal operators: not first-order, outside C06 *)

Definition kind_of (norm : string) : option kind :=
  if mem_str norm ["~"; "/\"; "\/"; "=>"; "<=>"; "^"; "\A"; "\E"] then Some KOpmap
  else if mem_str norm ["TRUE"; "FALSE"] then Some KConst
  else if mem_str norm ["="; "#"; "!="; "/="; "<"; "<="; "=<"; ">="; ">"] then Some KCmp
  else if mem_str norm ["+"; "-"; "*"; "/"; "%"] then Some KArith
  else if mem_str norm ["("; ")"; ","; ":"; "LET"; "IN"; "\in"; ".."; "IF"; "THEN";
                        "ELSE"; "ite"; "X"; "'"] then Some KStruct
  else if mem_str norm ["[]"; "<>"; "-X"; "--X"; "-[]"; "-<>"; "U"; "W"; "R"; "V";
                        "S"; "T"] then Some KTemporal
  else None.

Definition lower_const (s : string) : string :=
  if String.eqb s "TRUE" then "true" else if String.eqb s "FALSE" then "false" else s.

Definition token_ok (p : string * string) : bool :=
  let norm := snd p in
  match kind_of norm with
  | Some KOpmap => match assoc norm opmap with Some _ => true | None => false end
  | Some KConst => match assoc (lower_const norm) opmap with Some _ => true | None => false end
  | Some KCmp => mem_str norm comparator_ops
  | Some KArith => mem_str norm arithmetic_ops
  | Some KStruct | Some KTemporal => true
  | None => false
  end.

(* every token of the documented expression grammar is classified, and every
   propositional / comparison / arithmetic operator among them has an entry in
   the translator's dispatch tables (fails for "^" on the unrepaired tree:
   finding F6) *)
Theorem C06_grammar_accepted_bounded : forallb token_ok doc_tokens = true.
Proof. vm_compute. reflexivity. Qed.

(* "<" and ">" are lexed and parsed although the BNF omits them *)
Theorem C06_strict_comparators_bounded :
  mem_str "<" comparator_ops && mem_str ">" comparator_ops = true.
Proof. vm_compute. reflexivity. Qed.

(* meaning of the prefix templates in opmap: " {op} {x} {y} " evaluated as
   symbolic/bdd.py does (! & | ^ prefix operators) *)
Fixpoint split_sp (s acc : string) : list string :=
  match s with
  | EmptyString => if String.eqb acc "" then [] else [acc]
  | String c r =>
      if Ascii.eqb c " "%char
      then (if String.eqb acc "" then [] else [acc]) ++ split_sp r ""
      else split_sp r (acc ++ String c EmptyString)
  end.

Fixpoint prefix_eval (fuel : nat) (toks : list string) (x y : bool)
  : option (bool * list string) :=
  match fuel with
  | O => None
  | S f =>
      match toks with
      | [] => None
      | tk :: r =>
          if String.eqb tk "x" then Some (x, r)
          else if String.eqb tk "y" then Some (y, r)
          else if String.eqb tk "0" then Some (false, r)
          else if String.eqb tk "1" then Some (true, r)
          else if String.eqb tk "!" then
            match prefix_eval f r x y with
            | Some (a, r') => Some (negb a, r') | None => None end
          else
            let bin (g : bool -> bool -> bool) :=
              match prefix_eval f r x y with
              | Some (a, r1) =>
                  match prefix_eval f r1 x y with
                  | Some (b, r2) => Some (g a b, r2) | None => None end
              | None => None
              end in
            if String.eqb tk "&" then bin andb
            else if String.eqb tk "|" then bin orb
            else if String.eqb tk "^" then bin xorb
            else None
      end
  end.

Definition template_sem (op : string) (x y : bool) : option bool :=
  match assoc op opmap with
  | None => None
  | Some v =>
      match prefix_eval 20 (split_sp v "" ++ ["x"; "y"]) x y with
      | Some (b, _) => Some b     (* unary templates and constants leave operands over *)
      | None => None
      end
  end.

Definition bools := [false; true].

Theorem C06_opmap_meaning_bounded :
  forallb (fun p : string * bop =>
     forallb (fun x => forallb (fun y =>
        match template_sem (fst p) x y with
        | Some b => Bool.eqb b (sem_bop (snd p) x y)
        | None => false
        end) bools) bools)
    [("/\", BAnd); ("\/", BOr); ("=>", BImp); ("<=>", BIff); ("^", BXor)] = true
  /\ forallb (fun x => match template_sem "~" x x with
                       | Some b => Bool.eqb b (negb x) | None => false end) bools = true
  /\ template_sem "true" false false = Some true
  /\ template_sem "false" true true = Some false.
Proof. vm_compute. repeat split; reflexivity. Qed.

(* ================== tie T: the circuits ARE the translated code of /repo == *)
(* coq/gen/BitvectorGen.v is produced on every run by
   tools/py2coq_bitvector.py from the current omega/logic/bitvector.py
   (Python ints = Z, lists of bit formulas = list bx, prefix-syntax strings
   read as trees through a fixed template table, exceptions = None, in-place
   list mutation = returned values, recursion on fuel).  For each translated
   function: whenever the code returns, it returns exactly (Leibniz) what the
   emitter model of Deep.v / Emit.v returns.  Proofs:
   GenProofs/BitvectorBridge.v, re-checked on every run. *)
From Omega Require Import L1Circuits.PyBits L2Compile.Emit L2Compile.EmitProofs.
From OmegaGen Require Import BitvectorGen.
From OmegaGP Require Import BitvectorBridge BitvectorCorrect.
Close Scope string_scope.

Definition nz := Z.to_nat.

Theorem C06_circuits_are_translated_code :
  (forall x v, g_sign x = Some v -> v = d_sign x) /\
  (forall x n r, g_pad x n = Some r -> r = d_pad x (nz n)) /\
  (forall x n r, g_truncate x n = Some r -> r = firstn (nz n) x) /\
  (forall x c lg r, g_fixed_shift x c true lg true = Some r ->
     r = d_fixed_shift_left x (nz c)) /\
  (forall x n r, g_sign_extension x n = Some r -> r = d_sign_extension x (nz n)) /\
  (forall x y e r, g_equalize_width x y e = Some r -> r = d_equalize_width x y (nz e)) /\
  (forall mem more start r, g__extend_memory mem more start = Some r ->
     r = (start + py_len more, mem ++ more)) /\
  (forall x y add start e r, g_adder_subtractor x y add start e = Some r ->
     r = d_adder_subtractor x y add (nz start) (nz e)) /\
  (forall p q mem r, g_inequality p q mem = Some r -> r = d_inequality p q) /\
  (forall p q mem r, g_less_than p q mem = Some r ->
     r = (fst (d_less_than p q (List.length mem)), mem ++ snd (d_less_than p q (List.length mem)))) /\
  (forall a b c start r, g_ite_function a b c start = Some r ->
     r = d_ite_function a b c (nz start)) /\
  (forall a b c, g_ite_connective a b c = Some (d_ite_connective a b c)) /\
  (forall g x start r, g__negate_if g x start = Some r -> r = d_negate_if g x (nz start)) /\
  (forall x start r, g_abs_ x start = Some r -> r = d_abs x (nz start)) /\
  (forall fuel x y s start r, g__multiplier fuel x y s start = Some r ->
     r = d_mult_stages x y (nz (stage s (py_len y) + 1)) (nz start)) /\
  (forall fuel x y start r, g_multiplier fuel x y start = Some r ->
     r = d_multiplier x y (nz start)) /\
  (forall fuel x y s start r, g__restoring_divider fuel x y (Some s) start = Some r ->
     r = div_result x y s start) /\
  (forall fuel x y start r, g_restoring_divider fuel x y start = Some r ->
     r = d_restoring_divider x y (nz start)) /\
  (forall fuel op p q mem r, g_flatten_arithmetic fuel op p q mem = Some r ->
     exists o, aop_of_string op = Some o /\
       r = (fst (d_flatten_arithmetic o p q (List.length mem)),
            mem ++ snd (d_flatten_arithmetic o p q (List.length mem)))) /\
  (forall op x y mem r, g_flatten_comparator op x y mem = Some r ->
     exists o, cmp_of_string op = Some o /\
       r = (FBuf (py_len (d_comparator_mem o x y mem)) (d_comparator_mem o x y mem),
            d_comparator_mem o x y mem)).
Proof.
  repeat apply conj.
  - intros x v H. now apply g_sign_ok in H.
  - intros x n r H. now apply g_pad_ok in H.
  - exact g_truncate_ok.
  - intros x c lg r H. now apply g_fixed_shift_left_ok in H.
  - intros x n r H. now apply g_sign_extension_ok in H.
  - intros x y e r H. now apply g_equalize_width_ok in H.
  - intros mem more start r H. now apply g__extend_memory_ok in H.
  - intros x y add start e r H. now apply g_adder_subtractor_ok in H.
  - intros p q mem r H. now apply g_inequality_ok in H.
  - intros p q mem r H. now apply g_less_than_ok in H.
  - intros a b c start r H. now apply g_ite_function_ok in H.
  - exact g_ite_connective_eq.
  - intros g x start r H. now apply g__negate_if_ok in H.
  - intros x start r H. now apply g_abs__ok in H.
  - intros fuel x y s start r H. now apply g__multiplier_ok in H.
  - exact g_multiplier_ok.
  - intros fuel x y s start r H. now apply g__restoring_divider_some_ok in H.
  - exact g_restoring_divider_ok.
  - exact g_flatten_arithmetic_ok.
  - exact g_flatten_comparator_ok.
Qed.

(* ... and where the widths are within the 32-bit limit the translated code
   does not raise (the helpers, the adder, the comparators) *)
Theorem C06_translated_code_succeeds :
  (forall x y e, eq_guard x y e = true ->
     g_equalize_width x y e = Some (d_equalize_width x y (nz e))) /\
  (forall x y add start e, add_guard x y start e = true ->
     g_adder_subtractor x y add start e = Some (d_adder_subtractor x y add (nz start) (nz e))) /\
  (forall a b c start, List.length b = List.length c -> 0 <= start ->
     g_ite_function a b c start = Some (d_ite_function a b c (nz start))) /\
  (forall g x start, neg_guard x start = true ->
     g__negate_if g x start = Some (d_negate_if g x (nz start))) /\
  (forall op o x y mem, cmp_of_string op = Some o -> cmp_guard x y = true ->
     g_flatten_comparator op x y mem =
     Some (FBuf (py_len (d_comparator_mem o x y mem)) (d_comparator_mem o x y mem),
           d_comparator_mem o x y mem)) /\
  (forall fuel x y start, mul_guard x y start = true ->
     (List.length x + List.length y < fuel)%nat ->
     g_multiplier fuel x y start = Some (d_multiplier x y (nz start))) /\
  (forall fuel x y start, div_guard x y start = true ->
     (Nat.max (List.length x) (List.length y) + 1 < fuel)%nat ->
     g_restoring_divider fuel x y start = Some (d_restoring_divider x y (nz start))) /\
  (forall fuel op o p q mem, aop_of_string op = Some o -> arith_guard o p q = true ->
     (32 < fuel)%nat ->
     g_flatten_arithmetic fuel op p q mem =
     Some (fst (d_flatten_arithmetic o p q (List.length mem)),
           mem ++ snd (d_flatten_arithmetic o p q (List.length mem)))).
Proof.
  repeat apply conj.
  - exact g_equalize_width_some.
  - exact g_adder_subtractor_some.
  - exact g_ite_function_some.
  - exact g__negate_if_some.
  - exact g_flatten_comparator_some.
  - exact g_multiplier_some.
  - exact g_restoring_divider_some.
  - exact g_flatten_arithmetic_some.
Qed.

(* the guard of the translated flatten_arithmetic IS the static acceptance
   condition of the value-level translator model (Expr.c_arith: operand
   widths >= 2, result width below 32): where the model accepts, the
   translated code returns *)
Theorem C06_translated_arithmetic_accepts : forall fuel op o p q (vx vy : list bool) mem,
  aop_of_string op = Some o ->
  List.length vx = List.length p -> List.length vy = List.length q -> (32 < fuel)%nat ->
  c_arith o vx vy <> None -> g_flatten_arithmetic fuel op p q mem <> None.
Proof.
  intros fuel op o p q vx vy mem Ho Lx Ly Hf A.
  rewrite (g_flatten_arithmetic_some fuel op o p q mem Ho); [discriminate| |exact Hf].
  rewrite (arith_guard_is_c_arith_guard o p q vx vy Lx Ly).
  destruct (c_arith o vx vy); [reflexivity|congruence].
Qed.

(* the guards: operands of at least 2 bits, result width below
   ALU_BITWIDTH = 32 (read from the source), start address >= 0 *)
Example C06_guards_nonvacuous :
  g_ALU_BITWIDTH = 32 /\
  eq_guard [XV 0; XV 1] [XV 2; XV 3; XV 4] 1 = true /\
  add_guard [XV 0; XV 1] [XV 2; XV 3; XV 4] 7 1 = true /\
  neg_guard [XV 0; XV 1] 0 = true /\
  cmp_guard [XV 0; XV 1] [XV 2; XV 3; XV 4] = true /\
  mul_guard [XV 0; XV 1] [XV 2; XV 3; XV 4] 7 = true /\
  div_guard [XV 0; XV 1] [XV 2; XV 3; XV 4] 7 = true /\
  arith_guard ADiv [XV 0; XV 1] [XV 2; XV 3; XV 4] = true /\
  cmp_of_string "=<"%string = Some CLe /\ aop_of_string "%"%string = Some AMod.
Proof. vm_compute. repeat split; reflexivity. Qed.

(* the L1 theorems (circuit = arithmetic; emitted formula evaluates to the
   circuit, for all widths and start addresses) about the translated code *)
Theorem C06_translated_adder_correct : forall vars x vx y vy (add : bool) e m res mem cf,
  Forall2 (stable vars m) x vx -> Forall2 (stable vars m) y vy -> 1 <= e ->
  g_adder_subtractor x y add (py_len m) e = Some (res, mem, cf) ->
  let m1 := run vars m mem in
  extends m m1 (List.length mem) /\
  exists vr, Forall2 (stable vars m1) res vr /\
    sval vr = (if add then sval vx + sval vy else sval vx - sval vy) /\
    List.length vr = (Nat.max (List.length vx) (List.length vy) + Z.to_nat e)%nat.
Proof. exact translated_adder_correct. Qed.

Theorem C06_translated_multiplier_correct : forall vars fuel x vx y vy m res mem,
  Forall2 (stable vars m) x vx -> Forall2 (stable vars m) y vy -> vx <> [] -> vy <> [] ->
  g_multiplier fuel x y (py_len m) = Some (res, mem) ->
  let m1 := run vars m mem in
  extends m m1 (List.length mem) /\
  exists vr, Forall2 (stable vars m1) res vr /\ sval vr = sval vx * sval vy /\
    List.length vr = (List.length vx + List.length vy)%nat.
Proof. exact translated_multiplier_correct. Qed.

Theorem C06_translated_divider_correct : forall vars fuel x vx y vy m quo rem mem,
  Forall2 (stable vars m) x vx -> Forall2 (stable vars m) y vy -> vx <> [] -> vy <> [] ->
  sval vy <> 0 ->
  g_restoring_divider fuel x y (py_len m) = Some (quo, rem, mem) ->
  let m1 := run vars m mem in
  extends m m1 (List.length mem) /\
  exists vq vr, Forall2 (stable vars m1) quo vq /\ Forall2 (stable vars m1) rem vr /\
    sval vq = Z.quot (sval vx) (sval vy) /\ sval vr = Z.rem (sval vx) (sval vy).
Proof. exact translated_divider_correct. Qed.

(* flatten_arithmetic(operator, p, q, mem): the cells it appends to mem and
   the result bits; mem0 = the cells already there, evaluated from the empty
   memory as symbolic/bdd.py does *)
Theorem C06_translated_arithmetic_correct : forall vars fuel op x vx y vy mem0 m res mem1,
  run vars [] mem0 = m ->
  Forall2 (stable vars m) x vx -> Forall2 (stable vars m) y vy -> vx <> [] -> vy <> [] ->
  g_flatten_arithmetic fuel op x y mem0 = Some (res, mem1) ->
  exists o cells, aop_of_string op = Some o /\ mem1 = mem0 ++ cells /\
    let m1 := run vars [] mem1 in
    extends m m1 (List.length cells) /\
    exists vr, Forall2 (stable vars m1) res vr /\
      match sem_aop o (sval vx) (sval vy) with
      | Ok v => v = VZ (sval vr)
      | DivZero => True
      | Ill => False
      end.
Proof. exact translated_arithmetic_correct. Qed.

(* flatten_comparator(operator, x, y, mem): the value of the returned buffer
   "$ n cells" is the integer comparison *)
Theorem C06_translated_comparator_correct : forall vars op x vx y vy mem0 m buf mem1,
  run vars [] mem0 = m ->
  Forall2 (stable vars m) x vx -> Forall2 (stable vars m) y vy -> vx <> [] -> vy <> [] ->
  g_flatten_comparator op x y mem0 = Some (buf, mem1) ->
  exists o, cmp_of_string op = Some o /\
    buf_value vars buf = Some (sem_cmp o (sval vx) (sval vy)).
Proof. exact translated_comparator_correct. Qed.

(* non-vacuity: the translated code returns on concrete operands (x of 2
   bits, y of 3 bits whose sign is a register, start address 2), for every
   arithmetic operator and a comparator *)
Example C06_translated_nonvacuous :
  let x := [XV 0; XV 1] in let y := [XV 100; XV 101; XR 0] in
  let mem0 := [XV 7; XNot (XV 7)] in
  (forall op, In op ["+"%string; "-"%string; "*"%string; "/"%string; "%"%string] ->
     g_flatten_arithmetic 40 op x y mem0 <> None) /\
  g_flatten_comparator "<="%string x y mem0 <> None /\
  g_restoring_divider 40 x y 2 = Some (d_restoring_divider x y 2) /\
  g_multiplier 40 x y 2 = Some (d_multiplier x y 2).
Proof.
  cbv zeta. split; [|split; [|split]].
  - intros op H. cbn [In] in H.
    repeat (destruct H as [<-|H]; [vm_compute; discriminate|]). destruct H.
  - vm_compute. discriminate.
  - vm_compute. reflexivity.
  - vm_compute. reflexivity.
Qed.

(* ====== tie T, memory threading: the flatten methods of bitvector.Nodes == *)
(* Arithmetic.flatten, Comparator.flatten, the ite branch of
   Operator.flatten, the priming branch of Unary.flatten AND the leaves
   Num.flatten (int_to_twos_complement), Bool.flatten, Var.flatten
   (var_to_twos_complement, _append_sign_bit, _is_bool_var; names without a
   definition) are translated into [g_flatten] (dispatch on the class of the
   node, the caller's list `mem` handed back, **kw = the record of prime, t,
   defs).  What stays external: [ext_flatten] (Binary, the quantifier / LET /
   connective branches of Operator, <<>>) and [def_flatten] (the branch of
   Var.flatten that expands a definition, reached only when the name is in
   defs).  [var_id] numbers the bit names; [defs_mem] is `name in defs`. *)
From Omega Require Import L1Circuits.PyStr L2Compile.Thread L2Compile.ThreadProofs
  L2Compile.Leaf L2Compile.LeafProofs.
From OmegaGP Require Import BitvectorLeafBridge BitvectorFlatBridge.

(* the leaves are the translated code *)
Theorem C06_leaves_are_translated_code :
  forall (defs : Type) defs_mem var_id ext_flatten def_flatten,
  let flat := g_flatten defs defs_mem var_id ext_flatten def_flatten in
  (forall s r, g_int_to_twos_complement s = Some r ->
     exists z, py_int s = Some z /\ r = map bstr (int_to_twos_complement z)) /\
  (forall fuel v mem kw r st, flat (S fuel) (PNode "Num" v []) mem kw = Some (r, st) ->
     exists z, py_int v = Some z /\ r = RBits (map XC (int_to_twos_complement z)) /\ st = mem) /\
  (forall fuel v mem kw,
     (py_lower v = "true"%string ->
        flat (S fuel) (PNode "Bool" v []) mem kw = Some (RStr (XC true), mem)) /\
     (py_lower v = "false"%string ->
        flat (S fuel) (PNode "Bool" v []) mem kw = Some (RStr (XC false), mem))) /\
  (forall name t, g__is_bool_var name (Some t) = is_bool_var t name) /\
  (forall name t, g_var_to_twos_complement name (Some t) =
     match dict_get t name with Some h => var_names h | None => None end) /\
  (forall fuel name mem kw t, k_t kw = Some t -> nodef defs defs_mem kw name = true ->
     flat (S fuel) (PNode "Var" name []) mem kw =
     match d_var_flatten var_id t name (py_truth (k_prime kw)) with
     | Some r => Some (r, mem)
     | None => None
     end).
Proof.
  intros defs defs_mem var_id ext_flatten def_flatten flat. repeat apply conj.
  - exact g_int_to_twos_complement_ok.
  - apply num_flatten_is_model.
  - apply bool_flatten_is_model.
  - exact g__is_bool_var_eq.
  - exact g_var_to_twos_complement_eq.
  - apply var_flatten_is_model.
Qed.

(* the hypothesis on the leaves of an arithmetic-scope tree ([leaves_ok]:
   flatten returns these bits and leaves the memory alone) holds for
   numerals and for variables without a definition by the translated code,
   and for a node of an untranslated class by assumption on ext_flatten *)
Theorem C06_leaf_hypothesis_discharged :
  forall (defs : Type) defs_mem var_id ext_flatten def_flatten,
  (forall v z kw, py_int v = Some z ->
     leaves_ok defs defs_mem var_id ext_flatten def_flatten
       (ALeaf (PNode "Num" v []) (num_bits z)) kw) /\
  (forall name t bits kw, k_t kw = Some t -> nodef defs defs_mem kw name = true ->
     d_var_flatten var_id t name (py_truth (k_prime kw)) = Some (RBits bits) ->
     leaves_ok defs defs_mem var_id ext_flatten def_flatten
       (ALeaf (PNode "Var" name []) bits) kw) /\
  (forall u bits kw, is_ext u = true ->
     (forall mem, ext_flatten u (Some mem) kw = Some (RBits bits, Some mem)) ->
     leaves_ok defs defs_mem var_id ext_flatten def_flatten (ALeaf u bits) kw) /\
  (* an ite in arithmetic scope whose guard is a declared Boolean variable
     (the AIte clause of leaves_ok; a guard that is itself a comparison is
     refused by the generated code, see the C06 row of DESIGN 12.2) *)
  (forall name t gb a b kw, k_t kw = Some t -> nodef defs defs_mem kw name = true ->
     d_var_flatten var_id t name (py_truth (k_prime kw)) = Some (RStr gb) ->
     leaves_ok defs defs_mem var_id ext_flatten def_flatten a kw ->
     leaves_ok defs defs_mem var_id ext_flatten def_flatten b kw ->
     leaves_ok defs defs_mem var_id ext_flatten def_flatten
       (AIte (PNode "Var" name []) gb a b) kw).
Proof.
  intros. repeat apply conj.
  - apply leaf_num.
  - apply leaf_var.
  - apply leaf_ext.
  - apply leaf_ite_guard.
Qed.

Theorem C06_flatten_is_translated_code :
  forall (defs : Type) defs_mem var_id ext_flatten def_flatten,
  let flat := g_flatten defs defs_mem var_id ext_flatten def_flatten in
  let lok := leaves_ok defs defs_mem var_id ext_flatten def_flatten in
  (forall e fuel kw mem r st, lok e kw ->
     flat fuel (node_of e) (Some mem) kw = Some (r, st) ->
     r = RBits (fst (d_aflat e mem)) /\ st = Some (snd (d_aflat e mem))) /\
  (forall op a b fuel kw r st, lok a kw -> lok b kw ->
     flat fuel (PNode "Comparator" op [node_of a; node_of b]) None kw = Some (r, st) ->
     exists o, cmp_of_string op = Some o /\
       r = RBuf (FBuf (py_len (d_cmp_flat o a b)) (d_cmp_flat o a b)) /\ st = None).
Proof.
  intros defs defs_mem var_id ext_flatten def_flatten flat lok. split.
  - apply flatten_is_threading_model.
  - apply comparator_flatten_is_model.
Qed.

(* ... and the threading model is sound (ThreadProofs.v): for all trees,
   widths and bit values, after the appended cells are evaluated as
   symbolic/bdd.py does, the returned bits have the value of the composed
   circuits, *)
Theorem C06_memory_threading_sound : forall vars e mem, awf e = true ->
  let m := run vars [] mem in
  let '(r, mem') := d_aflat e mem in
  let m1 := run vars [] mem' in
  (exists k, extends m m1 k) /\ Forall2 (stable vars m1) r (aval vars e).
Proof. exact thread_sound. Qed.

(* and the buffer that the translated Comparator.flatten returns evaluates
   to the comparison of the integers denoted by the operand bits *)
Theorem C06_translated_comparator_flatten_correct :
  forall (defs : Type) defs_mem var_id ext_flatten def_flatten vars
         op a b fuel kw r st,
  leaves_ok defs defs_mem var_id ext_flatten def_flatten a kw ->
  leaves_ok defs defs_mem var_id ext_flatten def_flatten b kw ->
  awf a = true -> awf b = true ->
  g_flatten defs defs_mem var_id ext_flatten def_flatten fuel
    (PNode "Comparator" op [node_of a; node_of b]) None kw = Some (r, st) ->
  exists o buf, cmp_of_string op = Some o /\ r = RBuf buf /\ st = None /\
    buf_value vars buf = Some (sem_cmp o (sval (aval vars a)) (sval (aval vars b))).
Proof. exact translated_comparator_flatten_correct. Qed.

Theorem C06_translated_flatten_threads_memory :
  forall (defs : Type) defs_mem var_id ext_flatten def_flatten vars
         e fuel kw mem r st,
  leaves_ok defs defs_mem var_id ext_flatten def_flatten e kw -> awf e = true ->
  g_flatten defs defs_mem var_id ext_flatten def_flatten fuel (node_of e) (Some mem) kw
    = Some (r, st) ->
  exists bits mem', r = RBits bits /\ st = Some mem' /\
    (exists k, extends (run vars [] mem) (run vars [] mem') k) /\
    Forall2 (stable vars (run vars [] mem')) bits (aval vars e).
Proof. exact translated_flatten_threads_memory. Qed.

(* END TO END for quantifier-free arithmetic comparisons over declared
   integer variables and numerals (Leaf.qexp: numerals, variables, X / ',
   + - * / %): no hypothesis on any flatten function is left.  t = the symbol
   table passed as t=...; [nodef_on kw names]: the variable names that OCCUR
   in the two terms have no definition in the dictionary passed as defs=...
   (Var.flatten only tests the name it flattens, so the dictionary may define
   other operators: this covers bitblast's defs = {} and a context with
   registered operators that the formula does not mention, as well as
   defs=None); [env n p] = the integer
   value of variable n (primed if p); the bit assignment [vars] encodes env
   ([encodes]: the bits that the table assigns to each variable evaluate, in
   two's complement, to its value).  If neither side divides by zero, the
   buffer returned by the TRANSLATED Comparator.flatten, evaluated as
   symbolic/bdd.py does, is the integer comparison. *)
Theorem C06_translated_flatten_end_to_end :
  forall (defs : Type) defs_mem var_id ext_flatten def_flatten vars t env
         op l r la ra fuel kw res st vl vr,
  k_t kw = Some t -> nodef_on defs defs_mem kw (qnames l ++ qnames r) ->
  encodes var_id vars t env ->
  q_anode var_id t (py_truth (k_prime kw)) l = Some la ->
  q_anode var_id t (py_truth (k_prime kw)) r = Some ra ->
  qval env (py_truth (k_prime kw)) l = Some vl ->
  qval env (py_truth (k_prime kw)) r = Some vr ->
  g_flatten defs defs_mem var_id ext_flatten def_flatten fuel
    (PNode "Comparator" op [qnode l; qnode r]) None kw = Some (res, st) ->
  exists o buf, cmp_of_string op = Some o /\ res = RBuf buf /\ st = None /\
    buf_value vars buf = Some (sem_cmp o vl vr).
Proof. exact translated_flatten_end_to_end. Qed.

(* the earlier statement (defs=None) is the special case *)
Corollary C06_translated_flatten_end_to_end_defs_none :
  forall (defs : Type) defs_mem var_id ext_flatten def_flatten vars t env
         op l r la ra fuel kw res st vl vr,
  k_t kw = Some t -> k_defs kw = None ->
  encodes var_id vars t env ->
  q_anode var_id t (py_truth (k_prime kw)) l = Some la ->
  q_anode var_id t (py_truth (k_prime kw)) r = Some ra ->
  qval env (py_truth (k_prime kw)) l = Some vl ->
  qval env (py_truth (k_prime kw)) r = Some vr ->
  g_flatten defs defs_mem var_id ext_flatten def_flatten fuel
    (PNode "Comparator" op [qnode l; qnode r]) None kw = Some (res, st) ->
  exists o buf, cmp_of_string op = Some o /\ res = RBuf buf /\ st = None /\
    buf_value vars buf = Some (sem_cmp o vl vr).
Proof.
  intros defs defs_mem var_id ext_flatten def_flatten vars t env op l r la ra fuel kw
    res st vl vr Ht Hd. apply translated_flatten_end_to_end; [exact Ht|].
  now apply no_defs_on, no_defs_none.
Qed.

(* non-vacuity: x in -2..1 (signed, bits x_0 x_1), y in 0..3 (bits y_0 y_1,
   constant sign bit); the formula  x' * (y + 3) <= 7  at x' = -2, y = 1:
   the hypotheses hold, the translated methods return a buffer, and its
   value is the comparison -8 <= 7 *)
Definition ex_t : PyStr.table :=
  [("x"%string, mkHint "int" (Some ["x_0"; "x_1"]%string) (Some true) (Some (-2, 1)));
   ("y"%string, mkHint "int" (Some ["y_0"; "y_1"]%string) (Some false) (Some (0, 3)))].
Fixpoint ex_idx (s : string) (l : list string) (k : nat) : nat :=
  match l with [] => k | x :: r => if String.eqb s x then k else ex_idx s r (S k) end.
(* an injective numbering of the bit names *)
Definition ex_id (s : string) : nat :=
  ex_idx s ["x_0"; "x_1"; "y_0"; "y_1"; "x_0'"; "x_1'"; "y_0'"; "y_1'"]%string 0.
(* x = 0, y = 1, x' = -2, y' = 0 *)
Definition ex_vars (v : nat) : bool := Nat.eqb v 5 || Nat.eqb v 2.
Definition ex_env (n : string) (p : bool) : Z :=
  if String.eqb n "x" then (if p then -2 else 0) else (if p then 0 else 1).
Definition ex_l : qexp :=
  QArith AMul "*" (QPrime "'" (QVar "x")) (QArith AAdd "+" (QVar "y") (QNum "3")).
Definition ex_r : qexp := QNum "7".
Definition ex_kw : kwargs unit := mkKw None (Some ex_t) None.

Example C06_end_to_end_nonvacuous :
  (exists la ra, q_anode ex_id ex_t false ex_l = Some la /\ q_anode ex_id ex_t false ex_r = Some ra) /\
  qval ex_env false ex_l = Some (-8) /\ qval ex_env false ex_r = Some 7 /\
  (exists buf, g_flatten unit (fun _ _ => false) ex_id (fun _ _ _ => None) (fun _ _ _ => None) 60
     (PNode "Comparator" "<=" [qnode ex_l; qnode ex_r]) None ex_kw = Some (RBuf buf, None) /\
     buf_value ex_vars buf = Some true) /\
  sval (map (evalx ex_vars []) [XV 4; XV 5]) = ex_env "x" true /\
  sval (map (evalx ex_vars []) [XV 2; XV 3; XC false]) = ex_env "y" false.
Proof.
  split; [|split; [|split; [|split; [|split]]]].
  - vm_compute. eexists. eexists. split; reflexivity.
  - vm_compute. reflexivity.
  - vm_compute. reflexivity.
  - vm_compute. eexists. split; reflexivity.
  - vm_compute. reflexivity.
  - vm_compute. reflexivity.
Qed.

(* END TO END for quantifier-free FORMULAS (Leaf.bexp: TRUE / FALSE, declared
   Boolean variables, comparisons of integer terms, ~ /\ \/ => <=> ^): the
   translated Binary.flatten and Unary.flatten apply the operator prefixes of
   Nodes.opmap (regenerated as g_opmap) to the results of their operands;
   the emitted Boolean-scope formula (buffers evaluated on their own memory,
   as symbolic/bdd.py does) has the Boolean meaning of the formula.  Again no
   hypothesis on ext_flatten / def_flatten. *)
From OmegaGP Require Import BitvectorFormula.

Theorem C06_connectives_are_translated_code :
  forall (defs : Type) defs_mem var_id ext_flatten def_flatten,
  let flat := g_flatten defs defs_mem var_id ext_flatten def_flatten in
  (forall fuel op x y mem kw r st,
     flat (S fuel) (PNode "Binary" op [x; y]) mem kw = Some (r, st) ->
     op <> "=="%string -> op <> ".."%string -> op <> "\in"%string ->
     exists rx sx ry opx px py p,
       flat fuel x mem kw = Some (rx, sx) /\ flat fuel y sx kw = Some (ry, st) /\
       dict_get g_opmap op = Some opx /\ px_of_fres rx = Some px /\ px_of_fres ry = Some py /\
       py_apply_prefix opx [px; py] = Some p /\ r = RForm p) /\
  (forall fuel op x mem kw r st,
     flat (S fuel) (PNode "Unary" op [x]) mem kw = Some (r, st) ->
     op <> "X"%string -> op <> "'"%string ->
     exists rx opx px p,
       flat fuel x mem kw = Some (rx, st) /\ dict_get g_opmap op = Some opx /\
       px_of_fres rx = Some px /\ py_apply_prefix opx [px] = Some p /\ r = RForm p).
Proof.
  intros. split.
  - apply binary_flatten_is_model.
  - apply unary_flatten_is_model.
Qed.

Theorem C06_translated_formula_end_to_end :
  forall (defs : Type) defs_mem var_id ext_flatten def_flatten vars t env benv
         e fuel kw r st v,
  k_t kw = Some t -> nodef_on defs defs_mem kw (bnames e) -> py_truth (k_prime kw) = false ->
  encodes var_id vars t env -> encodes_bool var_id vars t benv -> bwf var_id t e ->
  bsem env benv e = Some v ->
  g_flatten defs defs_mem var_id ext_flatten def_flatten fuel (bnode e) None kw = Some (r, st) ->
  st = None /\ exists p, px_of_fres r = Some p /\ eval_px vars p = Some v.
Proof. exact translated_formula_end_to_end. Qed.

Corollary C06_translated_formula_end_to_end_defs_none :
  forall (defs : Type) defs_mem var_id ext_flatten def_flatten vars t env benv
         e fuel kw r st v,
  k_t kw = Some t -> k_defs kw = None -> py_truth (k_prime kw) = false ->
  encodes var_id vars t env -> encodes_bool var_id vars t benv -> bwf var_id t e ->
  bsem env benv e = Some v ->
  g_flatten defs defs_mem var_id ext_flatten def_flatten fuel (bnode e) None kw = Some (r, st) ->
  st = None /\ exists p, px_of_fres r = Some p /\ eval_px vars p = Some v.
Proof.
  intros defs defs_mem var_id ext_flatten def_flatten vars t env benv e fuel kw r st v Ht Hd.
  apply translated_formula_end_to_end; [exact Ht|]. now apply no_defs_on, no_defs_none.
Qed.

(* ============== the translated flatten does not raise on the fragments == *)
(* The end-to-end theorems above assume that g_flatten returns.  It does: for
   every term of Leaf.qexp whose numerals are decimal and whose variables are
   declared in t with well-formed hints ([q_anode] = Some), whose widths stay
   within the 32-bit limit at every arithmetic node ([aok]: the guard of
   flatten_arithmetic = the acceptance condition of Expr.c_arith) and every
   fuel with depth + 33 < fuel (terms; depth + 34 < fuel for comparisons
   and formulas); for comparisons of two such terms ([cmp_guard]);
   and for formulas of Leaf.bexp ([bok]).  Includes the self-check
   x == twos_complement_to_int(bits) of int_to_twos_complement. *)
From OmegaGP Require Import BitvectorSuccess.

Theorem C06_translated_flatten_succeeds :
  forall (defs : Type) defs_mem var_id ext_flatten def_flatten t,
  let flat := g_flatten defs defs_mem var_id ext_flatten def_flatten in
  (forall s z, py_int s = Some z -> g_int_to_twos_complement s = Some (num_names z)) /\
  (forall e kw a mem fuel, k_t kw = Some t -> nodef_on defs defs_mem kw (qnames e) ->
     q_anode var_id t (py_truth (k_prime kw)) e = Some a ->
     aok a mem = true -> (qdepth e + 33 < fuel)%nat ->
     flat fuel (qnode e) (Some mem) kw
     = Some (RBits (fst (d_aflat a mem)), Some (snd (d_aflat a mem)))) /\
  (forall op o l r la ra kw fuel,
     k_t kw = Some t -> nodef_on defs defs_mem kw (qnames l ++ qnames r) ->
     cmp_of_string op = Some o ->
     q_anode var_id t (py_truth (k_prime kw)) l = Some la ->
     q_anode var_id t (py_truth (k_prime kw)) r = Some ra ->
     aok la [] = true -> aok ra (snd (d_aflat la [])) = true ->
     cmp_guard (fst (d_aflat la [])) (fst (d_aflat ra (snd (d_aflat la [])))) = true ->
     (Nat.max (qdepth l) (qdepth r) + 34 < fuel)%nat ->
     flat fuel (PNode "Comparator" op [qnode l; qnode r]) None kw
     = Some (RBuf (FBuf (py_len (d_cmp_flat o la ra)) (d_cmp_flat o la ra)), None)) /\
  (forall e kw fuel, k_t kw = Some t -> nodef_on defs defs_mem kw (bnames e) ->
     py_truth (k_prime kw) = false -> bok var_id t e -> (bdepth e + 34 < fuel)%nat ->
     exists r p, flat fuel (bnode e) None kw = Some (r, None) /\ px_of_fres r = Some p).
Proof.
  intros defs defs_mem var_id ext_flatten def_flatten t flat. repeat apply conj.
  - exact g_int_to_twos_complement_some.
  - apply q_flatten_succeeds.
  - apply q_comparator_succeeds.
  - apply b_flatten_succeeds.
Qed.

(* success and correctness together: nothing is assumed about the result *)
Theorem C06_translated_comparison_total :
  forall (defs : Type) defs_mem var_id ext_flatten def_flatten t vars env
         op o l r la ra kw fuel vl vr,
  k_t kw = Some t -> nodef_on defs defs_mem kw (qnames l ++ qnames r) ->
  cmp_of_string op = Some o ->
  q_anode var_id t (py_truth (k_prime kw)) l = Some la ->
  q_anode var_id t (py_truth (k_prime kw)) r = Some ra ->
  aok la [] = true -> aok ra (snd (d_aflat la [])) = true ->
  cmp_guard (fst (d_aflat la [])) (fst (d_aflat ra (snd (d_aflat la [])))) = true ->
  (Nat.max (qdepth l) (qdepth r) + 34 < fuel)%nat ->
  encodes var_id vars t env ->
  qval env (py_truth (k_prime kw)) l = Some vl ->
  qval env (py_truth (k_prime kw)) r = Some vr ->
  exists buf,
    g_flatten defs defs_mem var_id ext_flatten def_flatten fuel
      (PNode "Comparator" op [qnode l; qnode r]) None kw = Some (RBuf buf, None) /\
    buf_value vars buf = Some (sem_cmp o vl vr).
Proof. exact translated_comparison_total. Qed.

Theorem C06_translated_formula_total :
  forall (defs : Type) defs_mem var_id ext_flatten def_flatten t vars env benv
         e kw fuel v,
  k_t kw = Some t -> nodef_on defs defs_mem kw (bnames e) -> py_truth (k_prime kw) = false ->
  bok var_id t e -> (bdepth e + 34 < fuel)%nat ->
  encodes var_id vars t env -> encodes_bool var_id vars t benv ->
  bsem env benv e = Some v ->
  exists r p, g_flatten defs defs_mem var_id ext_flatten def_flatten fuel (bnode e) None kw
              = Some (r, None) /\ px_of_fres r = Some p /\ eval_px vars p = Some v.
Proof. exact translated_formula_total. Qed.

(* non-vacuity with the entry shape of the library: defs is a dictionary that
   defines an operator "Foo" which the formula does not mention; the divider
   path ( / and % ); ALL hypotheses of C06_translated_comparison_total are
   established (the guards by computation, [encodes] for every name) and the
   theorem is APPLIED, for two comparators with different outcomes:
     (y + 3) / x' <= 7 % 4   and   (y + 3) / x' = 7 % 4
   at x' = -2, y = 1:  -2 <= 3 holds, -2 = 3 does not *)
Definition ex_defs_mem (d : list string) (n : string) : bool := existsb (String.eqb n) d.
Definition ex_kw0 : kwargs (list string) := mkKw None (Some ex_t) (Some ["Foo"%string]).
Definition ex_l2 : qexp :=
  QArith ADiv "/" (QArith AAdd "+" (QVar "y") (QNum "3")) (QPrime "'" (QVar "x")).
Definition ex_r2 : qexp := QArith AMod "%" (QNum "7") (QNum "4").
Definition ex_anode (e : qexp) : anode :=
  match q_anode ex_id ex_t false e with Some a => a | None => ALeaf (PNode "" "" []) [] end.

(* the assignment encodes the integer values of EVERY variable of the table *)
Ltac enc_key name prime H k :=
  destruct (String.eqb_spec name k) as [->|?];
  [destruct prime; vm_compute in H; first [discriminate | injection H as <-; vm_compute; reflexivity]|].
Ltac enc_simpl name H :=
  unfold option_map in H; cbn in H;
  repeat match goal with N : String.eqb name _ = false |- _ => progress (rewrite N in H) end;
  cbn in H.
Ltac enc_rsplit name H k :=
  destruct (String.eqb (py_rsplit1 "_" name) k);
  [enc_simpl name H;
   repeat (match type of H with
           | context [if ?c then _ else _] => destruct c
           | context [match ?c with _ => _ end] => destruct c
           end; enc_simpl name H);
   discriminate|].

Example C06_ex_encodes : encodes ex_id ex_vars ex_t ex_env.
Proof.
  intros name prime bits H.
  enc_key name prime H "x"%string. enc_key name prime H "y"%string.
  unfold d_var_flatten, is_bool_var in H. cbn [ex_t dict_get] in H.
  repeat match goal with N : name <> _ |- _ => apply String.eqb_neq in N; rewrite N in H end.
  enc_rsplit name H "x"%string. enc_rsplit name H "y"%string. discriminate.
Qed.

Example C06_total_nonvacuous :
  ~ no_defs (list string) ex_defs_mem ex_kw0 /\
  nodef_on (list string) ex_defs_mem ex_kw0 (qnames ex_l2 ++ qnames ex_r2) /\
  qval ex_env false ex_l2 = Some (-2) /\ qval ex_env false ex_r2 = Some 3 /\
  (exists buf,
    g_flatten (list string) ex_defs_mem ex_id (fun _ _ _ => None) (fun _ _ _ => None) 60
      (PNode "Comparator" "<=" [qnode ex_l2; qnode ex_r2]) None ex_kw0 = Some (RBuf buf, None) /\
    buf_value ex_vars buf = Some true) /\
  (exists buf,
    g_flatten (list string) ex_defs_mem ex_id (fun _ _ _ => None) (fun _ _ _ => None) 60
      (PNode "Comparator" "=" [qnode ex_l2; qnode ex_r2]) None ex_kw0 = Some (RBuf buf, None) /\
    buf_value ex_vars buf = Some false).
Proof.
  assert (ND : nodef_on (list string) ex_defs_mem ex_kw0 (qnames ex_l2 ++ qnames ex_r2)).
  { intros n I. cbn in I. destruct I as [<-|[<-|[]]]; reflexivity. }
  assert (TOT : forall op o, cmp_of_string op = Some o -> exists buf,
    g_flatten (list string) ex_defs_mem ex_id (fun _ _ _ => None) (fun _ _ _ => None) 60
      (PNode "Comparator" op [qnode ex_l2; qnode ex_r2]) None ex_kw0 = Some (RBuf buf, None) /\
    buf_value ex_vars buf = Some (sem_cmp o (-2) 3)).
  { intros op o Ho.
    apply (C06_translated_comparison_total (list string) ex_defs_mem ex_id _ _ ex_t ex_vars ex_env
             op o ex_l2 ex_r2 (ex_anode ex_l2) (ex_anode ex_r2) ex_kw0 60%nat (-2) 3);
      try (vm_compute; reflexivity); auto using C06_ex_encodes.
    vm_compute. lia. }
  split; [|split; [exact ND|split; [vm_compute; reflexivity|split; [vm_compute; reflexivity|split]]]].
  - intros H. specialize (H "Foo"%string). vm_compute in H. discriminate.
  - exact (TOT "<="%string CLe eq_refl).
  - exact (TOT "="%string CEq eq_refl).
Qed.

(* a formula of Leaf.bexp through C06_translated_formula_total: declarations
   a in 0..5 (a_0 a_1 a_2, constant sign bit), b in -3..4 (signed, 4 bits),
   p Boolean; the formula
       ((a / b <= 0 - 1) /\ p) ^ (a' % 3 = 1)
   at a = 5, b = -3, p = TRUE, a' = 4 (value FALSE) and, with p = FALSE,
   value TRUE.  [bok], [encodes], [encodes_bool], [bsem] are established and
   the theorem is applied. *)
Definition exb_t : PyStr.table :=
  [("a"%string, mkHint "int" (Some ["a_0"; "a_1"; "a_2"]%string) (Some false) (Some (0, 5)));
   ("b"%string, mkHint "int" (Some ["b_0"; "b_1"; "b_2"; "b_3"]%string) (Some true) (Some (-3, 4)));
   ("p"%string, mkHint "bool" None None None)].
Definition exb_id (s : string) : nat :=
  ex_idx s ["a_0"; "a_1"; "a_2"; "b_0"; "b_1"; "b_2"; "b_3"; "p";
            "a_0'"; "a_1'"; "a_2'"; "b_0'"; "b_1'"; "b_2'"; "b_3'"; "p'"]%string 0.
(* a = 5, b = -3, p, a' = 4, b' = 2 *)
Definition exb_vars (pv : bool) (n : nat) : bool :=
  existsb (Nat.eqb n) [0; 2; 3; 5; 6; 10; 12]%nat || (Nat.eqb n 7 && pv).
Definition exb_env (n : string) (p : bool) : Z :=
  if String.eqb n "a" then (if p then 4 else 5)
  else if String.eqb n "b" then (if p then 2 else -3) else 0.
(* Boolean variables (and the bits of the integers, which flatten also
   accepts as Boolean variables) have the value of their bit *)
Definition exb_benv (pv : bool) (n : string) : bool := exb_vars pv (exb_id n).
Definition exb_kw : kwargs (list string) := mkKw None (Some exb_t) (Some ["Foo"%string]).
Definition exb_f : bexp :=
  BBin "^" (BBin "/\" (BCmp "<=" (QArith ADiv "/" (QVar "a") (QVar "b"))
                                 (QArith ASub "-" (QNum "0") (QNum "1")))
                      (BVar "p"))
           (BCmp "=" (QArith AMod "%" (QPrime "'" (QVar "a")) (QNum "3")) (QNum "1")).

Example C06_exb_encodes : forall pv, encodes exb_id (exb_vars pv) exb_t exb_env.
Proof.
  intros pv name prime bits H.
  enc_key name prime H "a"%string. enc_key name prime H "b"%string.
  destruct (String.eqb_spec name "p") as [->|?]; [destruct prime; vm_compute in H; discriminate|].
  unfold d_var_flatten, is_bool_var in H. cbn [exb_t dict_get] in H.
  repeat match goal with N : name <> _ |- _ => apply String.eqb_neq in N; rewrite N in H end.
  enc_rsplit name H "a"%string. enc_rsplit name H "b"%string. enc_rsplit name H "p"%string.
  discriminate.
Qed.

Example C06_exb_encodes_bool : forall pv,
  encodes_bool exb_id (exb_vars pv) exb_t (exb_benv pv).
Proof.
  intros pv name gb H. unfold exb_benv.
  destruct (String.eqb_spec name "1") as [->|N1]; [vm_compute in H; discriminate|].
  destruct (String.eqb_spec name "0") as [->|N0]; [vm_compute in H; discriminate|].
  unfold d_var_flatten in H. destruct (is_bool_var exb_t name) as [[|]|]; try discriminate.
  - rewrite append_nil_r in H. unfold py_token in H.
    apply String.eqb_neq in N1, N0. rewrite N1, N0 in H.
    destruct (String.eqb name "" || has_blank name)%bool; [discriminate|].
    injection H as <-. reflexivity.
  - destruct (dict_get exb_t name); [|discriminate]. destruct (var_names h); [|discriminate].
    destruct (py_mapM (prime_name false) l); [|discriminate].
    destruct (py_mapM (py_token exb_id) l0); discriminate.
Qed.

Example C06_formula_total_nonvacuous :
  bok exb_id exb_t exb_f /\
  nodef_on (list string) ex_defs_mem exb_kw (bnames exb_f) /\
  bsem exb_env (exb_benv true) exb_f = Some false /\
  bsem exb_env (exb_benv false) exb_f = Some true /\
  (forall pv v, bsem exb_env (exb_benv pv) exb_f = Some v ->
     exists r p,
       g_flatten (list string) ex_defs_mem exb_id (fun _ _ _ => None) (fun _ _ _ => None) 60
         (bnode exb_f) None exb_kw = Some (r, None) /\
       px_of_fres r = Some p /\ eval_px (exb_vars pv) p = Some v).
Proof.
  assert (BK : bok exb_id exb_t exb_f).
  { cbn [bok exb_f]. repeat split.
    - eexists; vm_compute; reflexivity.
    - eexists; vm_compute; reflexivity.
    - do 3 eexists. repeat split; vm_compute; reflexivity.
    - eexists; vm_compute; reflexivity.
    - do 3 eexists. repeat split; vm_compute; reflexivity. }
  assert (ND : nodef_on (list string) ex_defs_mem exb_kw (bnames exb_f)).
  { intros n I. cbn in I. repeat (destruct I as [<-|I]; [reflexivity|]). destruct I. }
  split; [exact BK|split; [exact ND|split; [vm_compute; reflexivity|split; [vm_compute; reflexivity|]]]].
  intros pv v S.
  apply (C06_translated_formula_total (list string) ex_defs_mem exb_id _ _ exb_t (exb_vars pv)
           exb_env (exb_benv pv) exb_f exb_kw 60%nat v); auto using C06_exb_encodes, C06_exb_encodes_bool.
  vm_compute. lia.
Qed.

Print Assumptions C06_adder_exact.
Print Assumptions C06_adder_modular.
Print Assumptions C06_less_than_exact.
Print Assumptions C06_inequality_exact.
Print Assumptions C06_comparator_exact.
Print Assumptions C06_sign_extension_exact.
Print Assumptions C06_ite_function_exact.
Print Assumptions C06_negate_if_exact.
Print Assumptions C06_abs_exact.
Print Assumptions C06_multiplier_exact.
Print Assumptions C06_divider_exact.
Print Assumptions C06_constant_exact.
Print Assumptions C06_emit_adder_sound.
Print Assumptions C06_emit_comparator_sound.
Print Assumptions C06_emit_ite_sound.
Print Assumptions C06_emit_negate_if_sound.
Print Assumptions C06_emit_multiplier_sound.
Print Assumptions C06_emit_divider_sound.
Print Assumptions C06_var_bits_into_limits.
Print Assumptions C06_var_bits_onto_limits.
Print Assumptions C06_quantifier_domain.
Print Assumptions C06_translation_correct.
Print Assumptions C06_compile_correct.
Print Assumptions C06_compile_bits_correct.
Print Assumptions C06_acceptance_static.
Print Assumptions C06_accepts_iff.
Print Assumptions C06_grammar_accepted_bounded.
Print Assumptions C06_strict_comparators_bounded.
Print Assumptions C06_opmap_meaning_bounded.
Print Assumptions C06_circuits_are_translated_code.
Print Assumptions C06_translated_code_succeeds.
Print Assumptions C06_translated_arithmetic_accepts.
Print Assumptions C06_translated_adder_correct.
Print Assumptions C06_translated_multiplier_correct.
Print Assumptions C06_translated_divider_correct.
Print Assumptions C06_translated_arithmetic_correct.
Print Assumptions C06_translated_comparator_correct.
Print Assumptions C06_leaves_are_translated_code.
Print Assumptions C06_leaf_hypothesis_discharged.
Print Assumptions C06_flatten_is_translated_code.
Print Assumptions C06_translated_flatten_end_to_end.
Print Assumptions C06_connectives_are_translated_code.
Print Assumptions C06_translated_formula_end_to_end.
Print Assumptions C06_translated_flatten_end_to_end_defs_none.
Print Assumptions C06_translated_formula_end_to_end_defs_none.
Print Assumptions C06_translated_flatten_succeeds.
Print Assumptions C06_translated_comparison_total.
Print Assumptions C06_translated_formula_total.
Print Assumptions C06_memory_threading_sound.
Print Assumptions C06_translated_comparator_flatten_correct.
Print Assumptions C06_translated_flatten_threads_memory.
Print Assumptions C06_end_to_end_nonvacuous.
Print Assumptions C06_total_nonvacuous.
Print Assumptions C06_formula_total_nonvacuous.
