"""Run the proof phase of every registered check once (setup): regenerate
coq/gen from /repo, compile coq/GenProofs and coq/Properties.  Later runs of
the checks reuse what is unchanged (core.Ctx.prove) and re-check what is not.
Failures are only reported here: each check reports them itself."""
import importlib
import json
import os
import sys
import time

sys.path.insert(0, os.path.dirname(os.path.abspath(__file__)))
from vlib import core  # noqa: E402


def main():
    m = json.load(open(os.path.join(core.VERIF, 'MANIFEST.json')))
    t0 = time.time()
    bad = 0
    for c in m['checks']:
        pid = c['property_id']
        try:
            plugin = importlib.import_module('props.' + pid.lower())
            ctx = core.Ctx(pid, 'quick', 0)
            ctx.log = lambda *a, **k: None
            ctx.build_theories(getattr(plugin, 'THEORIES', None))
            plugin.prove(ctx)
            print(f'warm {pid}: {len(ctx.obligations)} obligations '
                  f'({time.time() - t0:.0f}s)', flush=True)
        except Exception as e:   # noqa: reported by the check itself later
            bad += 1
            print(f'warm {pid}: {type(e).__name__}: {str(e)[:200]}', flush=True)
    print(f'warm-up done in {time.time() - t0:.0f}s, {bad} not proved')


if __name__ == '__main__':
    main()
    sys.stdout.flush()
    os._exit(0)
