(* C05 — the synthesized Rabin(1) implementation.  Statements only.

   Model: the construction TRANSLATED from gr1.make_rabin_transducer on every
   run (gen/TransducerGen.v, tie T).  C05_construction_is_translated shows
   that whenever the translated construction succeeds, the action it stores
   is [rabin_action] (GenProofs/TransducerModel.v) over the GENERATED
   _controllable_action and step, its initial condition is the generated
   _make_init of "_goal = 0 /\ _hold = none", and the generated is_realizable
   holds.  What remains compared rather than translated is the arena: how
   the two memory variables are laid out in the component's valuations.

   Proved for arbitrary iterate lists: (a) every allowed step satisfies the
   specified component action under the mode's causality rule; (b) a Moore
   implementation does not depend on the next environment values; (c) both
   memory variables (_hold, _goal) are in range before every allowed step
   under strict causality or when the environment keeps its action, and after
   it when the environment keeps its action.

   Proved for the model composed with the GENERATED solve_rabin_game (fuel >=
   number of valuations, all four modes; GenProofs/RabinIter1.v establishes the
   structure of the recorded iterates zk, yki, xkijr by invariants of the
   translated loops): (d) CLOSURE - whenever the environment keeps its
   action, every step the synthesized action allows leads to a valuation of
   the winning region (last iterate), from ANY source valuation and memory;
   hence every state reached from a winning one is winning
   (C05_region_closed, C05_reachable_states_winning); (e) LIVENESS - every
   infinite closed-loop behaviour in which the environment keeps its action
   eventually stays inside ONE persistence predicate and visits EVERY
   recurrence predicate infinitely often (C05_liveness; no assumption on the
   initial memory is needed, so it covers the admitted initial states
   _goal = 0, _hold = none; uses Classical_Prop.classic through
   L4/LiveLemma.v).  The blocking defect below therefore only ever ends a
   behaviour; it cannot make an infinite behaviour violate the condition.
   The steps that the repaired rho_1 adds at environment dead ends (see F3
   below) are steps in which the environment breaks its action
   (GenProofs/RabinClosure1.v ca_false_breaks_env): closure has nothing to
   show for them and no behaviour of (e) contains one.

   REFUTED on the faithful model (and reproduced on the real code, DESIGN §7
   F12): "never reaches a state in which the synthesized action allows no
   step although the specification still obliges the component to move".
   The Example below is a concrete game, evaluated by vm_compute on the model
   composed with the generated solver:
     C05_refuted_stale_hold (F12) a stale persistence index after one step.
   It is listed in KNOWN_FINDINGS.txt.

   REPAIRED (finding F3, fixes/F3.patch): with strict causality (plus_one) and
   _hold = none the construction allowed no step at a winning state inside
   cpre(FALSE) (the environment cannot keep its action whatever the component
   does), because rho_1 was accumulated with `basin = zk[0]; for z in zk[1:]`
   - only for the levels >= 1 - while the rims of rho_2..rho_4 exclude
   cpre(previous basin).  The repaired code starts rho_1 from the EMPTY basin
   and runs over all of zk; the model (GenProofs/TransducerModel.v) follows
   it, and C05_construction_is_translated ties it to the current code.
     C05_dead_end_has_step: at EVERY winning environment dead end, whatever
       the memory in range and in every mode, the synthesized action allows a
       step (per the mode's quantifier order);
     C05_repaired_dead_end_has_step: the concrete state of the former witness
       now has a step (vm_compute);
     C05_refuted_unrepaired_dead_end: the former witness, about the
       UNREPAIRED construction (GenProofs/RabinUnrepaired.v, a copy of the
       model with the old rho_1): admitted initial state, winning, in
       cpre(FALSE), no step allowed.

   (f) BLOCKING ONLY WHEN THE PERSISTENCE INDEX IS STALE
   (C05_blocks_only_when_hold_is_stale; model composed with the generated
   solver, fuel >= number of valuations, all four modes): at EVERY valuation
   of the winning region (reachable or not) with the memory in range (_goal =
   j < number of goals, _hold = h <= number of persistence sets), the
   synthesized action allows a step - for every next environment value if
   Mealy, with one choice good for all next environment values if Moore -
   unless the state is in
     class F12: h = i < number of persistence sets and the state is outside
                y_{k,i}, where k is the state's level (the first z_k that
                contains it) - a stale persistence index.
   This is the class as tools/props/c05.py `classify` computes it on the real
   implementation.  (Before the repair there was a second class, F3: h =
   none, plus_one, state in cpre(FALSE); C05_blocks_only_in_known_classes is
   the statement of that time, with the now superfluous hypothesis, kept
   under its name.  C05_dead_end_in_extended_arena: the dead ends read in the
   extended arena, as the closed-loop search reads them, are the same set.)
   The proof (GenProofs/RabinNB1-3.v) establishes, by invariants of the
   translated loops, that z_k = z_{k-1} \/ (some y_{k,i}), that y_{k,i} <=
   cpre(y_{k,i}), that at the exit of the Y loop every recorded attractor
   chain ends in y_{k,i}, and that each chain element adds only states of
   cpre(previous element) or of the goal; then rho_1 (the state is in
   cpre(previous basin), at level 0 in cpre(FALSE): whatever the memory),
   rho_2 (h = none at a rim), rho_4 (goal reached) or rho_3 (descent in the
   attractor) offers a step.  The hypotheses on H and G (the numbers of values
   of the two memory fields) hold for the declared fields
   (C05_memory_fields_fit).

   (g) IN GAME TERMS (theories/L4/Plays.v; GenProofs/RabinWins.v; the
   analogue of C02_implementation_wins_the_game).  The implementation is read
   as a strategy over the plays of the BASE arena, its memory m = _hold * G +
   _goal being a function of the history; at every step it takes the first
   pair (y', m') the synthesized action allows (Mealy: for the next
   environment value of the play; Moore: for all of them).  L4/Plays.v has
   infinite plays and total strategies only, so a blocked run is not a
   shorter play: where the action allows nothing the strategy returns 0, the
   play goes on, and [RabinWins.blocked_at ... p i] records that position i
   of play p is blocked (C05_blocked_at_means_no_allowed_step spells it out);
   nothing is claimed after the first blocked position.
     C05_play_is_won_or_blocks_with_stale_hold: EVERY play from a state of
       the winning region consistent with the strategy, for any initial
       memory in range (the construction's is _hold = none, _goal = 0),
       EITHER (a) is never blocked while the environment keeps its action,
       is won (win_rabin: the component keeps its action as the mode obliges
       and, if the environment keeps its action forever, ONE persistence
       predicate holds from some point on and EVERY recurrence predicate
       holds infinitely often) and stays in the winning region for as long
       as the environment has kept its action, OR (b) reaches - through
       allowed steps, the environment having kept its action - a first
       blocked position, which is winning, has its memory in range and is in
       class F12;
     C05_implementation_wins_unless_hold_goes_stale: if no play consistent
       with the strategy reaches a position of class F12, the implementation
       WINS the game from the state: the strategy, NAMED in the statement,
       is a valid strategy of the mode and every play from the state
       consistent with it satisfies win_rabin (the weaker "some strategy
       wins", comp_wins, which would also follow from the exactness of the
       region, C04, is the corollary ..._exists; likewise below);
     C05_implementation_wins_if_traps_cover: so it does if every winning
       state lies in y_{k,i} of its level for every i; and
     C05_implementation_wins_with_one_persistence_set: ALWAYS when there is
       exactly one persistence predicate (class F12 needs two);
     C05_implementation_wins_example: the hypotheses are met by the game of
       C05_liveness_example (one persistence predicate);
     C05_implementation_wins_two_persistence_example: and by a game with two
       different persistence predicates, the case in which the covering
       hypothesis matters.  That hypothesis is a NARROW sufficient condition
       (every winning state in y_{k,i} of its level for EVERY i).
   (a)-(f) combined; depends on Classical_Prop.classic (liveness, and the
   choice between "some position is blocked" and "none is").

   The check reports any blocking state outside class F12, and any failure
   of (a), memory ranges, or liveness found by the closed-loop search, as a
   violation. *)
From Coq Require Import List Bool Arith Lia.
Import ListNotations.
From Omega Require Import L4.Arena L4.Kleene L4.Tables.
From OmegaGen Require Import FixpointGen Gr1Gen TransducerGen.
From Coq Require Import ZArith.
From Coq Require String.
From OmegaGen Require BitsGen.
From OmegaGP Require Import CounterWidth.
From OmegaGP Require Import TransducerModel TransducerBridge StreettTProofs RabinTProofs
  RabinTProofs2 StreettNB2 StreettClosure1 RabinClosure2 RabinLive2.
From Omega Require Import L4.GameSpec.
From OmegaGP Require Import RabinIter1 RabinNB3 RabinUnrepaired MooreIndepSolver.
From Omega Require Import L4.Plays.
From OmegaGP Require RabinWins.
Local Open Scope bool_scope.

Theorem C05_construction_is_translated :
  forall nc nx ny H G (E S EI SI : bdd) (holds goals : list bdd) (moore plus_one : bool)
         qinit fuel zk yki xkijr a i,
  RabinGen.make_rabin_transducer nc nx ny H G E S EI SI holds goals moore
    plus_one qinit fuel zk yki xkijr = Some (a, i) ->
  a = rabin_action nc nx ny H G E S holds goals moore plus_one zk yki xkijr /\
  Gr1Gen.make_init nc nx (ny * (H * G)) EI SI plus_one qinit fuel
    (rabin_init_count nc nx ny H G holds) (last zk bfalse) = Some i /\
  Gr1Gen.is_realizable nc nx (ny * (H * G)) EI SI plus_one qinit fuel
    (last zk bfalse) = Some true /\
  1 <= length holds /\ 1 <= length goals /\
  beq nc nx (ny * (H * G)) a bfalse = false.
Proof.
  intros nc nx ny H G E S EI SI holds goals moore plus_one qinit fuel zk yki xkijr a i.
  exact (rabin_generated_some nc nx ny E S EI SI holds goals moore plus_one qinit H G
           fuel zk yki xkijr a i).
Qed.

(* The two memory variables are declared with the ranges 0 .. (number of
   persistence sets) ("none" is the last value) and 0 .. (number of goals - 1);
   through the TRANSLATED width computation of the declaration code (C18)
   their bit fields hold every value the construction uses. *)
Theorem C05_memory_fields_fit : forall holds goals : list bdd,
  1 <= length holds -> 1 <= length goals ->
  forall name lo hi,
  In (name, lo, hi) (RabinGen.make_rabin_transducer_declares holds goals) ->
  lo = 0 /\
  exists h, BitsGen.declared_hint 0 (Z.of_nat hi) = Some h /\ Bits.h_signed h = false /\
    BitsGen.bitfield_limits h = Some (0, 2 ^ Bits.h_width h - 1)%Z /\
    (name = name_hold -> length holds + 1 <= Z.to_nat (2 ^ Bits.h_width h)) /\
    (name = name_goal -> length goals <= Z.to_nat (2 ^ Bits.h_width h)).
Proof. exact rabin_memory_fits. Qed.

Section C05.
Variables nc nx ny H G : nat.
Variables E S : bdd.
Variables holds goals : list bdd.

Theorem C05_refines_component_action : forall moore plus_one zk yki xkijr v,
  rabin_action nc nx ny H G E S holds goals moore plus_one zk yki xkijr v = true ->
  oblig_mode nx E S moore plus_one v = true.
Proof.
  intros moore plus_one zk yki xkijr.
  exact (rabin_action_refines nc nx ny H G E S holds goals moore plus_one zk yki xkijr).
Qed.

Theorem C05_moore_independent_of_next_env : forall plus_one zk yki xkijr,
  Forall indep zk -> Forall (Forall indep) yki ->
  Forall (Forall (Forall (Forall indep))) xkijr ->
  Forall indep goals -> Forall indep holds ->
  indep (rabin_action nc nx ny H G E S holds goals true plus_one zk yki xkijr).
Proof. exact (rabin_action_moore_indep nc nx ny H G E S holds goals). Qed.

Theorem C05_memory_in_range : forall moore plus_one zk yki xkijr,
  Forall (fun yi => length yi <= length holds) yki ->
  forall v, inr nc nx (ny * (H * G)) v ->
  rabin_action nc nx ny H G E S holds goals moore plus_one zk yki xkijr v = true ->
  (E v = true -> rh H G v <= length holds /\ rg H G v <= length goals - 1 /\
                 rhp H G v <= length holds /\ rgp H G v <= length goals - 1) /\
  (plus_one = true -> rh H G v <= length holds /\ rg H G v <= length goals - 1).
Proof. exact (rabin_memory_range nc nx ny H G E S holds goals). Qed.
End C05.

(* (d) closure: an allowed step in which the environment keeps its action
   reaches a valuation of the winning region (the last iterate zk[-1]).  No
   hypothesis on the source valuation or on the memory is needed. *)
Theorem C05_region_closed :
  forall nc nx ny (E S : bdd) (holds goals : list bdd) (moore plus_one : bool) fuel H G v,
  NV nc nx ny <= fuel -> Forall spred holds -> Forall spred goals ->
  let sol := Gr1Gen.solve_rabin_game nc nx ny E S holds goals moore plus_one fuel in
  let L := lift nc nx ny (H * G) in
  let A := rabin_action nc nx ny H G (L E) (L S) (map L holds) (map L goals) moore plus_one
             (map L (fst (fst sol))) (map (map L) (snd (fst sol)))
             (map (map (map (map L))) (snd sol)) in
  inr nc nx (ny * (H * G)) v ->
  A v = true ->           (* an allowed step ... *)
  L E v = true ->         (* ... in which the environment keeps its action *)
  last (fst (fst sol)) bfalse (bv (H * G) (nextpt v)) = true.  (* ... reaches a winning valuation *)
Proof.
  intros nc nx ny E S holds goals moore plus_one fuel H G v Hf Sh Sg sol L A.
  exact (rabin_impl_closed nc nx ny E S holds goals moore plus_one H G fuel Hf Sh Sg v).
Qed.

Theorem C05_reachable_states_winning :
  forall nc nx ny (E S : bdd) (holds goals : list bdd) (moore plus_one : bool) fuel H G
         c x ye x' ye',
  NV nc nx ny <= fuel -> Forall spred holds -> Forall spred goals ->
  c < nc -> x < nx -> ye < ny * (H * G) ->
  rreach nc nx ny E S holds goals moore plus_one H G fuel c x ye x' ye' ->
  last (fst (fst (Gr1Gen.solve_rabin_game nc nx ny E S holds goals moore plus_one fuel))) bfalse
    (rst_of H G c x ye) = true ->
  x' < nx /\ ye' < ny * (H * G) /\
  last (fst (fst (Gr1Gen.solve_rabin_game nc nx ny E S holds goals moore plus_one fuel))) bfalse
    (rst_of H G c x' ye') = true.
Proof.
  intros nc nx ny E S holds goals moore plus_one fuel H G c x ye x' ye' Hf Sh Sg.
  exact (rabin_impl_reachable_winning nc nx ny E S holds goals moore plus_one H G fuel
           Hf Sh Sg c x ye x' ye').
Qed.

(* (e) liveness: every infinite behaviour (each step allowed by the
   synthesized action, the environment keeping its action, consecutive steps
   linked) satisfies the Rabin(1) condition, whatever the initial memory *)
Theorem C05_liveness :
  forall nc nx ny (E S : bdd) (holds goals : list bdd) (moore plus_one : bool) fuel H G
         (sigma : nat -> V),
  NV nc nx ny <= fuel -> Forall spred holds -> Forall spred goals ->
  rbehaviour nc nx ny E S holds goals moore plus_one H G fuel sigma ->
  (* persistence: ONE <>[] predicate holds from some point on *)
  (exists P, In P holds /\ exists N, forall i, N <= i -> P (bv (H * G) (sigma i)) = true) /\
  (* recurrence: EVERY []<> predicate holds infinitely often *)
  (forall j R, nth_error goals j = Some R ->
     forall N, exists i, N <= i /\ R (bv (H * G) (sigma i)) = true).
Proof.
  intros nc nx ny E S holds goals moore plus_one fuel H G sigma Hf Sh Sg Hb.
  exact (rabin_impl_live nc nx ny E S holds goals moore plus_one H G Sh fuel Hf Sg sigma Hb).
Qed.

(* non-vacuity: a game with an infinite behaviour of the synthesized
   implementation (a self-loop at a state of the goal, persistence index 0
   chosen, environment action TRUE); the hypotheses of the three theorems
   above are satisfiable *)
Example C05_liveness_example :
  let E : bdd := fun v => true in
  let S : bdd := fun v => Nat.eqb (vyp v) (vy v) in
  let P : bdd := fun v => true in
  let R : bdd := fun v => true in
  let sigma : nat -> V := fun _ => mkV 0 0 0 0 0 in
  NV 1 1 2 <= 5 /\ Forall spred [P] /\ Forall spred [R] /\
  rbehaviour 1 1 2 E S [P] [R] false false 2 1 5 sigma /\
  last (fst (fst (Gr1Gen.solve_rabin_game 1 1 2 E S [P] [R] false false 5))) bfalse
    (rst_of 2 1 0 0 0) = true.
Proof.
  cbv zeta. split; [vm_compute; repeat constructor|].
  split; [repeat constructor; intros v; reflexivity|].
  split; [repeat constructor; intros v; reflexivity|].
  split; [|vm_compute; reflexivity].
  constructor; intros i; vm_compute; repeat split.
Qed.

(* (f) the synthesized action blocks only when the persistence index held is
   stale.  Valuations of the extended arena: [ev (H*G) c x yb m x' yb' m'] has
   base component value yb (yb') and memory m (m'), a memory being
   _hold * G + _goal; [fidx zk s] is the first index k with zk[k] s = true. *)
Theorem C05_blocks_only_when_hold_is_stale :
  forall nc nx ny (E S : bdd) (holds goals : list bdd) (moore plus_one : bool) fuel H G
         c x yb h j,
  NV nc nx ny <= fuel ->
  Forall spred holds -> Forall spred goals ->          (* state predicates *)
  length goals <= G -> length holds < H ->             (* the memory fields hold every value used *)
  c < nc -> x < nx -> yb < ny ->
  j < length goals -> h <= length holds ->             (* memory in range; h = length holds is "none" *)
  let sol := Gr1Gen.solve_rabin_game nc nx ny E S holds goals moore plus_one fuel in
  let zk := fst (fst sol) in
  let yki := snd (fst sol) in
  let s := sv c x yb in
  last zk bfalse s = true ->                           (* a winning valuation *)
  let k := fidx zk s in                                (* its level *)
  (* not in class F12 *)
  ~ (h < length holds /\ nth h (nth k yki []) bfalse s = false) ->
  let L := lift nc nx ny (H * G) in
  let A := rabin_action nc nx ny H G (L E) (L S) (map L holds) (map L goals) moore plus_one
             (map L zk) (map (map L) yki) (map (map (map (map L))) (snd sol)) in
  exists h' j', h' < H /\ j' < G /\
    if moore
    then exists yb', yb' < ny /\
           forall x', x' < nx -> A (ev (H * G) c x yb (h * G + j) x' yb' (h' * G + j')) = true
    else forall x', x' < nx -> exists yb', yb' < ny /\
           A (ev (H * G) c x yb (h * G + j) x' yb' (h' * G + j')) = true.
Proof.
  intros nc nx ny E S holds goals moore plus_one fuel H G c x yb h j
         Hf Sh Sg HnG HnH Hc Hx Hyb Hj Hh sol zk yki s Hwin k N12 L A.
  exact (rabin_impl_blocks_only_stale_hold nc nx ny E S holds goals moore plus_one H G fuel
           Hf Sh Sg HnG HnH c x yb h j Hc Hx Hyb Hj Hh Hwin N12).
Qed.

(* the statement as it was before the repair of finding F3, with the
   hypothesis "not in class F3" (h = none, plus_one, environment dead end),
   which the theorem above shows to be superfluous; kept under its name *)
Theorem C05_blocks_only_in_known_classes :
  forall nc nx ny (E S : bdd) (holds goals : list bdd) (moore plus_one : bool) fuel H G
         c x yb h j,
  NV nc nx ny <= fuel ->
  Forall spred holds -> Forall spred goals ->
  length goals <= G -> length holds < H ->
  c < nc -> x < nx -> yb < ny ->
  j < length goals -> h <= length holds ->
  let sol := Gr1Gen.solve_rabin_game nc nx ny E S holds goals moore plus_one fuel in
  let zk := fst (fst sol) in
  let yki := snd (fst sol) in
  let s := sv c x yb in
  last zk bfalse s = true ->
  let k := fidx zk s in
  (* not in (former) class F3 *)
  ~ (h = length holds /\ plus_one = true /\
     cpre_spec nx ny moore plus_one E S bfalse s = true) ->
  (* not in class F12 *)
  ~ (h < length holds /\ nth h (nth k yki []) bfalse s = false) ->
  let L := lift nc nx ny (H * G) in
  let A := rabin_action nc nx ny H G (L E) (L S) (map L holds) (map L goals) moore plus_one
             (map L zk) (map (map L) yki) (map (map (map (map L))) (snd sol)) in
  exists h' j', h' < H /\ j' < G /\
    if moore
    then exists yb', yb' < ny /\
           forall x', x' < nx -> A (ev (H * G) c x yb (h * G + j) x' yb' (h' * G + j')) = true
    else forall x', x' < nx -> exists yb', yb' < ny /\
           A (ev (H * G) c x yb (h * G + j) x' yb' (h' * G + j')) = true.
Proof.
  intros nc nx ny E S holds goals moore plus_one fuel H G c x yb h j
         Hf Sh Sg HnG HnH Hc Hx Hyb Hj Hh sol zk yki s Hwin k _ N12 L A.
  exact (C05_blocks_only_when_hold_is_stale nc nx ny E S holds goals moore plus_one fuel H G
           c x yb h j Hf Sh Sg HnG HnH Hc Hx Hyb Hj Hh Hwin N12).
Qed.

(* the repair of finding F3: at a winning environment dead end - a state of
   cpre(FALSE): the component can make the environment's action false while
   keeping its own, per the mode's quantifier order - the synthesized action
   allows a step, WHATEVER the memory in range (in particular _hold = none,
   where the unrepaired construction blocked under plus_one) and in every
   mode (plus_one or not, Mealy or Moore) *)
Theorem C05_dead_end_has_step :
  forall nc nx ny (E S : bdd) (holds goals : list bdd) (moore plus_one : bool) fuel H G
         c x yb h j,
  NV nc nx ny <= fuel ->
  Forall spred holds -> Forall spred goals ->
  length goals <= G -> length holds < H ->
  c < nc -> x < nx -> yb < ny ->
  j < length goals -> h <= length holds ->             (* any memory in range *)
  let sol := Gr1Gen.solve_rabin_game nc nx ny E S holds goals moore plus_one fuel in
  let zk := fst (fst sol) in
  let yki := snd (fst sol) in
  let s := sv c x yb in
  last zk bfalse s = true ->                           (* a winning valuation ... *)
  cpre_spec nx ny moore plus_one E S bfalse s = true -> (* ... that is an environment dead end *)
  let L := lift nc nx ny (H * G) in
  let A := rabin_action nc nx ny H G (L E) (L S) (map L holds) (map L goals) moore plus_one
             (map L zk) (map (map L) yki) (map (map (map (map L))) (snd sol)) in
  exists h' j', h' < H /\ j' < G /\
    if moore
    then exists yb', yb' < ny /\
           forall x', x' < nx -> A (ev (H * G) c x yb (h * G + j) x' yb' (h' * G + j')) = true
    else forall x', x' < nx -> exists yb', yb' < ny /\
           A (ev (H * G) c x yb (h * G + j) x' yb' (h' * G + j')) = true.
Proof.
  intros nc nx ny E S holds goals moore plus_one fuel H G c x yb h j
         Hf Sh Sg HnG HnH Hc Hx Hyb Hj Hh sol zk yki s Hwin Hdead L A.
  exact (rabin_impl_dead_end_step nc nx ny E S holds goals moore plus_one H G fuel
           Hf Sh Sg HnG HnH c x yb h j Hc Hx Hyb Hj Hh Hwin Hdead).
Qed.

(* the steps that leave a dead end break the environment's action: a
   controllable action towards the EMPTY set (which is what the repaired rho_1
   uses at level 0) contains no step in which the environment keeps its
   action, so closure (d) and liveness (e) have nothing to show for them *)
Theorem C05_dead_end_steps_break_env :
  forall nc nx ny H G (E S : bdd) (moore plus_one : bool) e v,
  inr nc nx (ny * (H * G)) v ->
  Gr1Gen.controllable_action nc nx (ny * (H * G)) E S moore plus_one 0 bfalse e v = true ->
  E v = false.
Proof.
  intros nc nx ny H G E S moore plus_one e v.
  exact (RabinClosure1.ca_false_breaks_env nc nx ny H G E S moore plus_one e v).
Qed.

(* the dead ends may equally be read in the extended arena, as the
   closed-loop search does (FALSE lifted is FALSE) *)
Theorem C05_dead_end_in_extended_arena :
  forall nc nx ny M (E S : bdd) (moore plus_one : bool) v,
  0 < M ->
  cpre_spec nx (ny * M) moore plus_one (lift nc nx ny M E) (lift nc nx ny M S) bfalse v =
  cpre_spec nx ny moore plus_one E S bfalse (bv M v).
Proof.
  intros nc nx ny M E S moore plus_one v HM.
  exact (cpre_lift_eq nc nx ny M E S moore plus_one bfalse v HM).
Qed.

(* non-vacuity of (f): in the game of C05_liveness_example the hypotheses
   hold at the state (0,0,0) both with _hold = none (1) and with _hold = 0 *)
Example C05_blocks_only_example :
  let E : bdd := fun v => true in
  let S : bdd := fun v => Nat.eqb (vyp v) (vy v) in
  let P : bdd := fun v => true in
  let R : bdd := fun v => true in
  let sol := Gr1Gen.solve_rabin_game 1 1 2 E S [P] [R] false false 5 in
  NV 1 1 2 <= 5 /\ Forall spred [P] /\ Forall spred [R] /\
  length [R] <= 1 /\ length [P] < 2 /\
  last (fst (fst sol)) bfalse (sv 0 0 0) = true /\
  (forall h, h <= 1 ->
     ~ (h < 1 /\ nth h (nth (fidx (fst (fst sol)) (sv 0 0 0)) (snd (fst sol)) []) bfalse
                   (sv 0 0 0) = false)).
Proof.
  cbv zeta. split; [vm_compute; repeat constructor|].
  split; [repeat constructor; intros v; reflexivity|].
  split; [repeat constructor; intros v; reflexivity|].
  split; [cbn; lia|]. split; [cbn; lia|].
  split; [vm_compute; reflexivity|].
  intros h Hh [Hlt Hn]. assert (h = 0) by lia. subst h. vm_compute in Hn. discriminate Hn.
Qed.

(* (g) in game terms.  [RabinWins.impl_strategy ... h0 j0]: the implementation
   as a strategy (first allowed pair, memory = function of the history,
   initial memory _hold = h0, _goal = j0); [RabinWins.mseq ... p i]: the
   memory at position i of play p; [RabinWins.blocked_at ... p i]: position i
   is blocked, that is: *)
Theorem C05_blocked_at_means_no_allowed_step :
  forall nc nx ny (E S : bdd) (holds goals : list bdd) (moore plus_one : bool) fuel H G c h0 j0
         (p : play) i,
  let sol := Gr1Gen.solve_rabin_game nc nx ny E S holds goals moore plus_one fuel in
  let L := lift nc nx ny (H * G) in
  let A := rabin_action nc nx ny H G (L E) (L S) (map L holds) (map L goals) moore plus_one
             (map L (fst (fst sol))) (map (map L) (snd (fst sol)))
             (map (map (map (map L))) (snd sol)) in
  let m := RabinWins.mseq nc nx ny E S holds goals moore plus_one fuel H G c h0 j0 p i in
  RabinWins.blocked_at nc nx ny E S holds goals moore plus_one fuel H G c h0 j0 p i <->
  forall yb' m', yb' < ny -> m' < H * G ->
    (if moore
     then forallb (fun x'' => A (ev (H * G) c (fst (p i)) (snd (p i)) m x'' yb' m')) (seq 0 nx)
     else A (ev (H * G) c (fst (p i)) (snd (p i)) m (fst (p (Datatypes.S i))) yb' m')) = false.
Proof.
  intros nc nx ny E S holds goals moore plus_one fuel H G c h0 j0 p i sol L A m.
  exact (RabinWins.blocked_here_spec nc nx ny E S holds goals moore plus_one fuel H G c
           (fst (p i)) (snd (p i)) m (fst (p (Datatypes.S i)))).
Qed.

Theorem C05_play_is_won_or_blocks_with_stale_hold :
  forall nc nx ny (E S : bdd) (holds goals : list bdd) (moore plus_one : bool) fuel H G c h0 j0
         (p : play),
  NV nc nx ny <= fuel -> Forall spred holds -> Forall spred goals ->
  length goals <= G -> length holds < H -> 0 < length goals -> c < nc ->
  h0 <= length holds -> j0 < length goals ->   (* initial memory in range; the construction's
                                                  own: h0 = length holds ("none"), j0 = 0 *)
  let sol := Gr1Gen.solve_rabin_game nc nx ny E S holds goals moore plus_one fuel in
  let zk := fst (fst sol) in
  let yki := snd (fst sol) in
  let blocked := RabinWins.blocked_at nc nx ny E S holds goals moore plus_one fuel H G c h0 j0 p in
  let mem := RabinWins.mseq nc nx ny E S holds goals moore plus_one fuel H G c h0 j0 p in
  inrange nx ny p ->
  cconsistent (RabinWins.impl_strategy nc nx ny E S holds goals moore plus_one fuel H G c h0 j0) p ->
  last zk bfalse (stv c (p 0)) = true ->                  (* from a state of the winning region *)
  (* (a) never blocked while the environment keeps its action; won; stays winning *)
  ((forall i, (forall t, t < i -> Eat c E p t) -> ~ blocked i) /\
   win_rabin c E S holds goals plus_one p /\
   (forall i, (forall t, t < i -> Eat c E p t) -> last zk bfalse (stv c (p i)) = true))
  \/
  (* (b) a first blocked position: winning, memory in range, in class F12 *)
  (exists i, (forall t, t < i -> Eat c E p t /\ ~ blocked t) /\ blocked i /\
     last zk bfalse (stv c (p i)) = true /\
     mem i / G <= length holds /\ mem i mod G < length goals /\
     (mem i / G < length holds /\
      nth (mem i / G) (nth (fidx zk (stv c (p i))) yki []) bfalse (stv c (p i)) = false)).
Proof.
  intros nc nx ny E S holds goals moore plus_one fuel H G c h0 j0 p
         Hf Sh Sg HnG HnH Hg Hc Hh0 Hj0 sol zk yki blocked mem Hr Hcons Hw.
  exact (RabinWins.impl_play_wins_or_blocks nc nx ny E S holds goals moore plus_one fuel
           Hf Sh Sg H G HnG HnH Hg c Hc h0 j0 Hh0 Hj0 p Hr Hcons Hw).
Qed.

Theorem C05_implementation_wins_unless_hold_goes_stale :
  forall nc nx ny (E S : bdd) (holds goals : list bdd) (moore plus_one : bool) fuel H G c h0 j0 s,
  NV nc nx ny <= fuel -> Forall spred holds -> Forall spred goals ->
  length goals <= G -> length holds < H -> 0 < length goals -> c < nc ->
  h0 <= length holds -> j0 < length goals ->
  let sol := Gr1Gen.solve_rabin_game nc nx ny E S holds goals moore plus_one fuel in
  let zk := fst (fst sol) in
  let yki := snd (fst sol) in
  fst s < nx -> snd s < ny -> last zk bfalse (stv c s) = true ->
  (* no play from s consistent with the implementation reaches - through
     allowed steps, the environment keeping its action - a position of class F12 *)
  (forall p, inrange nx ny p -> p 0 = s ->
     cconsistent (RabinWins.impl_strategy nc nx ny E S holds goals moore plus_one fuel H G c h0 j0) p ->
     let blocked := RabinWins.blocked_at nc nx ny E S holds goals moore plus_one fuel H G c h0 j0 p in
     let mem := RabinWins.mseq nc nx ny E S holds goals moore plus_one fuel H G c h0 j0 p in
     forall i, (forall t, t < i -> Eat c E p t /\ ~ blocked t) ->
       ~ (mem i / G < length holds /\
          nth (mem i / G) (nth (fidx zk (stv c (p i))) yki []) bfalse (stv c (p i)) = false)) ->
  let f := RabinWins.impl_strategy nc nx ny E S holds goals moore plus_one fuel H G c h0 j0 in
  cvalid ny moore f /\
  forall p, inrange nx ny p -> p 0 = s -> cconsistent f p ->
            win_rabin c E S holds goals plus_one p.
Proof.
  intros nc nx ny E S holds goals moore plus_one fuel H G c h0 j0 s
         Hf Sh Sg HnG HnH Hg Hc Hh0 Hj0 sol zk yki H1 H2 Hw Hns f.
  exact (RabinWins.implementation_wins_unless_stale nc nx ny E S holds goals moore plus_one fuel
           Hf Sh Sg H G HnG HnH Hg c Hc h0 j0 Hh0 Hj0 s H1 H2 Hw Hns).
Qed.

Theorem C05_implementation_wins_unless_hold_goes_stale_exists :
  forall nc nx ny (E S : bdd) (holds goals : list bdd) (moore plus_one : bool) fuel H G c h0 j0 s,
  NV nc nx ny <= fuel -> Forall spred holds -> Forall spred goals ->
  length goals <= G -> length holds < H -> 0 < length goals -> c < nc ->
  h0 <= length holds -> j0 < length goals ->
  let sol := Gr1Gen.solve_rabin_game nc nx ny E S holds goals moore plus_one fuel in
  let zk := fst (fst sol) in
  let yki := snd (fst sol) in
  fst s < nx -> snd s < ny -> last zk bfalse (stv c s) = true ->
  (* no play from s consistent with the implementation reaches - through
     allowed steps, the environment keeping its action - a position of class F12 *)
  (forall p, inrange nx ny p -> p 0 = s ->
     cconsistent (RabinWins.impl_strategy nc nx ny E S holds goals moore plus_one fuel H G c h0 j0) p ->
     let blocked := RabinWins.blocked_at nc nx ny E S holds goals moore plus_one fuel H G c h0 j0 p in
     let mem := RabinWins.mseq nc nx ny E S holds goals moore plus_one fuel H G c h0 j0 p in
     forall i, (forall t, t < i -> Eat c E p t /\ ~ blocked t) ->
       ~ (mem i / G < length holds /\
          nth (mem i / G) (nth (fidx zk (stv c (p i))) yki []) bfalse (stv c (p i)) = false)) ->
  comp_wins nx ny moore (win_rabin c E S holds goals plus_one) s.
Proof.
  intros nc nx ny E S holds goals moore plus_one fuel H G c h0 j0 s Hf Sh Sg HnG HnH Hg Hc Hh0 Hj0 sol zk yki H1 H2 Hw Hns.
  exists (RabinWins.impl_strategy nc nx ny E S holds goals moore plus_one fuel H G c h0 j0).
  exact (C05_implementation_wins_unless_hold_goes_stale nc nx ny E S holds goals moore plus_one fuel H G c h0 j0 s Hf Sh Sg HnG HnH Hg Hc Hh0 Hj0 H1 H2 Hw Hns).
Qed.

Theorem C05_implementation_wins_if_traps_cover :
  forall nc nx ny (E S : bdd) (holds goals : list bdd) (moore plus_one : bool) fuel H G c s,
  NV nc nx ny <= fuel -> Forall spred holds -> Forall spred goals ->
  length goals <= G -> length holds < H -> 0 < length goals -> c < nc ->
  let sol := Gr1Gen.solve_rabin_game nc nx ny E S holds goals moore plus_one fuel in
  let zk := fst (fst sol) in
  let yki := snd (fst sol) in
  fst s < nx -> snd s < ny -> last zk bfalse (stv c s) = true ->
  (forall x yb h, x < nx -> yb < ny -> h < length holds -> last zk bfalse (sv c x yb) = true ->
     nth h (nth (fidx zk (sv c x yb)) yki []) bfalse (sv c x yb) = true) ->
  let f := RabinWins.impl_strategy nc nx ny E S holds goals moore plus_one fuel H G c (length holds) 0 in
  cvalid ny moore f /\
  forall p, inrange nx ny p -> p 0 = s -> cconsistent f p ->
            win_rabin c E S holds goals plus_one p.
Proof.
  intros nc nx ny E S holds goals moore plus_one fuel H G c s
         Hf Sh Sg HnG HnH Hg Hc sol zk yki H1 H2 Hw Hcov f.
  exact (RabinWins.implementation_wins_if_traps_cover nc nx ny E S holds goals moore plus_one fuel
           Hf Sh Sg H G HnG HnH Hg c Hc (length holds) 0 (le_n _) Hg s H1 H2 Hw Hcov).
Qed.

Theorem C05_implementation_wins_if_traps_cover_exists :
  forall nc nx ny (E S : bdd) (holds goals : list bdd) (moore plus_one : bool) fuel H G c s,
  NV nc nx ny <= fuel -> Forall spred holds -> Forall spred goals ->
  length goals <= G -> length holds < H -> 0 < length goals -> c < nc ->
  let sol := Gr1Gen.solve_rabin_game nc nx ny E S holds goals moore plus_one fuel in
  let zk := fst (fst sol) in
  let yki := snd (fst sol) in
  fst s < nx -> snd s < ny -> last zk bfalse (stv c s) = true ->
  (forall x yb h, x < nx -> yb < ny -> h < length holds -> last zk bfalse (sv c x yb) = true ->
     nth h (nth (fidx zk (sv c x yb)) yki []) bfalse (sv c x yb) = true) ->
  comp_wins nx ny moore (win_rabin c E S holds goals plus_one) s.
Proof.
  intros nc nx ny E S holds goals moore plus_one fuel H G c s Hf Sh Sg HnG HnH Hg Hc sol zk yki H1 H2 Hw Hcov.
  exists (RabinWins.impl_strategy nc nx ny E S holds goals moore plus_one fuel H G c (length holds) 0).
  exact (C05_implementation_wins_if_traps_cover nc nx ny E S holds goals moore plus_one fuel H G c s Hf Sh Sg HnG HnH Hg Hc H1 H2 Hw Hcov).
Qed.

Theorem C05_implementation_wins_with_one_persistence_set :
  forall nc nx ny (E S : bdd) (holds goals : list bdd) (moore plus_one : bool) fuel H G c s,
  NV nc nx ny <= fuel -> Forall spred holds -> Forall spred goals ->
  length goals <= G -> length holds < H -> 0 < length goals -> c < nc ->
  length holds = 1 ->
  fst s < nx -> snd s < ny ->
  last (fst (fst (Gr1Gen.solve_rabin_game nc nx ny E S holds goals moore plus_one fuel))) bfalse
    (stv c s) = true ->
  let f := RabinWins.impl_strategy nc nx ny E S holds goals moore plus_one fuel H G c (length holds) 0 in
  cvalid ny moore f /\
  forall p, inrange nx ny p -> p 0 = s -> cconsistent f p ->
            win_rabin c E S holds goals plus_one p.
Proof.
  intros nc nx ny E S holds goals moore plus_one fuel H G c s Hf Sh Sg HnG HnH Hg Hc H1p H1 H2 Hw f.
  exact (RabinWins.implementation_wins_one_persistence nc nx ny E S holds goals moore plus_one fuel
           Hf Sh Sg H G HnG HnH Hg c Hc (length holds) 0 (le_n _) Hg s H1p H1 H2 Hw).
Qed.

Theorem C05_implementation_wins_with_one_persistence_set_exists :
  forall nc nx ny (E S : bdd) (holds goals : list bdd) (moore plus_one : bool) fuel H G c s,
  NV nc nx ny <= fuel -> Forall spred holds -> Forall spred goals ->
  length goals <= G -> length holds < H -> 0 < length goals -> c < nc ->
  length holds = 1 ->
  fst s < nx -> snd s < ny ->
  last (fst (fst (Gr1Gen.solve_rabin_game nc nx ny E S holds goals moore plus_one fuel))) bfalse
    (stv c s) = true ->
  comp_wins nx ny moore (win_rabin c E S holds goals plus_one) s.
Proof.
  intros nc nx ny E S holds goals moore plus_one fuel H G c s Hf Sh Sg HnG HnH Hg Hc H1p H1 H2 Hw.
  exists (RabinWins.impl_strategy nc nx ny E S holds goals moore plus_one fuel H G c (length holds) 0).
  exact (C05_implementation_wins_with_one_persistence_set nc nx ny E S holds goals moore plus_one fuel H G c s Hf Sh Sg HnG HnH Hg Hc H1p H1 H2 Hw).
Qed.

(* non-vacuity of (g): the game of C05_liveness_example meets the hypotheses
   of C05_implementation_wins_if_traps_cover at the state (0, 0) - so the
   synthesized implementation wins it there *)
Example C05_implementation_wins_example :
  let E : bdd := fun v => true in
  let S : bdd := fun v => Nat.eqb (vyp v) (vy v) in
  let P : bdd := fun v => true in
  let R : bdd := fun v => true in
  let sol := Gr1Gen.solve_rabin_game 1 1 2 E S [P] [R] false false 5 in
  (NV 1 1 2 <= 5 /\ Forall spred [P] /\ Forall spred [R] /\
   length [R] <= 1 /\ length [P] < 2 /\ 0 < length [R] /\
   last (fst (fst sol)) bfalse (stv 0 (0, 0)) = true /\
   (forall x yb h, x < 1 -> yb < 2 -> h < length [P] ->
      last (fst (fst sol)) bfalse (sv 0 x yb) = true ->
      nth h (nth (fidx (fst (fst sol)) (sv 0 x yb)) (snd (fst sol)) []) bfalse (sv 0 x yb) = true))
  /\ (let f := RabinWins.impl_strategy 1 1 2 E S [P] [R] false false 5 2 1 0 (length [P]) 0 in
      cvalid 2 false f /\
      forall p, inrange 1 2 p -> p 0 = (0, 0) -> cconsistent f p ->
                win_rabin 0 E S [P] [R] false p).
Proof.
  cbv zeta.
  set (E := fun _ : V => true). set (S := fun v => Nat.eqb (vyp v) (vy v)).
  set (P := fun _ : V => true).
  assert (Hhyp : NV 1 1 2 <= 5 /\ Forall spred [P] /\ Forall spred [P] /\
                 length [P] <= 1 /\ length [P] < 2 /\ 0 < length [P] /\
                 last (fst (fst (Gr1Gen.solve_rabin_game 1 1 2 E S [P] [P] false false 5))) bfalse
                   (stv 0 (0, 0)) = true /\
                 (forall x yb h, x < 1 -> yb < 2 -> h < length [P] ->
                    last (fst (fst (Gr1Gen.solve_rabin_game 1 1 2 E S [P] [P] false false 5)))
                      bfalse (sv 0 x yb) = true ->
                    nth h (nth (fidx (fst (fst (Gr1Gen.solve_rabin_game 1 1 2 E S [P] [P] false
                                                  false 5))) (sv 0 x yb))
                             (snd (fst (Gr1Gen.solve_rabin_game 1 1 2 E S [P] [P] false false 5)))
                             []) bfalse (sv 0 x yb) = true)).
  { split; [vm_compute; repeat constructor|].
    split; [repeat constructor; intros v; reflexivity|].
    split; [repeat constructor; intros v; reflexivity|].
    split; [cbn; lia|]. split; [cbn; lia|]. split; [cbn; lia|].
    split; [vm_compute; reflexivity|].
    intros x yb h Hx Hyb Hh _. cbn [length] in Hh.
    assert (x = 0) by lia. assert (h = 0) by lia. subst x h.
    assert (Hy : yb = 0 \/ yb = 1) by lia.
    destruct Hy as [-> | ->]; vm_compute; reflexivity. }
  split; [exact Hhyp|].
  destruct Hhyp as [Hf [Sh [Sg [HnG [HnH [Hg [Hw Hcov]]]]]]].
  exact (C05_implementation_wins_if_traps_cover 1 1 2 E S [P] [P] false false 5 2 1 0 (0, 0)
           Hf Sh Sg HnG HnH Hg (le_n 1) (le_n 1) (le_S _ _ (le_n 1)) Hw Hcov).
Qed.

(* non-vacuity of (g) with TWO persistence predicates, the only case in which
   the hypotheses of C05_implementation_wins_if_traps_cover /
   ..._unless_hold_goes_stale matter (with one, class F12 is empty:
   C05_implementation_wins_with_one_persistence_set).  y in 0..2; the
   component can only stay at y = 1; persistence predicates y <= 1 and
   y >= 1 (different sets).  The winning region is {y = 1}, which lies in
   both traps of its level: every hypothesis of the theorem is met at the
   state (0, 1), so the implementation wins there.  (The covering hypothesis
   is a NARROW sufficient condition: it asks every winning state to lie in
   y_{k,i} of its level for EVERY i.  E.g. with y' <= y and persistence
   predicates y <= 1, y = 0 every state is winning and it fails at y = 1.) *)
Example C05_implementation_wins_two_persistence_example :
  let E : bdd := fun v => true in
  let S : bdd := fun v => Nat.eqb (vy v) 1 && Nat.eqb (vyp v) 1 in
  let P1 : bdd := fun v => Nat.leb (vy v) 1 in
  let P2 : bdd := fun v => Nat.leb 1 (vy v) in
  let R : bdd := fun v => true in
  let sol := Gr1Gen.solve_rabin_game 1 1 3 E S [P1; P2] [R] false false 10 in
  (NV 1 1 3 <= 10 /\ Forall spred [P1; P2] /\ Forall spred [R] /\
   length [R] <= 1 /\ length [P1; P2] < 3 /\ 0 < length [R] /\
   last (fst (fst sol)) bfalse (stv 0 (0, 1)) = true /\
   (* the two persistence predicates differ, and so do the losing states *)
   P1 (sv 0 0 0) = true /\ P2 (sv 0 0 0) = false /\
   map (fun yb => last (fst (fst sol)) bfalse (sv 0 0 yb)) [0; 1; 2] = [false; true; false] /\
   (forall x yb h, x < 1 -> yb < 3 -> h < length [P1; P2] ->
      last (fst (fst sol)) bfalse (sv 0 x yb) = true ->
      nth h (nth (fidx (fst (fst sol)) (sv 0 x yb)) (snd (fst sol)) []) bfalse (sv 0 x yb) = true))
  /\ (let f := RabinWins.impl_strategy 1 1 3 E S [P1; P2] [R] false false 10 3 1 0
                 (length [P1; P2]) 0 in
      cvalid 3 false f /\
      forall p, inrange 1 3 p -> p 0 = (0, 1) -> cconsistent f p ->
                win_rabin 0 E S [P1; P2] [R] false p).
Proof.
  cbv zeta.
  set (E := fun _ : V => true).
  set (S := fun v => Nat.eqb (vy v) 1 && Nat.eqb (vyp v) 1).
  set (P1 := fun v => Nat.leb (vy v) 1). set (P2 := fun v => Nat.leb 1 (vy v)).
  set (sol := Gr1Gen.solve_rabin_game 1 1 3 E S [P1; P2] [E] false false 10).
  assert (Hf : NV 1 1 3 <= 10) by (vm_compute; repeat constructor).
  assert (Sh : Forall spred [P1; P2]) by (repeat constructor; intros v; reflexivity).
  assert (Sg : Forall spred [E]) by (repeat constructor; intros v; reflexivity).
  assert (HnG : length [E] <= 1) by (cbn; lia).
  assert (HnH : length [P1; P2] < 3) by (cbn; lia).
  assert (Hg : 0 < length [E]) by (cbn; lia).
  assert (Hw : last (fst (fst sol)) bfalse (stv 0 (0, 1)) = true) by (vm_compute; reflexivity).
  assert (Hcov : forall x yb h, x < 1 -> yb < 3 -> h < length [P1; P2] ->
            last (fst (fst sol)) bfalse (sv 0 x yb) = true ->
            nth h (nth (fidx (fst (fst sol)) (sv 0 x yb)) (snd (fst sol)) []) bfalse (sv 0 x yb)
              = true).
  { intros x yb h Hx Hyb Hh Hwin. cbn [length] in Hh.
    assert (x = 0) by lia. subst x.
    assert (Hy : yb = 0 \/ yb = 1 \/ yb = 2) by lia.
    assert (Hh' : h = 0 \/ h = 1) by lia.
    destruct Hy as [-> | [-> | ->]]; destruct Hh' as [-> | ->];
      first [vm_compute; reflexivity | vm_compute in Hwin; discriminate Hwin]. }
  split.
  - split; [exact Hf|]. split; [exact Sh|]. split; [exact Sg|]. split; [exact HnG|].
    split; [exact HnH|]. split; [exact Hg|]. split; [exact Hw|].
    split; [reflexivity|]. split; [reflexivity|]. split; [vm_compute; reflexivity|exact Hcov].
  - exact (C05_implementation_wins_if_traps_cover 1 1 3 E S [P1; P2] [E] false false 10 3 1 0 (0, 1)
             Hf Sh Sg HnG HnH Hg (le_n 1) (le_n 1) (le_S _ _ (le_n 2)) Hw Hcov).
Qed.

(* the game of the former witness of finding F3 (x, y Boolean, plus_one,
   Mealy); base state x = 1, y = 1 (extended component value 6 = 1 * 4 + 2:
   base y = 6 / 4 = 1, memory 6 mod 4 = 2 = _hold 1 ("none") * 2 + _goal 0) *)
Section Dead_end.
Let E := of_table2 1 2 2 [(bitsN 4 15%N);
  (bitsN 4 12%N);
  (bitsN 4 15%N);
  (bitsN 4 0%N)].
Let S := of_table2 1 2 2 [(bitsN 4 13%N);
  (bitsN 4 4%N);
  (bitsN 4 0%N);
  (bitsN 4 13%N)].
Let P := map (of_table1 1 2 2) [(bitsN 4 9%N)].
Let R := map (of_table1 1 2 2) [(bitsN 4 15%N)].
Let L := lift 1 2 2 4.
Let sol := Gr1Gen.solve_rabin_game 1 2 2 E S P R false true 18.
Let act := rabin_action 1 2 2 2 2 (L E) (L S) (map L P) (map L R) false true
             (map L (fst (fst sol))) (map (map L) (snd (fst sol)))
             (map (map (map (map L))) (snd sol)).
Let act_unrepaired :=
  rabin_action_unrepaired 1 2 2 2 2 (L E) (L S) (map L P) (map L R) false true
    (map L (fst (fst sol))) (map (map L) (snd (fst sol)))
    (map (map (map (map L))) (snd sol)).
Let win := L (last (fst (fst sol)) bfalse).
Let ini := Gr1Gen.make_init 1 2 (2 * 4) btrue btrue true QEE 0
             (rabin_init_count 1 2 2 2 2 (map L P)) win.
(* no allowed step for some next environment value, although the component's
   own action allows one *)
Let blocked (act : bdd) (c x y : nat) : bool :=
  existsb (fun x' =>
    forallb (fun y' => negb (act (mkV c x y x' y'))) (seq 0 8) &&
    existsb (fun y' => L S (mkV c x y x' y')) (seq 0 8))
    (seq 0 2).

(* the repaired construction: the state has a step for every next environment
   value, and every such step breaks the environment's action *)
Example C05_repaired_dead_end_has_step :
  (* admitted initial state (EnvInit = SysInit = TRUE, \E \E), winning,
     memory at its initial value ... *)
  match ini with Some i => i (mkV 0 1 6 0 0) | None => false end = true /\
  win (mkV 0 1 6 0 0) = true /\
  (* ... an environment dead end (in cpre(FALSE)) under strict causality ... *)
  FixpointGen.step 1 2 (2 * 4) false true 0 (L E) (L S) bfalse (mkV 0 1 6 0 0) = true /\
  (* ... at which the synthesized action now allows a step for every next
     environment value (Mealy) ... *)
  blocked act 0 1 6 = false /\
  forallb (fun x' => existsb (fun y' => act (mkV 0 1 6 x' y')) (seq 0 8)) (seq 0 2) = true /\
  (* ... none of which lets the environment keep its action *)
  forallb (fun x' => forallb (fun y' => negb (act (mkV 0 1 6 x' y') && L E (mkV 0 1 6 x' y')))
                       (seq 0 8)) (seq 0 2) = true.
Proof. vm_compute. repeat split. Qed.

(* regression for finding F3 (repaired by fixes/F3.patch): the UNREPAIRED
   construction (GenProofs/RabinUnrepaired.v) allows no step there *)
Example C05_refuted_unrepaired_dead_end :
  match ini with Some i => i (mkV 0 1 6 0 0) | None => false end = true /\
  win (mkV 0 1 6 0 0) = true /\
  FixpointGen.step 1 2 (2 * 4) false true 0 (L E) (L S) bfalse (mkV 0 1 6 0 0) = true /\
  (* no allowed step for some next environment value, although the
     component's own action allows one *)
  blocked act_unrepaired 0 1 6 = true.
Proof. vm_compute. repeat split. Qed.
End Dead_end.


Section Refuted_stale_hold.
Let E := of_table2 1 2 4 [(bitsN 8 255%N);
  (bitsN 8 255%N);
  (bitsN 8 255%N);
  (bitsN 8 255%N);
  (bitsN 8 255%N);
  (bitsN 8 15%N);
  (bitsN 8 255%N);
  (bitsN 8 255%N)].
Let S := of_table2 1 2 4 [(bitsN 8 255%N);
  (bitsN 8 125%N);
  (bitsN 8 114%N);
  (bitsN 8 171%N);
  (bitsN 8 254%N);
  (bitsN 8 230%N);
  (bitsN 8 157%N);
  (bitsN 8 146%N)].
Let P := map (of_table1 1 2 4) [(bitsN 8 103%N);(bitsN 8 2%N)].
Let R := map (of_table1 1 2 4) [(bitsN 8 76%N)].
Let L := lift 1 2 4 8.
Let sol := Gr1Gen.solve_rabin_game 1 2 4 E S P R false false 66.
Let act := rabin_action 1 2 4 4 2 (L E) (L S) (map L P) (map L R) false false
             (map L (fst (fst sol))) (map (map L) (snd (fst sol)))
             (map (map (map (map L))) (snd sol)).
Let win := L (last (fst (fst sol)) bfalse).
Let ini := Gr1Gen.make_init 1 2 (4 * 8) btrue btrue false QEE 0
             (rabin_init_count 1 2 4 4 2 (map L P)) win.
(* no allowed step for some next environment value, although the component's
   own action allows one and the environment can keep its action *)
Let blocked (c x y : nat) : bool :=
  existsb (fun x' =>
    forallb (fun y' => negb (act (mkV c x y x' y'))) (seq 0 32) &&
    existsb (fun y' => L S (mkV c x y x' y') && L E (mkV c x y x' y')) (seq 0 32))
    (seq 0 2).

Example C05_refuted_stale_hold :
  (* admitted initial state, winning ... *)
  match ini with Some i => i (mkV 0 1 20 0 0) | None => false end = true /\
  win (mkV 0 1 20 0 0) = true /\
  (* ... one allowed step in which the environment keeps its action ... *)
  act (mkV 0 1 20 0 2) = true /\ L E (mkV 0 1 20 0 2) = true /\
  (* ... reaches a winning state with both memory variables in range ... *)
  win (mkV 0 0 2 0 0) = true /\
  (2 mod 8) / 2 <= 2 /\ (2 mod 8) mod 2 <= 0 /\
  (* ... at which the synthesized action allows no step for some next
     environment value although the environment can keep its action *)
  blocked 0 0 2 = true.
Proof. vm_compute. repeat split; repeat constructor. Qed.

(* the blocked state above (base valuation (0,0,0), memory 2 = _hold 1,
   _goal 0) is in class F12 of C05_blocks_only_when_hold_is_stale: the held
   persistence index 1 is below the number of persistence sets, and the state
   is outside y_{k,1} for its level k *)
Example C05_refuted_stale_hold_is_class_F12 :
  (2 mod 8) / 2 = 1 /\ 1 < length P /\
  last (fst (fst sol)) bfalse (sv 0 0 0) = true /\
  nth 1 (nth (fidx (fst (fst sol)) (sv 0 0 0)) (snd (fst sol)) []) bfalse (sv 0 0 0) = false.
Proof. vm_compute. repeat split; repeat constructor. Qed.
End Refuted_stale_hold.

(* Moore independence for what the construction is really applied to: the
   hypotheses of C05_moore_independent_of_next_env hold for the output of the
   GENERATED solver on state predicates, lifted to the arena with the memory
   (everything the solver records is a state predicate:
   GenProofs/MooreIndepSolver.v) *)
Theorem C05_moore_independent_of_next_env_solver :
  forall nc nx ny (E S : bdd) (holds goals : list bdd) (plus_one : bool) fuel H G,
  NV nc nx ny <= fuel -> Forall spred holds -> Forall spred goals ->
  let sol := Gr1Gen.solve_rabin_game nc nx ny E S holds goals true plus_one fuel in
  let L := lift nc nx ny (H * G) in
  indep (rabin_action nc nx ny H G (L E) (L S) (map L holds) (map L goals) true plus_one
           (map L (fst (fst sol))) (map (map L) (snd (fst sol)))
           (map (map (map (map L))) (snd sol))).
Proof.
  intros nc nx ny E S holds goals plus_one fuel H G Hf Sh Sg.
  exact (rabin_impl_moore_indep nc nx ny E S holds goals plus_one fuel Hf Sh Sg H G).
Qed.

Print Assumptions C05_construction_is_translated.
Print Assumptions C05_memory_fields_fit.
Print Assumptions C05_refines_component_action.
Print Assumptions C05_moore_independent_of_next_env.
Print Assumptions C05_moore_independent_of_next_env_solver.
Print Assumptions C05_memory_in_range.
Print Assumptions C05_region_closed.
Print Assumptions C05_reachable_states_winning.
Print Assumptions C05_liveness.
Print Assumptions C05_liveness_example.
Print Assumptions C05_blocks_only_when_hold_is_stale.
Print Assumptions C05_blocks_only_in_known_classes.
Print Assumptions C05_dead_end_has_step.
Print Assumptions C05_dead_end_steps_break_env.
Print Assumptions C05_dead_end_in_extended_arena.
Print Assumptions C05_blocks_only_example.
Print Assumptions C05_blocked_at_means_no_allowed_step.
Print Assumptions C05_play_is_won_or_blocks_with_stale_hold.
Print Assumptions C05_implementation_wins_unless_hold_goes_stale.
Print Assumptions C05_implementation_wins_unless_hold_goes_stale_exists.
Print Assumptions C05_implementation_wins_if_traps_cover.
Print Assumptions C05_implementation_wins_if_traps_cover_exists.
Print Assumptions C05_implementation_wins_with_one_persistence_set.
Print Assumptions C05_implementation_wins_with_one_persistence_set_exists.
Print Assumptions C05_implementation_wins_example.
Print Assumptions C05_implementation_wins_two_persistence_example.
Print Assumptions C05_repaired_dead_end_has_step.
Print Assumptions C05_refuted_unrepaired_dead_end.
Print Assumptions C05_refuted_stale_hold.
Print Assumptions C05_refuted_stale_hold_is_class_F12.
