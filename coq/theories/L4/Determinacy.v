(* L4 / Determinacy: the GR(1) fixpoints are exactly the winning regions.

   For every game, mode and state s:
     streett_spec s = true  <->  the component has a strategy all of whose
                                 plays from s satisfy the Streett(1) objective
     streett_spec s = false ->   the environment has a strategy all of whose
                                 plays from s violate it
   and the same for rabin_spec with the Rabin(1) objective.  Soundness is the
   strategy of StreettStrategy.v / RabinStrategy.v; completeness is the
   opponent's strategy in the dual game (Duality.v, Duality2.v) read back in
   the original game.  Strategies are arbitrary functions of the history for
   the losing side and finite-memory functions of the history for the
   winning side.  Depends on Classical_Prop.classic (through LiveLemma.v). *)
From Coq Require Import List Bool Arith Lia.
Import ListNotations.
From Omega Require Import L4.Arena L4.ArenaFacts L4.Kleene L4.AlgOrder L4.GameSpec L4.Mu
  L4.GR1Spec L4.Duality L4.Duality2 L4.Plays L4.RabinStrategy L4.RabinPlays L4.StreettPlays.

Definition swp (p : play) : play := fun n => swap_st (p n).

Section Glue.
Variables nx ny c : nat.
Variables E S : bdd.
Variables holds goals : list bdd.
Variable plus_one : bool.

Lemma swp_inrange p : inrange nx ny p -> inrange ny nx (swp p).
Proof. intros H i. destruct (H i). split; assumption. Qed.

Lemma Eat_swap p i : Eat c (dual S) (swp p) i <-> Sat c S p i.
Proof. reflexivity. Qed.
Lemma Sat_swap p i : Sat c (dual E) (swp p) i <-> Eat c E p i.
Proof. reflexivity. Qed.

Lemma Phi_at P s : Phi P (stv c (swap_st s)) = negb (P (stv c s)).
Proof. reflexivity. Qed.

(* if neither side is the first to break its action, both keep them forever *)
Lemma both_keep p :
  safe_comp c E S plus_one p ->
  safe_comp c (dual S) (dual E) (negb plus_one) (swp p) ->
  forall n, Eat c E p n /\ Sat c S p n.
Proof.
  intros HA HB n. induction n as [n IH] using lt_wf_ind.
  assert (HE : forall i, i < n -> Eat c E p i) by (intros i Hi; apply IH, Hi).
  assert (HS : forall i, i < n -> Eat c (dual S) (swp p) i)
    by (intros i Hi; apply Eat_swap, IH, Hi).
  destruct plus_one.
  - assert (Hs : Sat c S p n) by (apply HA; [exact HE|discriminate]).
    split; [|exact Hs]. apply Sat_swap. apply HB; [exact HS|]. intros _. apply Eat_swap, Hs.
  - assert (He : Eat c E p n).
    { apply Sat_swap. apply HB; [exact HS|discriminate]. }
    split; [exact He|]. apply HA; [exact HE|intros _; exact He].
Qed.

Lemma liveness_clash p :
  (persist c (map Phi goals) (swp p) /\ recur c (map Phi holds) (swp p)) ->
  (persist c holds p \/ recur c goals p) -> False.
Proof.
  intros [[PB [HPB [N HN]]] HrB] [[P [HP [M HM]]]|HrA].
  - destruct (HrB (Phi P) (in_map Phi _ _ HP) M) as [i [Hi Hv]].
    unfold swp in Hv. rewrite Phi_at in Hv. rewrite (HM i Hi) in Hv. discriminate.
  - apply in_map_iff in HPB. destruct HPB as [R [<- HR]].
    destruct (HrA R HR N) as [i [Hi Hv]].
    specialize (HN i Hi). unfold swp in HN. rewrite Phi_at, Hv in HN. discriminate.
Qed.

Lemma liveness_clash' p :
  (persist c (map Phi goals) (swp p) \/ recur c (map Phi holds) (swp p)) ->
  (persist c holds p /\ recur c goals p) -> False.
Proof.
  intros [[PB [HPB [N HN]]]|HrB] [[P [HP [M HM]]] HrA].
  - apply in_map_iff in HPB. destruct HPB as [R [<- HR]].
    destruct (HrA R HR N) as [i [Hi Hv]].
    specialize (HN i Hi). unfold swp in HN. rewrite Phi_at, Hv in HN. discriminate.
  - destruct (HrB (Phi P) (in_map Phi _ _ HP) M) as [i [Hi Hv]].
    unfold swp in Hv. rewrite Phi_at in Hv. rewrite (HM i Hi) in Hv. discriminate.
Qed.

(* the opponent's Rabin(1) win excludes the component's Streett(1) win *)
Lemma rabinB_excludes_streettA p :
  win_rabin c (dual S) (dual E) (map Phi goals) (map Phi holds) (negb plus_one) (swp p) ->
  win_streett c E S holds goals plus_one p -> False.
Proof.
  intros [HsB HlB] [HsA HlA].
  pose proof (both_keep p HsA HsB) as Hk.
  apply (liveness_clash p).
  - apply HlB. intros i. apply Eat_swap, Hk.
  - apply HlA. intros i. apply Hk.
Qed.

(* the opponent's Streett(1) win excludes the component's Rabin(1) win *)
Lemma streettB_excludes_rabinA p :
  win_streett c (dual S) (dual E) (map Phi goals) (map Phi holds) (negb plus_one) (swp p) ->
  win_rabin c E S holds goals plus_one p -> False.
Proof.
  intros [HsB HlB] [HsA HlA].
  pose proof (both_keep p HsA HsB) as Hk.
  apply (liveness_clash' p).
  - apply HlB. intros i. apply Eat_swap, Hk.
  - apply HlA. intros i. apply Hk.
Qed.

(* a component strategy of the dual game is an environment strategy here *)
Definition as_env (fB : strat) : strat := fun h y' => fB (map swap_st h) y'.

Lemma as_env_valid moore fB : cvalid nx (negb moore) fB -> evalid nx moore (as_env fB).
Proof.
  intros [H1 H2]. split.
  - intros h y'. apply H1.
  - intros Hm h y1 y2. unfold as_env. apply H2. rewrite Hm. reflexivity.
Qed.

Lemma as_env_consistent fB p : econsistent (as_env fB) p -> cconsistent fB (swp p).
Proof.
  intros H i. unfold swp at 1 3. cbn [swap_st fst snd]. rewrite (H i). unfold as_env.
  rewrite hist_map. reflexivity.
Qed.

(* a win of the component in the dual game from the swapped state, against
   which W cannot hold, is a way for the environment to prevent W here *)
Lemma dual_win_prevents moore (WB W : play -> Prop) s :
  (forall p, WB (swp p) -> W p -> False) ->
  comp_wins ny nx (negb moore) WB (swap_st s) ->
  env_prevents nx ny moore W s.
Proof.
  intros Hex [fB [Vf Wf]]. exists (as_env fB). split; [apply as_env_valid, Vf|].
  intros p Hr Hp0 Hc HW. apply (Hex p); [|exact HW].
  apply Wf; [apply swp_inrange, Hr|unfold swp; rewrite Hp0; reflexivity|
             apply as_env_consistent, Hc].
Qed.

End Glue.

Section Determinacy.
Variables nc nx ny : nat.
Variables moore plus_one : bool.
Variables E S : bdd.
Variables holds goals : list bdd.
Variable c : nat.
Hypothesis Hc : c < nc.
Hypothesis HnR : 0 < length goals.
Hypothesis HnP : 0 < length holds.

Local Notation Wst := (win_streett c E S holds goals plus_one).
Local Notation Wrb := (win_rabin c E S holds goals plus_one).
Local Notation streett := (streett_spec nc nx ny moore plus_one E S holds goals).
Local Notation rabin := (rabin_spec nc nx ny moore plus_one E S holds goals).

Lemma stv_swap s : swapV (stv c s) = stv c (swap_st s).
Proof. reflexivity. Qed.

Lemma sinr_inr s : fst s < nx -> snd s < ny -> inr nc nx ny (stv c s).
Proof. intros H1 H2. apply (stv_inr nc nx ny goals c Hc HnR s). split; assumption. Qed.

(* outside the Streett(1) region the environment prevents the objective *)
Theorem streett_region_complete s :
  fst s < nx -> snd s < ny -> streett (stv c s) = false ->
  env_prevents nx ny moore Wst s.
Proof.
  intros H1 H2 Hs.
  apply (dual_win_prevents nx ny moore
           (win_rabin c (dual S) (dual E) (map Phi goals) (map Phi holds) (negb plus_one))).
  - intros p. apply rabinB_excludes_streettA.
  - apply (rabin_region_sound nc ny nx (negb moore) (negb plus_one) (dual S) (dual E)
             (map Phi goals) (map Phi holds) c Hc).
    + rewrite map_length. exact HnP.
    + exact H2.
    + exact H1.
    + rewrite <- stv_swap.
      pose proof (streett_rabin_partition nc nx ny moore plus_one E S holds goals (stv c s)
                    (sinr_inr s H1 H2)) as Hp.
      rewrite Hs in Hp. symmetry in Hp. apply negb_false_iff in Hp. exact Hp.
Qed.

(* outside the Rabin(1) region the environment prevents the objective *)
Theorem rabin_region_complete s :
  fst s < nx -> snd s < ny -> rabin (stv c s) = false ->
  env_prevents nx ny moore Wrb s.
Proof.
  intros H1 H2 Hs.
  apply (dual_win_prevents nx ny moore
           (win_streett c (dual S) (dual E) (map Phi goals) (map Phi holds) (negb plus_one))).
  - intros p. apply streettB_excludes_rabinA.
  - apply (streett_region_sound nc ny nx (negb moore) (negb plus_one) (dual S) (dual E)
             (map Phi goals) (map Phi holds) c Hc).
    + rewrite map_length. exact HnP.
    + exact H2.
    + exact H1.
    + rewrite <- stv_swap.
      pose proof (rabin_streett_partition nc nx ny moore plus_one E S holds goals (stv c s)
                    (sinr_inr s H1 H2)) as Hp.
      rewrite Hs in Hp. symmetry in Hp. apply negb_false_iff in Hp. exact Hp.
Qed.

(* C01: the Streett(1) fixpoint is exactly the component's winning region *)
Theorem streett_region_exact s :
  fst s < nx -> snd s < ny ->
  (streett (stv c s) = true <-> comp_wins nx ny moore Wst s).
Proof.
  intros H1 H2. split.
  - apply (streett_region_sound nc nx ny moore plus_one E S holds goals c Hc HnR s H1 H2).
  - intros Hw. destruct (streett (stv c s)) eqn:Es; [reflexivity|].
    exfalso. apply (not_both nx ny moore Wst s H1 H2 Hw).
    apply streett_region_complete; assumption.
Qed.

(* C04: the Rabin(1) fixpoint is exactly the component's winning region *)
Theorem rabin_region_exact s :
  fst s < nx -> snd s < ny ->
  (rabin (stv c s) = true <-> comp_wins nx ny moore Wrb s).
Proof.
  intros H1 H2. split.
  - apply (rabin_region_sound nc nx ny moore plus_one E S holds goals c Hc HnR s H1 H2).
  - intros Hw. destruct (rabin (stv c s)) eqn:Es; [reflexivity|].
    exfalso. apply (not_both nx ny moore Wrb s H1 H2 Hw).
    apply rabin_region_complete; assumption.
Qed.

End Determinacy.
