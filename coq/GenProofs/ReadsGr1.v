(* The automaton fields each function translated from games/gr1.py reads (by
   name); see ReadsFixpoint.v. *)
From Coq Require Import List String.
Import ListNotations.
From OmegaGen Require Import FixpointGen Gr1Gen.
From OmegaGP Require Import ReadsFixpoint.
Local Open Scope string_scope.

Example reads_pinned_gr1 :
  Gr1Gen.attractor_under_assumptions_reads = ["action[env]"; "action[sys]"; "win[<>[]]"] /\
  Gr1Gen.solve_streett_game_reads = ["action[env]"; "action[sys]"; "win[[]<>]"] /\
  Gr1Gen.attractor_inside_reads = ["action[env]"; "action[sys]"] /\
  Gr1Gen.cycle_inside_reads = ["action[env]"; "action[sys]"; "win[[]<>]"] /\
  Gr1Gen.solve_rabin_game_reads = ["win[<>[]]"] /\
  Gr1Gen.is_realizable_reads =
    ["init[env]"; "init[sys]"; "plus_one"; "qinit"; "varlist[env]"; "varlist[sys]"] /\
  Gr1Gen.make_init_reads = ["init[env]"; "init[sys]"; "plus_one"; "qinit"; "varlist[env]"] /\
  Gr1Gen.controllable_action_reads =
    ["action[env]"; "action[sys]"; "moore"; "plus_one"; "varlist[env']"].
Proof. repeat split. Qed.
