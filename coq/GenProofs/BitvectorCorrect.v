(* C06, tie T: the theorems of L1Circuits (circuit = arithmetic, emitted
   formula evaluates to the circuit) restated about the TRANSLATED code of
   omega/logic/bitvector.py (coq/gen/BitvectorGen.v), through the bridge
   GenProofs/BitvectorBridge.v.  [sval] = two's complement value; operands
   are given as formulas x with values vx in memory m (and all extensions);
   start address = number of cells already in memory. *)
From Coq Require Import String ZArith List Bool Lia.
From Omega Require Import L1Circuits.Circuits L1Circuits.CircuitsProofs L1Circuits.Deep
  L1Circuits.DeepProofs L1Circuits.PyBits L1Circuits.PyBitsProofs
  L2Compile.Expr L2Compile.Emit L2Compile.EmitProofs.
From OmegaGen Require Import BitvectorGen.
From OmegaGP Require Import BitvectorBridge.
Import ListNotations.
Open Scope Z_scope.

Lemma stables_nonempty : forall vars m x vx, Forall2 (stable vars m) x vx ->
  (1 <= length x)%nat -> vx <> [].
Proof. intros vars m x vx H L E. subst vx. inversion H. subst. cbn in L. lia. Qed.

Lemma nonempty_length : forall A (l : list A), l <> [] -> (1 <= length l)%nat.
Proof. intros A [|a l] H; [congruence|cbn; lia]. Qed.

Lemma run_length : forall vars cells m, length (run vars m cells) = (length m + length cells)%nat.
Proof.
  induction cells as [|c cells IH]; intros m; cbn [run length]; [lia|].
  rewrite IH, app_length. cbn [length]. lia.
Qed.

(* adder_subtractor as called by flatten_arithmetic (one extension bit) *)
Theorem translated_adder_correct : forall vars x vx y vy (add : bool) e m res mem cf,
  Forall2 (stable vars m) x vx -> Forall2 (stable vars m) y vy -> 1 <= e ->
  g_adder_subtractor x y add (py_len m) e = Some (res, mem, cf) ->
  let m1 := run vars m mem in
  extends m m1 (length mem) /\
  exists vr, Forall2 (stable vars m1) res vr /\
    sval vr = (if add then sval vx + sval vy else sval vx - sval vy) /\
    length vr = (Nat.max (length vx) (length vy) + Z.to_nat e)%nat.
Proof.
  intros vars x vx y vy add e m res mem cf Hx Hy He H.
  apply g_adder_subtractor_ok in H. destruct H as [H G]. unfold nz in H.
  rewrite py_len_to_nat in H.
  pose proof (adder_sound vars x vx y vy add (Z.to_nat e) m Hx Hy) as A. rewrite <- H in A.
  cbv zeta in A |- *. destruct A as (E & R & _). split; [exact E|].
  unfold add_guard in G. apply andb_prop in G. destruct G as [_ G].
  apply eq_guard_lengths in G. destruct G as (Lx & Ly & _).
  assert (Nx : vx <> []) by (eapply stables_nonempty; [exact Hx|lia]).
  assert (Ny : vy <> []) by (eapply stables_nonempty; [exact Hy|lia]).
  eexists. split; [exact R|].
  destruct (adder_spec vx vy add (Z.to_nat e) Nx Ny ltac:(lia)) as [L S]. auto.
Qed.

Theorem translated_multiplier_correct : forall vars fuel x vx y vy m res mem,
  Forall2 (stable vars m) x vx -> Forall2 (stable vars m) y vy -> vx <> [] -> vy <> [] ->
  g_multiplier fuel x y (py_len m) = Some (res, mem) ->
  let m1 := run vars m mem in
  extends m m1 (length mem) /\
  exists vr, Forall2 (stable vars m1) res vr /\ sval vr = sval vx * sval vy /\
    length vr = (length vx + length vy)%nat.
Proof.
  intros vars fuel x vx y vy m res mem Hx Hy Nx Ny H.
  apply g_multiplier_ok in H. unfold nz in H. rewrite py_len_to_nat in H.
  pose proof (multiplier_sound vars x vx y vy m Hx Hy) as A. rewrite <- H in A.
  cbv zeta in A |- *. destruct A as (E & R). split; [exact E|].
  eexists. split; [exact R|]. destruct (multiplier_spec vx vy Nx Ny). auto.
Qed.

Theorem translated_divider_correct : forall vars fuel x vx y vy m quo rem mem,
  Forall2 (stable vars m) x vx -> Forall2 (stable vars m) y vy -> vx <> [] -> vy <> [] ->
  sval vy <> 0 ->
  g_restoring_divider fuel x y (py_len m) = Some (quo, rem, mem) ->
  let m1 := run vars m mem in
  extends m m1 (length mem) /\
  exists vq vr, Forall2 (stable vars m1) quo vq /\ Forall2 (stable vars m1) rem vr /\
    sval vq = Z.quot (sval vx) (sval vy) /\ sval vr = Z.rem (sval vx) (sval vy).
Proof.
  intros vars fuel x vx y vy m quo rem mem Hx Hy Nx Ny N0 H.
  apply g_restoring_divider_ok in H. unfold nz in H. rewrite py_len_to_nat in H.
  pose proof (divider_sound vars x vx y vy m Hx Hy (nonempty_length _ _ Nx)
                (nonempty_length _ _ Ny)) as A. rewrite <- H in A.
  cbv zeta in A |- *. destruct A as (E & Q & R). split; [exact E|].
  pose proof (divider_spec vx vy Nx Ny N0) as S.
  destruct (restoring_divider vx vy) as [vq vr]. cbn [fst snd] in *.
  exists vq, vr. tauto.
Qed.

(* flatten_arithmetic: dispatch on the operator's spelling, cells appended
   to mem, result = integer arithmetic (C99 division) *)
Theorem translated_arithmetic_correct : forall vars fuel op x vx y vy mem0 m res mem1,
  run vars [] mem0 = m ->
  Forall2 (stable vars m) x vx -> Forall2 (stable vars m) y vy -> vx <> [] -> vy <> [] ->
  g_flatten_arithmetic fuel op x y mem0 = Some (res, mem1) ->
  exists o cells, aop_of_string op = Some o /\ mem1 = mem0 ++ cells /\
    let m1 := run vars [] mem1 in
    extends m m1 (length cells) /\
    exists vr, Forall2 (stable vars m1) res vr /\
      match sem_aop o (sval vx) (sval vy) with
      | Ok v => v = VZ (sval vr)
      | DivZero => True
      | Ill => False
      end.
Proof.
  intros vars fuel op x vx y vy mem0 m res mem1 R Hx Hy Nx Ny H.
  apply g_flatten_arithmetic_ok in H. destruct H as (o & Ho & H).
  assert (L : length mem0 = length m) by (subst m; rewrite run_length; cbn; lia).
  rewrite L in H.
  pose proof (flatten_arithmetic_sound vars o x vx y vy m Hx Hy
                (nonempty_length _ _ Nx) (nonempty_length _ _ Ny)) as A.
  destruct (d_flatten_arithmetic o x y (length m)) as [r cells]. cbn [fst snd] in H.
  injection H as -> ->. exists o, cells. split; [exact Ho|]. split; [reflexivity|].
  cbv zeta in A |- *. rewrite run_app, R. destruct A as (E & S). split; [exact E|].
  eexists. split; [exact S|].
  destruct o; cbn [sem_aop arith_value].
  - destruct (adder_spec vx vy true 1 Nx Ny ltac:(lia)) as [_ ->]. reflexivity.
  - destruct (adder_spec vx vy false 1 Nx Ny ltac:(lia)) as [_ ->]. reflexivity.
  - destruct (multiplier_spec vx vy Nx Ny) as [_ ->]. reflexivity.
  - destruct (sval vy =? 0) eqn:Z0; [exact I|]. apply Z.eqb_neq in Z0.
    pose proof (divider_spec vx vy Nx Ny Z0) as S2.
    destruct (restoring_divider vx vy) as [vq vr]. cbn [fst]. destruct S2 as (-> & _). reflexivity.
  - destruct (sval vy =? 0) eqn:Z0; [exact I|]. apply Z.eqb_neq in Z0.
    pose proof (divider_spec vx vy Nx Ny Z0) as S2.
    destruct (restoring_divider vx vy) as [vq vr]. cbn [snd]. destruct S2 as (_ & -> & _). reflexivity.
Qed.

(* flatten_comparator: the returned buffer, evaluated as symbolic/bdd.py
   does, is the integer comparison *)
Theorem translated_comparator_correct : forall vars op x vx y vy mem0 m buf mem1,
  run vars [] mem0 = m ->
  Forall2 (stable vars m) x vx -> Forall2 (stable vars m) y vy -> vx <> [] -> vy <> [] ->
  g_flatten_comparator op x y mem0 = Some (buf, mem1) ->
  exists o, cmp_of_string op = Some o /\
    buf_value vars buf = Some (sem_cmp o (sval vx) (sval vy)).
Proof.
  intros vars op x vx y vy mem0 m buf mem1 R Hx Hy Nx Ny H.
  apply g_flatten_comparator_ok in H. destruct H as (o & Ho & H). injection H as -> ->.
  exists o. split; [exact Ho|].
  assert (L : length m = length mem0) by (subst m; rewrite run_length; cbn; lia).
  rewrite (comparator_buffer_sound vars o x vx y vy mem0 m R L Hx Hy). f_equal.
  rewrite (comparator_spec o vx vy Nx Ny). destruct o; reflexivity.
Qed.

(* the translated code does not always raise: comparators on any operands
   of 2..30 bits, and a concrete division *)
Theorem translated_comparator_succeeds : forall op o x y mem,
  cmp_of_string op = Some o -> cmp_guard x y = true ->
  exists buf mem1, g_flatten_comparator op x y mem = Some (buf, mem1).
Proof.
  intros op o x y mem Ho G. eexists. eexists.
  apply (g_flatten_comparator_some op o x y mem Ho G).
Qed.

(* ------------------------------------------------------------------------
   Memory threading in the translated flatten methods (g_flatten): on every
   arithmetic-scope tree, the bits returned by Arithmetic / Operator(ite) /
   Unary(prime) .flatten, after the cells appended to the caller's list are
   evaluated, have the value of the composed circuits; the buffer returned by
   Comparator.flatten evaluates to the integer comparison. *)
From Omega Require Import L2Compile.Thread L2Compile.ThreadProofs.
From OmegaGP Require Import BitvectorFlatBridge.

Section FlattenCorrect.
Variable kwargs : Type.
Variable kw_set_prime : kwargs -> kwargs.
Variable ext_flatten : pnode -> option (list bx) -> kwargs
                       -> option (fres * option (list bx)).
Variable vars : nat -> bool.

Theorem translated_flatten_threads_memory : forall e fuel kw mem r st,
  leaves_ok kwargs kw_set_prime ext_flatten e kw -> awf e = true ->
  g_flatten kwargs kw_set_prime ext_flatten fuel (node_of e) (Some mem) kw = Some (r, st) ->
  exists bits mem', r = RBits bits /\ st = Some mem' /\
    (exists k, extends (run vars [] mem) (run vars [] mem') k) /\
    Forall2 (stable vars (run vars [] mem')) bits (aval vars e).
Proof.
  intros e fuel kw mem r st L W H.
  destruct (flatten_is_threading_model _ _ _ e fuel kw mem r st L H) as [-> ->].
  pose proof (thread_sound vars e mem W) as T.
  destruct (d_aflat e mem) as [bits mem']. cbv zeta in T. cbn [fst snd].
  exists bits, mem'. tauto.
Qed.

Theorem translated_comparator_flatten_correct : forall op a b fuel kw r st,
  leaves_ok kwargs kw_set_prime ext_flatten a kw ->
  leaves_ok kwargs kw_set_prime ext_flatten b kw ->
  awf a = true -> awf b = true ->
  g_flatten kwargs kw_set_prime ext_flatten fuel
    (PNode "Comparator" op [node_of a; node_of b]) None kw = Some (r, st) ->
  exists o buf, cmp_of_string op = Some o /\ r = RBuf buf /\ st = None /\
    buf_value vars buf = Some (sem_cmp o (sval (aval vars a)) (sval (aval vars b))).
Proof.
  intros op a b fuel kw r st La Lb Wa Wb H.
  destruct (comparator_flatten_is_model _ _ _ op a b fuel kw r st La Lb H) as (o & Ho & -> & ->).
  exists o. eexists. split; [exact Ho|]. split; [reflexivity|]. split; [reflexivity|].
  apply (cmp_flat_exact vars o a b Wa Wb).
Qed.
End FlattenCorrect.

(* non-vacuity: a concrete environment (kwargs = the prime flag; variables
   "x" and "y" of 2 bits; numerals) on which the translated methods run *)
Definition ex_ext (u : pnode) (mem : option (list bx)) (prime : bool)
  : option (fres * option (list bx)) :=
  match u with
  | PNode "Var" "x" [] => Some (RBits (if prime then [XV 10; XV 11] else [XV 0; XV 1]), mem)
  | PNode "Var" "y" [] => Some (RBits (if prime then [XV 12; XV 13] else [XV 2; XV 3]), mem)
  | PNode "Var" "b" [] => Some (RStr (XV (if prime then 14 else 4)), mem)
  | PNode "Num" "1" [] => Some (RBits [XC true; XC false], mem)
  | _ => None
  end%string.

Definition ex_lhs : anode :=
  AArith AMul "*"
    (AIte (PNode "Var" "b" []) (XV 4)
       (ALeaf (PNode "Var" "x" []) [XV 0; XV 1])
       (APrime "'" (ALeaf (PNode "Var" "y" []) [XV 12; XV 13])))
    (AArith ADiv "/" (ALeaf (PNode "Var" "x" []) [XV 0; XV 1])
                     (ALeaf (PNode "Num" "1" []) [XC true; XC false])).
Definition ex_rhs : anode := ALeaf (PNode "Var" "y" []) [XV 2; XV 3].

Example translated_flatten_nonvacuous :
  leaves_ok bool (fun _ => true) ex_ext ex_lhs false /\
  leaves_ok bool (fun _ => true) ex_ext ex_rhs false /\
  awf ex_lhs = true /\ awf ex_rhs = true /\
  exists buf, g_flatten bool (fun _ => true) ex_ext 60
    (PNode "Comparator" "<=" [node_of ex_lhs; node_of ex_rhs]) None false
    = Some (RBuf buf, None).
Proof.
  split; [|split; [|split; [|split]]].
  - cbn [leaves_ok ex_lhs]. repeat apply conj; try reflexivity; try (now right);
      try (intros mem; reflexivity). eexists. reflexivity.
  - cbn [leaves_ok ex_rhs]. split; [reflexivity|intros mem; reflexivity].
  - reflexivity.
  - reflexivity.
  - vm_compute. eexists. reflexivity.
Qed.
