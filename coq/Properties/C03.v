(* C03 — realizability verdict and synthesized initial condition match the
   qinit form.  Statements only.  Gr1Gen.is_realizable / make_init are
   generated from /repo/omega/games/gr1.py on every run.

   realizable_spec / init_spec (L4/InitSpec.v) are the four documented
   quantified formulas:
     \A \A :  SysInit = TRUE required;  verdict = valid (EnvInit => Win)
     \E \E :  EnvInit = TRUE required;  verdict = valid (\E x, y: Win /\ SysInit)
     \A \E :  verdict = valid (\A x: \E y: form)
     \E \A :  verdict = valid (\E y: \A x: form)
   form = SysInit /\ (EnvInit => Win) if plus_one, EnvInit => (SysInit /\ Win)
   otherwise; "valid u" = u holds at every valuation of the arena (valid_iff).
   The winning region `win` is a parameter here: that it is the true winning
   region is C01/C04. The refusal of the transducer constructions
   (assert is_realizable) is part of the C02/C05 models. *)
From Coq Require Import List Bool Arith Lia.
From Omega Require Import L4.Arena L4.Kleene L4.InitSpec.
From OmegaGen Require Import FixpointGen Gr1Gen TransducerGen.
From OmegaGP Require Import InitProofs TransducerModel StreettNB2 ConstructionSucceeds RabinSucceeds
  RealizableLift.

Section C03.
Variables nc nx ny : nat.
Variables env_init sys_init : bdd.
Variable plus_one : bool.
Local Notation is_realizable := (Gr1Gen.is_realizable nc nx ny env_init sys_init plus_one).
Local Notation make_init := (Gr1Gen.make_init nc nx ny env_init sys_init plus_one).

(* verdict (and refusal: None exactly when the documented side condition on
   the initial predicates fails) *)
Theorem C03_verdict_exact : forall q fuel win,
  is_realizable q fuel win = realizable_spec nc nx ny env_init sys_init plus_one q win.
Proof. exact (is_realizable_spec nc nx ny env_init sys_init plus_one). Qed.

Theorem C03_valid_means_everywhere : forall u,
  valid nc nx ny u = true <-> forall v, inr nc nx ny v -> u v = true.
Proof. exact (valid_iff nc nx ny). Qed.
Print Assumptions C03_valid_means_everywhere.

(* synthesized initial condition: exactly the form's predicate conjoined with
   the internal-memory initial value *)
Theorem C03_init_exact : forall q fuel internal win r,
  make_init q fuel internal win = Some r ->
  forall v, r v = init_spec nx env_init sys_init plus_one q win v && internal v.
Proof. exact (make_init_sem nc nx ny env_init sys_init plus_one). Qed.

Theorem C03_init_refused_iff_empty : forall q fuel internal win,
  make_init q fuel internal win = None <->
  Arena.beq nc nx ny (init_spec nx env_init sys_init plus_one q win) bfalse = true.
Proof. exact (make_init_none nc nx ny env_init sys_init plus_one). Qed.

(* every admitted initial state has the memory at its initial value, and if
   the environment's initial condition holds it meets the component's initial
   condition and is winning (with strict causality the component's initial
   condition holds regardless) *)
Theorem C03_init_sound : forall q fuel internal win r,
  make_init q fuel internal win = Some r ->
  is_realizable q fuel win = Some true ->
  forall v, inr nc nx ny v -> r v = true ->
    internal v = true /\
    (env_init v = true -> sys_init v = true /\ win v = true) /\
    (plus_one = true -> sys_init v = true).
Proof. exact (make_init_sound nc nx ny env_init sys_init plus_one). Qed.

Theorem C03_init_sound_exists_forall : forall fuel internal win r,
  make_init QEA fuel internal win = Some r ->
  forall v, inr nc nx ny v -> r v = true -> forall x, x < nx ->
    init_form env_init sys_init plus_one win (setg Env v x) = true.
Proof. exact (make_init_sound_EA nc nx ny env_init sys_init plus_one). Qed.

(* verdict true => initial-condition synthesis succeeds *)
Theorem C03_init_succeeds : forall q fuel internal win,
  0 < nc -> 0 < nx -> 0 < ny ->
  is_realizable q fuel win = Some true ->
  make_init q fuel internal win <> None.
Proof. exact (make_init_succeeds nc nx ny env_init sys_init plus_one). Qed.
End C03.

(* "Whenever the verdict is true and the winning region is non-empty,
   constructing the implementation succeeds": for the TRANSLATED Streett(1)
   construction applied to the translated solver's result, none of the
   refusals fires (is_realizable, non-empty action, _make_init).  The winning
   region is non-empty = some in-range valuation is winning.  G = number of
   values of the goal counter's bit field. *)
Theorem C03_streett_construction_succeeds :
  forall nc nx ny (E S EI SI : bdd) (holds goals : list bdd) (moore plus_one : bool)
         qinit fuel G,
  NV nc nx ny <= fuel -> Forall spred holds -> Forall spred goals ->
  0 < G -> length goals <= G -> 0 < length goals ->
  let sol := Gr1Gen.solve_streett_game nc nx ny E S holds goals moore plus_one fuel in
  let z := fst (fst sol) in
  let L := lift nc nx ny G in
  Gr1Gen.is_realizable nc nx (ny * G) (L EI) (L SI) plus_one qinit fuel (L z) = Some true ->
  (exists c x yb, c < nc /\ x < nx /\ yb < ny /\ z (sv c x yb) = true) ->
  StreettGen.make_streett_transducer nc nx ny G (L E) (L S) (L EI) (L SI)
    (map L holds) (map L goals) moore plus_one qinit fuel
    (L z) (map (map L) (snd (fst sol))) (map (map (map L)) (snd sol)) <> None.
Proof.
  intros nc nx ny E S EI SI holds goals moore plus_one qinit fuel G Hf Sh Sg HG HnG Hg sol z L.
  exact (streett_construction_succeeds nc nx ny E S EI SI holds goals moore plus_one qinit
           fuel G Hf Sh Sg HG HnG Hg).
Qed.

Import ListNotations.
Local Open Scope bool_scope.
(* non-vacuity: a realizable and an unrealizable instance of each form *)
Example C03_examples :
  let win : bdd := fun v => Nat.eqb (vy v) 1 in
  let ei : bdd := fun v => Nat.eqb (vx v) 0 in
  let si : bdd := fun v => Nat.leb (vx v) (vy v) in
  map (fun q => Gr1Gen.is_realizable 1 2 2 ei si true q 0 win) [QAA; QEE; QAE; QEA]
    = [None; None; Some true; Some true] /\
  map (fun q => Gr1Gen.is_realizable 1 2 2 ei btrue true q 0 win) [QAA; QAE]
    = [Some false; Some true] /\
  map (fun q => Gr1Gen.is_realizable 1 2 2 btrue si false q 0 (fun v => Nat.eqb (vy v) (vx v))) [QEE; QAE; QEA]
    = [Some true; Some true; Some false].
Proof. vm_compute. repeat split. Qed.

(* the same for the TRANSLATED Rabin(1) construction (H, G: numbers of values
   of the `_hold` and `_goal` fields; the winning region is the last iterate) *)
Theorem C03_rabin_construction_succeeds :
  forall nc nx ny (E S EI SI : bdd) (holds goals : list bdd) (moore plus_one : bool)
         qinit fuel H G,
  NV nc nx ny <= fuel -> Forall spred holds -> Forall spred goals ->
  length goals <= G -> length holds < H -> 0 < length goals -> 0 < length holds ->
  let sol := Gr1Gen.solve_rabin_game nc nx ny E S holds goals moore plus_one fuel in
  let zk := fst (fst sol) in
  let L := lift nc nx ny (H * G) in
  Gr1Gen.is_realizable nc nx (ny * (H * G)) (L EI) (L SI) plus_one qinit fuel
    (last (map L zk) bfalse) = Some true ->
  (exists c x yb, c < nc /\ x < nx /\ yb < ny /\ last zk bfalse (sv c x yb) = true) ->
  RabinGen.make_rabin_transducer nc nx ny H G (L E) (L S) (L EI) (L SI)
    (map L holds) (map L goals) moore plus_one qinit fuel
    (map L zk) (map (map L) (snd (fst sol))) (map (map (map (map L))) (snd sol)) <> None.
Proof.
  intros nc nx ny E S EI SI holds goals moore plus_one qinit fuel H G
         Hf Sh Sg HnG HnH Hg Hh sol zk L.
  exact (rabin_construction_succeeds nc nx ny E S EI SI holds goals moore plus_one qinit
           fuel H G Hf Sh Sg HnG HnH Hg Hh).
Qed.

(* The hypotheses of the two theorems above speak of the verdict on the arena
   EXTENDED with the memory (ny * M component values, lifted initial
   conditions and region), which is how the translated constructions are laid
   out.  In gr1.py `assert is_realizable(winning, aut)` runs BEFORE the memory
   variables are declared, and a user calls gr1.is_realizable on the BASE
   arena.  The verdict is the same (all four qinit forms, both causality
   modes, any number M > 0 of memory values): *)
Theorem C03_verdict_independent_of_memory :
  forall nc nx ny M (EI SI : bdd) plus_one qinit fuel fuel' (win : bdd),
  0 < M ->
  let L := lift nc nx ny M in
  Gr1Gen.is_realizable nc nx (ny * M) (L EI) (L SI) plus_one qinit fuel (L win) =
  Gr1Gen.is_realizable nc nx ny EI SI plus_one qinit fuel' win.
Proof.
  intros nc nx ny M EI SI plus_one qinit fuel fuel' win HM L.
  exact (is_realizable_lift nc nx ny M HM EI SI plus_one qinit fuel fuel' win).
Qed.

(* ... so the constructions succeed whenever the verdict THE USER SEES (base
   arena) is true and the winning region is non-empty *)
Theorem C03_streett_construction_succeeds_base :
  forall nc nx ny (E S EI SI : bdd) (holds goals : list bdd) (moore plus_one : bool)
         qinit fuel G,
  NV nc nx ny <= fuel -> Forall spred holds -> Forall spred goals ->
  0 < G -> length goals <= G -> 0 < length goals ->
  let sol := Gr1Gen.solve_streett_game nc nx ny E S holds goals moore plus_one fuel in
  let z := fst (fst sol) in
  let L := lift nc nx ny G in
  Gr1Gen.is_realizable nc nx ny EI SI plus_one qinit fuel z = Some true ->   (* base arena *)
  (exists c x yb, c < nc /\ x < nx /\ yb < ny /\ z (sv c x yb) = true) ->
  StreettGen.make_streett_transducer nc nx ny G (L E) (L S) (L EI) (L SI)
    (map L holds) (map L goals) moore plus_one qinit fuel
    (L z) (map (map L) (snd (fst sol))) (map (map (map L)) (snd sol)) <> None.
Proof.
  intros nc nx ny E S EI SI holds goals moore plus_one qinit fuel G Hf Sh Sg HG HnG Hg sol z L.
  exact (streett_construction_succeeds_base nc nx ny E S EI SI holds goals moore plus_one qinit
           fuel Hf Sh Sg Hg G HG HnG).
Qed.

Theorem C03_rabin_construction_succeeds_base :
  forall nc nx ny (E S EI SI : bdd) (holds goals : list bdd) (moore plus_one : bool)
         qinit fuel H G,
  NV nc nx ny <= fuel -> Forall spred holds -> Forall spred goals ->
  length goals <= G -> length holds < H -> 0 < length goals -> 0 < length holds ->
  let sol := Gr1Gen.solve_rabin_game nc nx ny E S holds goals moore plus_one fuel in
  let zk := fst (fst sol) in
  let L := lift nc nx ny (H * G) in
  Gr1Gen.is_realizable nc nx ny EI SI plus_one qinit fuel (last zk bfalse) = Some true ->   (* base arena *)
  (exists c x yb, c < nc /\ x < nx /\ yb < ny /\ last zk bfalse (sv c x yb) = true) ->
  RabinGen.make_rabin_transducer nc nx ny H G (L E) (L S) (L EI) (L SI)
    (map L holds) (map L goals) moore plus_one qinit fuel
    (map L zk) (map (map L) (snd (fst sol))) (map (map (map (map L))) (snd sol)) <> None.
Proof.
  intros nc nx ny E S EI SI holds goals moore plus_one qinit fuel H G
         Hf Sh Sg HnG HnH Hg Hh sol zk L.
  exact (rabin_construction_succeeds_base nc nx ny E S EI SI holds goals moore plus_one qinit
           fuel Hf Sh Sg Hg H G HnG HnH Hh).
Qed.

Print Assumptions C03_verdict_exact.
Print Assumptions C03_init_exact.
Print Assumptions C03_init_refused_iff_empty.
Print Assumptions C03_init_sound.
Print Assumptions C03_init_sound_exists_forall.
Print Assumptions C03_init_succeeds.
Print Assumptions C03_streett_construction_succeeds.
Print Assumptions C03_rabin_construction_succeeds.
Print Assumptions C03_verdict_independent_of_memory.
Print Assumptions C03_streett_construction_succeeds_base.
Print Assumptions C03_rabin_construction_succeeds_base.
