(* Absence of blocking for the Streett transducer model, given the onion
   structure of the iterates (discharged for the generated solver in
   StreettIterProofs.v). *)
From Coq Require Import List Bool Arith Lia.
Import ListNotations.
From Omega Require Import L4.Arena L4.ArenaFacts L4.Kleene L4.GameSpec.
From OmegaGen Require Import FixpointGen Gr1Gen.
From OmegaGP Require Import TransducerModel CaSpec StreettNB1 StreettNB2 StreettNB3.

Section NB4.
Variables nc nx ny G : nat.
Hypothesis HG : 0 < G.
Variables E S : bdd.
Variables moore plus_one : bool.
Variables holds goals : list bdd.
Variables z : bdd.
Variables (yij : list (list bdd)) (xijk : list (list (list bdd))).

Local Notation L := (lift nc nx ny G).
Local Notation nyE := (ny * G).
Local Notation EL := (L E).
Local Notation SL := (L S).
Local Notation holdsL := (map L holds).
Local Notation goalsL := (map L goals).
Local Notation yijL := (map (map L) yij).
Local Notation xijkL := (map (map (map L)) xijk).
Local Notation ca := (Gr1Gen.controllable_action nc nx nyE EL SL moore plus_one 0).
Local Notation cp := (cpre_spec nx ny moore plus_one E S).
Local Notation ev := (ev G).
Local Notation A := (streett_action nc nx ny G EL SL holdsL goalsL moore plus_one
                       (L z) yijL xijkL).
Local Notation n := (length goals).

(* the state and the goal we look at *)
Variables c x yb j : nat.
Hypothesis Hc : c < nc.
Hypothesis Hx : x < nx.
Hypothesis Hyb : yb < ny.
Hypothesis Hj : j < n.
Hypothesis HnG : n <= G.

(* a step exists from the state (memory j) with next memory m', per the
   mode's quantifier order *)
Definition NBm (m' : nat) (rho : bdd) : Prop :=
  if moore
  then exists yb', yb' < ny /\
         forall x', x' < nx -> rho (ev c x yb j x' yb' m') = true
  else forall x', x' < nx -> exists yb', yb' < ny /\
         rho (ev c x yb j x' yb' m') = true.

Definition NB (rho : bdd) : Prop := exists m', m' < G /\ NBm m' rho.

Lemma NBm_mono m' (r1 r2 : bdd) :
  (forall x' yb', x' < nx -> yb' < ny ->
     r1 (ev c x yb j x' yb' m') = true -> r2 (ev c x yb j x' yb' m') = true) ->
  NBm m' r1 -> NBm m' r2.
Proof.
  unfold NBm. intros H. destruct moore.
  - intros [yb' [H1 H3]]. exists yb'. split; auto.
  - intros H0 x' Hx'. destruct (H0 x' Hx') as [yb' [H1 H3]].
    exists yb'. split; auto.
Qed.

Lemma jG : j < G.
Proof. lia. Qed.

Lemma bv_prime x' yb' m' : m' < G ->
  bv G (mkV c x' (yb' * G + m') x' (yb' * G + m')) = mkV c x' yb' x' yb'.
Proof.
  intros Hm. unfold bv. cbn [vc vx vy vxp vyp].
  rewrite !Nat.div_add_l by lia. rewrite !Nat.div_small by lia. f_equal; lia.
Qed.

(* core: from cpre T0 at the state, a step of [ca T e] exists, with the chosen
   next memory m', provided T contains T0 (read in the extended arena) and e
   holds at the steps that reach T0 *)
Lemma core (T0 T : bdd) (e : option bdd) m' :
  m' < G ->
  cp T0 (sv c x yb) = true ->
  (forall x' yb', x' < nx -> yb' < ny ->
     T0 (mkV c x' yb' x' yb') = true ->
     T (mkV c x' (yb' * G + m') x' (yb' * G + m')) = true /\
     match e with Some e => e (ev c x yb j x' yb' m') = true | None => True end) ->
  NBm m' (fun w => ca T e w).
Proof.
  intros Hm Hcp HT. unfold NBm.
  assert (Hpsi : forall x' yb', x' < nx -> yb' < ny ->
            psi E S plus_one T0 None (mkV c x yb x' yb') = true ->
            psi EL SL plus_one T e (ev c x yb j x' yb' m') = true).
  { intros x' yb' Hx' Hyb' Hb. rewrite psi_unfold in *.
    rewrite !lift_spec, (bv_ev G HG) by (try exact jG; exact Hm).
    cbn [vc vx vy vxp vyp StreettNB2.ev] in *. rewrite andb_true_r in Hb.
    revert Hb. apply psi_t_mono. intros H0.
    destruct (HT x' yb' Hx' Hyb' H0) as [H1 H2]. rewrite H1.
    destruct e as [e0|]; [exact H2|reflexivity]. }
  destruct moore eqn:Em.
  - destruct (cpre_ca_moore nx ny E S plus_one T0 (sv c x yb) Hcp) as [yb' [Hyb' Hall]].
    exists yb'. split; [exact Hyb'|]. intros x' Hx'.
    rewrite ca_is_spec. unfold ca_spec. apply forallb_forall. intros x'' Hx''.
    apply in_seq in Hx''.
    change (setg Envp (ev c x yb j x' yb' m') x'') with (ev c x yb j x'' yb' m').
    apply Hpsi; [lia|exact Hyb'|]. apply (Hall x''). lia.
  - intros x' Hx'.
    destruct (cpre_ca_mealy nx ny E S plus_one T0 (sv c x yb) Hcp x' Hx') as [yb' [Hyb' Hb]].
    exists yb'. split; [exact Hyb'|].
    rewrite ca_is_spec. unfold ca_spec. apply Hpsi; assumption.
Qed.


(* ---- hypotheses about the iterates of goal j ---------------------------- *)
Variables (R : bdd) (yj : list bdd) (xjk : list (list bdd)).
Hypothesis Hg : nth_error goals j = Some R.
Hypothesis Hyj : nth_error yij j = Some yj.
Hypothesis Hxj : nth_error xijk j = Some xjk.
Variable gl : bdd.
Hypothesis Hon : onion nc nx ny E S moore plus_one holds gl bfalse yj xjk.
Hypothesis Hgl : forall s, inr nc nx ny s -> gl s = true -> R s = true /\ cp z s = true.
Hypothesis Hzl : forall s, z s = true -> last yj bfalse s = true.
Hypothesis Sz : spred z.
Hypothesis SR : spred R.
Hypothesis Sy : Forall spred yj.
Hypothesis Sx : Forall (Forall spred) xjk.
Hypothesis Sh : Forall spred holds.
Hypothesis Hz : z (sv c x yb) = true.

Local Notation s0 := (sv c x yb).

(* a lifted state predicate at any step from the state = its value at s0 *)
Lemma lift_at u x' yb' m' : spred u -> m' < G -> L u (ev c x yb j x' yb' m') = u s0.
Proof.
  intros Hu Hm. rewrite lift_spec, (bv_ev G HG) by (try exact jG; exact Hm).
  rewrite Hu. reflexivity.
Qed.

Lemma lift_prime u x' yb' m' : m' < G ->
  L u (mkV c x' (yb' * G + m') x' (yb' * G + m')) = u (mkV c x' yb' x' yb').
Proof. intros Hm. rewrite lift_spec, bv_prime by exact Hm. reflexivity. Qed.

Lemma combine_map_lift (xk hs : list bdd) :
  combine (map L xk) (map L hs) = map (fun p => (L (fst p), L (snd p))) (combine xk hs).
Proof.
  revert hs. induction xk as [|a xk IH]; intros hs; [reflexivity|].
  destruct hs as [|h hs]; [reflexivity|]. cbn [map combine fst snd]. rewrite IH. reflexivity.
Qed.

Lemma flat3_lift (l : list (list bdd)) :
  flat3 (map L holds) (map (map L) l) =
  map (fun p => (L (fst p), L (snd p))) (flat holds l).
Proof.
  unfold flat3, flat. induction l as [|xk r IH]; cbn [map concat]; [reflexivity|].
  rewrite map_app, IH, combine_map_lift. reflexivity.
Qed.

Lemma spred_flat p : In p (flat holds xjk) -> spred (fst p).
Proof.
  unfold flat. rewrite in_concat. intros [l [Hl Hp]]. apply in_map_iff in Hl.
  destruct Hl as [xk [<- Hxk]]. destruct p as [a b]. apply in_combine_l in Hp.
  rewrite Forall_forall in Sx. specialize (Sx xk Hxk). rewrite Forall_forall in Sx.
  apply Sx, Hp.
Qed.

Lemma count_jj x' yb' : count_eq nc nx ny G j j (ev c x yb j x' yb' j) = true.
Proof.
  unfold count_eq. rewrite memo_id, (cnt_ev G HG), (cntp_ev G HG) by exact jG.
  rewrite !Nat.eqb_refl. reflexivity.
Qed.

Lemma basin_of_keeps l : forall b w, b w = true -> basin_of nc nx ny G b l w = true.
Proof.
  induction l as [|a l IH]; intros b w Hb; cbn [basin_of fold_left]; [exact Hb|].
  apply IH. rewrite bor_spec, Hb. reflexivity.
Qed.

Lemma basin_of_ge l : forall y0 y1 w,
  In y1 (y0 :: l) -> y1 w = true -> basin_of nc nx ny G y0 l w = true.
Proof.
  induction l as [|a l IH]; intros y0 y1 w Hin Hy1.
  - destruct Hin as [Heq|Hin]; [|destruct Hin]. subst y1. exact Hy1.
  - cbn [basin_of fold_left]. destruct Hin as [Heq|[Heq|Hin]].
    + subst y1. apply basin_of_keeps. rewrite bor_spec, Hy1. reflexivity.
    + subst y1. apply basin_of_keeps. rewrite bor_spec, Hy1. apply orb_true_r.
    + apply (IH (Arena.bor nc nx nyE y0 a) y1 w); [right; exact Hin|exact Hy1].
Qed.

Local Notation lf := (fun p : bdd * bdd => (L (fst p), L (snd p))).
Local Notation R123 := (fun w =>
  rho_1 nc nx ny G EL SL goalsL moore plus_one (L z) w ||
  rho_2 nc nx ny G EL SL moore plus_one yijL w ||
  rho_3 nc nx ny G EL SL holdsL moore plus_one xijkL w).

Lemma spred_yj y : In y yj -> spred y.
Proof. rewrite Forall_forall in Sy. apply Sy. Qed.

(* C: stay in a persistence trap *)
Lemma case_C f1 x1 P f2 :
  flat holds xjk = f1 ++ (x1, P) :: f2 -> x1 s0 = true ->
  (forall p, In p f1 -> fst p s0 = false) -> In P holds ->
  P s0 = true -> cp x1 s0 = true -> NBm j R123.
Proof.
  intros H4 H5 H6 H7 HP Hcx.
  assert (Sx1 : spred x1) by (apply (spred_flat (x1, P)); rewrite H4; apply in_elt).
  assert (SP : spred P) by (rewrite Forall_forall in Sh; apply Sh, H7).
  apply (NBm_mono j (fun w => ca (L x1) None w)).
  - intros x' yb' Hx' Hyb' Hca. apply orb_true_iff. right.
    apply (rho_3_member nc nx ny G EL SL holdsL moore plus_one xijkL j
             (map (map L) xjk) (map lf f1) (L x1) (L P) (map lf f2)).
    + rewrite (map_nth_error _ _ _ Hxj). reflexivity.
    + rewrite flat3_lift, H4, map_app. reflexivity.
    + rewrite (lift_at x1 x' yb' j Sx1 jG). exact H5.
    + apply used_of_false; [reflexivity|]. intros p Hp. apply in_map_iff in Hp.
      destruct Hp as [p0 [<- Hp0]]. cbn [fst].
      rewrite (lift_at (fst p0) x' yb' j); [apply H6, Hp0| |exact jG].
      apply spred_flat. rewrite H4. apply in_or_app. left. exact Hp0.
    + exact Hca.
    + rewrite (lift_at P x' yb' j SP jG). exact HP.
    + apply count_jj.
  - apply (core x1 (L x1) None j jG Hcx). intros x' yb' Hx' Hyb' Hx1.
    split; [|exact I]. rewrite (lift_prime x1 x' yb' j jG). exact Hx1.
Qed.

(* A: the goal is reached; switch to the next goal *)
Lemma case_A : R s0 = true -> cp z s0 = true -> NB R123.
Proof.
  intros HR Hcz.
  assert (Hn0 : 0 < n) by lia.
  set (m' := (j + 1) mod n).
  assert (Hm'n : m' < n) by (apply Nat.mod_upper_bound; lia).
  assert (Hm' : m' < G) by lia.
  exists m'. split; [exact Hm'|].
  apply (NBm_mono m' (fun w => rho_1 nc nx ny G EL SL goalsL moore plus_one (L z) w)).
  - intros x' yb' _ _ H. rewrite H. reflexivity.
  - unfold rho_1. cbv zeta. apply (core z (L z) _ m' Hm' Hcz).
    intros x' yb' Hx' Hyb' Hzp. split; [rewrite (lift_prime z x' yb' m' Hm'); exact Hzp|].
    apply (outer_member nc nx ny G
             (fun i goal => Arena.band nc nx nyE
                (count_eq nc nx ny G i ((i + 1) mod length goalsL)) goal)
             goalsL 0 bfalse j (L R)).
    + rewrite (map_nth_error _ _ _ Hg). reflexivity.
    + cbn [Nat.add]. rewrite band_spec, andb_true_iff. split.
      * unfold count_eq. rewrite memo_id, map_length.
        rewrite (cnt_ev G HG) by exact jG. rewrite (cntp_ev G HG) by exact Hm'.
        fold m'. rewrite !Nat.eqb_refl. reflexivity.
      * rewrite (lift_at R x' yb' m' SR Hm'). exact HR.
Qed.

(* B: descend to the previous layer (or the environment is stuck) *)
Lemma case_B ys1 y ys2 :
  yj = ys1 ++ y :: ys2 -> y s0 = true -> (forall y1, In y1 ys1 -> y1 s0 = false) ->
  cp (prev_layer bfalse ys1) s0 = true -> NB R123.
Proof.
  intros H1 H2 H3 HB. destruct ys1 as [|y0 ys1'].
  - (* first layer: cpre of the empty set *)
    exists 0. split; [exact HG|].
    apply (NBm_mono 0 (fun w => rho_1 nc nx ny G EL SL goalsL moore plus_one (L z) w)).
    + intros x' yb' _ _ H. rewrite H. reflexivity.
    + unfold rho_1. cbv zeta. unfold prev_layer in HB. cbn [last] in HB.
      apply (core bfalse (L z) _ 0 HG HB). intros x' yb' _ _ Hf. discriminate Hf.
  - exists j. split; [exact jG|].
    set (T0 := prev_layer bfalse (y0 :: ys1')) in *.
    assert (HT0 : In T0 (y0 :: ys1')).
    { unfold T0, prev_layer. clear. generalize y0. induction ys1' as [|a l IH]; intros b.
      - left. reflexivity.
      - right. change (last (b :: a :: l) bfalse) with (last (a :: l) bfalse). apply IH. }
    assert (Syy : spred y) by (apply spred_yj; rewrite H1; apply in_elt).
    apply (NBm_mono j (fun w => ca (basin_of nc nx ny G (L y0) (map L ys1')) None w)).
    + intros x' yb' Hx' Hyb' Hca. apply orb_true_iff. left. apply orb_true_iff. right.
      apply (rho_2_member nc nx ny G EL SL moore plus_one yijL j (map L yj)
               (map L ys1') (L y) (map L ys2)).
      * rewrite (map_nth_error _ _ _ Hyj). reflexivity.
      * rewrite H1. cbn [app map tl]. rewrite map_app. reflexivity.
      * rewrite (lift_at y x' yb' j Syy jG). exact H2.
      * rewrite H1. cbn [app map hd]. apply basin_of_false.
        -- rewrite (lift_at y0 x' yb' j); [apply H3; left; reflexivity| |exact jG].
           apply spred_yj. rewrite H1. left. reflexivity.
        -- intros yy Hyy. apply in_map_iff in Hyy. destruct Hyy as [y1 [<- Hy1]].
           rewrite (lift_at y1 x' yb' j); [apply H3; right; exact Hy1| |exact jG].
           apply spred_yj. rewrite H1. apply in_or_app. left. right. exact Hy1.
      * rewrite H1. cbn [app map hd]. exact Hca.
      * apply count_jj.
    + apply (core T0 _ None j jG HB). intros x' yb' Hx' Hyb' HT. split; [|exact I].
      apply (basin_of_ge (map L ys1') (L y0) (L T0)).
      * change (L y0 :: map L ys1') with (map L (y0 :: ys1')). apply in_map, HT0.
      * rewrite (lift_prime T0 x' yb' j jG). exact HT.
Qed.

(* the step exists in rho_1 \/ rho_2 \/ rho_3 *)
Theorem rho_nonblocking : NB R123.
Proof.
  assert (Hs0 : inr nc nx ny s0).
  { unfold inr, in_range, sv. cbn [vc vx vy vxp vyp].
    repeat rewrite andb_true_iff. repeat rewrite Nat.ltb_lt. lia. }
  destruct (onion_find nc nx ny E S moore plus_one holds gl bfalse yj xjk s0 Hon Hs0
              eq_refl (Hzl s0 Hz))
    as [ys1 [y [ys2 [f1 [x1 [P [f2 [H1 [H2 [H3 [H4 [H5 [H6 [H7 H8]]]]]]]]]]]]]].
  apply orb_true_iff in H8. destruct H8 as [H8|HA].
  - apply orb_true_iff in H8. destruct H8 as [HC|HB].
    + apply andb_true_iff in HC. destruct HC as [HP Hcx].
      exists j. split; [exact jG|]. apply (case_C f1 x1 P f2); assumption.
    + apply (case_B ys1 y ys2); assumption.
  - destruct (Hgl s0 Hs0 HA) as [HR Hcz]. apply case_A; assumption.
Qed.


(* ... hence in the synthesized action *)
Theorem action_nonblocking : NB (fun w => A w).
Proof.
  destruct rho_nonblocking as [m' [Hm' Hnb]]. exists m'. split; [exact Hm'|].
  assert (Hlim : forall x' yb',
    memo nc nx nyE (fun v => Nat.leb (cnt G v) (length goalsL - 1)) (ev c x yb j x' yb' m') = true).
  { intros x' yb'. rewrite memo_id, (cnt_ev G HG) by exact jG. rewrite map_length.
    apply Nat.leb_le. lia. }
  assert (Hu0 : forall x' yb',
    R123 (ev c x yb j x' yb' m') = true ->
    Arena.band nc nx nyE
      (Arena.bor nc nx nyE
         (Arena.bor nc nx nyE (rho_1 nc nx ny G EL SL goalsL moore plus_one (L z))
                              (rho_2 nc nx ny G EL SL moore plus_one yijL))
         (rho_3 nc nx ny G EL SL holdsL moore plus_one xijkL))
      (memo nc nx nyE (fun v => Nat.leb (cnt G v) (length goalsL - 1)))
      (ev c x yb j x' yb' m') = true).
  { intros x' yb' H. rewrite band_spec, !bor_spec, Hlim, andb_true_r. exact H. }
  unfold streett_action. cbv zeta. unfold NBm in *.
  destruct plus_one eqn:Ep; cbn [negb].
  - destruct moore eqn:Em.
    + destruct Hnb as [yb' [Hyb' Hall]]. exists yb'. split; [exact Hyb'|].
      intros x' Hx'. apply Hu0, Hall, Hx'.
    + intros x' Hx'. destruct (Hnb x' Hx') as [yb' [Hyb' H]]. exists yb'.
      split; [exact Hyb'|]. apply Hu0, H.
  - destruct moore eqn:Em.
    + destruct Hnb as [yb' [Hyb' Hall]]. exists yb'. split; [exact Hyb'|].
      intros x' Hx'. rewrite forall_spec. cbn [forall_raw dom].
      apply forallb_forall. intros x'' Hx''. apply in_seq in Hx''.
      change (setg Envp (ev c x yb j x' yb' m') x'') with (ev c x yb j x'' yb' m').
      rewrite bor_spec, (Hu0 x'' yb' (Hall x'' ltac:(lia))). reflexivity.
    + intros x' Hx'. destruct (Hnb x' Hx') as [yb' [Hyb' H]]. exists yb'.
      split; [exact Hyb'|]. rewrite bor_spec, (Hu0 x' yb' H). reflexivity.
Qed.

End NB4.
