"""Helpers of the C17 check: contexts on 2 back ends x 2 prefix translators,
random formulas and operation sequences, Gallina literals for the model
(theories/L3History)."""
import gc
import logging

logging.disable(logging.CRITICAL)

import dd.autoref as _autoref  # noqa: E402
import dd.cudd as _cudd  # noqa: E402
import omega.logic.bitvector as bv  # noqa: E402
import omega.symbolic.bdd as sym_bdd  # noqa: E402
import omega.symbolic.bdd_iterative as sym_iter  # noqa: E402
import omega.symbolic.fol as _fol  # noqa: E402
import omega.symbolic.temporal as trl  # noqa: E402

from vlib import games  # noqa: E402
from vlib import steps_sim as S  # noqa: E402

BACKENDS = dict(autoref=_autoref, cudd=_cudd)
CONFIGS = [(b, t) for b in ('autoref', 'cudd')
           for t in ('recursive', 'iterative')]


def make_context(backend, translator, automaton):
    base = trl.Automaton if automaton else _fol.Context
    if translator == 'iterative':
        class Ctx(base):
            def add_expr(self, expr, with_ops=False):
                defs = self.op if with_ops else None
                s = bv.bitblast(expr, vrs=self.vars, defs=defs)
                assert isinstance(s, str), s
                if '@' in s:
                    # node references are outside the language of the
                    # iterative translator (it rejects the token `@`);
                    # omega's own `to_expr` builds such strings
                    return sym_bdd.add_expr(s, self.bdd)
                return sym_iter.add_expr(s, self.bdd)
    else:
        Ctx = base
    c = Ctx()
    c.bdd = BACKENDS[backend].BDD()
    return c


def collect(ctx, backend):
    gc.collect()
    if hasattr(ctx.bdd, 'collect_garbage'):
        ctx.bdd.collect_garbage()


def reorder(ctx, backend):
    if len(ctx.bdd.vars) > 1:
        BACKENDS[backend].reorder(ctx.bdd)


# ---------------------------------------------------------------- formulas
HINTS = ['bool', (0, 3), (-2, 1), (0, 1), (0, 2), (-4, -1), (1, 3), (0, 7)]
CMPS = [('Lt', '<'), ('Le', '<='), ('Eq', '='), ('Ne', '#'), ('Ge', '>='),
        ('Gt', '>')]


def rand_term(rng, ints, depth):
    if depth <= 0 or rng.random() < 0.5 or not ints:
        if ints and rng.random() < 0.7:
            return ('var', rng.choice(ints))
        return ('const', rng.randint(-3, 5))
    op = rng.choice(['add', 'sub'])
    return (op, rand_term(rng, ints, depth - 1), rand_term(rng, ints, depth - 1))


def rand_form(rng, ints, bools, depth):
    """Random formula over declared integer / Boolean identifiers."""
    r = rng.random()
    if depth <= 0 or r < 0.3:
        k = rng.random()
        if bools and k < 0.25:
            return ('bool', rng.choice(bools))
        if k < 0.32:
            return rng.choice([('true',), ('false',)])
        if ints and k < 0.45:
            lo = rng.randint(-3, 3)
            # `e \in a..b` is accepted only for a variable e
            return ('in', ('var', rng.choice(ints)), lo,
                    lo + rng.randint(0, 4))
        if not ints:
            return ('bool', rng.choice(bools)) if bools else ('true',)
        c = rng.choice(CMPS)[0]
        return ('cmp', c, rand_term(rng, ints, 1), rand_term(rng, ints, 1))
    if r < 0.4:
        return ('not', rand_form(rng, ints, bools, depth - 1))
    if r < 0.8:
        op = rng.choice(['and', 'or', 'imp', 'iff'])
        return (op, rand_form(rng, ints, bools, depth - 1),
                rand_form(rng, ints, bools, depth - 1))
    if r < 0.88:
        return ('ite', rand_form(rng, ints, bools, depth - 1),
                rand_form(rng, ints, bools, depth - 1),
                rand_form(rng, ints, bools, depth - 1))
    q = rng.choice(['ex', 'all'])
    x = rng.choice(ints + bools)
    return (q, x, rand_form(rng, ints, bools, depth - 1))


def tvars(t):
    k = t[0]
    if k == 'var':
        return [t[1]]
    if k == 'const':
        return []
    return tvars(t[1]) + tvars(t[2])


def fvars(f):
    """Identifiers a formula can depend on (as in History.v)."""
    k = f[0]
    if k in ('true', 'false'):
        return []
    if k == 'bool':
        return [f[1]]
    if k == 'cmp':
        return tvars(f[2]) + tvars(f[3])
    if k == 'in':
        return tvars(f[1])
    if k == 'not':
        return fvars(f[1])
    if k in ('and', 'or', 'imp', 'iff'):
        return fvars(f[1]) + fvars(f[2])
    if k == 'ite':
        return fvars(f[1]) + fvars(f[2]) + fvars(f[3])
    return [x for x in fvars(f[2]) if x != f[1]]


def render_term(t):
    k = t[0]
    if k == 'var':
        return t[1]
    if k == 'const':
        return str(t[1]) if t[1] >= 0 else f'(0 - {-t[1]})'
    op = '+' if k == 'add' else '-'
    return f'({render_term(t[1])} {op} {render_term(t[2])})'


def render(f):
    """Formula in omega's input syntax."""
    k = f[0]
    if k == 'true':
        return 'TRUE'
    if k == 'false':
        return 'FALSE'
    if k == 'bool':
        return f[1]
    if k == 'cmp':
        op = dict(CMPS)[f[1]]
        return f'({render_term(f[2])} {op} {render_term(f[3])})'
    if k == 'in':
        lo = str(f[2]) if f[2] >= 0 else f'-{-f[2]}'
        hi = str(f[3]) if f[3] >= 0 else f'-{-f[3]}'
        return f'({render_term(f[1])} \\in {lo}..{hi})'
    if k == 'not':
        return f'(~ {render(f[1])})'
    if k in ('and', 'or', 'imp', 'iff'):
        op = {'and': '/\\', 'or': '\\/', 'imp': '=>', 'iff': '<=>'}[k]
        return f'({render(f[1])} {op} {render(f[2])})'
    if k == 'ite':
        return f'(IF {render(f[1])} THEN {render(f[2])} ELSE {render(f[3])})'
    if k in ('ex', 'all'):
        q = '\\E' if k == 'ex' else '\\A'
        return f'({q} {f[1]}: {render(f[2])})'
    raise ValueError(f)


def coq_term(t):
    k = t[0]
    if k == 'var':
        return f'(TVar {S.qs(t[1])})'
    if k == 'const':
        return f'(TConst {S.zlit(t[1])})'
    c = 'TAdd' if k == 'add' else 'TSub'
    return f'({c} {coq_term(t[1])} {coq_term(t[2])})'


def coq_form(f):
    k = f[0]
    if k == 'true':
        return 'FTrue'
    if k == 'false':
        return 'FFalse'
    if k == 'bool':
        return f'(FBool {S.qs(f[1])})'
    if k == 'cmp':
        return f'(FCmp {f[1]} {coq_term(f[2])} {coq_term(f[3])})'
    if k == 'in':
        return f'(FIn {coq_term(f[1])} {S.zlit(f[2])} {S.zlit(f[3])})'
    if k == 'not':
        return f'(FNot {coq_form(f[1])})'
    if k in ('and', 'or', 'imp', 'iff'):
        c = {'and': 'FAnd', 'or': 'FOr', 'imp': 'FImp', 'iff': 'FIff'}[k]
        return f'({c} {coq_form(f[1])} {coq_form(f[2])})'
    if k == 'ite':
        return (f'(FIte {coq_form(f[1])} {coq_form(f[2])} '
                f'{coq_form(f[3])})')
    c = 'FEx' if k == 'ex' else 'FAll'
    return f'({c} {S.qs(f[1])} {coq_form(f[2])})'


def hint_lit(h):
    if h == 'bool':
        return 'HBool'
    return f'(HInt {S.zlit(h[0])} {S.zlit(h[1])})'


def vdecl_lit(name, hint, vals):
    return ('{| vd_name := ' + S.qs(name) + '; vd_hint := ' + hint_lit(hint)
            + '; vd_vals := [' + '; '.join(S.zlit(v) for v in vals) + '] |}')


def is_aux(name):
    return name.endswith("'") or (
        len(name) > 2 and name[0] in 'abuv' and name[1] == '_')


# ------------------------------------------------------------ prefix tokens
TOKSTR = {'not': '!', 'and': '&', 'or': '|', 'xor': '^', 'forall': '\\A',
          'exists': '\\E', 'rename': '\\S', 'dollar': '$', 'question': '?',
          'at': '@'}
TOKCOQ = {'not': 'TNot', 'and': '(TBin And)', 'or': '(TBin Or)',
          'xor': '(TBin Xor)', 'forall': '(TBin Forall)',
          'exists': '(TBin Exists)', 'rename': '(TBin Rename)',
          'dollar': 'TDollar', 'question': 'TQuestion', 'at': 'TAt'}


def tok_str(toks):
    out = []
    for t in toks:
        if isinstance(t, tuple):
            out.append(str(t[1]))
        else:
            out.append(TOKSTR[t])
    return ' '.join(out)


def tok_coq(toks):
    out = []
    for t in toks:
        if isinstance(t, tuple):
            if t[0] == 'name':
                out.append(f'TName {S.qs(t[1])}')
            else:
                out.append(f'TNum (Some {S.zlit(t[1])})')
        else:
            out.append(TOKCOQ[t])
    return '[' + '; '.join(out) + ']'


def rand_cube(rng, names):
    k = rng.choice([1, 1, 2, 3])
    vs = rng.sample(names, min(k, len(names)))
    toks = []
    for v in vs[:-1]:
        toks += ['and', ('name', v)]
    toks.append(('name', vs[-1]))
    if rng.random() < 0.1:
        toks = ['and', ('num', 1)] + toks
    return toks


def rand_prefix(rng, names, depth, nmem):
    """Well-formed prefix expression as a token list; nmem = number of
    registers that may be referenced (None outside a buffer)."""
    r = rng.random()
    if depth <= 0 or r < 0.25:
        k = rng.random()
        if nmem and k < 0.35:
            return ['question', ('num', rng.randrange(nmem))]
        if k < 0.45:
            return [('num', rng.choice([0, 1]))]
        return [('name', rng.choice(names))]
    if r < 0.4:
        return ['not'] + rand_prefix(rng, names, depth - 1, nmem)
    if r < 0.72:
        op = rng.choice(['and', 'or', 'xor'])
        return [op] + rand_prefix(rng, names, depth - 1, nmem) + \
            rand_prefix(rng, names, depth - 1, nmem)
    if r < 0.84:
        q = rng.choice(['forall', 'exists'])
        return [q] + rand_cube(rng, names) + \
            rand_prefix(rng, names, depth - 1, nmem)
    n = rng.randint(1, 3)
    toks = ['dollar', ('num', n)]
    for i in range(n):
        toks += rand_prefix(rng, names, depth - 1, i)
    return toks


QUANT = ('forall', 'exists')


def mutate_prefix(rng, toks, names):
    """Ill-formed variants: drop / duplicate / replace a token.  Quantifier
    tokens are neither introduced nor moved next to non-cubes (dd.cudd
    accepts only positive cubes there)."""
    toks = [t for t in toks]
    if any(t in QUANT for t in toks):
        return None
    k = rng.choice(['drop', 'dup', 'replace', 'append', 'regidx', 'count'])
    i = rng.randrange(len(toks))
    pool = ['not', 'and', 'or', 'xor', 'dollar', 'question',
            ('name', rng.choice(names)), ('name', 'undeclared'),
            ('num', 0), ('num', 1), ('num', 2), ('num', 3)]
    if k == 'drop' and len(toks) > 1:
        del toks[i]
    elif k == 'dup':
        toks.insert(i, toks[i])
    elif k == 'replace':
        toks[i] = rng.choice(pool)
    elif k == 'append':
        toks.append(rng.choice(pool))
    elif k == 'regidx':
        js = [j for j, t in enumerate(toks) if t == 'question']
        if not js:
            return None
        j = rng.choice(js)
        if j + 1 < len(toks) and isinstance(toks[j + 1], tuple) \
                and toks[j + 1][0] == 'num':
            toks[j + 1] = ('num', toks[j + 1][1] + rng.choice([1, 2, -1]))
    else:
        js = [j for j, t in enumerate(toks) if t == 'dollar']
        if not js:
            return None
        j = rng.choice(js)
        if j + 1 < len(toks) and isinstance(toks[j + 1], tuple) \
                and toks[j + 1][0] == 'num':
            toks[j + 1] = ('num', max(0, toks[j + 1][1]
                                      + rng.choice([1, -1])))
    # integers other than 0/1 may stand only after `$` and `?`
    for j, t in enumerate(toks):
        if isinstance(t, tuple) and t[0] == 'num' and t[1] not in (0, 1):
            if j == 0 or toks[j - 1] not in ('dollar', 'question'):
                return None
    return toks


def bit_table(bdd, u, names):
    import itertools
    out = []
    for vals in itertools.product([False, True], repeat=len(names)):
        out.append(bdd.let(dict(zip(names, vals)), u) == bdd.true)
    return out
