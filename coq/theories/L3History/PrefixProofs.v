(* parsers_agree: the recursive and the iterative prefix translator give the
   same result (a node, or rejection) on every token list without `@`.

   Method: a big-step relation [P] ("the tokens parse to a tree whose leaves
   are evaluated") is the specification of a well-formed prefix string; each
   translator is shown sound and, with the fuel its entry point supplies,
   complete for it. *)
From Coq Require Import List Bool String ZArith Lia.
From Omega Require Import L3History.Prefix.
Import ListNotations.

Section Agree.
Variable D : Type.
Variable dtrue dfalse : D.
Variable var : string -> option D.
Variable node : Z -> option D.
Variable ap1 : D -> option D.
Variable ap2 : binop -> D -> D -> option D.
Variable ren : list D -> D -> option D.

Local Notation num := (num D dtrue dfalse node).
Local Notation reg := (reg D).
Local Notation flatten := (flatten D dtrue dfalse var node ap1 ap2 ren).
Local Notation fill_with := (fill_with D).
Local Notation last_opt := (last_opt D).
Local Notation sitem := (sitem D).
Local Notation SVal := (SVal D).
Local Notation SOp1 := (SOp1 D).
Local Notation SOp2 := (SOp2 D).
Local Notation is_op := (is_op D).
Local Notation split_last := (split_last D).
Local Notation rstep := (rstep D ap1 ap2).
Local Notation reduce_n := (reduce_n D ap1 ap2).
Local Notation reduce := (reduce D ap1 ap2).
Local Notation increase := (increase D dtrue dfalse var node ap1 ap2).
Local Notation loop := (loop D dtrue dfalse var node ap1 ap2).
Local Notation fill := (fill D dtrue dfalse var node ap1 ap2).

(* --------------------------------------------------------- specification *)
(* trees with evaluated leaves *)
Inductive sx := XV (d : D) | X1 (x : sx) | X2 (op : binop) (x y : sx).

Fixpoint xeval (x : sx) : option D :=
  match x with
  | XV d => Some d
  | X1 x => obind (xeval x) ap1
  | X2 op x y => obind (xeval x) (fun u => obind (xeval y) (fun v => ap2 op u v))
  end.

Inductive P : option (list D) -> list tok -> sx -> list tok -> Prop :=
| P_name : forall mem s r v, var s = Some v -> P mem (TName s :: r) (XV v) r
| P_num : forall mem z r v, num z = Some v -> P mem (TNum z :: r) (XV v) r
| P_reg : forall mem z r v, reg mem z = Some v ->
    P mem (TQuestion :: TNum z :: r) (XV v) r
| P_buf : forall mem z r n m r1 v,
    count z r = Some n -> Pfill n [] r m r1 -> last_opt m = Some v ->
    P mem (TDollar :: TNum z :: r) (XV v) r1
| P_not : forall mem r x r1, P mem r x r1 -> P mem (TNot :: r) (X1 x) r1
| P_bin : forall mem op r x r1 y r2,
    P mem r x r1 -> P mem r1 y r2 -> P mem (TBin op :: r) (X2 op x y) r2
with Pfill : nat -> list D -> list tok -> list D -> list tok -> Prop :=
| Pfill_0 : forall m toks, Pfill 0 m toks m toks
| Pfill_S : forall n m toks x r1 s m' rest,
    P (Some m) toks x r1 -> xeval x = Some s ->
    Pfill n (m ++ [s]) r1 m' rest -> Pfill (S n) m toks m' rest.

Scheme P_ind2 := Minimality for P Sort Prop
  with Pfill_ind2 := Minimality for Pfill Sort Prop.
Combined Scheme P_Pfill_ind from P_ind2, Pfill_ind2.

(* [E mem toks v rest]: a well-formed prefix expression at the head of the
   tokens denotes v *)
Definition E mem toks v rest := exists x, P mem toks x rest /\ xeval x = Some v.

Lemma P_shorter :
  (forall mem toks x rest, P mem toks x rest -> List.length rest < List.length toks) /\
  (forall n m toks m' rest, Pfill n m toks m' rest -> List.length rest <= List.length toks).
Proof. apply P_Pfill_ind; intros; simpl in *; lia. Qed.

(* -------------------------------------------------------------- _reduce *)
Fixpoint ser (x : sx) : list sitem :=
  match x with
  | XV d => [SVal d]
  | X1 x => SOp1 :: ser x
  | X2 op x y => SOp2 op :: ser x ++ ser y
  end.

Fixpoint ops (x : sx) : nat :=
  match x with
  | XV _ => 0
  | X1 x => S (ops x)
  | X2 _ x y => S (ops x + ops y)
  end.

Definition all_vals (s : list sitem) : Prop := forall t, In t s -> is_op t = false.

Lemma split_last_vals : forall a, all_vals a -> split_last a = None.
Proof.
  induction a as [|t a IH]; intros H; simpl; [reflexivity|].
  rewrite IH by (intros x Hx; apply H; right; exact Hx).
  rewrite (H t) by (left; reflexivity). reflexivity.
Qed.

Lemma split_last_app : forall b o a,
  is_op o = true -> all_vals a -> split_last (b ++ o :: a) = Some (b, o, a).
Proof.
  induction b as [|t b IH]; intros o a Ho Ha; simpl.
  - rewrite split_last_vals by exact Ha. rewrite Ho. reflexivity.
  - rewrite IH by assumption. reflexivity.
Qed.

Lemma reduce_n_long : forall n t1 t2 s,
  reduce_n (S n) (t1 :: t2 :: s) = obind (rstep (t1 :: t2 :: s)) (reduce_n n).
Proof. intros. simpl. destruct t1; reflexivity. Qed.

Lemma long_shape : forall (pre : list sitem) a b post,
  exists t1 t2 s, pre ++ a :: b :: post = t1 :: t2 :: s.
Proof.
  intros [|p [|q pre]] a b post; simpl; eauto.
Qed.

Lemma rstep_op1 : forall pre u post r,
  all_vals post -> ap1 u = Some r ->
  rstep (pre ++ SOp1 :: SVal u :: post) = Some (pre ++ SVal r :: post).
Proof.
  intros pre u post r Hp A. unfold Prefix.rstep.
  rewrite split_last_app; [|reflexivity|].
  - rewrite A. reflexivity.
  - intros t [<-|Ht]; [reflexivity|apply Hp, Ht].
Qed.

Lemma rstep_op1_none : forall pre u post,
  all_vals post -> ap1 u = None ->
  rstep (pre ++ SOp1 :: SVal u :: post) = None.
Proof.
  intros pre u post Hp A. unfold Prefix.rstep.
  rewrite split_last_app; [|reflexivity|].
  - rewrite A. reflexivity.
  - intros t [<-|Ht]; [reflexivity|apply Hp, Ht].
Qed.

Lemma rstep_op2 : forall pre op u v post,
  all_vals post ->
  rstep (pre ++ SOp2 op :: SVal u :: SVal v :: post) =
  obind (ap2 op u v) (fun r => Some (pre ++ SVal r :: post)).
Proof.
  intros pre op u v post Hp. unfold Prefix.rstep.
  rewrite split_last_app; [reflexivity|reflexivity|].
  intros t [<-|[<-|Ht]]; [reflexivity|reflexivity|apply Hp, Ht].
Qed.

Fixpoint nops (s : list sitem) : nat :=
  match s with
  | [] => 0
  | t :: s' => (if is_op t then 1 else 0) + nops s'
  end.

Lemma reduce_n_op1 : forall n pre u post,
  all_vals post ->
  reduce_n (S n) (pre ++ SOp1 :: SVal u :: post) =
  obind (ap1 u) (fun r => reduce_n n (pre ++ SVal r :: post)).
Proof.
  intros n pre u post Hp.
  destruct (long_shape pre SOp1 (SVal u) post) as [t1 [t2 [s E0]]].
  rewrite E0, reduce_n_long, <- E0.
  destruct (ap1 u) as [r|] eqn:A.
  - rewrite (rstep_op1 pre u post r Hp A). reflexivity.
  - rewrite (rstep_op1_none pre u post Hp A). reflexivity.
Qed.

Lemma reduce_n_op2 : forall n pre op u v post,
  all_vals post ->
  reduce_n (S n) (pre ++ SOp2 op :: SVal u :: SVal v :: post) =
  obind (ap2 op u v) (fun r => reduce_n n (pre ++ SVal r :: post)).
Proof.
  intros n pre op u v post Hp.
  destruct (long_shape pre (SOp2 op) (SVal u) (SVal v :: post)) as [t1 [t2 [s E0]]].
  rewrite E0, reduce_n_long, <- E0.
  rewrite (rstep_op2 pre op u v post Hp).
  destruct (ap2 op u v); reflexivity.
Qed.

(* reducing a stack that ends in the serialisation of a tree followed by
   values first evaluates the tree *)
Lemma reduce_ser : forall x pre post n,
  all_vals post ->
  reduce_n (ops x + n) (pre ++ ser x ++ post) =
  obind (xeval x) (fun v => reduce_n n (pre ++ SVal v :: post)).
Proof.
  induction x as [d|x IH|op x IHx y IHy]; intros pre post n Hp;
    cbn [ser ops xeval obind app Nat.add].
  - reflexivity.
  - replace (pre ++ SOp1 :: ser x ++ post) with ((pre ++ [SOp1]) ++ ser x ++ post)
      by (rewrite <- app_assoc; reflexivity).
    replace (S (ops x + n)) with (ops x + S n) by lia.
    rewrite IH by exact Hp.
    destruct (xeval x) as [u|]; cbn [obind]; [|reflexivity].
    rewrite <- app_assoc. cbn [app].
    apply reduce_n_op1, Hp.
  - replace (pre ++ SOp2 op :: (ser x ++ ser y) ++ post)
      with (((pre ++ [SOp2 op]) ++ ser x) ++ ser y ++ post)
      by (rewrite <- !app_assoc; reflexivity).
    replace (S (ops x + ops y + n)) with (ops y + (ops x + S n)) by lia.
    rewrite IHy by exact Hp.
    destruct (xeval y) as [v|]; cbn [obind].
    + rewrite <- app_assoc.
      change (ser x ++ SVal v :: post) with (ser x ++ (SVal v :: post)).
      rewrite IHx by (intros t [<-|Ht]; [reflexivity|apply Hp, Ht]).
      destruct (xeval x) as [u|]; cbn [obind]; [|reflexivity].
      rewrite <- app_assoc. cbn [app].
      apply reduce_n_op2, Hp.
    + destruct (xeval x); reflexivity.
Qed.

Lemma length_ser : forall x, ops x <= List.length (ser x).
Proof.
  induction x; simpl; [lia|lia|]. rewrite app_length. lia.
Qed.

Lemma reduce_n_single : forall n v, reduce_n n [SVal v] = Some v.
Proof. intros [|n] v; reflexivity. Qed.

Theorem reduce_ser_one : forall x, reduce (ser x) = xeval x.
Proof.
  intros x. unfold Prefix.reduce.
  assert (L := length_ser x).
  replace (List.length (ser x)) with (ops x + (List.length (ser x) - ops x)) by lia.
  rewrite <- (app_nil_r (ser x)) at 2.
  change (ser x ++ []) with ([] ++ ser x ++ []).
  rewrite reduce_ser by (intros t []).
  destruct (xeval x); simpl; [apply reduce_n_single|reflexivity].
Qed.

(* ------------------------------------------------ the recursive translator *)
(* the back ends have no `rename`, and `apply` knows no operator \S *)
Hypothesis ren_none : forall m u, ren m u = None.
Hypothesis ap2_rename_none : forall u v, ap2 Rename u v = None.

Definition no_at (toks : list tok) : Prop := ~ In TAt toks.

Lemma no_at_suffix : forall pre rest, no_at (pre ++ rest) -> no_at rest.
Proof. intros pre rest H F. apply H, in_or_app. right. exact F. Qed.

Lemma no_at_tl : forall t r, no_at (t :: r) -> no_at r.
Proof. intros t r H F. apply H. right. exact F. Qed.

Lemma parse_suffix : forall f,
  (forall toks a rest, parse f toks = Some (a, rest) -> exists pre, toks = pre ++ rest) /\
  (forall n toks xs rest, parse_many f n toks = Some (xs, rest) -> exists pre, toks = pre ++ rest).
Proof.
  induction f as [|f [IH1 IH2]]; [split; intros; discriminate|].
  split.
  - intros toks a rest H. simpl in H.
    destruct toks as [|t r]; [discriminate|].
    destruct t; simpl in *.
    + destruct (parse f r) as [[x r1]|] eqn:E1; [|discriminate]. simpl in H.
      injection H as <- <-. destruct (IH1 _ _ _ E1) as [p ->]. exists (TNot :: p). reflexivity.
    + destruct (parse f r) as [[x r1]|] eqn:E1; [|discriminate]. simpl in H.
      destruct (parse f r1) as [[y r2]|] eqn:E2; [|discriminate]. simpl in H.
      injection H as <- <-. destruct (IH1 _ _ _ E1) as [p ->]. destruct (IH1 _ _ _ E2) as [q ->].
      exists (TBin op :: p ++ q). simpl. rewrite <- app_assoc. reflexivity.
    + destruct (parse f r) as [[u r1]|] eqn:E1; [|discriminate]. simpl in H.
      destruct u; try discriminate.
      destruct (count z r1) as [n|]; [|discriminate]. simpl in H.
      destruct (parse_many f n r1) as [[mem r2]|] eqn:E2; [|discriminate].
      simpl in H. injection H as <- <-.
      destruct (IH1 _ _ _ E1) as [p ->]. destruct (IH2 _ _ _ _ E2) as [q ->].
      exists (TDollar :: p ++ q). simpl. rewrite <- app_assoc. reflexivity.
    + destruct (parse f r) as [[u r1]|] eqn:E1; [|discriminate]. simpl in H.
      destruct u; try discriminate. injection H as <- <-.
      destruct (IH1 _ _ _ E1) as [p ->]. exists (TQuestion :: p). reflexivity.
    + destruct (IH1 _ _ _ H) as [p ->]. exists (TAt :: p). reflexivity.
    + injection H as <- <-. exists [TName s]. reflexivity.
    + injection H as <- <-. exists [TNum z]. reflexivity.
  - intros n toks xs rest H. simpl in H. destruct n as [|n].
    + injection H as <- <-. exists []. reflexivity.
    + destruct (parse f toks) as [[x r1]|] eqn:E1; [|discriminate]. simpl in H.
      destruct (parse_many f n r1) as [[ys r2]|] eqn:E2; [|discriminate].
      simpl in H. injection H as <- <-.
      destruct (IH1 _ _ _ E1) as [p ->]. destruct (IH2 _ _ _ _ E2) as [q ->].
      exists (p ++ q). rewrite <- app_assoc. reflexivity.
Qed.

(* the operand of `$` and `?` is a number exactly if the next token is one *)
Lemma parse_num : forall f r z r1,
  parse f r = Some (ANum z, r1) -> no_at r -> r = TNum z :: r1.
Proof.
  induction f as [|f IH]; intros r z r1 H NA; [discriminate|].
  simpl in H. destruct r as [|t r]; [discriminate|].
  destruct t; simpl in H.
  - destruct (parse f r) as [[x r2]|]; simpl in H; discriminate.
  - destruct (parse f r) as [[x r2]|]; simpl in H; [|discriminate].
    destruct (parse f r2) as [[y r3]|]; simpl in H; discriminate.
  - destruct (parse f r) as [[u r2]|]; simpl in H; [|discriminate].
    destruct u; try discriminate.
    destruct (count z0 r2); simpl in H; [|discriminate].
    destruct (parse_many f n r2) as [[mm r3]|]; simpl in H; discriminate.
  - destruct (parse f r) as [[u r2]|]; simpl in H; [|discriminate].
    destruct u; discriminate.
  - exfalso. apply NA. left. reflexivity.
  - discriminate.
  - injection H as <- <-. reflexivity.
Qed.

Lemma rec_sound : forall f,
  (forall toks a rest, parse f toks = Some (a, rest) -> no_at toks ->
     forall mem v, flatten mem a = Some v -> E mem toks v rest) /\
  (forall n toks es rest, parse_many f n toks = Some (es, rest) -> no_at toks ->
     forall m m', fill_with flatten es m = Some m' -> Pfill n m toks m' rest).
Proof.
  induction f as [|f [IH1 IH2]]; [split; intros; discriminate|].
  split.
  - intros toks a rest H NA mem v FL. simpl in H.
    destruct toks as [|t r]; [discriminate|].
    assert (NAr : no_at r) by (eapply no_at_tl, NA).
    destruct t; simpl in H.
    + (* NOT *)
      destruct (parse f r) as [[x r1]|] eqn:E1; [|discriminate]. simpl in H.
      injection H as <- <-. simpl in FL.
      destruct (flatten mem x) as [u|] eqn:FX; [|discriminate]. simpl in FL.
      destruct (IH1 _ _ _ E1 NAr mem u FX) as [sx1 [P1 X1']].
      exists (X1 sx1). split; [constructor; exact P1|]. simpl. rewrite X1'. exact FL.
    + (* binary *)
      destruct (parse f r) as [[x r1]|] eqn:E1; [|discriminate]. simpl in H.
      destruct (parse f r1) as [[y r2]|] eqn:E2; [|discriminate]. simpl in H.
      injection H as <- <-.
      assert (NA1 : no_at r1).
      { destruct (proj1 (parse_suffix f) _ _ _ E1) as [pre ->]. eapply no_at_suffix, NAr. }
      assert (GEN : forall u w, flatten mem x = Some u -> flatten mem y = Some w ->
                ap2 op u w = Some v -> E mem (TBin op :: r) v r2).
      { intros u w FX FY A.
        destruct (IH1 _ _ _ E1 NAr mem u FX) as [sx1 [P1 X1']].
        destruct (IH1 _ _ _ E2 NA1 mem w FY) as [sx2 [P2 X2']].
        exists (X2 op sx1 sx2). split; [econstructor; eauto|].
        simpl. rewrite X1', X2'. exact A. }
      destruct op; simpl in FL;
        try (destruct (flatten mem x) as [u|] eqn:FX; [|discriminate]; simpl in FL;
             destruct (flatten mem y) as [w|] eqn:FY; [|discriminate]; simpl in FL;
             eapply GEN; eauto; fail).
      (* \S: the back end has no rename *)
      destruct (flatten mem y) as [w|]; [|discriminate]. simpl in FL.
      destruct x; try discriminate.
      destruct (fill_with flatten mem0 []) as [mm|]; [|discriminate]. simpl in FL.
      destruct mm; [discriminate|]. rewrite ren_none in FL. discriminate.
    + (* $ *)
      destruct (parse f r) as [[u r1]|] eqn:E1; [|discriminate]. simpl in H.
      destruct u; try discriminate.
      apply parse_num in E1; [|exact NAr]. subst r.
      destruct (count z r1) as [n|] eqn:C; [|discriminate]. simpl in H.
      destruct (parse_many f n r1) as [[es r2]|] eqn:E2; [|discriminate].
      simpl in H. injection H as <- <-. simpl in FL.
      destruct (fill_with flatten es []) as [mm|] eqn:FW; [|discriminate]. simpl in FL.
      assert (NA1 : no_at r1) by (eapply no_at_tl, NAr).
      exists (XV v). split; [|reflexivity].
      eapply P_buf; [exact C| |exact FL]. eapply IH2; eauto.
    + (* ? *)
      destruct (parse f r) as [[u r1]|] eqn:E1; [|discriminate]. simpl in H.
      destruct u; try discriminate. injection H as <- <-.
      apply parse_num in E1; [|exact NAr]. subst r. simpl in FL.
      exists (XV v). split; [constructor; exact FL|reflexivity].
    + exfalso. apply NA. left. reflexivity.
    + injection H as <- <-. simpl in FL.
      exists (XV v). split; [constructor; exact FL|reflexivity].
    + injection H as <- <-. simpl in FL.
      exists (XV v). split; [constructor; exact FL|reflexivity].
  - intros n toks es rest H NA m m' FW. simpl in H. destruct n as [|n].
    + injection H as <- <-. simpl in FW. injection FW as <-. constructor.
    + destruct (parse f toks) as [[x r1]|] eqn:E1; [|discriminate]. simpl in H.
      destruct (parse_many f n r1) as [[ys r2]|] eqn:E2; [|discriminate].
      simpl in H. injection H as <- <-. simpl in FW.
      destruct (flatten (Some m) x) as [s|] eqn:FX; [|discriminate]. simpl in FW.
      destruct (IH1 _ _ _ E1 NA (Some m) s FX) as [sx1 [P1 X1']].
      assert (NA1 : no_at r1).
      { destruct (proj1 (parse_suffix f) _ _ _ E1) as [pre ->]. eapply no_at_suffix, NA. }
      econstructor; eauto.
Qed.

Lemma rec_complete :
  (forall mem toks x rest, P mem toks x rest ->
     forall f, f > List.length toks ->
     exists a, parse f toks = Some (a, rest) /\
               forall v, xeval x = Some v -> flatten mem a = Some v) /\
  (forall n m toks m' rest, Pfill n m toks m' rest ->
     forall f, f > S (List.length toks) ->
     exists es, parse_many f n toks = Some (es, rest) /\
                fill_with flatten es m = Some m').
Proof.
  apply P_Pfill_ind.
  - intros mem s r v V f Hf. destruct f; [lia|]. simpl.
    eexists. split; [reflexivity|]. intros v0 Hv. injection Hv as <-. exact V.
  - intros mem z r v V f Hf. destruct f; [lia|]. simpl.
    eexists. split; [reflexivity|]. intros v0 Hv. injection Hv as <-. exact V.
  - intros mem z r v V f Hf. destruct f as [|[|f]]; simpl in Hf; [lia|lia|]. simpl.
    eexists. split; [reflexivity|]. intros v0 Hv. injection Hv as <-. exact V.
  - intros mem z r n m r1 v C PF IH L f Hf.
    destruct f as [|[|f]]; simpl in Hf; [lia|lia|].
    destruct (IH (S f)) as [es [PM FW]]; [lia|].
    exists (ABuf es). split.
    + change (parse (S (S f)) (TDollar :: TNum z :: r))
        with (obind (parse (S f) (TNum z :: r)) (fun '(u, r1) =>
              match u with
              | ANum z => obind (count z r1) (fun n =>
                          obind (parse_many (S f) n r1) (fun '(mem, r2) => Some (ABuf mem, r2)))
              | _ => None end)).
      simpl parse. cbn [obind]. rewrite C. cbn [obind]. rewrite PM. reflexivity.
    + intros v0 Hv. injection Hv as <-. simpl. rewrite FW. exact L.
  - intros mem r x r1 Px IH f Hf. destruct f; [simpl in Hf; lia|].
    destruct (IH f) as [a [PA FA]]; [simpl in Hf; lia|].
    exists (ANot a). split; [simpl; rewrite PA; reflexivity|].
    intros v Hv. simpl in Hv. destruct (xeval x) as [u|]; [|discriminate].
    simpl in Hv. simpl. rewrite (FA u eq_refl). exact Hv.
  - intros mem op r x r1 y r2 Px IHx Py IHy f Hf. destruct f; [simpl in Hf; lia|].
    assert (L1 := proj1 P_shorter _ _ _ _ Px).
    destruct (IHx f) as [a [PA FA]]; [simpl in Hf; lia|].
    destruct (IHy f) as [b [PB FB]]; [simpl in Hf; lia|].
    exists (ABin op a b). split; [simpl; rewrite PA; simpl; rewrite PB; reflexivity|].
    intros v Hv. simpl in Hv.
    destruct (xeval x) as [u|]; [|discriminate]. simpl in Hv.
    destruct (xeval y) as [w|]; [|discriminate]. simpl in Hv.
    destruct op; simpl; try (rewrite (FA u eq_refl); simpl; rewrite (FB w eq_refl); exact Hv).
    rewrite ap2_rename_none in Hv. discriminate.
  - intros m toks f Hf. destruct f; [lia|]. exists []. split; reflexivity.
  - intros n m toks x r1 s m' rest Px IHx Xs PF IHf f Hf.
    destruct f; [lia|].
    assert (L1 := proj1 P_shorter _ _ _ _ Px).
    destruct (IHx f) as [a [PA FA]]; [lia|].
    destruct (IHf f) as [es [PM FW]]; [lia|].
    exists (a :: es). split.
    + simpl. rewrite PA. simpl. rewrite PM. reflexivity.
    + simpl. rewrite (FA s Xs). simpl. exact FW.
Qed.

Theorem rec_spec : forall toks v,
  no_at toks -> (rec_add_expr D dtrue dfalse var node ap1 ap2 ren toks = Some v <-> E None toks v []).
Proof.
  intros toks v NA. unfold rec_add_expr. split.
  - intros H. destruct (parse (S (List.length toks)) toks) as [[a rest]|] eqn:PA; [|discriminate].
    simpl in H. destruct rest; [|discriminate].
    eapply (proj1 (rec_sound _)); eauto.
  - intros [x [Px Xv]].
    destruct (proj1 rec_complete _ _ _ _ Px (S (List.length toks))) as [a [PA FA]]; [lia|].
    rewrite PA. simpl. apply FA, Xv.
Qed.


(* ------------------------------------------------ the iterative translator *)
Inductive Pseq (mem : option (list D)) : nat -> list tok -> list sx -> list tok -> Prop :=
| Pseq_0 : forall toks, Pseq mem 0 toks [] toks
| Pseq_S : forall n toks x r1 xs rest,
    P mem toks x r1 -> Pseq mem n r1 xs rest -> Pseq mem (S n) toks (x :: xs) rest.

Lemma Pseq_shorter : forall mem n toks xs rest,
  Pseq mem n toks xs rest -> List.length rest <= List.length toks.
Proof.
  induction 1; [lia|]. apply (proj1 P_shorter) in H. lia.
Qed.

Lemma increase_S : forall f mem toks, increase (S f) mem toks = loop f mem [] 1 toks.
Proof. reflexivity. Qed.

Lemma loop_S : forall f mem stack need toks,
  loop (S f) mem stack need toks =
  match need with
  | O => obind (reduce stack) (fun r => Some (r, toks))
  | S need' =>
    match toks with
    | [] => None
    | TName s :: r =>
        obind (var s) (fun v => loop f mem (stack ++ [SVal v]) need' r)
    | TNum z :: r =>
        obind (num z) (fun v => loop f mem (stack ++ [SVal v]) need' r)
    | TNot :: r => loop f mem (stack ++ [SOp1]) need r
    | TBin op :: r => loop f mem (stack ++ [SOp2 op]) (S need) r
    | TQuestion :: TNum z :: r =>
        obind (reg mem z) (fun v => loop f mem (stack ++ [SVal v]) need' r)
    | TQuestion :: _ => None
    | TDollar :: TNum z :: r =>
        obind (count z r) (fun n =>
        obind (fill f n [] r) (fun '(m, r1) =>
        match last_opt m with
        | None => None
        | Some v => loop f mem (stack ++ [SVal v]) need' r1
        end))
    | TDollar :: _ => None
    | TAt :: _ => None
    end
  end.
Proof. reflexivity. Qed.

Lemma fill_S : forall f n m toks,
  fill (S f) n m toks =
  match n with
  | O => Some (m, toks)
  | S n' => obind (increase f (Some m) toks) (fun '(s, r1) => fill f n' (m ++ [s]) r1)
  end.
Proof. reflexivity. Qed.

Lemma iter_sound : forall f,
  (forall mem toks v rest, increase f mem toks = Some (v, rest) -> E mem toks v rest) /\
  (forall mem stack need toks v rest,
     loop f mem stack need toks = Some (v, rest) ->
     exists xs, Pseq mem need toks xs rest /\
                reduce (stack ++ flat_map ser xs) = Some v) /\
  (forall n m toks m' rest, fill f n m toks = Some (m', rest) -> Pfill n m toks m' rest).
Proof.
  induction f as [|f [IHi [IHl IHf]]]; [repeat split; intros; discriminate|].
  split; [|split].
  - intros mem toks v rest H. rewrite increase_S in H.
    destruct (IHl _ _ _ _ _ _ H) as [xs [PS R]].
    inversion PS as [|? ? x r1 xs' ? Px PS']; subst. inversion PS'; subst.
    simpl in R. rewrite app_nil_r in R. rewrite reduce_ser_one in R.
    exists x. split; assumption.
  - intros mem stack need toks v rest H.
    destruct need as [|need'].
    + rewrite loop_S in H.
      destruct (reduce stack) as [r|] eqn:R; cbn [obind] in H; [|discriminate].
      injection H as <- <-. exists []. split; [constructor|].
      simpl. rewrite app_nil_r. exact R.
    + destruct toks as [|t r]; [discriminate|].
      destruct t; rewrite loop_S in H.
      * (* NOT *)
        destruct (IHl _ _ _ _ _ _ H) as [xs [PS R]].
        inversion PS as [|? ? x r1 xs' ? Px PS']; subst.
        exists (X1 x :: xs'). split; [econstructor; [constructor; exact Px|exact PS']|].
        simpl. simpl in R. rewrite <- app_assoc in R. exact R.
      * (* binary *)
        destruct (IHl _ _ _ _ _ _ H) as [xs [PS R]].
        inversion PS as [|? ? x r1 xs' ? Px PS']; subst.
        inversion PS' as [|? ? y r2 xs'' ? Py PS'']; subst.
        exists (X2 op x y :: xs''). split.
        -- econstructor; [econstructor; eauto|exact PS''].
        -- simpl. simpl in R. rewrite <- !app_assoc in R. rewrite <- !app_assoc. exact R.
      * (* $ *)
        destruct r as [|t2 r]; cbn [obind] in H; [discriminate|].
        destruct t2; cbn [obind] in H; try discriminate.
        destruct (count z r) as [n|] eqn:C; cbn [obind] in H; [|discriminate].
        destruct (fill f n [] r) as [[m r1]|] eqn:FL; cbn [obind] in H; [|discriminate].
        destruct (last_opt m) as [v0|] eqn:L; cbn [obind] in H; [|discriminate].
        destruct (IHl _ _ _ _ _ _ H) as [xs [PS R]].
        exists (XV v0 :: xs). split.
        -- econstructor; [|exact PS]. eapply P_buf; eauto.
        -- simpl. rewrite <- app_assoc in R. exact R.
      * (* ? *)
        destruct r as [|t2 r]; cbn [obind] in H; [discriminate|].
        destruct t2; cbn [obind] in H; try discriminate.
        destruct (reg mem z) as [v0|] eqn:RG; cbn [obind] in H; [|discriminate].
        destruct (IHl _ _ _ _ _ _ H) as [xs [PS R]].
        exists (XV v0 :: xs). split.
        -- econstructor; [|exact PS]. constructor. exact RG.
        -- simpl. rewrite <- app_assoc in R. exact R.
      * discriminate.
      * destruct (var s) as [v0|] eqn:V; cbn [obind] in H; [|discriminate].
        destruct (IHl _ _ _ _ _ _ H) as [xs [PS R]].
        exists (XV v0 :: xs). split.
        -- econstructor; [|exact PS]. constructor. exact V.
        -- simpl. rewrite <- app_assoc in R. exact R.
      * destruct (num z) as [v0|] eqn:V; cbn [obind] in H; [|discriminate].
        destruct (IHl _ _ _ _ _ _ H) as [xs [PS R]].
        exists (XV v0 :: xs). split.
        -- econstructor; [|exact PS]. constructor. exact V.
        -- simpl. rewrite <- app_assoc in R. exact R.
  - intros n m toks m' rest H. rewrite fill_S in H. destruct n as [|n].
    + injection H as <- <-. constructor.
    + destruct (increase f (Some m) toks) as [[s r1]|] eqn:I; [|discriminate].
      cbn [obind] in H. destruct (IHi _ _ _ _ I) as [x [Px Xs]].
      econstructor; eauto.
Qed.

Lemma iter_complete : forall f,
  (forall mem toks v rest, E mem toks v rest -> f >= 2 * List.length toks + 2 ->
     increase f mem toks = Some (v, rest)) /\
  (forall mem stack need toks xs rest v,
     Pseq mem need toks xs rest -> reduce (stack ++ flat_map ser xs) = Some v ->
     f >= 2 * List.length toks + 1 ->
     loop f mem stack need toks = Some (v, rest)) /\
  (forall n m toks m' rest, Pfill n m toks m' rest -> f >= 2 * List.length toks + 3 ->
     fill f n m toks = Some (m', rest)).
Proof.
  induction f as [|f [IHi [IHl IHf]]]; [repeat split; intros; lia|].
  split; [|split].
  - intros mem toks v rest [x [Px Xv]] Hf. rewrite increase_S.
    apply (IHl mem [] 1 toks [x] rest v).
    + econstructor; [exact Px|constructor].
    + simpl. rewrite app_nil_r, reduce_ser_one. exact Xv.
    + lia.
  - intros mem stack need toks xs rest v PS R Hf. rewrite loop_S.
    inversion PS as [|n ? x r1 xs' ? Px PS']; subst.
    + simpl in R. rewrite app_nil_r in R. rewrite R. reflexivity.
    + assert (LS := Pseq_shorter _ _ _ _ _ PS').
      inversion Px as [? s r v0 V|? z r v0 V|? z r v0 V|? z r n0 m r2 v0 C PF L
                       |? r x1 r2 Px1|? op r x1 r2 y1 r3 Px1 Py1]; subst.
      * rewrite V. cbn [obind]. apply (IHl _ _ _ _ xs'); [exact PS'| |simpl in Hf; lia].
        simpl in R. rewrite <- app_assoc. exact R.
      * rewrite V. cbn [obind]. apply (IHl _ _ _ _ xs'); [exact PS'| |simpl in Hf; lia].
        simpl in R. rewrite <- app_assoc. exact R.
      * rewrite V. cbn [obind]. apply (IHl _ _ _ _ xs'); [exact PS'| |simpl in Hf; lia].
        simpl in R. rewrite <- app_assoc. exact R.
      * rewrite C. cbn [obind].
        assert (LF := proj2 P_shorter _ _ _ _ _ PF).
        rewrite (IHf _ _ _ _ _ PF) by (simpl in Hf; lia). cbn [obind].
        rewrite L. apply (IHl _ _ _ _ xs'); [exact PS'| |simpl in Hf; lia].
        simpl in R. rewrite <- app_assoc. exact R.
      * apply (IHl _ _ _ _ (x1 :: xs')); [econstructor; eauto| |simpl in Hf; lia].
        simpl in R. simpl. rewrite <- app_assoc. exact R.
      * apply (IHl _ _ _ _ (x1 :: y1 :: xs')); [econstructor; [eauto|econstructor; eauto]| |simpl in Hf; lia].
        simpl in R. simpl. rewrite <- !app_assoc in R. rewrite <- !app_assoc. exact R.
  - intros n m toks m' rest PF Hf. rewrite fill_S.
    inversion PF as [|n0 ? ? x r1 s ? ? Px Xs PF']; subst; [reflexivity|].
    assert (L1 := proj1 P_shorter _ _ _ _ Px).
    rewrite (IHi (Some m) toks s r1) by (try (exists x; split; assumption); lia).
    cbn [obind]. apply IHf; [exact PF'|lia].
Qed.

Theorem iter_spec : forall toks v,
  iter_add_expr D dtrue dfalse var node ap1 ap2 toks = Some v <-> E None toks v [].
Proof.
  intros toks v. unfold iter_add_expr. split.
  - intros H.
    destruct (increase (2 * S (List.length toks)) None toks) as [[r rest]|] eqn:I; [|discriminate].
    simpl in H. destruct rest; [|discriminate]. injection H as <-.
    eapply (proj1 (iter_sound _)); eauto.
  - intros HE. rewrite (proj1 (iter_complete _) _ _ _ _ HE) by lia. reflexivity.
Qed.

(* parsers_agree *)
Theorem parsers_agree : forall toks,
  no_at toks ->
  rec_add_expr D dtrue dfalse var node ap1 ap2 ren toks =
  iter_add_expr D dtrue dfalse var node ap1 ap2 toks.
Proof.
  intros toks NA.
  destruct (rec_add_expr D dtrue dfalse var node ap1 ap2 ren toks) as [v|] eqn:R.
  - apply (rec_spec toks v NA) in R. apply iter_spec in R. symmetry. exact R.
  - destruct (iter_add_expr D dtrue dfalse var node ap1 ap2 toks) as [w|] eqn:I; [|reflexivity].
    apply iter_spec in I. apply (rec_spec toks w NA) in I. congruence.
Qed.

End Agree.

(* ------------------------------------------------------------ back ends *)
(* Two managers whose operations correspond under a map h of nodes (the
   assumption about dd made explicit): every prefix string is accepted by
   both, through either translator, with corresponding results. *)
Section Hom.
Variables D1 D2 : Type.
Variables (t1 f1 : D1) (t2 f2 : D2).
Variable var1 : string -> option D1.
Variable var2 : string -> option D2.
Variable node1 : Z -> option D1.
Variable node2 : Z -> option D2.
Variable a11 : D1 -> option D1.
Variable a12 : D2 -> option D2.
Variable a21 : binop -> D1 -> D1 -> option D1.
Variable a22 : binop -> D2 -> D2 -> option D2.
Variable h : D1 -> D2.
Hypothesis h_true : h t1 = t2.
Hypothesis h_false : h f1 = f2.
Hypothesis h_var : forall s, var2 s = option_map h (var1 s).
Hypothesis h_node : forall z, node2 z = option_map h (node1 z).
Hypothesis h_ap1 : forall u, a12 (h u) = option_map h (a11 u).
Hypothesis h_ap2 : forall op u v, a22 op (h u) (h v) = option_map h (a21 op u v).
Hypothesis rename1_none : forall u v, a21 Rename u v = None.

Local Notation P1 := (P D1 t1 f1 var1 node1 a11 a21).
Local Notation P2 := (P D2 t2 f2 var2 node2 a12 a22).
Local Notation Pfill1 := (Pfill D1 t1 f1 var1 node1 a11 a21).
Local Notation Pfill2 := (Pfill D2 t2 f2 var2 node2 a12 a22).
Local Notation xeval1 := (xeval D1 a11 a21).
Local Notation xeval2 := (xeval D2 a12 a22).

Fixpoint hx (x : sx D1) : sx D2 :=
  match x with
  | XV _ d => XV D2 (h d)
  | X1 _ x => X1 D2 (hx x)
  | X2 _ op x y => X2 D2 op (hx x) (hx y)
  end.

Lemma hx_eval : forall x, xeval2 (hx x) = option_map h (xeval1 x).
Proof.
  induction x as [d|x IH|op x IHx y IHy]; simpl.
  - reflexivity.
  - rewrite IH. destruct (xeval1 x); simpl; [apply h_ap1|reflexivity].
  - rewrite IHx, IHy. destruct (xeval1 x); simpl; [|reflexivity].
    destruct (xeval1 y); simpl; [apply h_ap2|reflexivity].
Qed.

Lemma h_num : forall z, num D2 t2 f2 node2 z = option_map h (num D1 t1 f1 node1 z).
Proof.
  intros [z|]; simpl; [|reflexivity].
  destruct z as [|p|p]; simpl; try (rewrite h_false; reflexivity); try apply h_node.
  destruct p; simpl; try apply h_node. rewrite h_true. reflexivity.
Qed.

Lemma h_reg : forall m z,
  reg D2 (option_map (map h) m) z = option_map h (reg D1 m z).
Proof.
  intros [m|] [z|]; simpl; try reflexivity.
  rewrite map_length. destruct ((0 <=? z)%Z && (z <? Z.of_nat (List.length m))%Z); [|reflexivity].
  rewrite nth_error_map. reflexivity.
Qed.

Lemma h_last : forall m, last_opt D2 (map h m) = option_map h (last_opt D1 m).
Proof.
  intros m. unfold last_opt. rewrite <- map_rev. destruct (rev m); reflexivity.
Qed.

Lemma hom_forward :
  (forall mem toks x rest, P1 mem toks x rest ->
     P2 (option_map (map h) mem) toks (hx x) rest) /\
  (forall n m toks m' rest, Pfill1 n m toks m' rest ->
     Pfill2 n (map h m) toks (map h m') rest).
Proof.
  apply P_Pfill_ind.
  - intros mem s r v V. constructor. rewrite h_var, V. reflexivity.
  - intros mem z r v V. constructor. rewrite h_num, V. reflexivity.
  - intros mem z r v V. constructor. rewrite h_reg, V. reflexivity.
  - intros mem z r n m r1 v C PF IH L. simpl.
    eapply P_buf; [exact C|exact IH|]. rewrite h_last, L. reflexivity.
  - intros mem r x r1 Px IH. simpl. constructor. exact IH.
  - intros mem op r x r1 y r2 Px IHx Py IHy. simpl. econstructor; eauto.
  - intros m toks. constructor.
  - intros n m toks x r1 s m' rest Px IHx Xs PF IHf.
    econstructor; [exact IHx|rewrite hx_eval, Xs; reflexivity|].
    rewrite map_app in IHf. exact IHf.
Qed.

Lemma omap_some : forall (A B : Type) (g : A -> B) o b,
  option_map g o = Some b -> exists a, o = Some a /\ g a = b.
Proof. intros A B g [a|] b H; simpl in H; [injection H as <-; eauto|discriminate]. Qed.

Lemma hom_backward :
  (forall mem2 toks x2 rest, P2 mem2 toks x2 rest ->
     forall mem1, mem2 = option_map (map h) mem1 ->
     exists x1, P1 mem1 toks x1 rest /\ hx x1 = x2) /\
  (forall n m2 toks m2' rest, Pfill2 n m2 toks m2' rest ->
     forall m1, m2 = map h m1 ->
     exists m1', Pfill1 n m1 toks m1' rest /\ m2' = map h m1').
Proof.
  apply P_Pfill_ind.
  - intros mem s r v V mem1 _. rewrite h_var in V.
    destruct (omap_some _ _ _ _ _ V) as [v1 [V1 <-]].
    exists (XV D1 v1). split; [constructor; exact V1|reflexivity].
  - intros mem z r v V mem1 _. rewrite h_num in V.
    destruct (omap_some _ _ _ _ _ V) as [v1 [V1 <-]].
    exists (XV D1 v1). split; [constructor; exact V1|reflexivity].
  - intros mem z r v V mem1 ->. rewrite h_reg in V.
    destruct (omap_some _ _ _ _ _ V) as [v1 [V1 <-]].
    exists (XV D1 v1). split; [constructor; exact V1|reflexivity].
  - intros mem z r n m r1 v C PF IH L mem1 _.
    destruct (IH [] eq_refl) as [m1' [PF1 ->]].
    rewrite h_last in L. destruct (omap_some _ _ _ _ _ L) as [v1 [L1 <-]].
    exists (XV D1 v1). split; [eapply P_buf; eauto|reflexivity].
  - intros mem r x r1 Px IH mem1 E. destruct (IH mem1 E) as [x1 [P1' <-]].
    exists (X1 D1 x1). split; [constructor; exact P1'|reflexivity].
  - intros mem op r x r1 y r2 Px IHx Py IHy mem1 E.
    destruct (IHx mem1 E) as [x1 [Px1 <-]]. destruct (IHy mem1 E) as [y1 [Py1 <-]].
    exists (X2 D1 op x1 y1). split; [econstructor; eauto|reflexivity].
  - intros m toks m1 ->. exists m1. split; [constructor|reflexivity].
  - intros n m toks x r1 s m' rest Px IHx Xs PF IHf m1 ->.
    destruct (IHx (Some m1) eq_refl) as [x1 [Px1 <-]].
    rewrite hx_eval in Xs. destruct (omap_some _ _ _ _ _ Xs) as [s1 [Xs1 <-]].
    destruct (IHf (m1 ++ [s1])%list) as [m1' [PF1 ->]]; [rewrite map_app; reflexivity|].
    exists m1'. split; [econstructor; eauto|reflexivity].
Qed.

Theorem backend_independent : forall toks,
  no_at toks ->
  iter_add_expr D2 t2 f2 var2 node2 a12 a22 toks =
  option_map h (rec_add_expr D1 t1 f1 var1 node1 a11 a21 (fun _ _ => None) toks).
Proof.
  intros toks NA.
  destruct (rec_add_expr D1 t1 f1 var1 node1 a11 a21 (fun _ _ => None) toks) as [v1|] eqn:R.
  - apply (rec_spec D1 t1 f1 var1 node1 a11 a21 (fun _ _ => None)
             (fun _ _ => eq_refl) rename1_none toks v1 NA) in R.
    destruct R as [x [Px Xv]]. simpl. apply iter_spec.
    exists (hx x). split.
    + apply (proj1 hom_forward None toks x [] Px).
    + rewrite hx_eval, Xv. reflexivity.
  - simpl.
    destruct (iter_add_expr D2 t2 f2 var2 node2 a12 a22 toks) as [v2|] eqn:I; [|reflexivity].
    apply iter_spec in I. destruct I as [x2 [Px2 Xv2]].
    destruct (proj1 hom_backward None toks x2 [] Px2 None eq_refl) as [x1 [Px1 <-]].
    rewrite hx_eval in Xv2. destruct (omap_some _ _ _ _ _ Xv2) as [v1 [Xv1 _]].
    assert (rec_add_expr D1 t1 f1 var1 node1 a11 a21 (fun _ _ => None) toks = Some v1).
    { apply (rec_spec D1 t1 f1 var1 node1 a11 a21 (fun _ _ => None)
               (fun _ _ => eq_refl) rename1_none toks v1 NA).
      exists x1. split; assumption. }
    congruence.
Qed.
End Hom.
