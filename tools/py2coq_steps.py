"""Fail-closed translator for omega/steps.py (tie T for C19).

Turns the name-mangling functions, the state conversion and book-keeping of
`Assembly` / `History`, and the dd-free part of `AutomatonStepper` of the
CURRENT source text into Gallina over the strings and dictionaries of
coq/theories/L4Steps/Mangle.v.  Like py2coq.py it reads the source with `ast`
(never imports omega), compiles statements in continuation style and raises
`Refuse` on anything outside the subset below.

Values and their Gallina types (a small kind system; the kinds of the
parameters are fixed in SPECS; a kind error is a refusal):

  str       Python str                       string
  nat       len(str)                         nat
  bool                                       bool
  val       a value stored in a dictionary   Z   (opaque: never computed on)
  dict      dict str -> value                Mangle.dict = list (string * Z),
            the items in insertion order; `d[k] = v` is Mangle.dset (replace
            in place, else append), `k in d` is `mem k (keys d)`,
            `d.update(e)` stores the items of e one by one, `dict()` is []
  optdict   a dictionary or None             option dict
  names     set / list / keys-view of str    list string (only membership,
            intersection, difference, union and emptiness are used, all of
            which are insensitive to order and repetition)
  dictlist  list of dictionaries             list dict
  machine   object with vars/init()/step()   Assembly.machine
  machines  dict name -> machine             Assembly.machines (items in
            insertion order)
  bdd       a dd node                        the Section variable bddT
  unit      procedures                       unit

Exceptions: `assert c, msg` becomes `if c then .. else Err E`, `raise
ValueError(..)` becomes `Err Disabled`, calling a method of None
(`AttributeError`) becomes `Err Disabled`, where E is the error value that
the model and the correspondence harness (tools/vlib/steps_sim.classify) use
for an AssertionError of that function (SPECS).  A function that can raise
returns `res T`; statements after a raising call are chained with `bind`.
A `for` loop in such a function is `fold_left` over `res`: after the first
error the remaining iterations leave the error unchanged (the loop bodies
have no other effect than on the carried variables).

Methods: fields of `self` become explicit arguments.  `Assembly.init` and
`Assembly.step` take the dictionary `self.machines` and the record
`assembly` {s_state = self.state (None before init); s_past = self.past} and
return the new record; helper methods that do not touch `self` take no
`self` argument; `History.update` takes and returns (self.state, self.past).
A procedure that changes an argument in place (`_update_state`) returns the
new value of that argument; a procedure whose only effect is to raise when
its argument is None (`_assert_unblocked`) returns the checked argument.

Aliasing: a dictionary may be changed in place only through a name that owns
it (bound to `dict()`, a comprehension or the result of a translated function
that returns a dictionary it built) and that has not been stored or passed
to code that keeps or changes it; a dictionary passed to `machine.step` must
be owned and is dead afterwards.  Everything else is refused.

Exception safety: for `Assembly.init` / `Assembly.step` the translator also
emits `<method>_commits_last : bool`: does every change of a field of self
come after the last statement that can raise (so that a call that raises
leaves the object unchanged; the result of the translated function is only
the error value)?  The bridge pins the flag of `Assembly.step`.

dd-level operations stay parameters (Section variables): aut_let,
aut_support, aut_pick1 / aut_pick2 (`aut.pick(u)` / `aut.pick(u, care)`),
aut_varlist, prm_unprimed_support, stx_unprime.

Nothing is dropped silently: every statement or sub-expression that does not
appear in the generated term is listed in `notes`.
"""
import ast
import textwrap

from py2coq import Refuse, _src, _dotted

SRC = 'omega/steps.py'

KIND_TYPE = {
    'str': 'string', 'nat': 'nat', 'bool': 'bool', 'val': 'Z',
    'dict': 'dict', 'optdict': 'option dict', 'names': 'list string',
    'dictlist': 'list dict', 'machine': 'machine', 'machines': 'machines',
    'bdd': 'bddT', 'unit': 'unit', 'assembly': 'assembly'}
MUTABLE = ('dict', 'dictlist')
REQUIRED_IMPORTS = {'prm': 'omega.symbolic.prime',
                    'stx': 'omega.logic.syntax'}
RAISE_ERR = {'ValueError': 'Disabled'}
NONE_METHOD_ERR = 'Disabled'        # AttributeError: None has no .items()
BUILTINS_USED = ('dict', 'len', 'ValueError', 'AssertionError')


class Spec:
    """What the translator assumes about one function (fail-closed: the
    parameter names must be exactly these)."""

    def __init__(self, qual, params, assert_err=None, selfstate=(),
                 record=False, section=False):
        self.qual = qual
        self.cls, self.name = (qual.split('.') if '.' in qual
                               else (None, qual))
        # [(python name, kind, mode)]  mode: in | out | refine
        self.params = [(p + ('in',))[:3] for p in params]
        self.assert_err = assert_err
        self.selfstate = list(selfstate)   # [(field, kind)] taken + returned
        self.record = record               # takes/returns `assembly`
        self.section = section             # uses the dd-level parameters
        self.coq = (qual.replace('.', '_') if self.cls else qual)


SPECS = [
    Spec('_omit_prefix', [('s', 'str'), ('prefix', 'str')]),
    Spec('visible_vars', [('vrs', 'dict')]),
    Spec('hidden_vars', [('vrs', 'dict')]),
    Spec('add_prefix', [('vrs', 'dict'), ('prefix', 'str')],
         assert_err='Collision'),
    Spec('omit_prefix', [('vrs', 'dict'), ('prefix', 'str')],
         assert_err='Collision'),
    Spec('slice_dict', [('d', 'dict'), ('keys', 'names')]),
    Spec('_assert_disjoint', [('a', 'dict'), ('b', 'dict')],
         assert_err='Collision'),
    Spec('History.update', [('state', 'dict')],
         selfstate=[('state', 'dict'), ('past', 'dictlist')]),
    Spec('Assembly._to_local_state',
         [('global_state', 'dict'), ('name', 'str'), ('machine', 'machine')]),
    Spec('Assembly._to_global_state',
         [('local_state', 'dict'), ('name', 'str')]),
    Spec('Assembly._update_state',
         [('state', 'dict', 'out'), ('partial', 'dict')]),
    Spec('Assembly._init', [('machine', 'machine'), ('name', 'str')]),
    Spec('Assembly._step',
         [('machine', 'machine'), ('state', 'dict'), ('name', 'str')]),
    Spec('Assembly.init', [], record=True),
    Spec('Assembly.step', [], record=True, assert_err='Uninit'),
    Spec('_unprime_state', [('primed_state', 'dict')], section=True),
    Spec('AutomatonStepper._assert_support_assigned',
         [('action', 'bdd'), ('state', 'dict')], assert_err='Missing',
         section=True),
    Spec('AutomatonStepper._assert_unblocked',
         [('state', 'optdict', 'refine')], section=True),
    Spec('AutomatonStepper.init', [], section=True),
    Spec('AutomatonStepper.step', [('state', 'dict')], section=True),
]

# fields of `self`: class -> [(field, kind, writable)]
FIELDS = {
    'History': [('state', 'optdict', True), ('past', 'dictlist', True)],
    'Assembly': [('machines', 'machines', False),
                 ('state', 'optdict', True), ('past', 'dictlist', True)],
    'AutomatonStepper': [('_init', 'bdd', False), ('_action', 'bdd', False)],
}
BASES = {'Assembly': ['History'], 'History': [], 'AutomatonStepper': []}
RECORD_FIELD = {'state': 's_state', 'past': 's_past'}


def _comment(s):
    return (s.replace('"', "'").replace('(*', '( *').replace('*)', '* )')
            .replace('\n', ' '))


def qs(s):
    return '"' + s.replace('"', '""') + '"'


class Var:
    """A Python name (or `self.<field>`) in scope."""

    def __init__(self, kind, coq, owned=False, param=None, version=0):
        self.kind = kind
        self.coq = coq
        self.owned = owned
        self.param = param
        self.version = version

    def but(self, **kw):
        d = dict(kind=self.kind, coq=self.coq, owned=self.owned,
                 param=self.param, version=self.version)
        d.update(kw)
        return Var(**d)


class E:
    """Translated expression."""

    def __init__(self, text, kind, fails=False, fresh=False):
        self.text = text
        self.kind = kind
        self.fails = fails      # text : res <kind>
        self.fresh = fresh      # a newly built mutable value


class Func:
    def __init__(self, spec, node):
        self.spec = spec
        self.node = node
        self.failing = False
        self.ret_kind = None
        self.fresh_result = False
        self.escaping = set()      # parameters stored by the function
        self.text = None
        self.commits_last = None   # record methods: exception safety


def ind(s, n=2):
    return textwrap.indent(s, ' ' * n)


class Translator:
    def __init__(self, path):
        with open(path) as f:
            self.tree = ast.parse(f.read())
        self.notes = []
        self.funcs = {}
        self.cur = None
        self.module_funcs = {n.name: n for n in self.tree.body
                             if isinstance(n, ast.FunctionDef)}
        self.classes = {n.name: n for n in self.tree.body
                        if isinstance(n, ast.ClassDef)}
        self._check_module()

    # ------------------------------------------------------------------
    def note(self, s):
        s = f'{self.cur.spec.qual}: {s}' if self.cur else s
        if s not in self.notes:
            self.notes.append(s)

    def _check_module(self):
        imports = {}
        for n in self.tree.body:
            if isinstance(n, ast.Import):
                for a in n.names:
                    imports[a.asname or a.name.split('.')[0]] = a.name
            elif isinstance(n, ast.ImportFrom):
                for a in n.names:
                    imports[a.asname or a.name] = (n.module or '') + '.' + a.name
        for alias, mod in REQUIRED_IMPORTS.items():
            if imports.get(alias) != mod:
                raise Refuse(f'`{alias}` is not `import {mod} as {alias}`')
        self.imports = imports
        # module-level names may not be rebound (functions are looked up by
        # name)
        seen = set()
        for n in self.tree.body:
            names = []
            if isinstance(n, (ast.FunctionDef, ast.ClassDef)):
                names = [n.name]
            elif isinstance(n, ast.Assign):
                for t in n.targets:
                    names += [m.id for m in ast.walk(t)
                              if isinstance(m, ast.Name)]
            elif isinstance(n, (ast.Import, ast.ImportFrom)):
                names = [a.asname or a.name.split('.')[0] for a in n.names]
            elif isinstance(n, ast.Expr) and isinstance(
                    n.value, ast.Constant):
                continue
            else:
                raise Refuse(f'module-level statement {type(n).__name__}')
            for x in names:
                if x in seen:
                    raise Refuse(f'module-level name {x} is bound twice')
                if x in BUILTINS_USED:
                    raise Refuse(f'the builtin {x} is rebound')
                seen.add(x)
        for cname, bases in BASES.items():
            if cname not in self.classes:
                raise Refuse(f'class {cname} not found')
            c = self.classes[cname]
            got = [_dotted(b) for b in c.bases]
            if got != bases or c.keywords or c.decorator_list:
                raise Refuse(f'class {cname}: bases {got}, expected {bases}')
            meths = [m.name for m in c.body if isinstance(m, ast.FunctionDef)]
            if len(set(meths)) != len(meths):
                raise Refuse(f'class {cname}: a method is defined twice')
            for m in c.body:
                if isinstance(m, ast.FunctionDef):
                    continue
                if isinstance(m, ast.Expr) and isinstance(
                        m.value, ast.Constant):
                    continue
                raise Refuse(f'class {cname}: statement '
                             f'{type(m).__name__} in the class body')

    def lookup_method(self, cls, name):
        """(defining class, node), searching the bases like Python."""
        order = [cls] + BASES[cls]
        for c in order:
            for m in self.classes[c].body:
                if isinstance(m, ast.FunctionDef) and m.name == name:
                    return c, m
        return None, None

    # ------------------------------------------------------------------
    def translate(self, spec):
        if spec.cls:
            c, node = self.lookup_method(spec.cls, spec.name)
            if c != spec.cls:
                raise Refuse(f'method {spec.qual} not found')
        else:
            node = self.module_funcs.get(spec.name)
            if node is None:
                raise Refuse(f'function {spec.name} not found')
        fi = Func(spec, node)
        self.cur = fi
        a = node.args
        if (a.vararg or a.kwarg or a.kwonlyargs or a.posonlyargs
                or a.defaults or node.decorator_list):
            raise Refuse(f'{spec.qual}: unsupported signature')
        got = [x.arg for x in a.args]
        want = (['self'] if spec.cls else []) + [p for p, _, _ in spec.params]
        if got != want:
            raise Refuse(f'{spec.qual}: signature {got} is not {want}')
        for n in ast.walk(node):
            if isinstance(n, (ast.Global, ast.Nonlocal, ast.FunctionDef,
                              ast.Lambda, ast.Yield, ast.YieldFrom,
                              ast.Await, ast.Try, ast.With, ast.While,
                              ast.Delete, ast.Import, ast.ImportFrom,
                              ast.ClassDef, ast.NamedExpr, ast.Starred,
                              ast.Break, ast.Continue, ast.AugAssign,
                              ast.ListComp, ast.SetComp, ast.GeneratorExp,
                              ast.AsyncFor, ast.AsyncWith)) and n is not node:
                raise Refuse(f'{spec.qual}: {type(n).__name__}')
        fi.failing = self.can_fail(node)
        env = {}
        for p, k, mode in spec.params:
            env[p] = Var(k, 'v_' + p, owned=False, param=p)
        self.self_cls = spec.cls
        self.fields = {}
        if spec.cls:
            for f, k, w in FIELDS[spec.cls]:
                self.fields[f] = (k, w)
        uses_self = spec.cls and any(
            isinstance(n, ast.Attribute) and isinstance(n.value, ast.Name)
            and n.value.id == 'self' and n.attr in self.fields
            for n in ast.walk(node))
        self.uses_self = bool(uses_self)
        header_lets = ''
        if uses_self:
            for f, (k, w) in self.fields.items():
                if not w:
                    env['self.' + f] = Var(k, 'self_' + f)
            if spec.record:
                for f, (k, w) in self.fields.items():
                    if w:
                        env['self.' + f] = Var(k, 'self_' + f,
                                               owned=(k == 'dictlist'))
                        header_lets += (f'let self_{f} := '
                                        f'{RECORD_FIELD[f]} self in\n')
            elif spec.selfstate:
                for f, k in spec.selfstate:
                    env['self.' + f] = Var(k, 'self_' + f,
                                           owned=(k == 'dictlist'))
                self.note('translated for an object whose '
                          + ', '.join(f'`self.{f}` is a {k}'
                                      for f, k in spec.selfstate)
                          + ' (checked at every translated call)')
            elif any(w for f, (k, w) in self.fields.items()
                     if any(isinstance(n, ast.Attribute)
                            and isinstance(n.value, ast.Name)
                            and n.value.id == 'self' and n.attr == f
                            for n in ast.walk(node))):
                raise Refuse(f'{spec.qual} uses a writable field of self but '
                             'is declared as a helper without object state')
        elif spec.record or spec.selfstate:
            raise Refuse(f'{spec.qual} no longer uses the fields of self')
        body = list(node.body)
        if (body and isinstance(body[0], ast.Expr)
                and isinstance(body[0].value, ast.Constant)
                and isinstance(body[0].value.value, str)):
            body = body[1:]
            self.note('docstring skipped')
        self.returns_value = any(isinstance(n, ast.Return)
                                 and n.value is not None
                                 for n in ast.walk(node))
        if any(isinstance(n, ast.Return) and n.value is None
               for n in ast.walk(node)):
            raise Refuse(f'{spec.qual}: bare return')
        out_params = [p for p, k, m in spec.params if m in ('out', 'refine')]
        if self.returns_value and (out_params or spec.record
                                   or spec.selfstate):
            raise Refuse(f'{spec.qual}: a procedure that returns a value')
        text = header_lets + self.block(body, env, self.end_of_function)
        fi.text = text
        if spec.record:
            # exception safety: does every change of a field of self come
            # after the last statement that can raise?
            changed, safe = False, True
            for st in body:
                m = self.mutates_self(st)
                if self.can_fail(st) and (changed or m):
                    safe = False
                changed = changed or m
            fi.commits_last = safe
            self.note(
                'every change of a field of self comes after the last '
                'statement that can raise: a call that raises leaves the '
                'object unchanged' if safe else
                'fields of self are changed before or inside statements '
                'that can raise: after an exception the object keeps the '
                'partial changes; the translation returns only the error '
                'value')
        self.funcs[spec.qual] = fi
        self.cur = None
        return fi

    def mutates_self(self, s):
        """Does statement s (or a nested one) change a field of self?"""
        def is_field(e):
            x = self.lvalue_name(e)
            return x is not None and x.startswith('self.')
        for n in ast.walk(s):
            if isinstance(n, ast.Assign):
                for t in n.targets:
                    if is_field(t.value if isinstance(t, ast.Subscript)
                                else t):
                        return True
            if isinstance(n, ast.Call):
                f = n.func
                if isinstance(f, ast.Attribute) and is_field(f.value) \
                        and f.attr in ('update', 'append'):
                    return True
                try:
                    callee, _ = self.resolve(n, {})
                except Refuse:
                    callee = None
                if callee is not None:
                    if callee.spec.selfstate or callee.spec.record:
                        return True
                    for (p, k, m), a in zip(callee.spec.params, n.args):
                        if m == 'out' and is_field(a):
                            return True
        return False

    def wrap_ok(self, t):
        return f'Ok {t}' if self.cur.failing else t

    def end_of_function(self, env):
        """Value when control falls off the end."""
        fi, spec = self.cur, self.cur.spec
        if self.returns_value:
            raise Refuse(f'{spec.qual}: control can reach the end of the '
                         'function without return')
        outs = [(p, k, m) for p, k, m in spec.params
                if m in ('out', 'refine')]
        if spec.record:
            parts = []
            for f, (k, w) in self.fields.items():
                if not w:
                    continue
                v = env.get('self.' + f)
                if v is None:
                    raise Refuse(f'self.{f} is not defined at the end of '
                                 f'{spec.qual}')
                if f == 'state':
                    if v.kind == 'dict':
                        parts.append(f'{RECORD_FIELD[f]} := Some {v.coq}')
                    elif v.kind == 'optdict':
                        parts.append(f'{RECORD_FIELD[f]} := {v.coq}')
                    else:
                        raise Refuse(f'self.state has kind {v.kind}')
                else:
                    if v.kind != k:
                        raise Refuse(f'self.{f} has kind {v.kind}')
                    parts.append(f'{RECORD_FIELD[f]} := {v.coq}')
            self.set_ret('assembly')
            return self.wrap_ok('{| ' + '; '.join(parts) + ' |}')
        if spec.selfstate:
            names = []
            for f, k in spec.selfstate:
                v = env.get('self.' + f)
                if v is None or v.kind != k:
                    raise Refuse(f'self.{f} is not a {k} at the end of '
                                 f'{spec.qual}')
                names.append(v.coq)
            self.set_ret(tuple(k for _, k in spec.selfstate))
            return self.wrap_ok('(' + ', '.join(names) + ')')
        if outs:
            if len(outs) != 1:
                raise Refuse('more than one out-parameter')
            p, k, m = outs[0]
            v = env.get(p)
            if v is None or v.kind != 'dict':
                raise Refuse(f'{spec.qual}: {p} is not a dictionary at the '
                             'end of the function')
            if m == 'out' and v.version == 0:
                raise Refuse(f'{spec.qual} no longer changes its argument '
                             f'{p} in place')
            self.set_ret('dict')
            self.note(f'procedure: the translation returns the '
                      + ('new value of' if m == 'out' else 'checked')
                      + f' argument `{p}`')
            return self.wrap_ok(v.coq)
        self.set_ret('unit')
        return self.wrap_ok('tt')

    def set_ret(self, kind):
        fi = self.cur
        if fi.ret_kind is not None and fi.ret_kind != kind:
            raise Refuse(f'{fi.spec.qual} returns values of kinds '
                         f'{fi.ret_kind} and {kind}')
        fi.ret_kind = kind

    # ------------------------------------------------------------------
    # can this code raise (as far as the translation is concerned)?
    def can_fail(self, node):
        for n in ast.walk(node):
            if isinstance(n, (ast.Assert, ast.Raise)):
                return True
            if isinstance(n, ast.Call):
                fn = _dotted(n.func)
                if fn is None:
                    continue
                if fn in ('stx.unprime', 'self.aut.let', 'machine.init',
                          'machine.step'):
                    return True
                parts = fn.split('.')
                if parts[-1] in ('init', 'step') and len(parts) == 2 \
                        and parts[0] not in ('self',):
                    return True
                if fn in self.funcs and self.funcs[fn].failing:
                    return True
                if parts[0] == 'self' and len(parts) == 2 \
                        and self.cur.spec.cls:
                    c, m = self.lookup_method(self.cur.spec.cls, parts[1])
                    q = f'{c}.{parts[1]}' if c else None
                    if q in self.funcs and self.funcs[q].failing:
                        return True
                if parts[-1] == 'items' and isinstance(
                        n.func, ast.Attribute):
                    # .items() of a value that may be None
                    b = n.func.value
                    if isinstance(b, ast.Name) and self._maybe_none(
                            node, b.id):
                        return True
        return False

    def _maybe_none(self, node, name):
        """Is `name` bound (in this function) to the result of aut.pick?"""
        for n in ast.walk(node):
            if isinstance(n, ast.Assign) and len(n.targets) == 1 \
                    and isinstance(n.targets[0], ast.Name) \
                    and n.targets[0].id == name \
                    and isinstance(n.value, ast.Call) \
                    and _dotted(n.value.func) == 'self.aut.pick':
                return True
        return False

    # ------------------------------------------------------------------
    # statements
    def block(self, stmts, env, tail):
        if not stmts:
            return tail(env)
        s, rest = stmts[0], stmts[1:]
        env = dict(env)
        if isinstance(s, ast.Pass):
            return self.block(rest, env, tail)
        if isinstance(s, ast.Return):
            if rest:
                raise Refuse('statements after return')
            if self.in_loop:
                raise Refuse('return inside a loop')
            e = self.expr(s.value, env)
            if isinstance(s.value, ast.Name):
                v = env[s.value.id]
                if v.kind in MUTABLE:
                    if v.param:
                        raise Refuse(f'{self.cur.spec.qual} returns its '
                                     f'argument {v.param}')
                    self.cur.fresh_result = v.owned
            else:
                self.cur.fresh_result = e.fresh
            self.set_ret(e.kind)
            if e.fails:
                return e.text
            return self.wrap_ok(e.text)
        if isinstance(s, ast.Raise):
            if rest:
                raise Refuse('statements after raise')
            return self.raise_stmt(s)
        if isinstance(s, ast.Assert):
            return self.assert_stmt(s, rest, env, tail)
        if isinstance(s, ast.If):
            return self.if_stmt(s, rest, env, tail)
        if isinstance(s, ast.For):
            wrap, env2 = self.for_stmt(s, env)
        elif isinstance(s, ast.Assign):
            wrap, env2 = self.assign(s, env)
        elif isinstance(s, ast.Expr):
            wrap, env2 = self.expr_stmt(s, env)
        else:
            raise Refuse(f'statement kind {type(s).__name__}: {_src(s)}')
        return wrap(self.block(rest, env2, tail))

    in_loop = 0

    def raise_stmt(self, s):
        if s.cause is not None or s.exc is None:
            raise Refuse(f'raise: {_src(s)}')
        x = s.exc
        name = _dotted(x.func) if isinstance(x, ast.Call) else _dotted(x)
        if name not in RAISE_ERR:
            raise Refuse(f'raise of {name}')
        if isinstance(x, ast.Call) and (x.args or x.keywords):
            self.note(f'message of `raise {name}` skipped: '
                      + _comment(' '.join(_src(a) for a in x.args)))
        if not self.cur.failing:
            raise Refuse('internal: raise in a function classified as total')
        return f'Err {RAISE_ERR[name]}'

    def assert_stmt(self, s, rest, env, tail):
        err = self.cur.spec.assert_err
        if err is None:
            raise Refuse(f'{self.cur.spec.qual}: unexpected assert '
                         f'{_src(s.test)} (no error value is declared for '
                         'assertions of this function)')
        if s.msg is not None:
            self.note(f'message of `assert {_comment(_src(s.test))}` '
                      f'skipped: {_comment(_src(s.msg))}')
        # `assert X is not None` refines X
        r = self.none_test(s.test, env)
        if r is not None:
            x, v, is_none = r
            if is_none:
                raise Refuse(f'assert {_src(s.test)}')
            env2 = dict(env)
            env2[x] = v.but(kind='dict', version=v.version + 1)
            body = self.block(rest, env2, tail)
            return (f'match {v.coq} with\n| None => Err {err}\n'
                    f'| Some {v.coq} =>\n{ind(body)}\nend')
        c = self.expr(s.test, env)
        t = self.truth(c)
        body = self.block(rest, env, tail)
        return f'if {t} then\n{ind(body)}\nelse Err {err}'

    def none_test(self, t, env):
        """`X is None` / `X is not None` for an optional X in scope:
        (python name, Var, is_none)."""
        if not (isinstance(t, ast.Compare) and len(t.ops) == 1
                and isinstance(t.ops[0], (ast.Is, ast.IsNot))
                and isinstance(t.comparators[0], ast.Constant)
                and t.comparators[0].value is None):
            return None
        x = self.lvalue_name(t.left)
        if x is None or x not in env:
            raise Refuse(f'test {_src(t)}')
        v = env[x]
        if v.kind != 'optdict':
            raise Refuse(f'{_src(t)}: {x} has kind {v.kind}, which is never '
                         'None')
        return x, v, isinstance(t.ops[0], ast.Is)

    def lvalue_name(self, e):
        """Env key of a name or of `self.<field>`."""
        if isinstance(e, ast.Name):
            return e.id
        if (isinstance(e, ast.Attribute) and isinstance(e.value, ast.Name)
                and e.value.id == 'self' and self.self_cls
                and e.attr in self.fields):
            return 'self.' + e.attr
        return None

    def terminates(self, stmts):
        return bool(stmts) and isinstance(stmts[-1], (ast.Return, ast.Raise))

    def if_stmt(self, s, rest, env, tail):
        if self.in_loop and any(isinstance(n, ast.Return)
                                for b in s.body + s.orelse
                                for n in ast.walk(b)):
            raise Refuse('return inside a loop')
        r = self.none_test(s.test, env)
        b_rest = [] if self.terminates(s.body) else rest
        e_rest = [] if self.terminates(s.orelse) else rest
        if rest and not (self.terminates(s.body)
                         or self.terminates(s.orelse)):
            self.note(f'the statements after `if {_comment(_src(s.test))}` '
                      'are translated once in each branch')
        if r is not None:
            x, v, is_none = r
            some_env = dict(env)
            some_env[x] = v.but(kind='dict', version=v.version + 1)
            none_env = dict(env)
            del none_env[x]
            nb, sb = ((s.body + b_rest, s.orelse + e_rest) if is_none
                      else (s.orelse + e_rest, s.body + b_rest))
            nt = self.block(nb, none_env, tail)
            st = self.block(sb, some_env, tail)
            return (f'match {v.coq} with\n| None =>\n{ind(nt)}\n'
                    f'| Some {v.coq} =>\n{ind(st)}\nend')
        c = self.expr(s.test, env)
        t = self.truth(c)
        bt = self.block(s.body + b_rest, env, tail)
        et = self.block(s.orelse + e_rest, env, tail)
        return f'if {t} then\n{ind(bt)}\nelse\n{ind(et)}'

    # -- effects on variables -------------------------------------------
    def rebind(self, env, x, kind, owned, coq=None):
        """New env with x bound to a new value."""
        old = env.get(x)
        if x.startswith('self.'):
            f = x[5:]
            k, w = self.fields[f]
            if not w:
                raise Refuse(f'assignment to self.{f}')
            c = 'self_' + f
        else:
            if x == 'self' or x in self.module_funcs or x in self.classes \
                    or x in self.imports:
                raise Refuse(f'assignment to {x}')
            c = 'v_' + x
        env = dict(env)
        env[x] = Var(kind, coq or c, owned=owned,
                     param=(old.param if old is not None else None),
                     version=(old.version + 1 if old is not None else 1))
        return env

    def mutable_target(self, x, env, what):
        """The variable x may be changed in place here."""
        v = env.get(x)
        if v is None:
            raise Refuse(f'{what}: unknown or no longer defined name {x}')
        if v.kind not in MUTABLE:
            raise Refuse(f'{what}: {x} has kind {v.kind}')
        mode = dict((p, m) for p, k, m in self.cur.spec.params).get(v.param)
        if v.owned or (v.param and mode == 'out'):
            return v
        raise Refuse(f'{what}: {x} is changed in place but may be shared '
                     '(it is not a dictionary built by this function)')

    def escape(self, x, env):
        """The value of mutable x is stored somewhere: x loses ownership."""
        v = env[x]
        if v.kind not in MUTABLE:
            return env
        if v.param:
            self.cur.escaping.add(v.param)
        env = dict(env)
        env[x] = v.but(owned=False)
        return env

    def assign(self, s, env):
        if len(s.targets) != 1:
            raise Refuse('chained assignment')
        t = s.targets[0]
        if isinstance(t, ast.Subscript):
            x = self.lvalue_name(t.value)
            if x is None:
                raise Refuse(f'store into {_src(t.value)}')
            v = self.mutable_target(x, env, _src(s))
            if v.kind != 'dict':
                raise Refuse(f'{_src(s)}: not a dictionary')
            k = self.pure(t.slice, env, 'str')
            val = self.pure(s.value, env, 'val')
            env2 = self.rebind(env, x, 'dict', v.owned)
            c = env2[x].coq
            return (lambda r: f'let {c} := dset {k} {val} {v.coq} in\n{r}'), env2
        x = self.lvalue_name(t)
        if x is None:
            raise Refuse(f'assignment target: {_src(t)}')
        if isinstance(s.value, ast.Constant) and s.value.value is None:
            raise Refuse(f'{_src(s)}: None as a value')
        e = self.expr(s.value, env)
        if isinstance(e.kind, tuple) or e.kind in ('unit',):
            raise Refuse(f'{_src(s)}: value of kind {e.kind}')
        src_name = self.lvalue_name(s.value)
        owned = e.fresh
        if src_name is not None and e.kind in MUTABLE:
            # a second name for a mutable value
            if not x.startswith('self.'):
                raise Refuse(f'{_src(s)}: second name for a mutable '
                             'collection')
            env = self.escape(src_name, env)
            owned = False
        if x.startswith('self.'):
            f = x[5:]
            k, w = self.fields[f]
            ok = e.kind == k or (k == 'optdict' and e.kind == 'dict')
            if not ok:
                raise Refuse(f'{_src(s)}: self.{f} is a {k}, the value a '
                             f'{e.kind}')
        env2 = self.rebind(env, x, e.kind, owned)
        c = env2[x].coq
        if e.fails:
            return (lambda r: f'bind ({e.text}) (fun {c} =>\n{r})'), env2
        return (lambda r: f'let {c} := {e.text} in\n{r}'), env2

    def expr_stmt(self, s, env):
        v = s.value
        if not isinstance(v, ast.Call):
            raise Refuse(f'statement: {_src(s)}')
        if v.keywords or any(isinstance(a, ast.Starred) for a in v.args):
            raise Refuse(f'call {_src(v)}')
        f = v.func
        # X.update(Y) / X.append(Y)
        if isinstance(f, ast.Attribute) and f.attr in ('update', 'append') \
                and self.lvalue_name(f.value) is not None \
                and self.lvalue_name(f.value) in env \
                and env[self.lvalue_name(f.value)].kind in MUTABLE:
            x = self.lvalue_name(f.value)
            tv = self.mutable_target(x, env, _src(s))
            if len(v.args) != 1:
                raise Refuse(f'call {_src(v)}')
            a = v.args[0]
            if f.attr == 'update' and tv.kind == 'dict':
                at = self.pure(a, env, 'dict')
                env2 = self.rebind(env, x, 'dict', tv.owned)
                c = env2[x].coq
                return (lambda r: f'let {c} := py_update {tv.coq} {at} in\n'
                        f'{r}'), env2
            if f.attr == 'append' and tv.kind == 'dictlist':
                ax = self.lvalue_name(a)
                if ax is None:
                    raise Refuse(f'{_src(s)}: the appended value is not a '
                                 'name')
                at = self.pure(a, env, 'dict')
                env = self.escape(ax, env)
                env2 = self.rebind(env, x, 'dictlist', tv.owned)
                c = env2[x].coq
                return (lambda r: f'let {c} := ({tv.coq} ++ [{at}])%list in\n'
                        f'{r}'), env2
            raise Refuse(f'{_src(s)}: {f.attr} on kind {tv.kind}')
        callee, spec_args = self.resolve(v, env)
        if callee is None:
            raise Refuse(f'statement: {_src(s)}')
        return self.call_stmt(callee, v, env)

    def resolve(self, call, env):
        """The translated function a call refers to, or (None, None)."""
        fn = _dotted(call.func)
        if fn is None:
            return None, None
        if fn in self.module_funcs and fn not in env:
            if fn not in self.funcs:
                raise Refuse(f'call to {fn}, which is not translated '
                             '(or is translated later)')
            return self.funcs[fn], None
        parts = fn.split('.')
        if len(parts) == 2 and parts[0] == 'self' and self.self_cls:
            c, m = self.lookup_method(self.self_cls, parts[1])
            if c is None:
                return None, None
            q = f'{c}.{parts[1]}'
            if q not in self.funcs:
                raise Refuse(f'call to {q}, which is not translated '
                             '(or is translated later)')
            return self.funcs[q], None
        return None, None

    def call_args(self, callee, call, env):
        """Argument texts of a call to a translated function, the env after
        the call (ownership) and the names bound by out-parameters."""
        spec = callee.spec
        if call.keywords or len(call.args) != len(spec.params):
            raise Refuse(f'{_src(call)}: arguments do not match the '
                         f'signature of {spec.qual}')
        texts = []
        outs = []
        env2 = dict(env)
        if spec.cls and any(True for _ in FIELDS[spec.cls]) and \
                self._callee_uses_self(callee):
            if spec.cls != self.self_cls and spec.cls not in BASES.get(
                    self.self_cls, []):
                raise Refuse(f'{_src(call)}: method of another class')
            for f, k, w in FIELDS[spec.cls]:
                if not w:
                    texts.append(env['self.' + f].coq)
        for (p, k, mode), a in zip(spec.params, call.args):
            if mode in ('out', 'refine'):
                x = self.lvalue_name(a)
                if x is None or x not in env:
                    raise Refuse(f'{_src(call)}: the argument for {p} must '
                                 'be a name')
                if mode == 'out':
                    v = self.mutable_target(x, env, _src(call))
                else:
                    v = env[x]
                if v.kind != k:
                    raise Refuse(f'{_src(call)}: argument {p} has kind '
                                 f'{v.kind}, expected {k}')
                texts.append(v.coq)
                outs.append((x, v))
                continue
            t = self.pure(a, env, k)
            texts.append(t)
            x = self.lvalue_name(a)
            if p in callee.escaping and x is not None:
                env2 = self.escape(x, env2)
        return texts, env2, outs

    def _callee_uses_self(self, callee):
        node = callee.node
        return any(isinstance(n, ast.Attribute)
                   and isinstance(n.value, ast.Name) and n.value.id == 'self'
                   and n.attr in dict((f, 1) for f, k, w in
                                      FIELDS[callee.spec.cls])
                   for n in ast.walk(node))

    def call_stmt(self, callee, call, env):
        spec = callee.spec
        texts, env2, outs = self.call_args(callee, call, env)
        if spec.record:
            raise Refuse(f'{_src(call)}: call of a public method')
        pat = None
        if spec.selfstate:
            # the callee works on fields of self: pass and rebind them
            pre = []
            for f, k in spec.selfstate:
                v = env2.get('self.' + f)
                if v is None or v.kind != k:
                    raise Refuse(
                        f'{_src(call)}: {spec.qual} needs self.{f} to be a '
                        f'{k} here' + (f' (it is a {v.kind})' if v else ''))
                pre.append(v.coq)
            texts = pre + texts
            names = []
            for f, k in spec.selfstate:
                env2 = self.rebind(env2, 'self.' + f, k, False)
                names.append(env2['self.' + f].coq)
            pat = "'(" + ', '.join(names) + ')'
        elif outs:
            (x, v), = outs
            env2 = self.rebind(env2, x, 'dict', v.owned)
            pat = env2[x].coq
        elif callee.ret_kind == 'unit':
            pat = '_'
        else:
            self.note(f'result of `{_comment(_src(call))}` is not used')
            pat = '_'
        t = f'{spec.coq} ' + ' '.join(texts) if texts else spec.coq
        if callee.failing:
            if not self.cur.failing:
                raise Refuse('internal: failing call in a total function')
            return (lambda r: f'bind ({t}) (fun {pat} =>\n{r})'), env2
        if pat == '_':
            raise Refuse(f'{_src(call)}: call without effect')
        return (lambda r: f'let {pat} := {t} in\n{r}'), env2

    # -- loops ---------------------------------------------------------
    def assigned(self, stmts):
        """Env keys (re)bound or changed in place by statements."""
        out = []

        def add(n):
            if n is not None and n != 'self' and n not in out:
                out.append(n)

        def walk(s):
            if isinstance(s, ast.Assign):
                for t in s.targets:
                    if isinstance(t, ast.Subscript):
                        add(self.lvalue_name(t.value))
                    elif isinstance(t, ast.Tuple):
                        for m in t.elts:
                            add(self.lvalue_name(m))
                    else:
                        add(self.lvalue_name(t))
            elif isinstance(s, ast.Expr) and isinstance(s.value, ast.Call):
                c = s.value
                if isinstance(c.func, ast.Attribute):
                    add(self.lvalue_name(c.func.value))
                try:
                    callee, _ = self.resolve(c, {})
                except Refuse:
                    callee = None
                if callee is not None:
                    for (p, k, m), a in zip(callee.spec.params, c.args):
                        if m in ('out', 'refine'):
                            add(self.lvalue_name(a))
                    for f, k in callee.spec.selfstate:
                        add('self.' + f)
            elif isinstance(s, ast.For):
                for m in ast.walk(s.target):
                    if isinstance(m, ast.Name):
                        add(m.id)
                for b in s.body:
                    walk(b)
            elif isinstance(s, ast.If):
                for b in s.body + s.orelse:
                    walk(b)
        for s in stmts:
            walk(s)
        return out

    def items_iter(self, it, env):
        """`X.items()` -> (text of the association list, element kinds,
        env key of X)."""
        if not (isinstance(it, ast.Call) and isinstance(it.func, ast.Attribute)
                and it.func.attr == 'items' and not it.args
                and not it.keywords):
            raise Refuse(f'iteration over {_src(it)}')
        base = it.func.value
        e = self.expr(base, env)
        if e.fails:
            raise Refuse(f'iteration over {_src(it)}')
        if e.kind == 'dict':
            return e.text, ('str', 'val'), self.lvalue_name(base)
        if e.kind == 'machines':
            return e.text, ('str', 'machine'), self.lvalue_name(base)
        raise Refuse(f'{_src(it)}: items of kind {e.kind}')

    def loop_targets(self, target, kinds, env):
        if not (isinstance(target, ast.Tuple) and len(target.elts) == 2
                and all(isinstance(x, ast.Name) for x in target.elts)):
            raise Refuse(f'loop target {_src(target)}')
        a, b = (x.id for x in target.elts)
        if a == b:
            raise Refuse(f'loop target {_src(target)}')
        for x in (a, b):
            if x in env or x == 'self' or x in self.module_funcs \
                    or x in self.imports or x in self.classes:
                raise Refuse(f'loop variable {x} shadows a live name')
        inner = dict(env)
        inner[a] = Var(kinds[0], 'v_' + a)
        inner[b] = Var(kinds[1], 'v_' + b)
        lets = (f'let v_{a} := fst x in\nlet v_{b} := snd x in\n')
        return inner, lets, (a, b)

    def for_stmt(self, s, env):
        if s.orelse:
            raise Refuse('for-else')
        for n in ast.walk(s):
            if isinstance(n, ast.Return):
                raise Refuse('return inside a loop')
        lst, kinds, base = self.items_iter(s.iter, env)
        names = self.assigned(s.body)
        if base is not None and base in names:
            raise Refuse(f'the loop changes {base} while iterating over it')
        inner, lets, tg = self.loop_targets(s.target, kinds, env)
        carried = [n for n in names if n in env]
        fresh = [n for n in names if n not in env and n not in tg]
        if not carried:
            raise Refuse(f'for without effect: {_src(s.iter)}')
        failing = self.cur.failing
        before = {n: env[n] for n in env}

        def tl(e):
            for n, v0 in before.items():
                v1 = e.get(n)
                if n in carried:
                    if v1 is None or v1.kind != v0.kind:
                        raise Refuse(f'the loop changes the kind of {n}')
                    if v0.owned and not v1.owned:
                        raise Refuse(f'the loop body stores {n}, which it '
                                     'also changes in place')
                elif v1 is None or v1.version != v0.version \
                        or v1.owned != v0.owned:
                    raise Refuse(f'internal: {n} changes in the loop but is '
                                 'not carried')
            t = self.tup([e[n].coq for n in carried])
            return f'Ok {t}' if failing else t
        self.in_loop += 1
        body = self.block(s.body, inner, tl)
        self.in_loop -= 1
        if fresh:
            self.note(f'names first bound in the body of `for '
                      f'{_comment(_src(s.target))} in '
                      f'{_comment(_src(s.iter))}` are local to one '
                      'iteration: ' + ', '.join(fresh))
        env2 = dict(env)
        for n in carried:
            env2 = self.rebind(env2, n, env[n].kind, env[n].owned)
        cur = self.tup([env[n].coq for n in carried])
        new = self.pat([env2[n].coq for n in carried])
        inpat = self.pat([env[n].coq for n in carried])
        if failing:
            fold = (f'fold_left (fun st x => bind st (fun {inpat} =>\n'
                    + ind(lets + body, 4) + '))\n'
                    f'  {lst} (Ok {cur})')
            return (lambda r: f'bind ({fold}) (fun {new} =>\n{r})'), env2
        fold = (f'fold_left (fun {inpat} x =>\n' + ind(lets + body, 4)
                + ')\n' f'  {lst} {cur}')
        return (lambda r: f'let {new} := {fold} in\n{r}'), env2

    @staticmethod
    def tup(names):
        return names[0] if len(names) == 1 else '(' + ', '.join(names) + ')'

    @staticmethod
    def pat(names):
        return names[0] if len(names) == 1 else "'(" + ', '.join(names) + ')'

    # ------------------------------------------------------------------
    # expressions
    def truth(self, e):
        if e.fails:
            raise Refuse('condition that can raise')
        if e.kind == 'bool':
            return e.text
        if e.kind == 'names':
            return f'negb (is_nil {e.text})'
        raise Refuse(f'truth value of kind {e.kind}')

    def pure(self, node, env, kind):
        e = self.expr(node, env)
        if e.fails:
            raise Refuse(f'{_src(node)}: a call that can raise inside an '
                         'expression')
        if e.kind != kind:
            raise Refuse(f'{_src(node)} has kind {e.kind}, expected {kind}')
        return e.text

    def expr(self, e, env):
        if isinstance(e, ast.Name):
            if e.id not in env:
                raise Refuse(f'{self.cur.spec.qual}: unknown or no longer '
                             f'defined name {e.id}')
            v = env[e.id]
            return E(v.coq, v.kind)
        if isinstance(e, ast.Constant):
            if isinstance(e.value, str):
                return E(qs(e.value), 'str')
            if isinstance(e.value, bool):
                return E('true' if e.value else 'false', 'bool')
            raise Refuse(f'constant {e.value!r}')
        if isinstance(e, ast.Attribute):
            x = self.lvalue_name(e)
            if x is not None:
                if not self.uses_self or x not in env:
                    raise Refuse(f'{_src(e)} is not available here')
                v = env[x]
                return E(v.coq, v.kind)
            if e.attr == 'vars' and isinstance(e.value, ast.Name) \
                    and e.value.id in env \
                    and env[e.value.id].kind == 'machine':
                return E(f'(m_vars {env[e.value.id].coq})', 'names')
            raise Refuse(f'attribute {_src(e)}')
        if isinstance(e, ast.UnaryOp) and isinstance(e.op, ast.Not):
            a = self.expr(e.operand, env)
            if a.fails:
                raise Refuse(f'{_src(e)}')
            if a.kind == 'bool':
                return E(f'(negb {a.text})', 'bool')
            if a.kind == 'names':
                return E(f'(is_nil {a.text})', 'bool')
            raise Refuse(f'not on kind {a.kind}')
        if isinstance(e, ast.BinOp):
            a, b = self.expr(e.left, env), self.expr(e.right, env)
            if a.fails or b.fails:
                raise Refuse(_src(e))
            if isinstance(e.op, ast.Add) and a.kind == b.kind == 'str':
                return E(f'({a.text} ++ {b.text})', 'str')
            if isinstance(e.op, ast.BitAnd) and a.kind == b.kind == 'names':
                return E(f'(filter (fun k => mem k {b.text}) {a.text})',
                         'names')
            raise Refuse(f'operator {type(e.op).__name__} on {a.kind}, '
                         f'{b.kind}: {_src(e)}')
        if isinstance(e, ast.Compare):
            return self.compare(e, env)
        if isinstance(e, ast.Subscript):
            return self.subscript(e, env)
        if isinstance(e, ast.DictComp):
            return self.dictcomp(e, env)
        if isinstance(e, ast.Call):
            return self.call(e, env)
        raise Refuse(f'expression {type(e).__name__}: {_src(e)}')

    def compare(self, e, env):
        if len(e.ops) != 1:
            raise Refuse(f'chained comparison {_src(e)}')
        op, l, r = e.ops[0], e.left, e.comparators[0]
        if isinstance(op, (ast.Is, ast.IsNot)):
            raise Refuse(f'{_src(e)}: a None test is only translated as the '
                         'condition of an if or assert')
        if isinstance(op, (ast.In, ast.NotIn)):
            a = self.pure(l, env, 'str')
            b = self.expr(r, env)
            if b.fails:
                raise Refuse(_src(e))
            if b.kind == 'dict':
                t = f'(mem {a} (keys {b.text}))'
            elif b.kind == 'names':
                t = f'(mem {a} {b.text})'
            else:
                raise Refuse(f'{_src(e)}: membership in kind {b.kind}')
            return E(t if isinstance(op, ast.In) else f'(negb {t})', 'bool')
        raise Refuse(f'comparison {_src(e)}')

    def subscript(self, e, env):
        # s[len(p):]
        if isinstance(e.slice, ast.Slice):
            sl = e.slice
            if sl.upper is not None or sl.step is not None \
                    or sl.lower is None:
                raise Refuse(f'slice {_src(e)}')
            s = self.pure(e.value, env, 'str')
            n = self.pure(sl.lower, env, 'nat')
            return E(f'(py_drop {n} {s})', 'str')
        # self.aut.varlist['..']
        if _dotted(e.value) == 'self.aut.varlist' \
                and self.self_cls == 'AutomatonStepper' \
                and isinstance(e.slice, ast.Constant) \
                and isinstance(e.slice.value, str):
            return E(f'(aut_varlist {qs(e.slice.value)})', 'names')
        raise Refuse(f'subscript {_src(e)}')

    def dictcomp(self, e, env):
        if len(e.generators) != 1:
            raise Refuse(f'comprehension {_src(e)}')
        g = e.generators[0]
        if g.is_async or len(g.ifs) > 1:
            raise Refuse(f'comprehension {_src(e)}')
        # `.items()` of a value that may be None raises AttributeError
        opt = None
        it = g.iter
        if (isinstance(it, ast.Call) and isinstance(it.func, ast.Attribute)
                and it.func.attr == 'items'
                and isinstance(it.func.value, ast.Name)
                and it.func.value.id in env
                and env[it.func.value.id].kind == 'optdict'):
            opt = env[it.func.value.id]
            env = dict(env)
            env[it.func.value.id] = opt.but(kind='dict')
            self.note(f'`{_comment(_src(it))}` on None (AttributeError) is '
                      f'Err {NONE_METHOD_ERR}')
        lst, kinds, base = self.items_iter(it, env)
        if kinds != ('str', 'val'):
            raise Refuse(f'comprehension over {_src(it)}')
        inner, lets, tg = self.loop_targets(g.target, kinds, env)
        key = self.expr(e.key, inner)
        if key.kind != 'str':
            raise Refuse(f'{_src(e.key)}: key of kind {key.kind}')
        val = self.pure(e.value, inner, 'val')
        cond = None
        if g.ifs:
            c = self.expr(g.ifs[0], inner)
            cond = self.truth(c)
        failing = key.fails or opt is not None
        if key.fails:
            store = (f'bind ({key.text}) (fun key =>\n'
                     f'Ok (dset key {val} acc))')
            skip = 'Ok acc'
        else:
            store = f'dset {key.text} {val} acc'
            skip = 'acc'
            if failing:
                pass
        if cond is not None:
            body = f'if {cond} then {store} else {skip}'
        else:
            body = store
        if key.fails:
            t = ('fold_left (fun st x => bind st (fun acc =>\n'
                 + ind(lets + body, 4) + f'))\n  {lst} (Ok [])')
        else:
            t = ('fold_left (fun acc x =>\n' + ind(lets + body, 4)
                 + f')\n  {lst} []')
        if opt is not None:
            inner_t = t if key.fails else f'Ok ({t})'
            t = (f'match {opt.coq} with\n| None => Err {NONE_METHOD_ERR}\n'
                 f'| Some {opt.coq} =>\n{ind(inner_t)}\nend')
        if failing and not self.cur.failing:
            raise Refuse('internal: failing comprehension in a total '
                         'function')
        return E('(' + t + ')', 'dict', fails=failing, fresh=True)

    def call(self, e, env):
        fn = _dotted(e.func)
        args = e.args
        if e.keywords or any(isinstance(a, ast.Starred) for a in args):
            raise Refuse(f'call {_src(e)}')
        if fn == 'dict' and not args and 'dict' not in env:
            return E('([] : dict)', 'dict', fresh=True)
        if fn == 'len' and len(args) == 1 and 'len' not in env:
            s = self.pure(args[0], env, 'str')
            return E(f'(String.length {s})', 'nat')
        callee, _ = self.resolve(e, env)
        if callee is not None:
            spec = callee.spec
            if spec.record or spec.selfstate or any(
                    m != 'in' for p, k, m in spec.params):
                raise Refuse(f'{_src(e)}: a procedure used as a value')
            if callee.ret_kind in (None, 'unit'):
                raise Refuse(f'{_src(e)}: {spec.qual} returns no value')
            texts, env2, outs = self.call_args(callee, e, env)
            for k in env:
                if env2[k].owned != env[k].owned:
                    raise Refuse(f'{_src(e)}: {spec.qual} stores its '
                                 'argument')
            t = f'({spec.coq} ' + ' '.join(texts) + ')'
            return E(t, callee.ret_kind, fails=callee.failing,
                     fresh=callee.fresh_result)
        if isinstance(e.func, ast.Attribute):
            return self.method_call(e, env)
        raise Refuse(f'call {_src(e)}')

    def method_call(self, e, env):
        fn = _dotted(e.func)
        attr = e.func.attr
        args = e.args
        base = e.func.value
        # dd-level operations: parameters of the generated Section
        if self.self_cls == 'AutomatonStepper' or self.cur.spec.section:
            if fn == 'self.aut.let' and len(args) == 2:
                st = self.pure(args[0], env, 'dict')
                u = self.pure(args[1], env, 'bdd')
                return E(f'(aut_let {st} {u})', 'bdd', fails=True)
            if fn == 'self.aut.support' and len(args) == 1:
                u = self.pure(args[0], env, 'bdd')
                return E(f'(aut_support {u})', 'names')
            if fn == 'self.aut.pick' and len(args) == 1:
                u = self.pure(args[0], env, 'bdd')
                return E(f'(aut_pick1 {u})', 'optdict')
            if fn == 'self.aut.pick' and len(args) == 2:
                u = self.pure(args[0], env, 'bdd')
                c = self.pure(args[1], env, 'names')
                return E(f'(aut_pick2 {u} {c})', 'optdict')
            if fn == 'prm.unprimed_support' and len(args) == 2 \
                    and _dotted(args[1]) == 'self.aut' \
                    and self.self_cls == 'AutomatonStepper':
                u = self.pure(args[0], env, 'bdd')
                return E(f'(prm_unprimed_support {u})', 'names')
            if fn == 'stx.unprime' and len(args) == 1:
                k = self.pure(args[0], env, 'str')
                return E(f'(stx_unprime {k})', 'str', fails=True)
        if isinstance(base, ast.Name) and base.id in ('self', 'prm', 'stx') \
                or fn is not None and fn.startswith('self.aut'):
            raise Refuse(f'call {_src(e)}')
        b = self.expr(base, env)
        if b.fails:
            raise Refuse(f'call {_src(e)}')
        if b.kind == 'str' and attr == 'startswith' and len(args) == 1:
            p = self.pure(args[0], env, 'str')
            return E(f'(String.prefix {p} {b.text})', 'bool')
        if b.kind == 'dict' and attr == 'keys' and not args:
            return E(f'(keys {b.text})', 'names')
        if b.kind == 'names' and attr == 'difference' and len(args) == 1:
            a = self.expr(args[0], env)
            if a.fails:
                raise Refuse(_src(e))
            if a.kind == 'dict':
                ks = f'(keys {a.text})'
            elif a.kind == 'names':
                ks = a.text
            else:
                raise Refuse(f'{_src(e)}: difference with kind {a.kind}')
            return E(f'(filter (fun k => negb (mem k {ks})) {b.text})',
                     'names')
        if b.kind == 'names' and attr == 'union' and len(args) == 1:
            a = self.pure(args[0], env, 'names')
            return E(f'({b.text} ++ {a})%list', 'names')
        if b.kind == 'machine' and attr == 'init' and not args:
            self.note(f'`{_comment(_src(e))}`: the result of a component is '
                      'only read')
            return E(f'(m_init {b.text})', 'dict', fails=True)
        if b.kind == 'machine' and attr == 'step' and len(args) == 1:
            x = self.lvalue_name(args[0])
            if x is None or x not in env or not env[x].owned:
                raise Refuse(f'{_src(e)}: the dictionary handed to a '
                             'component must be one this function built '
                             '(the component may keep or change it)')
            a = self.pure(args[0], env, 'dict')
            # dead afterwards
            self.kill.append(x)
            self.note(f'`{_comment(_src(e))}`: `{x}` is not used after the '
                      'call (checked), so it does not matter whether the '
                      'component keeps or changes it')
            return E(f'(m_step {b.text} {a})', 'dict', fails=True)
        raise Refuse(f'method call {_src(e)} on kind {b.kind}')

    kill = []


HEADER = r'''(* GENERATED by tools/py2coq_steps.py from %(src)s in the working tree of /repo.
   Do not edit; regenerated on every check run.

   Python names are prefixed with v_, fields of `self` with self_.
   Strings are Coq strings; dictionaries str -> value are association lists
   in insertion order (Mangle.dict; `d[k] = v` is Mangle.dset); exceptions
   are the error values of Mangle.res.  See the notes at the end for
   everything that is not represented in the terms. *)
From Coq Require Import List Bool String Ascii ZArith.
From Omega Require Import L4Steps.Mangle L4Steps.Stepper L4Steps.Assembly.
Import ListNotations.
Open Scope string_scope.

(* --- the Python primitives the translated code uses -------------------- *)
(* `not l` for a set / list *)
Definition is_nil {A : Type} (l : list A) : bool :=
  match l with [] => true | _ :: _ => false end.

(* `s[n:]` *)
Fixpoint py_drop (n : nat) (s : string) : string :=
  match n, s with
  | O, _ => s
  | S n', String _ s' => py_drop n' s'
  | S _, EmptyString => EmptyString
  end.

(* `d.update(e)` *)
Definition py_update (d e : dict) : dict :=
  fold_left (fun acc kv => dset (fst kv) (snd kv) acc) e d.

(* `s.startswith(p)` is String.prefix p s; `len(s)` is String.length s;
   `a + b` on strings is append; `k in d` is mem k (keys d). *)

'''

SECTION_HEADER = r'''
(* --- AutomatonStepper: the dd-level operations are parameters ---------- *)
Section Stepper.
Variable bddT : Type.
(* `aut.let(state, u)` (raises when a key is not declared) *)
Variable aut_let : dict -> bddT -> res bddT.
(* `aut.support(u)` *)
Variable aut_support : bddT -> list string.
(* `aut.pick(u)` and `aut.pick(u, care_vars)` *)
Variable aut_pick1 : bddT -> option dict.
Variable aut_pick2 : bddT -> list string -> option dict.
(* `aut.varlist[key]` *)
Variable aut_varlist : string -> list string.
(* `prm.unprimed_support(u, aut)` *)
Variable prm_unprimed_support : bddT -> list string.
(* `stx.unprime(k)` (asserts that k is primed once) *)
Variable stx_unprime : string -> res string.

'''


def kind_type(k):
    if isinstance(k, tuple):
        return ' * '.join(KIND_TYPE[x] for x in k)
    return KIND_TYPE[k]


def emit(tr, fi):
    spec = fi.spec
    params = []
    if spec.cls and tr_uses_self(fi):
        for f, k, w in FIELDS[spec.cls]:
            if not w:
                params.append((f'self_{f}', KIND_TYPE[k]))
        if spec.record:
            params.append(('self', 'assembly'))
        for f, k in spec.selfstate:
            params.append((f'self_{f}', KIND_TYPE[k]))
    for p, k, m in spec.params:
        params.append(('v_' + p, KIND_TYPE[k]))
    ps = ' '.join(f'({n} : {t})' for n, t in params)
    rt = kind_type(fi.ret_kind)
    if fi.failing:
        rt = f'res ({rt})'
    head = f'Definition {spec.coq} {ps}'.rstrip() + f' : {rt} :=\n'
    out = head + ind(fi.text) + '.'
    if fi.commits_last is not None:
        out += (f'\n\n(* does every change of a field of self come after the '
                'last statement\n   that can raise (a call that raises '
                'leaves the object unchanged)? *)\n'
                f'Definition {spec.coq}_commits_last : bool := '
                + ('true' if fi.commits_last else 'false') + '.')
    return out


def tr_uses_self(fi):
    return any(isinstance(n, ast.Attribute)
               and isinstance(n.value, ast.Name) and n.value.id == 'self'
               and n.attr in dict((f, 1) for f, k, w in FIELDS[fi.spec.cls])
               for n in ast.walk(fi.node))


def translate(path):
    """Returns (Gallina text of the definitions, notes, names)."""
    tr = Translator(path)
    plain, sect = [], []
    for spec in SPECS:
        tr.kill = []
        fi = tr.translate(spec)
        # a dictionary handed to a component must be dead afterwards
        _check_dead(tr, fi)
        (sect if spec.section else plain).append(emit(tr, fi))
    untranslated = []
    for n in tr.tree.body:
        if isinstance(n, ast.FunctionDef) and n.name not in tr.funcs:
            untranslated.append(n.name)
        if isinstance(n, ast.ClassDef):
            for m in n.body:
                if isinstance(m, ast.FunctionDef) \
                        and f'{n.name}.{m.name}' not in tr.funcs:
                    untranslated.append(f'{n.name}.{m.name}')
    tr.notes.append('not translated (tie H or not modelled): '
                    + ', '.join(untranslated))
    text = ('\n\n'.join(plain) + '\n' + SECTION_HEADER + '\n\n'.join(sect)
            + '\n\nEnd Stepper.\n')
    return text, tr.notes, [s.qual for s in SPECS]


def _check_dead(tr, fi):
    """Names handed to `machine.step` are not used later in the function
    (source order; the functions concerned are straight-line)."""
    for x in tr.kill:
        if x.startswith('self.'):
            raise Refuse(f'{fi.spec.qual}: a field of self is handed to a '
                         'component')
        uses = [n for n in ast.walk(fi.node)
                if isinstance(n, ast.Name) and n.id == x]
        calls = [n for n in ast.walk(fi.node)
                 if isinstance(n, ast.Call)
                 and isinstance(n.func, ast.Attribute)
                 and n.func.attr == 'step'
                 and any(isinstance(a, ast.Name) and a.id == x
                         for a in n.args)]
        if len(calls) != 1:
            raise Refuse(f'{fi.spec.qual}: {x} is handed to components '
                         f'{len(calls)} times')
        c = calls[0]
        pos = (c.end_lineno, c.end_col_offset)
        for u in uses:
            if (u.lineno, u.col_offset) > pos:
                raise Refuse(f'{fi.spec.qual}: {x} is used after it was '
                             'handed to a component')
        for n in ast.walk(fi.node):
            if isinstance(n, (ast.For, ast.While)):
                raise Refuse(f'{fi.spec.qual}: a loop in a function that '
                             'hands a dictionary to a component')


def file_text(path, src=SRC):
    text, notes, names = translate(path)
    body = HEADER % dict(src=src) + text
    body += ''.join(f'(* note: {_comment(n)} *)\n' for n in notes)
    return body, notes, names


if __name__ == '__main__':
    import sys
    print(file_text(sys.argv[1])[0])
