(* L4 / RabinPlays: every play consistent with the strategy of
   RabinStrategy.v that starts in the Rabin(1) region is won by the
   component:  it keeps its action for as long as the mode obliges it to and,
   if the environment keeps its action forever, some persistence predicate
   holds from some point on and every recurrence predicate holds infinitely
   often.  (Soundness of the Rabin(1) fixpoint in game terms.)

   Uses excluded middle through L4/LiveLemma.v (Classical_Prop.classic). *)
From Coq Require Import List Bool Arith Lia.
Import ListNotations.
From Omega Require Import L4.Arena L4.ArenaFacts L4.Kleene L4.AlgOrder L4.GameSpec L4.Mu
  L4.GR1Spec L4.Ranks L4.Plays L4.RabinStruct L4.RabinStrategy L4.LiveLemma.

Section RabinPlays.
Variables nc nx ny : nat.
Variables moore plus_one : bool.
Variables E S : bdd.
Variables holds goals : list bdd.
Variable c : nat.
Hypothesis Hc : c < nc.
Hypothesis HnR : 0 < length goals.

Local Notation NV := (NV nc nx ny).
Local Notation cpre := (cpre nx ny moore plus_one E S).
Local Notation rabin_spec := (rabin_spec nc nx ny moore plus_one E S holds goals).
Local Notation Zl := (Zl nc nx ny moore plus_one E S holds goals).
Local Notation stv := (stv c).
Local Notation stepv := (stepv c).
Local Notation strategy := (strategy nc nx ny moore plus_one E S holds goals c).
Local Notation memof := (memof nc nx ny moore plus_one E S holds goals c).
Local Notation upd := (upd nc nx ny moore plus_one E S holds goals c).
Local Notation reset := (reset nc nx ny moore plus_one E S holds goals c).
Local Notation target := (target nc nx ny moore plus_one E S holds goals c).
Local Notation mv := (mv nx ny moore plus_one E S c).
Local Notation Inv := (Inv nc nx ny moore plus_one E S holds goals c).
Local Notation xrank := (xrank nc nx ny moore plus_one E S holds goals c).
Local Notation sinr := (sinr nx ny).
Local Notation Pk := (Pk holds).
Local Notation Rj := (Rj goals).
Local Notation nP := (nP holds).
Local Notation nR := (nR goals).
Local Notation Eat := (Eat c E).
Local Notation Sat := (Sat c S).

Lemma strategy_valid : 0 < ny -> cvalid ny moore strategy.
Proof.
  intros Hny. split.
  - intros h x'. unfold RabinStrategy.strategy, clampy.
    destruct (_ <? ny) eqn:El; [apply Nat.ltb_lt, El|exact Hny].
  - intros Hm h x1 x2. unfold RabinStrategy.strategy. f_equal. apply mv_moore, Hm.
Qed.

Section OnePlay.
Variable p : play.
Hypothesis Hr : inrange nx ny p.
Hypothesis Hcons : cconsistent strategy p.
Hypothesis H0 : rabin_spec (stv (p 0)) = true.

Definition mseq (i : nat) := memof (hist p i).

Lemma mseq_0 : mseq 0 = reset (p 0).
Proof. reflexivity. Qed.

Lemma hist_cons i : exists t, hist p i = p i :: t.
Proof. destruct i; cbn [hist]; eexists; reflexivity. Qed.

Lemma mseq_S i : mseq (Datatypes.S i) = upd (mseq i) (p i) (p (Datatypes.S i)).
Proof.
  unfold mseq. cbn [hist RabinStrategy.memof].
  destruct (hist_cons i) as [t Ht]. rewrite Ht. reflexivity.
Qed.

Lemma psinr i : sinr (p i).
Proof. apply Hr. Qed.

(* the move of the play at step n, when the invariant holds *)
Lemma play_move n :
  Inv (mseq n) (p n) ->
  p (Datatypes.S n) =
    (fst (p (Datatypes.S n)), mv (target (mseq n) (p n)) (p n) (fst (p (Datatypes.S n)))).
Proof.
  intros HI. rewrite (surjective_pairing (p (Datatypes.S n))) at 1. f_equal.
  rewrite (Hcons n). unfold RabinStrategy.strategy. rewrite hist_hd. fold (mseq n).
  destruct (move_spec nc nx ny moore plus_one E S holds goals c Hc HnR (mseq n) (p n)
              (fst (p (Datatypes.S n))) HI (psinr n) (proj1 (psinr (Datatypes.S n)))) as [Hy _].
  unfold clampy. apply Nat.ltb_lt in Hy. rewrite Hy. reflexivity.
Qed.

Lemma step_facts n :
  Inv (mseq n) (p n) ->
  (plus_one = true -> Sat p n) /\
  (Eat p n -> Sat p n /\ target (mseq n) (p n) (stv (p (Datatypes.S n))) = true).
Proof.
  intros HI.
  destruct (move_spec nc nx ny moore plus_one E S holds goals c Hc HnR (mseq n) (p n)
              (fst (p (Datatypes.S n))) HI (psinr n) (proj1 (psinr (Datatypes.S n))))
    as [_ [H1 H2]].
  rewrite <- (play_move n HI) in H1, H2. split; [exact H1|exact H2].
Qed.

Lemma inv_all n : (forall i, i < n -> Eat p i) -> Inv (mseq n) (p n).
Proof.
  induction n as [|n IH]; intros He.
  - rewrite mseq_0.
    destruct (region_level nc nx ny moore plus_one E S holds goals (stv (p 0))
                (stv_inr nc nx ny goals c Hc HnR (p 0) (psinr 0)) H0) as [a [Ha Hz]].
    apply (reset_inv nc nx ny moore plus_one E S holds goals c Hc HnR (p 0) a (psinr 0) Ha Hz).
  - assert (HI : Inv (mseq n) (p n)) by (apply IH; intros i Hi; apply He; lia).
    destruct (step_facts n HI) as [_ H2]. destruct (H2 (He n ltac:(lia))) as [_ Ht].
    rewrite mseq_S. destruct (mseq n) as [[a k] j].
    apply (inv_next nc nx ny moore plus_one E S holds goals c Hc HnR a k j (p n)
             (p (Datatypes.S n)) HI (psinr n) (psinr (Datatypes.S n)) Ht).
Qed.

Theorem play_safe : safe_comp c E S plus_one p.
Proof.
  intros n He Hns.
  destruct (step_facts n (inv_all n He)) as [H1 H2].
  destruct plus_one; [apply H1; reflexivity|apply H2, Hns; reflexivity].
Qed.

(* ------------------------------------------------------------ liveness *)
Section Live.
Hypothesis HE : forall i, Eat p i.

Definition aseq i := fst (fst (mseq i)).
Definition kseq i := snd (fst (mseq i)).
Definition jseq i := snd (mseq i).

Lemma mseq_eta i : mseq i = (aseq i, kseq i, jseq i).
Proof. unfold aseq, kseq, jseq. destruct (mseq i) as [[a k] j]. reflexivity. Qed.

Lemma inv_i i : Inv (aseq i, kseq i, jseq i) (p i).
Proof. rewrite <- mseq_eta. apply inv_all. intros t _. apply HE. Qed.

Lemma next_facts i :
  aseq (Datatypes.S i) <= aseq i /\
  (cpre (Zl (aseq i)) (stv (p i)) = true -> aseq (Datatypes.S i) < aseq i) /\
  (aseq (Datatypes.S i) = aseq i ->
     kseq (Datatypes.S i) = kseq i /\
     ((Rj (jseq i) (stv (p i)) = true /\ jseq (Datatypes.S i) = (jseq i + 1) mod nR) \/
      (Rj (jseq i) (stv (p i)) = false /\ jseq (Datatypes.S i) = jseq i /\
       xrank (aseq i, kseq i, jseq i) (p (Datatypes.S i)) <
       xrank (aseq i, kseq i, jseq i) (p i)))).
Proof.
  pose proof (inv_i i) as HI.
  assert (Ht : target (aseq i, kseq i, jseq i) (p i) (stv (p (Datatypes.S i))) = true).
  { rewrite <- mseq_eta. apply step_facts; [rewrite mseq_eta; exact HI|apply HE]. }
  pose proof (inv_next nc nx ny moore plus_one E S holds goals c Hc HnR
                (aseq i) (kseq i) (jseq i) (p i) (p (Datatypes.S i)) HI (psinr i)
                (psinr (Datatypes.S i)) Ht) as H.
  cbv zeta in H. rewrite <- mseq_eta, <- mseq_S in H.
  destruct H as [_ [H1 [H2 H3]]]. fold (aseq (Datatypes.S i)) in H1, H2, H3.
  fold (kseq (Datatypes.S i)) in H3. fold (jseq (Datatypes.S i)) in H3.
  rewrite (mseq_eta i) in H3.
  split; [exact H1|]. split; [exact H2|exact H3].
Qed.

Theorem play_live : persist c holds p /\ recur c goals p.
Proof.
  destruct (eventually_constant 1 Nat.lt_0_1 aseq 0) as [N1 [_ Hconst]].
  { intros i _. apply next_facts. }
  assert (Ha : forall i, N1 <= i -> aseq (Datatypes.S i) = aseq i).
  { intros i Hi. rewrite (Hconst i Hi), (Hconst (Datatypes.S i)) by lia. reflexivity. }
  assert (Hk : forall i, N1 <= i -> kseq i = kseq N1).
  { intros i Hi. induction Hi as [|i Hi IH]; [reflexivity|].
    destruct (next_facts i) as [_ [_ H3]]. destruct (H3 (Ha i Hi)) as [Hkk _]. lia. }
  split.
  - (* persistence *)
    exists (Pk (kseq N1)). split.
    + apply nth_In. pose proof (inv_i N1) as [_ [Hkn _]]. exact Hkn.
    + exists N1. intros i Hi.
      pose proof (inv_i i) as HI.
      destruct (Inv_facts nc nx ny moore plus_one E S holds goals c Hc HnR (aseq i) (kseq i) (jseq i)
                  (p i) HI (psinr i)) as [_ [_ [_ H4]]].
      destruct H4 as [H4|H4].
      * exfalso. destruct (next_facts i) as [_ [H2 _]]. specialize (H2 H4).
        specialize (Ha i Hi). lia.
      * rewrite (Hk i Hi) in H4. exact H4.
  - (* recurrence *)
    assert (HjR : forall i, jseq i < nR).
    { intros i. pose proof (inv_i i) as [_ [_ [Hj _]]]. exact Hj. }
    pose (cc := fun i => jseq (N1 + i)).
    pose (Sw := fun i => Rj (cc i) (stv (p (N1 + i))) = true).
    pose (Ds := fun i => Rj (cc i) (stv (p (N1 + i))) = false).
    pose (St := fun _ : nat => False).
    pose (mm := fun j i => xrank (aseq N1, kseq N1, j) (p (N1 + i))).
    assert (Hak : forall i, aseq (N1 + i) = aseq N1 /\ kseq (N1 + i) = kseq N1).
    { intros i. split; [apply Hconst; lia|apply Hk; lia]. }
    destruct (live_dichotomy nR HnR cc (fun i => HjR (N1 + i)) Sw Ds St) with (m := mm)
      as [Hl|Hrr].
    + intros i. unfold Sw, Ds. destruct (Rj (cc i) (stv (p (N1 + i)))); auto.
    + intros i Hsw. unfold Sw in Hsw. unfold cc in *.
      destruct (next_facts (N1 + i)) as [_ [_ H3]].
      destruct (H3 (Ha (N1 + i) ltac:(lia))) as [_ [[_ Hj]|[Hf _]]].
      * rewrite Nat.add_succ_r. exact Hj.
      * congruence.
    + intros i Hds. unfold Ds in Hds. unfold cc in *.
      destruct (next_facts (N1 + i)) as [_ [_ H3]].
      destruct (H3 (Ha (N1 + i) ltac:(lia))) as [_ [[Ht _]|[_ [Hj _]]]].
      * congruence.
      * rewrite Nat.add_succ_r. exact Hj.
    + intros i [].
    + intros i Hds. unfold Ds in Hds. unfold mm, cc in *.
      destruct (next_facts (N1 + i)) as [_ [_ H3]].
      destruct (H3 (Ha (N1 + i) ltac:(lia))) as [_ [[Ht _]|[_ [_ Hx]]]].
      * congruence.
      * destruct (Hak i) as [Ha1 Hk1]. rewrite Ha1, Hk1 in Hx.
        rewrite Nat.add_succ_r. exact Hx.
    + intros i [].
    + exfalso. destruct Hl as [N [N2 [_ Hst]]]. destruct (Hst N2 (Nat.le_refl _)) as [[] _].
    + intros R HR N.
      destruct (In_nth _ _ bfalse HR) as [j [Hj Hnth]].
      destruct (Hrr j Hj N) as [i [Hi [Hsw Hci]]].
      exists (N1 + i). split; [lia|].
      unfold Sw in Hsw. rewrite Hci in Hsw. unfold RabinStrategy.Rj in Hsw.
      rewrite Hnth in Hsw. exact Hsw.
Qed.

End Live.

Theorem play_won : win_rabin c E S holds goals plus_one p.
Proof. split; [exact play_safe|]. intros HE. apply play_live, HE. Qed.

End OnePlay.

(* Soundness of the Rabin(1) region in game terms *)
Theorem rabin_region_sound s :
  fst s < nx -> snd s < ny -> rabin_spec (stv s) = true ->
  comp_wins nx ny moore (win_rabin c E S holds goals plus_one) s.
Proof.
  intros H1 H2 Hs. exists strategy. split; [apply strategy_valid; lia|].
  intros p Hr Hp0 Hcons. apply play_won; [exact Hr|exact Hcons|]. rewrite Hp0. exact Hs.
Qed.

End RabinPlays.
