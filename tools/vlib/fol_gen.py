"""Generators of declarations and formulas for the C06 correspondence.

All formulas stay inside the property's quantifier: documented first-order
grammar, bounded depth, hints of the three shapes with 1..5 magnitude bits.
Definitions bind fresh names (never a declared variable, never a name already
defined).
"""
from vlib import fol_ast

SHAPES = ('pos', 'cross', 'neg')
INT_NAMES = ['x', 'y', 'z', 'w']
BOOL_NAMES = ['a', 'b', 'c']
DEF_NAMES = ['p', 'q', 'r', 'f', 'g', 'h', 'k', 'm']
AND_SP = ['/\\', '&', '&&']
OR_SP = ['\\/', '|', '||']
IMP_SP = ['=>', '->']
IFF_SP = ['<=>', '<->']
CMP_SP = ['<', '<=', '=<', '=', '#', '!=', '/=', '>=', '>']
ARITH = ['+', '-', '*', '/', '%']


def hint(rng, shape, w):
    """A type hint of the given shape whose bit field has `w` magnitude bits
    (so `w` bits for sign-definite hints, `w + 1` for sign-crossing ones)."""
    lo_m = 1 << (w - 1)
    hi_m = (1 << w) - 1
    if shape == 'pos':
        hi = rng.randint(lo_m, hi_m) if w > 1 else rng.randint(0, 1)
        return (rng.randint(0, hi), hi)
    if shape == 'neg':
        lo = -rng.randint(lo_m, hi_m)
        return (lo, rng.randint(lo, -1))
    m = rng.randint(lo_m, hi_m)
    if rng.random() < 0.5:
        return (-m, rng.randint(0, m))
    return (rng.randint(-m, -1), m)


def canonical_hint(shape, w):
    if shape == 'pos':
        return (0, (1 << w) - 1)
    if shape == 'neg':
        return (-((1 << w) - 1), -1)
    return (-((1 << w) - 1), (1 << w) - 1)


def int_width(h):
    """len(var_to_twos_complement): bits incl. the sign bit."""
    lo, hi = h
    w = max(abs(lo), abs(hi)).bit_length() or 1
    return w + 1


def num_width(z):
    return max(abs(z).bit_length(), 1) + 1


# ----------------------------------------------------------------- sweep
def sweep_cases(rng, maxw):
    """(i) every binary operator x every ordered pair of hint shapes x
    magnitude widths 1..maxw.  Yields dict cases."""
    decls = [(s, w) for s in SHAPES for w in range(1, maxw + 1)]
    for sx, wx in decls:
        for sy, wy in decls:
            hx = hint(rng, sx, wx)
            hy = hint(rng, sy, wy)
            decl = {'x': hx, 'y': hy}
            X, Y = ('var', 'x'), ('var', 'y')
            shape = f'{sx}{wx}-{sy}{wy}'
            for op in ARITH:
                yield dict(kind='bits', decl=decl, tree=('arith', op, X, Y),
                           cls=f'sweep:{op}', shape=shape)
                # the same operator through the public API
                k = rng.choice([-3, -1, 0, 1, 2, rng.randint(-40, 40)])
                sp = rng.choice(CMP_SP)
                yield dict(kind='pred', decl=decl,
                           tree=('cmp', sp, ('arith', op, X, Y), ('num', k)),
                           cls=f'sweep-api:{op}', shape=shape)
            for sp in CMP_SP:
                yield dict(kind='pred', decl=decl, tree=('cmp', sp, X, Y),
                           cls=f'sweep:{sp}', shape=shape)


# ---------------------------------------------------------------- random
class Gen:
    def __init__(self, rng, decl, max_depth=4, allow_quant=True,
                 allow_let=True, allow_prime=True):
        self.rng = rng
        self.decl = decl
        self.ints = [n for n, h in decl.items() if h != 'bool']
        self.bools = [n for n, h in decl.items() if h == 'bool']
        self.max_depth = max_depth
        self.fresh = list(DEF_NAMES)
        self.allow_quant = allow_quant
        self.allow_let = allow_let
        self.allow_prime = allow_prime
        # defined names in scope: name -> ('bool', None) | ('int', width)
        self.scope = {}

    # -- leaves
    def int_leaf(self):
        r = self.rng
        names = [n for n, (ty, _) in self.scope.items() if ty == 'int']
        c = r.random()
        if names and c < 0.15:
            n = r.choice(names)
            return ('op', n), self.scope[n][1]
        if self.ints and c < 0.7:
            n = r.choice(self.ints)
            e = ('var', n)
            if self.allow_prime and r.random() < 0.15:
                e = ('prime', r.choice(["'", 'X']), e)
            return e, int_width(self.decl[n])
        z = r.choice([0, 1, -1, 2, 3, -2, r.randint(-9, 9),
                      r.randint(-40, 40), r.randint(-300, 300)])
        return ('num', z), num_width(z)

    def bool_leaf(self):
        r = self.rng
        names = [n for n, (ty, _) in self.scope.items() if ty == 'bool']
        c = r.random()
        if names and c < 0.2:
            return ('op', r.choice(names))
        if self.bools and c < 0.75:
            e = ('var', r.choice(self.bools))
            if self.allow_prime and r.random() < 0.15:
                e = ('prime', r.choice(["'", 'X']), e)
            return e
        if c < 0.85 or not self.ints:
            return (r.choice(['true', 'false']),)
        a, _ = self.int_leaf()
        b, _ = self.int_leaf()
        return ('cmp', r.choice(CMP_SP), a, b)

    # -- integers
    def int_expr(self, d, limit=26):
        r = self.rng
        if d <= 0 or r.random() < 0.2:
            return self.int_leaf()
        c = r.random()
        if c < 0.62:
            op = r.choice(['+', '-', '*', '+', '-', '*', '/', '%'])
            a, wa = self.int_expr(d - 1, limit)
            if op in '/%' and r.random() < 0.5:
                z = r.choice([1, 2, 3, -1, -2, 5, -3, 7])
                b, wb = ('num', z), num_width(z)
            else:
                b, wb = self.int_expr(d - 1, limit)
            w = {'+': max(wa, wb) + 1, '-': max(wa, wb) + 1,
                 '*': wa + wb}.get(op, max(wa, wb) + 2)
            guard = 2 * (max(wa, wb) + 1) if op in '/%' else w
            if guard >= limit:
                return a, wa
            return ('arith', op, a, b), w
        if c < 0.8:
            g = self.bool_expr(d - 1)
            a, wa = self.int_expr(d - 1, limit)
            b, wb = self.int_expr(d - 1, limit)
            return ('ite', r.choice(['ite', 'IF']), g, a, b), max(wa, wb)
        if c < 0.9 and self.allow_let and self.fresh:
            return self.let_expr(d, 'int', limit)
        if self.allow_prime:
            a, wa = self.int_expr(d - 1, limit)
            return ('prime', r.choice(["'", 'X']), a), wa
        return self.int_leaf()

    def let_expr(self, d, ty, limit=26):
        r = self.rng
        defs = []
        saved = dict(self.scope)
        for _ in range(r.choice([1, 1, 2])):
            if not self.fresh:
                break
            n = self.fresh.pop(0)
            if r.random() < 0.5:
                dd, w = self.int_expr(d - 2, limit)
                self.scope[n] = ('int', w)
            else:
                dd = self.bool_expr(d - 2)
                self.scope[n] = ('bool', None)
            defs.append((n, dd))
        if ty == 'int':
            body, w = self.int_expr(d - 1, limit)
        else:
            body, w = self.bool_expr(d - 1), None
        self.scope = saved
        e = ('let', defs, body) if defs else body
        return (e, w) if ty == 'int' else e

    # -- Booleans that may stand under a Boolean '=' / '#'
    def plain_bool(self, d):
        r = self.rng
        if d <= 0 or r.random() < 0.4:
            names = [n for n in self.bools]
            if names and r.random() < 0.8:
                return ('var', r.choice(names))
            return (r.choice(['true', 'false']),)
        c = r.random()
        if c < 0.3:
            return ('not', r.choice(['~', '!']), self.plain_bool(d - 1))
        if c < 0.85:
            return ('bin', self.bin_spelling(), self.plain_bool(d - 1),
                    self.plain_bool(d - 1))
        if self.ints:
            lo = r.randint(-6, 6)
            return ('in', ('var', r.choice(self.ints)), lo,
                    lo + r.randint(0, 8))
        return self.plain_bool(0)

    def bin_spelling(self):
        r = self.rng
        return r.choice(r.choice([AND_SP, OR_SP, IMP_SP, IFF_SP, ['^']]))

    def interaction(self, d):
        """Productions that make two features of the translator meet:
        priming of a quantified / LET / defined sub-formula, a definition
        expanded under a quantifier that binds one of its variables, a
        quantifier over a primed identifier inside a primed formula."""
        r = self.rng
        names = list(self.decl)
        v = r.choice(names)
        sty = r.choice(["'", 'X'])
        k = r.randrange(5)
        if k == 0:      # (\E v: ...)'
            return ('prime', sty, ('quant', r.choice(['A', 'E']),
                                   [(v, False)], self.bool_expr(d - 1)))
        if k == 1 and self.fresh:      # LET p == <uses v> IN \E v: p ...
            n = self.fresh.pop(0)
            if self.decl[v] == 'bool':
                dd = ('bin', self.bin_spelling(), ('var', v), self.bool_leaf())
                use = ('op', n)
            else:
                dd = ('arith', r.choice(['+', '-', '*']), ('var', v),
                      ('num', r.randint(-3, 3)))
                use = ('cmp', r.choice(CMP_SP), ('op', n),
                       self.int_leaf()[0])
            saved = dict(self.scope)
            body = ('quant', r.choice(['A', 'E']), [(v, r.random() < 0.2)],
                    ('bin', self.bin_spelling(), use, self.bool_expr(d - 2)))
            self.scope = saved
            return ('let', [(n, dd)], body)
        if k == 2:      # \E v': (... v' ... v ...)
            inner = self.bool_expr(d - 1)
            return ('quant', r.choice(['A', 'E']), [(v, True)],
                    ('bin', self.bin_spelling(), inner,
                     ('prime', sty, self.bool_expr(d - 2))))
        if k == 3 and self.fresh:      # (LET ... IN ...)'
            return ('prime', sty, self.let_expr(d, 'bool'))
        names = [n for n, (ty, _) in self.scope.items() if ty == 'bool']
        if names:       # p'
            return ('prime', sty, ('op', r.choice(names)))
        return ('prime', sty, self.bool_expr(d - 1))

    def bool_expr(self, d):
        r = self.rng
        if d <= 0 or r.random() < 0.12:
            return self.bool_leaf()
        if d >= 2 and self.allow_quant and self.allow_let and \
                self.allow_prime and r.random() < 0.06:
            return self.interaction(d)
        c = r.random()
        if c < 0.10:
            return ('not', r.choice(['~', '!']), self.bool_expr(d - 1))
        if c < 0.32:
            return ('bin', self.bin_spelling(), self.bool_expr(d - 1),
                    self.bool_expr(d - 1))
        if c < 0.62 and (self.ints or True):
            a, _ = self.int_expr(d - 1)
            b, _ = self.int_expr(d - 1)
            return ('cmp', r.choice(CMP_SP), a, b)
        if c < 0.67 and self.bools:
            return ('cmp', r.choice(['=', '#', '!=', '/=']),
                    self.plain_bool(d - 1), self.plain_bool(d - 1))
        if c < 0.74:
            a, _ = self.int_leaf()
            if a[0] == 'op' or r.random() < 0.1:
                a = ('num', r.randint(-5, 5))
            lo = r.randint(-9, 9)
            hi = lo + r.choice([0, 1, 2, 3, 5, 9, -1])
            return ('in', a, lo, hi)
        if c < 0.82:
            return ('ite', r.choice(['ite', 'IF']), self.bool_expr(d - 1),
                    self.bool_expr(d - 1), self.bool_expr(d - 1))
        if c < 0.88 and self.allow_let and self.fresh:
            return self.let_expr(d, 'bool')
        if c < 0.93 and self.allow_prime:
            return ('prime', r.choice(["'", 'X']), self.bool_expr(d - 1))
        if self.allow_quant and self.decl:
            names = list(self.decl)
            r.shuffle(names)
            vs = [(n, r.random() < 0.15 and self.allow_prime)
                  for n in names[:r.choice([1, 1, 1, 2])]]
            return ('quant', r.choice(['A', 'E']), vs, self.bool_expr(d - 1))
        return self.bool_leaf()


COST_CAP = 150000     # table rows x sub-formula evaluations per row


def slot_bits(h):
    """Number of dd bits of a variable (without the constant sign bit)."""
    if h == 'bool':
        return 1
    lo, hi = h
    w = max(abs(lo), abs(hi)).bit_length() or 1
    return w + (1 if lo < 0 <= hi else 0)


def eval_cost(e, decl, defs=None):
    """Sub-formula evaluations needed for one row of the truth table: a
    quantifier multiplies by the number of values of its variables, a
    defined name costs its definition at every use."""
    defs = defs or {}
    k = e[0]
    if k in ('true', 'false', 'num', 'var'):
        return 1
    if k == 'op':
        return 1 + defs.get(e[1], 1)
    if k == 'let':
        env = dict(defs)
        for n, d in e[1]:
            env[n] = eval_cost(d, decl, env)
        return 1 + eval_cost(e[2], decl, env)
    if k == 'quant':
        n = 1
        for v, _ in e[2]:
            n *= 1 << slot_bits(decl[v])
        return 1 + n * eval_cost(e[3], decl, defs)
    w = {'arith': 8}.get(k, 1)
    return w + sum(eval_cost(x, decl, defs) for x in e[1:]
                   if isinstance(x, tuple))


def random_decl(rng, maxw):
    n_int = rng.choice([1, 2, 2, 2, 3])
    n_bool = rng.choice([0, 1, 1, 2])
    if n_int + n_bool > 4:
        n_bool = 4 - n_int
    if n_int + n_bool < 2:
        n_bool = 1
    decl = {}
    for n in INT_NAMES[:n_int]:
        w = rng.choice([1, 1, 2, 2, 3] + list(range(1, maxw + 1)))
        decl[n] = hint(rng, rng.choice(SHAPES), w)
    for n in BOOL_NAMES[:n_bool]:
        decl[n] = 'bool'
    items = list(decl.items())
    rng.shuffle(items)
    return dict(items)


def random_case(rng, maxw, max_bits, max_depth=4):
    """(ii) a well-typed random predicate over 2-4 variables."""
    for _ in range(200):
        decl = random_decl(rng, maxw)
        g = Gen(rng, decl, max_depth)
        defs = []
        if rng.random() < 0.25:
            # operators registered with Context.define: Boolean-valued;
            # LET and quantifiers allowed in their bodies since the repair
            # of F14 (before it such a definition could not be used)
            for _ in range(rng.choice([1, 2])):
                n = g.fresh.pop(0)
                defs.append((n, g.bool_expr(rng.choice([2, 2, 3]))))
                g.scope[n] = ('bool', None)
        tree = g.bool_expr(rng.choice([2, 3, 3, max_depth, max_depth]))
        if defs and not _uses_ops(tree, {n for n, _ in defs}):
            tree = ('bin', '/\\', tree, ('op', defs[-1][0]))
        slots = fol_ast.free_slots(fol_ast.with_defs(defs, tree), decl)
        bits = sum(slot_bits(decl[n]) for n, _ in slots)
        full = fol_ast.with_defs(defs, tree)
        if bits <= max_bits and slots and \
                (1 << bits) * eval_cost(full, decl) <= COST_CAP:
            return dict(kind='pred', decl=decl, tree=tree, defs=defs,
                        cls='random')
    raise RuntimeError('generator could not fit the bit budget')


def _uses_ops(e, names):
    if e[0] == 'op':
        return e[1] in names
    subs = [x for x in e[1:] if isinstance(x, tuple)]
    if e[0] == 'let':
        subs += [d for _, d in e[1]]
    return any(_uses_ops(x, names) for x in subs)


# ----------------------------------------------- ill-typed / over-wide stream
def _subterms(e, path=()):
    yield path, e
    for i, x in enumerate(e):
        if i and isinstance(x, tuple):
            yield from _subterms(x, path + (i,))


def _replace(e, path, new):
    if not path:
        return new
    i = path[0]
    return e[:i] + (_replace(e[i], path[1:], new),) + e[i + 1:]


def reject_case(rng, maxw, max_bits):
    """A formula near the boundary of what the translator accepts: ill-typed
    operands, comparators/quantifiers in arithmetic scope, arithmetic operand
    of \\in, redefinition, undefined operator, intermediate widths around the
    32-bit limit.  Whether it must be rejected is decided by the model."""
    r = rng
    decl = random_decl(rng, min(maxw, 3))
    if not any(h == 'bool' for h in decl.values()):
        decl['a'] = 'bool'
    g = Gen(rng, decl, 3)
    ints, bools = g.ints, g.bools
    X = ('var', r.choice(ints))
    A = ('var', r.choice(bools))
    kind = r.choice(['width', 'width', 'width', 'swap', 'swap', 'cmp-in-eq',
                     'in-arith', 'redef', 'undef', 'ite-mix', 'quant-in-eq',
                     'bool-cmp', 'let-unused'])
    if kind == 'width':
        k = r.choice([26, 27, 28, 29, 30, 31, 32, 33, 40])
        z = r.choice([1, -1]) * (r.randint(1 << (k - 1), (1 << k) - 1))
        shape = r.randrange(7)
        big = ('num', z)
        if shape == 0:
            tree = ('cmp', r.choice(CMP_SP), X, big)
        elif shape == 1:
            tree = ('cmp', r.choice(CMP_SP), ('arith', r.choice('+-'), X, big),
                    ('num', 0))
        elif shape == 2:
            m = ('num', r.choice([1, -1]) * r.randint(1 << 12, 1 << 16))
            tree = ('cmp', r.choice(['=', '<']),
                    ('arith', '*', ('arith', '*', X, m), m), ('num', 0))
        elif shape == 3:
            k2 = r.choice([11, 12, 13, 14, 15, 16])
            z2 = r.randint(1 << (k2 - 1), (1 << k2) - 1)
            tree = ('cmp', '=', ('arith', r.choice('/%'), ('num', z2), X),
                    ('num', 1))
        elif shape == 4:
            tree = ('in', X, min(z, 0), max(z, 0))
        elif shape == 5:
            tree = ('cmp', '>', ('ite', 'ite', A, X, big), ('num', 0))
        else:
            tree = ('cmp', r.choice(['=', '#']), big, X)
    else:
        base = g.bool_expr(3)
        if kind == 'swap':
            subs = [(p, s) for p, s in _subterms(base) if p]
            if not subs:
                base = ('bin', '/\\', base, A)
                subs = [(p, s) for p, s in _subterms(base) if p]
            p, s = r.choice(subs)
            new = r.choice([X, A, ('num', 1), ('true',),
                            ('arith', '+', X, ('num', 1)),
                            ('cmp', '<', X, ('num', 1))])
            tree = _replace(base, p, new)
        elif kind == 'cmp-in-eq':
            tree = ('cmp', r.choice(['=', '#']),
                    ('cmp', r.choice(CMP_SP), X, ('num', 1)), A)
        elif kind == 'in-arith':
            tree = ('in', ('arith', r.choice(ARITH), X, ('num', 1)), 0, 2)
            if r.random() < 0.5:
                tree = ('cmp', '=', tree, A)
        elif kind == 'redef':
            tree = ('let', [('p', X)],
                    ('let', [(r.choice(['p', 'q']), ('num', 1))],
                     ('cmp', '=', ('op', 'p'), ('num', 1))))
        elif kind == 'undef':
            tree = ('bin', '/\\', base, ('op', 'q'))
        elif kind == 'ite-mix':
            tree = ('cmp', '=', ('ite', r.choice(['ite', 'IF']), A,
                                 r.choice([X, A]), r.choice([X, A, ('num', 2)])),
                    r.choice([('num', 1), A]))
        elif kind == 'quant-in-eq':
            tree = ('cmp', '=', ('quant', 'E', [(X[1], False)],
                                 ('cmp', '>', X, ('num', 0))), A)
        elif kind == 'bool-cmp':
            tree = ('cmp', r.choice(CMP_SP), A, r.choice([A, X, ('true',)]))
        else:
            tree = ('let', [('p', ('arith', '+', A, ('num', 1)))], base)
    slots = fol_ast.free_slots(tree, decl)
    bits = sum(slot_bits(decl[n]) for n, _ in slots)
    if bits > max_bits or (1 << bits) * eval_cost(tree, decl) > COST_CAP:
        return reject_case(rng, maxw, max_bits)
    return dict(kind='pred', decl=decl, tree=tree, defs=[],
                cls='boundary:' + kind)
