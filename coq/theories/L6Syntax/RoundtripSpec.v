(* L6 Syntax — print then re-parse: the surface tree (PrecFullSpec.v) that
   `flatten` prints for a tree of the flatten-able fragment, and the lexical
   side conditions under which the STRING printed by `flatten` lexes to the
   token sequence of `Flatten.flatten`.
   Definitions only. *)
From Coq Require Import List String Ascii NArith Bool.
From Omega Require Import L6Syntax.Tokens L6Syntax.Lexer L6Syntax.Parser
  L6Syntax.Flatten L6Syntax.LexSpec L6Syntax.PrecSpec L6Syntax.PrecFullSpec.
Import ListNotations.
Local Open Scope string_scope.

Definition DFt := Tok "DEF" "==".
Definition INt := Tok "IN_EXPR" "IN".

(* ---- the fully parenthesised surface tree that `flatten` prints ---- *)
(* e1 , e2 , ... , en   (n >= 1) *)
Fixpoint mk_xlist (x : xt) (xs : list xt) : xlist :=
  match xs with
  | [] => L1 x
  | y :: r => LS x CMt (mk_xlist y r)
  end.
(* n1 == e1  n2 == e2 ...  (at least one) *)
Fixpoint mk_xdefs (d : token * xt) (ds : list (token * xt)) : xdefs :=
  match ds with
  | [] => D1 (fst d) DFt (snd d)
  | e :: r => DS (fst d) DFt (snd d) (mk_xdefs e r)
  end.

Definition xdummy : xt := XName (Tok "NAME" "").

Section XEmbed.
Variable optok : string -> token.     (* the lexer on one operator spelling *)

Fixpoint xembed (t : tree) : xt :=
  match t with
  | Term KVar v => XName (Tok "NAME" v)
  | Term KOpname v => XName (Tok "NAME" v)
  | Term KBool v => XBool (optok v)
  | Term KNum v =>
      if is_neg v then XNum (XNeg MINUSt (Tok "NUMBER" (tail_str v)))
      else XNum (XPos (Tok "NUMBER" v))
  | Term KStr v => XStr DQt (Tok "NAME" (unquote v)) DQt
  | Un op x => XParen LPt (XPre (optok op) (xembed x)) RPt
  | Bin _ op l r => XParen LPt (XBin (optok op) (xembed l) (xembed r)) RPt
  | Opr op args =>
      let xdef := fun d : tree =>
        match d with
        | Bin _ _ (Term _ n) e => (Tok "NAME" n, xembed e)
        | _ => (Tok "NAME" "", xdummy)
        end in
      match args with
      | [a; b; c] => XIte (optok op) LPt (xembed a) CMt (xembed b) CMt (xembed c) RPt
      | [p; body] =>
          match p with
          | Opr _ (v :: vs) =>
              XParen LPt
                (XQuant (optok op) (mk_xlist (xembed v) (map xembed vs)) COLONt
                        (xembed body)) RPt
          | Lst (d :: ds) =>
              XParen LPt
                (XLet (optok op) (mk_xdefs (xdef d) (map xdef ds)) INt
                      (xembed body)) RPt
          | _ => xdummy
          end
      | _ => xdummy
      end
  | Lst _ => xdummy
  end.

(* one definition of LET as a (name token, surface tree of the body) *)
Definition xdef (d : tree) : token * xt :=
  match d with
  | Bin _ _ (Term _ n) e => (Tok "NAME" n, xembed e)
  | _ => (Tok "NAME" "", xdummy)
  end.

End XEmbed.

(* ---- lexical side conditions ---- *)
Section SFlat.
Variable rules : list lexrule.
Variable reserved values : list (string * string).
Variable ignore : list N.
Variable optok : string -> token.

Local Notation ltok := (lexeme_tok rules reserved values ignore).
Definition sp : option ascii := Some " "%char.

(* binders  v1, v2, ..., vn:  each followed by "," except the last, which is
   followed by ":" *)
Definition sflat_binders (sf : tree -> option ascii -> Prop) : list tree -> Prop :=
  fix all (l : list tree) : Prop :=
    match l with
    | [] => True
    | [v] => sf v (Some ":"%char)
    | v :: r => sf v (Some ","%char) /\ ltok "," sp = Some CMt /\ all r
    end.
(* definitions  n1 == e1 n2 == e2 ...: every lexeme followed by a blank *)
Definition sflat_def (sf : tree -> option ascii -> Prop) (d : tree) : Prop :=
  match d with
  | Bin _ _ (Term KOpname n) e =>
      ltok n sp = Some (Tok "NAME" n) /\ ltok "==" sp = Some DFt /\ sf e sp
  | _ => False
  end.

(* [sflat t c]: every lexeme of the printed form of t, followed by what
   `flatten` prints after it (and the last one by c), is delivered as the
   token `Flatten.flatten` lists for it *)
Fixpoint sflat (t : tree) (c : option ascii) : Prop :=
  match t with
  | Term KVar v => ltok v c = Some (Tok "NAME" v)
  | Term KOpname v => False
  | Term KBool v => ltok v c = Some (optok v)
  | Term KNum v =>
      if is_neg v
      then ltok "-" (hd_char (tail_str v)) = Some (Tok "MINUS" "-")
           /\ ltok (tail_str v) c = Some (Tok "NUMBER" (tail_str v))
      else ltok v c = Some (Tok "NUMBER" v)
  | Term KStr v =>
      v = """" ++ unquote v ++ """"
      /\ ltok """" (hd_char (unquote v ++ """")) = Some DQt
      /\ ltok (unquote v) (Some """"%char) = Some (Tok "NAME" (unquote v))
      /\ ltok """" c = Some DQt
  | Un op x =>
      ltok "(" sp = Some LPt /\ ltok op sp = Some (optok op)
      /\ sflat x sp /\ ltok ")" c = Some RPt
  | Bin _ op l r =>
      ltok "(" sp = Some LPt /\ sflat l sp /\ ltok op sp = Some (optok op)
      /\ sflat r sp /\ ltok ")" c = Some RPt
  | Opr op args =>
      match args with
      | [a; b; d] =>
          ltok op (Some "("%char) = Some (optok op)
          /\ ltok "(" (hd_char (flatten_str a ++ ",")) = Some LPt
          /\ sflat a (Some ","%char) /\ ltok "," sp = Some CMt
          /\ sflat b (Some ","%char) /\ sflat d (Some ")"%char)
          /\ ltok ")" c = Some RPt
      | [p; body] =>
          match p with
          | Opr _ vs =>
              (* ( op v1, v2: body ) *)
              is_quant_op op = true
              /\ ltok "(" sp = Some LPt /\ ltok op sp = Some (optok op)
              /\ sflat_binders sflat vs
              /\ ltok ":" sp = Some COLONt /\ sflat body sp
              /\ ltok ")" c = Some RPt
          | Lst ds =>
              (* ( LET n1 == e1 n2 == e2 IN body ) *)
              is_let_op op = true
              /\ ltok "(" sp = Some LPt /\ ltok "LET" sp = Some (optok op)
              /\ allP (sflat_def sflat) ds
              /\ ltok "IN" sp = Some INt /\ sflat body sp
              /\ ltok ")" c = Some RPt
          | _ => False
          end
      | _ => False
      end
  | Lst _ => False
  end.

End SFlat.
