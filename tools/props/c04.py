"""C04 — Rabin(1) winning region exact, dual to the opponent's Streett(1)."""
from vlib import core, games, gen_games, gr1games
from vlib.core import Broken, Mismatch, Failing
from vlib.gr1games import MODES

ID = 'C04'
LEVEL = 'proof'
THEORIES = ['theories/L4/GR1Spec.vo', 'theories/L4/Duality.vo',
            'theories/L4/Tables.vo', 'theories/L4/Determinacy.vo']

HEADER = '''From Coq Require Import List Bool Arith.
Import ListNotations.
From Omega Require Import L4.Arena L4.Tables.
From OmegaGen Require Import FixpointGen Gr1Gen.
'''
# when gen/TrivialGen.v was regenerated and compiled by this run's prove()
HEADER_TRIVIAL = HEADER.replace('FixpointGen Gr1Gen.',
                                'FixpointGen Gr1Gen TrivialGen.')


def prove(ctx):
    with ctx.coq_lock():
        # gen/Gr1Gen.v (solvers) and gen/TrivialGen.v (trivial_winning_set:
        # the construction of the environment's Rabin(1) automaton, read with
        # tools/py2coq_trivial.py); GenProofs/TrivialBridge.v re-proves the
        # latter equal to the model GenProofs/TrivialSet.v
        gen_games.ensure_trivial(ctx)
        ctx.trivial_gen_ok = True
        ctx.prove_with_deps('Properties/C04.v')
    ctx.trusted.append(
        'translator tie T: omega/games/gr1.py (solve_rabin_game, '
        '_cycle_inside, _attractor_inside, solve_streett_game, '
        '_attractor_under_assumptions), fixpoint.py (step, trap)')
    ctx.trusted.append(
        'translator tie T (tools/py2coq_trivial.py): gr1.trivial_winning_set '
        'statement by statement, defaults of temporal.default_rabin_automaton'
        '; "the same BDD read by the automaton with swapped variable lists" '
        'is modelled as re-indexing through swapV')
    ctx.assumptions.append(
        'C04_region_is_winning_region / C04_outside_environment_wins '
        '(strategies over infinite plays) depend on the standard-library '
        'axiom Classical_Prop.classic; so do C04_trivial_set_spec / '
        'C04_trivial_set_spec_dual (through the two exactness theorems); '
        'C04_trivial_translated_is_model and C04_trivial_set_mu are closed')


def run_rabin(g):
    import omega.games.gr1 as gr1
    ar = g['ar']
    out = {}
    for moore, plus_one in MODES:
        aut = gr1games.load(g)
        aut.moore, aut.plus_one = moore, plus_one
        zk, yki, xkijr = gr1.solve_rabin_game(aut)
        out[(moore, plus_one)] = (gr1games.tables(ar, zk),
                                  gr1games.tables(ar, yki),
                                  gr1games.tables(ar, xkijr))
    return out


def dual_game(g, complement=True, build_arena=True):
    """The opponent's game: roles swapped, liveness complemented (or, with
    complement=False, the same game with the two players exchanged)."""
    ar = g['ar']
    decl = dict(const=dict(g['decl'].get('const', {})),
                env=dict(g['decl']['sys']), sys=dict(g['decl']['env']))
    d = dict(decl=decl, backend=g['backend'])
    dar = games.Arena(decl, g['backend'])
    assert (dar.nc, dar.nx, dar.ny) == (ar.nc, ar.ny, ar.nx)

    def swap2(tab):
        out = [[False] * dar.np for _ in range(dar.ns)]
        for c in range(ar.nc):
            for x in range(ar.nx):
                for y in range(ar.ny):
                    for xp in range(ar.nx):
                        for yp in range(ar.ny):
                            out[dar.sidx(c, y, x)][yp * dar.ny + xp] = \
                                tab[ar.sidx(c, x, y)][xp * ar.ny + yp]
        return out

    def swap1(tab, neg):
        out = [False] * dar.ns
        for c in range(ar.nc):
            for x in range(ar.nx):
                for y in range(ar.ny):
                    out[dar.sidx(c, y, x)] = tab[ar.sidx(c, x, y)] != neg
        return out
    d['E'] = swap2(g['S'])
    d['S'] = swap2(g['E'])
    if complement:
        d['P'] = [swap1(r, True) for r in g['R']]
        d['R'] = [swap1(p, True) for p in g['P']]
    else:
        d['P'] = [swap1(p, False) for p in g['P']]
        d['R'] = [swap1(r, False) for r in g['R']]
    d['ar'] = dar
    d['swap1'] = swap1
    return d


def duality_real(g):
    """Streett region of g vs Rabin region of the dual, both by the REAL
    solvers; returns list of (mode, state) where they are not complementary."""
    import omega.games.gr1 as gr1
    ar = g['ar']
    d = dual_game(g)
    dar = d['ar']
    bad = []
    for moore, plus_one in MODES:
        aut = gr1games.load(g)
        aut.moore, aut.plus_one = moore, plus_one
        z = ar.table1(gr1.solve_streett_game(aut)[0])
        daut = gr1games.load(d)
        daut.moore, daut.plus_one = (not moore), (not plus_one)
        zk = gr1.solve_rabin_game(daut)[0]
        w = dar.table1(zk[-1])
        for (c, x, y) in ar.states():
            if z[ar.sidx(c, x, y)] == w[dar.sidx(c, y, x)]:
                bad.append(((moore, plus_one), ar.state_dict(c, x, y)))
    return bad


def run_trivial(g):
    """Truth tables of gr1.trivial_winning_set(aut)[0] in the four modes."""
    import omega.games.gr1 as gr1
    ar = g['ar']
    out = {}
    for moore, plus_one in MODES:
        aut = gr1games.load(g)
        aut.moore, aut.plus_one = moore, plus_one
        triv, aut2 = gr1.trivial_winning_set(aut)
        assert aut2 is aut, 'second component is not the argument'
        out[(moore, plus_one)] = ar.table1(triv)
    return out


def trivial_real(g, real=None):
    """gr1.trivial_winning_set against its reading in explicit sets: the
    Streett(1) region of g (in g's own mode) minus the Rabin(1) region, in
    the default Rabin mode of temporal.default_rabin_automaton (Moore,
    strict), of the opponent who plays g's environment with recurrence goals
    ~P_k and the trivial persistence set.  Returns a description of the first
    difference or None."""
    import omega.games.gr1 as gr1
    ar = g['ar']
    d = dual_game(g)
    dar = d['ar']
    d['P'] = [[True] * dar.ns]
    exd = gr1games.Explicit(d)
    w = exd.table(exd.rabin(True, True))
    ex = gr1games.Explicit(g)
    if real is None:
        try:
            real = run_trivial(g)
        except Exception as e:
            return dict(raised=repr(e))
    for moore, plus_one in MODES:
        got = real[(moore, plus_one)]
        z = ex.table(ex.streett(moore, plus_one))
        for (c, x, y) in ar.states():
            exp = z[ar.sidx(c, x, y)] and not w[dar.sidx(c, y, x)]
            if got[ar.sidx(c, x, y)] != exp:
                return dict(mode=(moore, plus_one),
                            state=ar.state_dict(c, x, y), expected=exp,
                            got=got[ar.sidx(c, x, y)])
    return None


def run_reused(g, moore, plus_one):
    """Rabin solve on an automaton already used with the players in the other
    roles; region indexed as in the role-swapped arena."""
    import omega.games.gr1 as gr1
    ar = g['ar']
    aut = gr1games.load(g)
    aut.moore, aut.plus_one = moore, plus_one
    gr1.solve_rabin_game(aut)
    d = dual_game(g, complement=False)
    env, sys_ = list(aut.varlist['env']), list(aut.varlist['sys'])
    aut.varlist['env'], aut.varlist['sys'] = sys_, env
    aut.action['env'], aut.action['sys'] = aut.action['sys'], aut.action['env']
    zk, _, _ = gr1.solve_rabin_game(aut)
    ztab = d['swap1'](ar.table1(zk[-1]), False)
    aut.varlist['env'], aut.varlist['sys'] = env, sys_
    aut.prime_varlists()
    return d, ztab


def coq_group(i, g, impl, triv=None):
    ar = g['ar']
    n = f'{ar.nc} {ar.nx} {ar.ny}'
    fuel = ar.ns * ar.np + 2
    p = f'g{i}_'
    terms, keys = [], []
    b = lambda x: 'true' if x else 'false'
    for (moore, plus_one), (zk, yki, xkijr) in impl.items():
        call = (f'Gr1Gen.solve_rabin_game {n} {p}E {p}S {p}P {p}R '
                f'{b(moore)} {b(plus_one)} {fuel}')
        terms.append(
            f'(fun t => eq2 (tt2 {n} (fst (fst t))) {games.litn(zk)} && '
            f'eq3 (tt3 {n} (snd (fst t))) {games.litn(yki)} && '
            f'eq5 (tt5 {n} (snd t)) {games.litn(xkijr)}) ({call})')
        keys.append((moore, plus_one))
    defs = gr1games.coq_defs(p, g)
    if 'reused' in g:
        (moore, plus_one), d, ztab = g['reused']
        dar = d['ar']
        dn = f'{dar.nc} {dar.nx} {dar.ny}'
        defs += '\n' + gr1games.coq_defs(p + 'd', d)
        call = (f'Gr1Gen.solve_rabin_game {dn} {p}dE {p}dS {p}dP {p}dR '
                f'{b(moore)} {b(plus_one)} {fuel}')
        terms.append(f'eq1 (tt1 {dn} (last (fst (fst ({call}))) bfalse)) '
                     f'{games.litn(ztab)}')
        keys.append(('reused-after-role-swap', moore, plus_one))
    # the function translated from the current trivial_winning_set, evaluated
    # on the game's tables, against what the real one returned
    for (moore, plus_one), tab in (triv or {}).items():
        ie = f'{p}EI' if 'EI' in g else 'btrue'
        is_ = f'{p}SI' if 'SI' in g else 'btrue'
        call = (f'TrivialGen.trivial_winning_set {n} {p}E {p}S {ie} {is_} '
                f'{p}P {p}R {b(moore)} {b(plus_one)} {fuel}')
        terms.append(f'eq1 (tt1 {n} ({call})) {games.litn(tab)}')
        keys.append(('trivial_winning_set', moore, plus_one))
    return (defs, terms), keys


def oracle_check(g, impl):
    ex = gr1games.Explicit(g)
    for (moore, plus_one), (zk, _, _) in impl.items():
        exp = ex.table(ex.rabin(moore, plus_one))
        z = zk[-1]
        if exp != z:
            ar = g['ar']
            bad = [i for i in range(ar.ns) if exp[i] != z[i]][0]
            st = ar.state_dict(*ar.states()[bad])
            kind = 'missing from' if exp[bad] else 'wrongly included in'
            return Failing(
                f'state {st} is {kind} the Rabin(1) region '
                f'(moore={moore}, plus_one={plus_one})',
                dict(gr1games.case_of(g), moore=moore, plus_one=plus_one),
                expected=exp, got=z)
    for moore, plus_one in MODES[1:3]:
        d, ztab = run_reused(g, moore, plus_one)
        exd = gr1games.Explicit(d)
        exp = exd.table(exd.rabin(moore, plus_one))
        if exp != ztab:
            return Failing(
                'solve_rabin_game on an automaton re-used after the players '
                f'exchanged roles (moore={moore}, plus_one={plus_one}) returns '
                'a region different from the exchanged game\'s',
                dict(gr1games.case_of(g), moore=moore, plus_one=plus_one,
                     scenario='reused-after-role-swap'),
                expected=exp, got=ztab)
    t = trivial_real(g)
    if t:
        return Failing(
            'trivial_winning_set differs from (Streett(1) region) minus '
            '(Rabin(1) region of the environment for its own liveness '
            f'assumptions): {t}', dict(gr1games.case_of(g),
                                       scenario='trivial_winning_set'),
            expected=t.get('expected'), got=t)
    bad = duality_real(g)
    if bad:
        return Failing(
            f'Streett(1) region and the opponent\'s Rabin(1) region are not '
            f'complementary at {bad[0][1]} (moore,plus_one={bad[0][0]})',
            gr1games.case_of(g), expected='complementary', got=bad[:4])
    return None


def correspond(ctx):
    n_games = 150 if ctx.thorough else 16
    max_states = 32 if ctx.thorough else 16
    gs, impls, trivs = [], [], []
    triv_ok = getattr(ctx, 'trivial_gen_ok', False)
    triv_nontrivial = 0
    trivial, hist, distinct = 0, {}, set()
    dual_checked = 0
    mism = []
    for i in range(n_games):
        g = gr1games.make_game(ctx.rng, 'cudd' if i % 2 else 'autoref',
                               max_states)
        try:
            impl = run_rabin(g)
            if i % 2 == 0:
                mode = MODES[(i // 2) % 4]
                g['reused'] = (mode,) + run_reused(g, *mode)
            bad = duality_real(g)
        except Exception as e:
            return [Mismatch('solver raised', gr1games.case_of(g),
                             impl=repr(e), property_fails=True)]
        dual_checked += 4
        try:
            real_triv = run_trivial(g)
            t = trivial_real(g, real_triv)
        except Exception as e:
            real_triv, t = None, dict(raised=repr(e))
        trivs.append(real_triv if triv_ok else None)
        for tab in (real_triv or {}).values():
            if any(tab) and not all(tab):
                triv_nontrivial += 1
        if t:
            mism.append(Mismatch(
                'gr1.trivial_winning_set differs from (Streett(1) region) '
                'minus (Rabin(1) region of the environment for its own '
                f'liveness assumptions): {t}',
                dict(gr1games.case_of(g), scenario='trivial_winning_set'),
                impl=t, property_fails=True))
        if bad:
            mism.append(Mismatch(
                'real Streett(1) region and real Rabin(1) region of the dual '
                f'game are not complementary at {bad[0][1]}',
                gr1games.case_of(g), impl=bad[:4], property_fails=True))
        gs.append(g)
        impls.append(impl)
        hist[g['ar'].ns] = hist.get(g['ar'].ns, 0) + 1
        for k, (zk, _, _) in impl.items():
            z = zk[-1]
            if any(z) and not all(z):
                distinct.add((i, k))
            else:
                trivial += 1
    groups, allkeys = [], []
    for i, (g, impl) in enumerate(zip(gs, impls)):
        grp, keys = coq_group(i, g, impl, trivs[i])
        groups.append(grp)
        allkeys += [(i, k) for k in keys]
    res = ctx.eval_groups('corr', HEADER_TRIVIAL if triv_ok else HEADER,
                          groups, shard=4)
    for (i, k), ok in zip(allkeys, res):
        if not ok and k[0] == 'trivial_winning_set':
            mism.append(Mismatch(
                'trivial_winning_set differs from the function translated '
                'from it (gen/TrivialGen.v) evaluated on the same tables',
                dict(gr1games.case_of(gs[i]), moore=k[-2], plus_one=k[-1],
                     scenario='trivial_winning_set'),
                impl=trivs[i][(k[-2], k[-1])]))
        elif not ok:
            mism.append(Mismatch(
                'solve_rabin_game (iterates zk, yki, xkijr) differs from the '
                'translated model' + (' on an automaton re-used after the '
                                      'players exchanged roles'
                                      if k[0] == 'reused-after-role-swap'
                                      else ''),
                dict(gr1games.case_of(gs[i]), moore=k[-2], plus_one=k[-1],
                     scenario=str(k[0])),
                impl=(impls[i][k][0] if k in impls[i] else None)))
    for g, impl in list(zip(gs, impls))[:8]:
        f = oracle_check(g, impl)
        if f:
            mism.append(Mismatch('explicit solver disagrees: ' + f.what,
                                 f.case, impl=f.got, model=f.expected,
                                 property_fails=True))
    ctx.cov['evaluations'] += len(res) + dual_checked
    ctx.cov['distinct_nontrivial'] += len(distinct)
    ctx.cov['rule'] = (
        'random GR(1) games as in C01; the real solve_rabin_game in all 4 '
        'modes on alternating back ends, all iterates (zk, yki, xkijr) '
        'compared as truth tables over all bit-range valuations with the '
        'translated Gallina evaluated by vm_compute; plus, on the real code, '
        'complementarity of solve_streett_game(G) and solve_rabin_game(dual '
        'G) at every valuation and mode; plus gr1.trivial_winning_set in all '
        '4 modes against the function translated from it (vm_compute) and '
        'against explicit sets. non-trivial = Rabin region neither '
        'empty nor full')
    ctx.cov['samples'] = [dict(gr1games.case_of(gs[0]),
                               region={str(k): v[0][-1]
                                       for k, v in impls[0].items()})]
    ctx.extra['correspondence'] = dict(
        games=n_games, comparisons=len(res), duality_checks=dual_checked,
        trivial_regions=trivial, states_histogram=hist, mismatches=len(mism),
        trivial_winning_set=dict(
            compared_in_coq=sum(1 for _, k in allkeys
                                if k[0] == 'trivial_winning_set'),
            neither_empty_nor_full=triv_nontrivial))
    return mism


def search(ctx, broken, mismatches):
    for m in mismatches:
        if m.case is None:
            continue
        g = gr1games.rebuild({k: v for k, v in m.case.items()
                              if k not in ('moore', 'plus_one')})
        try:
            f = oracle_check(g, run_rabin(g))
        except Exception as e:
            f = Failing('solver raised ' + repr(e), m.case)
        if f:
            return [f]
    budget = 300 if ctx.thorough else 80
    for i in range(budget):
        g = gr1games.make_game(ctx.rng, 'cudd' if i % 2 else 'autoref', 16)
        try:
            f = oracle_check(g, run_rabin(g))
        except Exception as e:
            f = Failing('solver raised ' + repr(e), gr1games.case_of(g))
        if f:
            return [f]
    return []


def replay(path):
    import json
    d = json.load(open(path))
    case = d.get('input') or (d.get('correspondence_mismatches') or [{}])[0].get('case')
    if not case:
        print('no concrete input in replay file:', d.get('broken'))
        return 1
    g = gr1games.rebuild({k: v for k, v in case.items()
                          if k not in ('moore', 'plus_one')})
    f = oracle_check(g, run_rabin(g))
    print('still fails: ' + f.what if f else 'passes')
    return 1 if f else 0
